#!/bin/sh
# Builds the Coq development (full .vo), extracts the models and builds the OCaml driver.
# Usage: build.sh [clean]
set -e
cd "$(dirname "$0")"
if [ "$1" = "clean" ]; then
  (cd coq && [ -f Makefile ] && make clean >/dev/null 2>&1 || true)
  rm -rf build coq/Makefile coq/Makefile.conf coq/.Makefile.d coq/Extract/model.ml coq/Extract/model.mli
  find coq -name '*.vo' -o -name '*.vok' -o -name '*.vos' -o -name '*.glob' -o -name '.*.aux' | xargs rm -f
fi
cd coq
coq_makefile -f _CoqProject -o Makefile >/dev/null
timeout 3000 make -j16 >../build.log 2>&1 || { tail -30 ../build.log; exit 1; }
cd ..
mkdir -p build
if [ build/driver -nt coq/Extract/model.ml ] && [ build/driver -nt ocaml/driver.ml ]; then
  echo "build ok"; exit 0
fi
cp coq/Extract/model.ml coq/Extract/model.mli ocaml/driver.ml build/
cd build
ocamlfind ocamlopt -O2 -w -a -package str model.mli model.ml driver.ml -o driver 2>/dev/null \
  || ocamlfind ocamlopt -w -a model.mli model.ml driver.ml -o driver
echo "build ok"
