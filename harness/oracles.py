"""Direct trace oracles: the 'observe_at' clauses of the properties read off the raw log of one
implementation run, without the model.  They are used only to exhibit a concrete failing input
when a check has already established that the property is no longer shown to hold (the model
rejects the history): each returns None or a small dict describing the violation.  Each oracle
is a literal reading of one sentence of one property; none depends on the state of the model.

Raw log events used: ('begin', n) ('end', n, kind, ...) ('start', j) ('finish', j, how) ('chit', j)
('cend', j) ('cabort', j) ('hstart', j) ('hend', j) ('hcancel', j) ('sdbegin', n, role)
('sdend', n, res) ('waitcall', n, kind, ids, timeout) ('waitret', n, kind, done, pending)
('tick', t) ('rootdone', ...)."""


def _members(cfg, n):
    return [k for k in range(1, len(cfg["jobs"])) if cfg["jobs"][k]["parent"] == n]


def scan(cfg, log):
    """one pass over the log up to the end of the top-level run; returns {oracle name: violation}"""
    jobs = cfg["jobs"]
    out = {}

    def bad(name, **kw):
        if name not in out:
            out[name] = kw

    now = 0.0
    done = set()            # jobs that finished (returned or raised) / nested runs that ended not cancelled
    started = {}            # job -> number of body entries
    executing = set()       # atomic jobs between body entry and body exit; nested runs between begin and end
    left_main = {}          # scheduler -> instant at which it left its main loop (first tidy/shut wait or end)
    hstarted = {}           # job -> number of handler starts
    hrunning = set()
    sd_begin = {}           # scheduler -> instant of the beginning of its co_shutdown()
    begun = set()
    finished_how = {}
    begin_at = {}           # scheduler -> instant at which its run began
    done_at = {}            # job / nested run -> instant at which it finished (not cancelled)
    ended_how = {}          # nested run -> kind of its end
    for e in log:
        k = e[0]
        if k == "tick":
            # the clock is about to move: every scheduler that is in its main loop has started all
            # its jobs whose requirements are finished, unless its window is full (C12)
            for p in begun:
                if p in left_main:
                    continue
                w = jobs[p].get("window") or 0
                cnt = sum(1 for y in executing if jobs[y]["parent"] == p)
                if w and cnt >= w:
                    continue
                for x in _members(cfg, p):
                    if x not in started and all(r in done for r in jobs[x]["reqs"]):
                        bad("eager", what="the clock moves from %s to %s while job %d of scheduler %d has all its "
                            "requirements finished and has not started (%d of %s window slots in use)"
                            % (now, e[1], x, p, cnt, w or "unlimited"), job=x, scheduler=p, at=now)
            now = e[1]
        elif k == "rootdone":
            break
        elif k == "poll":
            # C14: the public predicates of a job whose body was seen to return / raise / not finish
            for v in e[1]:
                x = v[0]
                if x >= len(jobs) or jobs[x]["sched"]:
                    continue
                dn, res, exc = v[4], v[5], v[6]
                if x in finished_how:
                    how = finished_how[x]
                    if not dn:
                        bad("truth", what="the body of job %d %s, yet is_done() is False" % (x, "returned" if how == "ret" else "raised"),
                            job=x, at=now)
                    elif how == "ret" and (res != 1 or exc != 0):
                        bad("truth", what="the body of job %d returned, but result()/raised_exception() do not give back "
                            "its return value (codes %s, %s)" % (x, res, exc), job=x, at=now)
                    elif how == "exc" and exc != 2 * x + 1:
                        bad("truth", what="the body of job %d raised, but raised_exception() does not give back that "
                            "exception (code %s)" % (x, exc), job=x, at=now)
                elif dn:
                    bad("truth", what="job %d is reported done although its body has not finished" % x, job=x, at=now)
        elif k in ("start", "begin"):
            x = e[1]
            if x == 0:
                begun.add(0)
                begin_at[0] = now
                continue
            p = jobs[x]["parent"]
            started[x] = started.get(x, 0) + 1
            if started[x] > 1:
                bad("once", what="the body of job %d is entered a second time" % x, job=x, at=now)
            missing = [r for r in jobs[x]["reqs"] if r not in done]
            if missing:
                bad("reqs_first", what="job %d starts while its requirement(s) %s have not finished" % (x, missing),
                    job=x, unfinished_requirements=missing, at=now)
            if p in left_main:
                bad("no_start_after_exit", what="job %d starts after its scheduler %d left its main loop (at %s)"
                    % (x, p, left_main[p]), job=x, scheduler=p, at=now)
            if p not in begun:
                bad("reqs_first", what="job %d starts before its scheduler %d has begun" % (x, p), job=x, at=now)
            executing.add(x)
            if k == "begin":
                begun.add(x)
                begin_at[x] = now
            w = jobs[p].get("window") or 0
            cnt = sum(1 for y in executing if jobs[y]["parent"] == p)
            if w and cnt > w:
                bad("window", what="%d direct jobs of scheduler %d execute at once, jobs_window is %d" % (cnt, p, w),
                    scheduler=p, executing=sorted(y for y in executing if jobs[y]["parent"] == p), at=now)
        elif k == "finish":
            executing.discard(e[1])
            done.add(e[1])
            finished_how[e[1]] = e[2]
            done_at.setdefault(e[1], now)
        elif k in ("cend", "cabort"):
            executing.discard(e[1])
        elif k == "end":
            n = e[1]
            executing.discard(n)
            left_main.setdefault(n, now)
            if e[2] != "cancelled":
                done.add(n)
                done_at.setdefault(n, now)
            ended_how[n] = e[2]
            if e[2] in ("false", "raise") and n in begin_at:
                # C08, second sentence (and C04): a run whose non-forever jobs all finished strictly
                # before its timeout, none of its critical jobs having failed, must end with True
                mem = _members(cfg, n)
                fin = [x for x in mem if not jobs[x]["forever"]]
                crit_fail = any(jobs[x]["crit"] and (ended_how.get(x) == "raise" if jobs[x]["sched"]
                                                     else finished_how.get(x) == "exc") for x in mem)
                T = jobs[n].get("timeout")
                lim = None if T is None else begin_at[n] + T
                if fin and not crit_fail and all(x in done_at and (lim is None or done_at[x] < lim) for x in fin):
                    bad("timeout_effect", what="scheduler %d began at %s with timeout %s; all its non-forever jobs "
                        "finished strictly before %s and none of its critical jobs failed, yet its run ends with %s at %s"
                        % (n, begin_at[n], T, lim, e[2], now), scheduler=n, at=now)
            if e[2] == "true":
                und = [x for x in _members(cfg, n) if not jobs[x]["forever"] and x not in done]
                if und:
                    bad("success_complete", what="scheduler %d reports success while its non-forever job(s) %s have "
                        "not finished" % (n, und), scheduler=n, unfinished=und, at=now)
            live = sorted(x for x in executing if x != n and _below(jobs, n, x))
            if live:
                # C11 / C05 / C08 / C09: a run ends only after the cancellation of its jobs is over
                bad("jobs_over", what="the run of scheduler %d ends (%s) while job(s) %s below it are still executing "
                    "(body entered, neither finished nor through with their cancellation)" % (n, e[2], live),
                    scheduler=n, jobs=live, at=now)
            still = [x for x in hrunning if _below(jobs, n, x)]
            if still:
                bad("handlers_over", what="the run of scheduler %d ends while the co_shutdown() handler(s) of %s are "
                    "still running" % (n, sorted(still)), scheduler=n, handlers=sorted(still), at=now)
        elif k == "waitcall":
            n, kind = e[1], e[2]
            if kind in ("tidy", "ctidy", "shut", "shtidy") and n in begun:
                left_main.setdefault(n, now)
        elif k == "sdbegin":
            sd_begin.setdefault(e[1], now)
            if e[1] in begun or e[1] == 0:
                left_main.setdefault(e[1], now)
        elif k == "sdend":
            n = e[1]
            sdto = jobs[n].get("sdto") if n < len(jobs) else None
            t0 = sd_begin.get(n)
            if t0 is not None and sdto is not None and now > t0 + sdto and e[2] != "none":
                bad("shutdown_duration", what="the shutdown phase of scheduler %d lasted from %s to %s although its "
                    "shutdown_timeout is %s" % (n, t0, now, sdto), scheduler=n, at=now)
        elif k == "hstart":
            x = e[1]
            hstarted[x] = hstarted.get(x, 0) + 1
            hrunning.add(x)
            if hstarted[x] > 1:
                bad("shutdown_once", what="co_shutdown() of job %d is started a second time" % x, job=x, at=now)
            p = jobs[x]["parent"]
            sib = sorted(y for y in executing if jobs[y]["parent"] == p)
            if sib:
                bad("shutdown_quiet", what="co_shutdown() of job %d starts while job(s) %s of the same scheduler are "
                    "still running" % (x, sib), job=x, running=sib, at=now)
        elif k in ("hend", "hcancel"):
            x = e[1]
            hrunning.discard(x)
            if k == "hcancel":
                p = jobs[x]["parent"]
                # a handler is cancelled either because its scheduler's shutdown_timeout elapsed,
                # or because the scheduler's own co_shutdown() was cancelled from above
                sdto = jobs[p].get("sdto")
                t0 = sd_begin.get(p)
                if t0 is not None and _never_cancelled_from_above(cfg, log, p) and (sdto is None or now < t0 + sdto):
                    bad("shutdown_bound", what="the handler of job %d is cancelled at %s although the shutdown of "
                        "scheduler %d began at %s with shutdown_timeout=%s" % (x, now, p, t0, sdto),
                        job=x, scheduler=p, at=now)
    return out


def _below(jobs, n, x):
    while x != 0:
        x = jobs[x]["parent"]
        if x == n:
            return True
    return n == 0 and False


def _never_cancelled_from_above(cfg, log, p):
    """no cancellation was ever delivered to scheduler p or one of its ancestors (then the only
    reason to cancel a handler of p is p's own shutdown_timeout)"""
    jobs = cfg["jobs"]
    chain = set()
    x = p
    while True:
        chain.add(x)
        if x == 0:
            break
        x = jobs[x]["parent"]
    for e in log:
        if e[0] == "waitcancel" and e[1] in chain:
            return False
        if e[0] == "end" and e[1] in chain and e[2] == "cancelled":
            return False
        if e[0] == "sdend" and e[1] in chain and e[2] == "cancelled":
            return False
        if e[0] == "taskcancelled" and e[1] == "shut" and e[2] in chain:
            return False
        if e[0] == "rootdone":
            break
    return True
