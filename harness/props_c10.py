"""C10, last sentence: for a critical nested scheduler without window, timeout or forever jobs,
every job runs at the same times as in the flattened graph.  Metamorphic pairs on the
implementation: (tree, tree with one such nested scheduler dissolved into its parent)."""
import copy
import multiprocessing
import os

from . import core
from . import rgen
from .props_r import RProp, has_nested
from .props_sched import upgrade


def flattenable(cfg, slow=False):
    """ids of nested schedulers that the sentence applies to (and for which the comparison is
    meaningful: the parent has no window either, handlers take no time, nothing never ends).
    slow=True: those excluded only because a job of theirs has a shutdown handler of non-zero (finite)
    duration, in trees where no critical job raises (known finding F10)"""
    jobs = cfg["jobs"]
    out = []
    # with a window anywhere in the tree the order in which queued jobs get a slot follows the
    # iteration order of sets, which the renumbering of the flattened tree changes: without
    # windows that order only permutes events inside one instant
    # (likewise a timeout anywhere can tie with a completion, and which of the two wins the tie
    # depends on the order in which timers were armed)
    if any(j["sched"] and (j["window"] or j["timeout"] is not None) for j in jobs):
        return out
    for m, j in enumerate(jobs):
        if m == 0 or not j["sched"]:
            continue
        ks = [k for k in range(1, len(jobs)) if jobs[k]["parent"] == m]
        p = j["parent"]
        if not ks or not j["crit"] or j["forever"] or j["window"] or j["timeout"] is not None:
            continue
        if jobs[p]["window"]:
            continue
        # same-instant ties between a completion inside m and an abort above m are resolved by the
        # order of timers and callbacks, which nesting legitimately changes: the comparison is made
        # on trees without any timeout at or above the parent (aborts then come from critical
        # failures only, and are compared through the outcome of the run)
        a, tmo = p, False
        while True:
            # (a window above makes the order in which queued jobs get a slot depend on the
            # iteration order of sets, which renumbering the jobs changes)
            if jobs[a]["timeout"] is not None or jobs[a]["window"]:
                tmo = True
            if a == 0:
                break
            a = jobs[a]["parent"]
        if tmo:
            continue
        if any(jobs[k]["sched"] or jobs[k]["forever"] or jobs[k]["dur"] is None or jobs[k]["sdur"] is None for k in ks):
            continue
        has_slow = any(jobs[k]["sdur"] != 0 for k in ks)
        if slow:
            # (directly under the root: dissolved there, the handlers run at the very end of the whole
            # run; inside another nested scheduler they would still delay that scheduler's end, under
            # its own shutdown_timeout, and the difference could go either way)
            if has_slow and p == 0 and jobs[m]["sdto"] is not None and not any(
                    (not x["sched"]) and x["crit"] and x["out"] == "exc" for x in jobs):
                out.append(m)
        elif not has_slow:
            out.append(m)
    return out


def windowed_parent_candidates(cfg):
    """nested schedulers the sentence applies to, directly under a root that has a window, in trees with
    no other window, no timeout, no forever or never-ending job, zero-time handlers and no critical job
    that raises (known finding F11)"""
    jobs = cfg["jobs"]
    if not jobs[0].get("window") or jobs[0].get("timeout") is not None:
        return []
    if any(j["sched"] and i != 0 and (j["window"] or j["timeout"] is not None) for i, j in enumerate(jobs)):
        return []
    if any(j["forever"] for j in jobs[1:]):
        return []
    if any((not j["sched"]) and (j["dur"] is None or j["sdur"] != 0 or (j["crit"] and j["out"] == "exc")) for j in jobs):
        return []
    out = []
    for m, j in enumerate(jobs):
        if m and j["sched"] and j["parent"] == 0 and j["crit"]:
            ks = [k for k in range(1, len(jobs)) if jobs[k]["parent"] == m]
            if len(ks) >= 2 and not any(jobs[k]["sched"] for k in ks):
                out.append(m)
    return out


def _run_flat_window(arg):
    """pair (tree, tree with m dissolved) under a windowed root: [] if the timelines agree, else
    [{'known': F11}, differences...] (any difference is in the class)"""
    cfg, m = arg
    from .robserve import run_config
    c2, ren = flatten(cfg, m)
    if c2 is None:
        return None
    t1, o1 = timeline(run_config(cfg)["log"], cfg)
    t2, o2 = timeline(run_config(c2)["log"], c2)
    diffs = []
    for old, new in sorted(ren.items()):
        if cfg["jobs"][old]["sched"]:
            continue
        a, b = t1.get(old), t2.get(new)
        if (list(a) if a else None) != (list(b) if b else None):
            diffs.append({"job": old, "job_in_flattened_graph": new, "nested_tree (start, end, how)": a,
                          "flattened_graph (start, end, how)": b})
    return ([{"known": F11_SIGNATURE}] + diffs) if diffs else []


F11_SIGNATURE = "c10_nested_scheduler_holds_one_slot_of_a_windowed_parent"
F11_TEXT = ("under a parent that has a window a nested scheduler holds ONE slot while all its own jobs run (C07: it counts as "
            "one job of its parent and its window applies to its own jobs only), whereas in the flattened graph each of "
            "those jobs needs a slot of the parent: witness root(jobs_window=1){m{a: 1 s, b: 1 s}}: a and b both run from 0 "
            "to 1; flattened, the second one runs from 1 to 2")


def flatten(cfg, m):
    """dissolve nested scheduler m into its parent; returns (cfg', map old id -> new id)"""
    jobs = cfg["jobs"]
    n = len(jobs)
    ks = [k for k in range(1, n) if jobs[k]["parent"] == m]
    c2 = copy.deepcopy(cfg)
    J = c2["jobs"]
    for i, j in enumerate(J):
        j.setdefault("uid", i)      # set iteration orders must not depend on the renumbering
    for k in ks:
        J[k]["parent"] = jobs[m]["parent"]
        if not [r for r in jobs[k]["reqs"]]:
            J[k]["reqs"] = list(jobs[m]["reqs"])
    for i in range(1, n):
        if m in J[i]["reqs"]:
            J[i]["reqs"] = [r for r in J[i]["reqs"] if r != m] + ks
    # remove m, renumber; requirements must point to smaller ids: reorder topologically
    keep = [i for i in range(n) if i != m]
    order, placed = [0], {0}
    rest = [i for i in keep if i != 0]
    while rest:
        for i in rest:
            par = J[i]["parent"]
            if par in placed and all(r in placed for r in J[i]["reqs"]):
                order.append(i)
                placed.add(i)
                rest.remove(i)
                break
        else:
            return None, None
    ren = {old: new for new, old in enumerate(order)}
    newjobs = []
    for old in order:
        j = copy.deepcopy(J[old])
        j["parent"] = ren[j["parent"]] if old != 0 else 0
        j["reqs"] = sorted(ren[r] for r in j["reqs"])
        newjobs.append(j)
    c2["jobs"] = newjobs
    c2.pop("insert_order", None)
    c2.pop("flip", None)
    return c2, ren


def timeline(log, cfg=None):
    """{job: [start, end, how]} for atomic jobs, and the outcome of the top-level run"""
    now = 0.0
    tl = {}
    outcome = None
    tl["first_cancel"] = float("inf")
    for e in log:
        k = e[0]
        if (k in ("chit", "cabort", "cend", "taskcancelled", "waitcancel")
                or (k == "finish" and e[2] == "exc" and (cfg is None or cfg["jobs"][e[1]]["crit"]))
                or (k == "end" and e[2] not in ("true",))) and now < tl["first_cancel"]:
            # the first instant at which something aborts or fails (a raising job may be critical)
            tl["first_cancel"] = now
        if k in ("tick", "gracetick", "latetick"):
            now = e[1]
        elif k == "start":
            tl[e[1]] = [now, None, None]
        elif k == "finish":
            tl[e[1]][1:] = [now, e[2]]
        elif k in ("cend", "cabort"):
            tl[e[1]][1:] = [now, "cancelled"]
        elif k == "rootdone":
            outcome = list(e[1:])
            break
    return tl, outcome


def _run_flat(arg):
    cfg, m = arg
    from .robserve import run_config
    c2, ren = flatten(cfg, m)
    if c2 is None:
        return None
    r1 = run_config(cfg)
    r2 = run_config(c2)
    t1, o1 = timeline(r1["log"], cfg)
    t2, o2 = timeline(r2["log"], c2)
    diffs = []
    late = []

    def first_cancel(t):
        return t["first_cancel"]
    # T: the first instant at which some scheduler of either run aborts or ends with forever jobs to
    # cancel.  Before T every job must start and end at the same instants with the same outcome;
    # what happens in the instant T itself depends on the order of callbacks within one loop
    # iteration, which nesting legitimately changes (a completion and an abort that tie)
    T = min(first_cancel(t1), first_cancel(t2))
    if T == float("inf") and o1 and o2 and (o1[0] != o2[0]):
        diffs.append({"outcome_of_run_nested": o1, "outcome_of_run_flattened": o2})
    for old, new in sorted(ren.items()):
        if cfg["jobs"][old]["sched"]:
            continue
        a, b = t1.get(old), t2.get(new)
        va = [a[0] if a and a[0] < T else None, (a[1], a[2]) if a and a[1] is not None and a[1] < T else None]
        vb = [b[0] if b and b[0] < T else None, (b[1], b[2]) if b and b[1] is not None and b[1] < T else None]
        if va != vb:
            diffs.append({"job": old, "job_in_flattened_graph": new, "nested_tree (start, end, how)": a,
                          "flattened_graph (start, end, how)": b, "first_abort_instant": T})
        elif (list(a) if a else None) != (list(b) if b else None):
            late.append({"job": old, "job_in_flattened_graph": new, "nested_tree (start, end, how)": a,
                         "flattened_graph (start, end, how)": b, "first_abort_instant": T})
    if not diffs and not late and T != float("inf") and o1 and o2 and not same_outcome(o1, o2, ren):
        late.append({"outcome_of_run_nested": o1, "outcome_of_run_flattened": o2, "first_abort_instant": T})
    if diffs:
        return diffs
    if late and not (critical_failure_at(cfg, t1, T) or critical_failure_at(c2, t2, T)):
        # T is an instant at which a scheduler ends with forever jobs to cancel (or a handler is cut by a
        # shutdown_timeout): whether a job that becomes eligible in that very instant is still started
        # (and cancelled at once) depends on the order of callbacks inside the instant, which nesting
        # changes, and what follows may depend on it: not compared (DESIGN 0.4)
        return []
    if late:
        # known finding F9: from the first instant at which a critical job raises, the nested tree and
        # the flattened graph may part (the nested run finishes its own cleanup before its parent
        # notices; jobs that tie with the abort)
        return [{"known": F9_SIGNATURE}] + late
    return []


F10_SIGNATURE = "c10_nested_shutdown_delays_successors"
F10_TEXT = ("a nested scheduler whose jobs have shutdown handlers of non-zero duration ends only after its own shutdown "
            "phase (C13: its jobs receive co_shutdown when the nested run ends), so the jobs that require it start later "
            "than in the flattened graph, where those handlers run at the end of the enclosing run (and the enclosing run, "
            "hence its forever jobs, lasts longer); witness "
            "root{m{x: 1 s, co_shutdown 2 s}, y requires m}: y runs from 3 to 4, in the flattened graph from 1 to 2")


def _run_flat_slow(arg):
    """pair (tree, tree with m dissolved) for a nested scheduler with slow shutdown handlers in a tree
    where no critical job raises: [] if the timelines agree, [{'known': F10}, ...] if every difference is
    a job that starts / ends later in the nested tree, else the differences (a violation)"""
    cfg, m = arg
    from .robserve import run_config
    c2, ren = flatten(cfg, m)
    if c2 is None:
        return None
    t1, o1 = timeline(run_config(cfg)["log"], cfg)
    t2, o2 = timeline(run_config(c2)["log"], c2)
    INF = float("inf")
    diffs, other = [], []
    for old, new in sorted(ren.items()):
        if cfg["jobs"][old]["sched"]:
            continue
        a, b = t1.get(old), t2.get(new)
        if (list(a) if a else None) == (list(b) if b else None):
            continue
        d = {"job": old, "job_in_flattened_graph": new, "nested_tree (start, end, how)": a,
             "flattened_graph (start, end, how)": b}
        sa, sb = (a[0] if a else INF), (b[0] if b else INF)
        ea, eb = (a[1] if a and a[1] is not None else INF), (b[1] if b and b[1] is not None else INF)
        ha, hb = (a[2] if a else None), (b[2] if b else None)
        # later in the nested tree, same outcome -- or a forever job, cancelled when the run ends, that
        # lives longer (and may even finish) because the nested run ends later
        if sa >= sb and ea >= eb and (ha == hb or (hb == "cancelled" and cfg["jobs"][old]["forever"])):
            diffs.append(d)
        else:
            other.append(d)
    if other:
        return other
    if diffs:
        return [{"known": F10_SIGNATURE}] + diffs
    return []


F9_SIGNATURE = "c10_divergence_from_first_critical_failure_on"
F9_TEXT = ("from the first instant T at which a critical job raises, a tree with critical nested schedulers (no window, "
           "timeout or forever job) and its flattened graph may part: the nested run finishes cancelling and shutting down "
           "its own jobs before its run ends and its parent aborts, so jobs elsewhere keep running (and may raise first) "
           "while the flattened graph cancels them at T; jobs that tie with the abort at T may start or end in one and not "
           "in the other; witness root{m1{x critical raises at 1; z with a 2 s cancellation handler}, m2{y critical raises "
           "at 2}}: y raises at 2 and run() raises y's exception, flattened: y is cancelled at 1 and run() raises x's")


def same_outcome(o1, o2, ren):
    """outcomes of the two top-level runs, the identity of a job's exception being carried through the
    renumbering (tag 2*j for the exception of job j)"""
    if o1[0] != o2[0]:
        return False
    if o1[0] != "raise":
        return True
    t1, t2 = o1[1], o2[1]
    if isinstance(t1, int) and t1 % 2 == 0 and (t1 // 2) in ren:
        return t2 == 2 * ren[t1 // 2]
    return list(o1[1:3]) == list(o2[1:3])


def critical_failure_at(cfg, tl, T):
    """did a critical atomic job raise at instant T in this run"""
    for x, j in enumerate(cfg["jobs"]):
        if not j["sched"] and j["crit"] and j["out"] == "exc":
            a = tl.get(x)
            if a and a[1] == T and a[2] == "exc":
                return True
    return False


_POOL = None


class C10(RProp):
    def generate(self, tier, rnd):
        n = 1000 if tier == "quick" else 100000
        out = list(rgen.enumerate_small()) if tier != "quick" else []
        flat_profile = dict(self.profile, timeout=0.0, root_timeout=0.0, window=0.0, forever=0.03, never=0.0,
                            sdur=0.05, nested=0.55, crit=0.6)
        for i in range(n):
            mj = rnd.choice([3, 5, 8, self.max_jobs, self.max_jobs])
            out.append(rgen.gen_config(rnd, max_jobs=mj, profile=flat_profile if i % 2 else self.profile))
        return out

    def evaluate(self, cases):
        global _POOL
        results = RProp.evaluate(self, cases)
        work = []
        slow_work = []
        for i, cfg in enumerate(cases):
            fl = flattenable(cfg)
            if fl:
                work.append((i, fl[0]))
            else:
                sl = flattenable(cfg, slow=True)
                if sl:
                    slow_work.append((i, sl[0]))
        win_work = [(i, windowed_parent_candidates(cfg)) for i, cfg in enumerate(cases)]
        win_work = [(i, ms[0]) for i, ms in win_work if ms][:200]
        if win_work:
            outs = [_run_flat_window((cases[i], m)) for i, m in win_work]
            for (i, m), d in zip(win_work, outs):
                results[i]["tags"]["flattened_windowed_parent"] = 1
                results[i]["traces"] = results[i].get("traces", 0) + 2
                if d and results[i]["status"] == "ok":
                    results[i].update(status="specfail", signature=d[0]["known"],
                                      detail={"what": "known finding F11: " + F11_TEXT, "differences": d[1:7]})
        if slow_work:
            args = [(cases[i], m) for i, m in slow_work]
            if len(args) < 32:
                outs = [_run_flat_slow(a) for a in args]
            else:
                if _POOL is None:
                    _POOL = multiprocessing.get_context("fork").Pool(min(16, os.cpu_count() or 4))
                outs = _POOL.map(_run_flat_slow, args, chunksize=8)
            for (i, m), d in zip(slow_work, outs):
                results[i]["tags"]["flattened_slow_shutdown"] = 1
                results[i]["traces"] = results[i].get("traces", 0) + 2
                if d and d[0].get("known"):
                    if results[i]["status"] == "ok":
                        results[i].update(status="specfail", signature=d[0]["known"],
                                          detail={"what": "known finding F10: " + F10_TEXT, "differences": d[1:7]})
                elif d:
                    if results[i]["status"] != "specfail" or results[i].get("signature"):
                        results[i]["status"] = "specfail"
                        results[i].pop("signature", None)
                        results[i]["detail"] = {"what": "dissolving the critical nested scheduler %d (slow shutdown handlers) "
                                                        "into its parent makes jobs run EARLIER in the nested tree, or with "
                                                        "another outcome" % m, "differences": d[:6]}
        if work:
            args = [(cases[i], m) for i, m in work]
            if len(args) < 32:
                outs = [_run_flat(a) for a in args]
            else:
                if _POOL is None:
                    _POOL = multiprocessing.get_context("fork").Pool(min(16, os.cpu_count() or 4))
                outs = _POOL.map(_run_flat, args, chunksize=8)
            for (i, m), d in zip(work, outs):
                results[i]["tags"]["flattened"] = 1
                results[i]["traces"] = results[i].get("traces", 0) + 2
                if d and d[0].get("known"):
                    if results[i]["status"] == "ok":
                        results[i]["status"] = "specfail"
                        results[i]["signature"] = d[0]["known"]
                        results[i]["detail"] = {"what": "known finding F9: " + F9_TEXT, "differences": d[1:7]}
                elif d:
                    if results[i]["status"] != "specfail" or results[i].get("signature"):
                        results[i]["status"] = "specfail"
                        results[i].pop("signature", None)
                        results[i]["detail"] = {"what": "dissolving the critical nested scheduler %d (no window, timeout, "
                                                        "forever job) into its parent changes when jobs run" % m,
                                                "differences": d[:6]}
        return results

    def known_finding(self, case, res):
        if res.get("signature") in (F9_SIGNATURE, F10_SIGNATURE, F11_SIGNATURE) and res["status"] == "specfail":
            return core.listed_finding("C10", res["signature"])
        return None


def gen_profile():
    return {"nested": 0.5, "crit": 0.5, "exc": 0.4, "window": 0.25, "timeout": 0.3, "forever": 0.08, "never": 0.03,
            "sdur": 0.15, "edge": 0.5, "tie": 0.5}


PROPS = {
    "C10": C10("C10", 1, [10, 51, 41], oracles=["reqs_first", "window"], profile=gen_profile(),
               rule="C10: a nested scheduler starts under the job rules (chk01, chk_nostart, parent window at level 1) and "
                    "its verdict / bubbling exception identity is classified by chk_end. Last sentence of the property: for "
                    "every generated tree that contains a critical nested scheduler without window, timeout or forever job "
                    "(and whose parent has no window, whose handlers take no time), the implementation is also run on the tree "
                    "with that scheduler dissolved into its parent, and every atomic job must start and end at the same "
                    "virtual instants with the same outcome, the top-level outcome being the same. "
                    "Non-trivial = nesting depth >= 2.",
               nontrivial=has_nested, max_jobs=14),
}
upgrade(PROPS["C10"])
