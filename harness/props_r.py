"""Property runners for model R (run-time properties C01..C14).

One evaluation pipeline for all: run the configuration on the implementation under the virtual
loop, translate the raw history to model events, replay it on the extracted model at the four
levels (acceptance) and through the monitors (the executable property statements), then judge
per property:
  specfail  = the property's own monitor (or its run-time side condition) fails on the
              implementation's history: a concrete failing input;
  mismatch  = the history is rejected by the model at a level the property's theorems assume.
"""
import copy
import json
import multiprocessing
import os
import random

from . import core
from .props_g import Prop
from . import rgen


def _run_one(cfg):
    from .robserve import run_config
    from .rtrans import translate, enc_cfg, enc_history
    from .oracles import scan
    r = run_config(cfg)
    ev, notes = translate(r["log"])
    return {"cfg_enc": enc_cfg(cfg), "hist_enc": enc_history(ev),
            "events": [e[0] for e in ev], "notes": notes, "nraw": len(r["log"]), "oracles": scan(cfg, r["log"])}


_POOL = None


def run_many(cfgs):
    global _POOL
    if len(cfgs) < 64:
        return [_run_one(c) for c in cfgs]
    if _POOL is None:
        _POOL = multiprocessing.get_context("fork").Pool(min(16, os.cpu_count() or 4))
    return _POOL.map(_run_one, cfgs, chunksize=16)


def drop_job(cfg, i):
    """remove job i (must have no dependents and no members) and renumber"""
    jobs = cfg["jobs"]
    n = len(jobs)
    if i == 0 or any(jobs[k]["parent"] == i or i in jobs[k]["reqs"] for k in range(1, n) if k != i):
        return None
    c2 = copy.deepcopy(cfg)
    del c2["jobs"][i]

    def ren(x):
        return x - 1 if x > i else x
    for j in c2["jobs"]:
        j["parent"] = ren(j["parent"])
        j["reqs"] = [ren(r) for r in j["reqs"]]
    c2.pop("insert_order", None)
    return c2


class RProp(Prop):
    """level: the acceptance level the theorems assume; monitors: ids of coq monitors"""

    def __init__(self, pid, level, monitors, profile=None, rule="", side=None, max_jobs=12, nontrivial=None,
                 oracles=()):
        self.oracles = tuple(oracles)
        self.pid = pid
        self.level = level
        self.monitors = monitors
        self.profile = profile or {}
        self.side = side
        self.max_jobs = max_jobs
        self.nontrivial_fn = nontrivial
        self.rule = (rule + " Configurations: random admissible scheduler trees (1..%d jobs, depth<=3, "
                     "PureScheduler or Scheduler root, windows, timeouts, raising/never-ending/forever jobs, "
                     "cancellation and shutdown handlers of zero and non-zero duration, ties, AbstractJob and "
                     "coroutine Job classes, verbose on/off, random __hash__ orders and insertion orders); each "
                     "history is replayed on the model at levels 0..3 and through the property's monitor; "
                     "distinct = distinct canonical configuration. The thorough tier first runs the exhaustive small scope "
                     "(every root with one or two atomic jobs, and every root with a nested scheduler holding one job plus "
                     "an optional sibling that may require it, over critical/forever/outcome/duration 0-1/handler 0-1 and "
                     "windows 0-1, timeouts None/0/1: 166 400 trees), then 100 000 random trees.  Both tiers add window-stress "
                     "trees (one scheduler, window 1-3, 4-12 jobs ending a few loop iterations apart in one instant, "
                     "successors created in between): 60 or 200 at the quick tier, a hundred times more at the thorough one, and "
                     "crash-point trees (an outer scheduler ends by timeout or critical failure while a scheduler one or two "
                     "levels below is in its main loop, is cancelling a job whose cancellation takes time, or is shutting "
                     "down): 40 or 150 at the quick tier, a hundred times more at the thorough one; a "
                     "quarter of the random trees run with an inspector calling the read-only API of every scheduler at every "
                     "quiescent point, half of them through the synchronous wrappers run()/shutdown()." % max_jobs)

    def generate(self, tier, rnd):
        n = 1000 if tier == "quick" else 100000
        out = []
        if tier != "quick":
            # exhaustive small scope first (rgen.enumerate_small: 166 400 trees), then random trees
            out = list(rgen.enumerate_small())
        for _ in range(n):
            mj = rnd.choice([3, 5, 8, self.max_jobs, self.max_jobs])
            out.append(rgen.gen_config(rnd, max_jobs=mj, profile=self.profile))
        # window stress (rgen.gen_ladder): 200 at the quick tier for the properties about windows,
        # 60 for the others; a hundred times more at the thorough tier
        k = 200 if self.pid in ("C03", "C07", "C12") else 60
        for _ in range(k if tier == "quick" else 100 * k):
            out.append(rgen.gen_ladder(rnd))
        # crash points of nested runs (rgen.gen_stagger): an outer scheduler ends while an inner one is in
        # its main loop / cancelling a job that takes time to cancel / shutting down
        k = 150 if self.pid in ("C05", "C08", "C09", "C11", "C13") else 40
        for _ in range(k if tier == "quick" else 100 * k):
            out.append(rgen.gen_stagger(rnd))
        return out

    def evaluate(self, cases):
        runs = run_many(cases)
        q = []
        for r in runs:
            q.append([100] + r["cfg_enc"] + r["hist_enc"])
            q.append([101] + r["cfg_enc"] + r["hist_enc"])
        outs = core.run_driver(q)
        results = []
        for k, (cfg, r) in enumerate(zip(cases, runs)):
            acc, mons = outs[2 * k], outs[2 * k + 1]
            res = {"status": "ok", "detail": None, "model_cases": [(q[2 * k], acc), (q[2 * k + 1], mons)],
                   "tags": {}, "nontrivial": None, "traces": 1}
            notes = r["notes"]
            oc = (notes.get("outcome") or ["?"])[0]
            res["raise_type"] = (notes.get("outcome") or [None, None, None])[2] if oc == "raise" and len(notes.get("outcome")) > 2 else None
            jobs = cfg["jobs"]
            res["tags"] = {"jobs": len(jobs) - 1, "outcome": oc,
                           "depth": max(self._depth(cfg, i) for i in range(len(jobs))),
                           "windows": sum(1 for j in jobs if j["sched"] and j["window"]),
                           "timeouts": sum(1 for j in jobs if j["sched"] and j["timeout"] is not None),
                           "events": min(200, len(r["events"]) // 20 * 20)}
            if self.nontrivial_fn is None or self.nontrivial_fn(cfg, r):
                res["nontrivial"] = rgen.cfg_key(cfg)
            problems = []
            if acc[0] != 1 or mons[0] != 1:
                problems.append(("mismatch", "model could not decode the case"))
            else:
                if acc[1] != 1:
                    problems.append(("mismatch", "configuration is not well-formed for the model"))
                lv = [acc[2 + 4 * i: 6 + 4 * i] for i in range(4)]
                for i in range(self.level + 1):
                    if lv[i][0] != 1:
                        idx, code = lv[i][1], lv[i][2]
                        problems.append(("mismatch", {"what": "history rejected by the model", "level": i,
                                                      "event_index": idx, "guard_code": code,
                                                      "event": r["events"][idx] if idx < len(r["events"]) else None,
                                                      "context": r["events"][max(0, idx - 6): idx]}))
                        break
                else:
                    if self.level == 3 and lv[3][3] != 1 and oc not in ("deadlock", "livelock"):
                        problems.append(("mismatch", {"what": "accepted history does not end in a terminal model state"}))
                mm = {mons[1 + 2 * i]: mons[2 + 2 * i] for i in range((len(mons) - 1) // 2)}
                # a monitor evaluates the property on the state implied by the events so far; that
                # state is the model's (hence the implementation's, by the correspondence) only as
                # long as the history has been accepted at the property's level: a monitor failure
                # after the first rejected event proves nothing and is not reported as a failing input
                rej = None
                for i in range(self.level + 1):
                    if lv[i][0] != 1:
                        rej = lv[i][1] if rej is None else min(rej, lv[i][1])
                for m in self.monitors:
                    if mm.get(m, 0) != 0:
                        idx = mm[m] - 1
                        if rej is not None and idx > rej:
                            continue
                        problems.append(("specfail", {"what": "monitor %d (executable statement of %s) fails" % (m, self.pid),
                                                      "event_index": idx,
                                                      "event": r["events"][idx] if idx < len(r["events"]) else None,
                                                      "context": r["events"][max(0, idx - 8): idx]}))
            if self.side is not None:
                sp = self.side(cfg, r)
                if sp:
                    problems.append(("specfail", sp))
            # direct reading of the property on the raw log (harness/oracles.py)
            for name in self.oracles:
                v = r.get("oracles", {}).get(name)
                if v:
                    problems.append(("specfail", dict(v, oracle=name)))
            for kind in ("specfail", "mismatch"):
                ps = [p for p in problems if p[0] == kind]
                if ps:
                    res.update(status=kind, detail=ps[0][1])
                    break
            results.append(res)
        return results

    @staticmethod
    def _depth(cfg, i):
        d = 0
        while i != 0:
            i = cfg["jobs"][i]["parent"]
            d += 1
        return d

    def shrink_candidates(self, case):
        jobs = case["jobs"]
        n = len(jobs)
        if case.get("inspect"):
            c2 = copy.deepcopy(case)
            c2["inspect"] = False
            yield c2
        for i in range(n - 1, 0, -1):
            c2 = drop_job(case, i)
            if c2 is not None:
                yield c2
        for i in range(n):
            j = jobs[i]
            for r in list(j["reqs"]):
                c2 = copy.deepcopy(case)
                c2["jobs"][i]["reqs"].remove(r)
                yield c2
            if j["sched"]:
                for key, val in (("window", 0), ("timeout", None), ("verbose", False)):
                    if j.get(key) not in (val,):
                        c2 = copy.deepcopy(case)
                        c2["jobs"][i][key] = val
                        yield c2
            else:
                for key, val in (("yields", 0), ("cdur", 0), ("sdur", 0), ("cls", "abstract"), ("out", "ret")):
                    if j.get(key) != val:
                        c2 = copy.deepcopy(case)
                        c2["jobs"][i][key] = val
                        yield c2
                if j["dur"] not in (None, 0, 1):
                    c2 = copy.deepcopy(case)
                    c2["jobs"][i]["dur"] = 1
                    yield c2


def orphan_side(cfg, r):
    """run-time side condition of C11: after run() returned nothing may happen any more and the loop
    must hold no unfinished task created by the run"""
    n = r["notes"]
    oc = (n.get("outcome") or ["?"])[0]
    if oc in ("deadlock", "livelock"):
        return None
    if n.get("after_root"):
        return {"what": "activity after the top-level run() returned", "events": n["orphan_events"][:6]}
    if n.get("grace_left") and n["grace_left"][0]:
        return {"what": "unfinished tasks left in the loop after run() returned", "tasks": n["grace_left"][1][:6]}
    return None


def has_edges(cfg, r):
    return any(j["reqs"] for j in cfg["jobs"])


def has_tight_window(cfg, r):
    jobs = cfg["jobs"]
    for i, j in enumerate(jobs):
        if j["sched"] and j["window"]:
            if sum(1 for k in range(1, len(jobs)) if jobs[k]["parent"] == i) > j["window"]:
                return True
    return False


def has_nested(cfg, r):
    return sum(1 for j in cfg["jobs"] if j["sched"]) > 1


PROPS = {
    "C01": RProp("C01", 0, [10], oracles=['reqs_first'], profile={"edge": 0.6, "yields": 0.4, "nested": 0.3, "tie": 0.7, "never": 0.05},
                 rule="C01: at every EStart/EBegin the monitor requires every requirement (and every requirement of the "
                      "enclosing nested scheduler) to be done in the state implied by the events so far. Non-trivial = "
                      "the tree has at least one requirement edge.",
                 nontrivial=has_edges),
    "C02": RProp("C02", 0, [20, 41], oracles=['once', 'success_complete'], profile={"forever": 0.3, "exc": 0.4, "maxdur": 3, "window": 0.5, "tie": 0.6, "edge": 0.5},
                 rule="C02: at every EStart/EBegin the job must not have started before; at every observed end of a run "
                      "with verdict True every non-forever member must be done in the state implied by the events so far. "
                      "Non-trivial = at least 3 jobs.",
                 nontrivial=lambda cfg, r: len(cfg["jobs"]) > 3),
    "C04": RProp("C04", 0, [41], oracles=['success_complete', 'timeout_effect'], profile={"crit": 0.5, "exc": 0.45, "timeout": 0.7, "root_timeout": 0.6, "maxdur": 4, "nested": 0.35},
                 rule="C04: at every observed end of a run the verdict (True / False / raised exception identity) is compared "
                      "with the classification (all non-forever done, some critical raised, timeout) of the state implied by the "
                      "events so far; failed_time_out()/failed_critical() are compared at every poll. Non-trivial = the "
                      "run is not a plain success.",
                 nontrivial=lambda cfg, r: (r["notes"].get("outcome") or ["true"])[0] != "true" or any(
                     j["sched"] and j["timeout"] is not None for j in cfg["jobs"])),
    "C05": RProp("C05", 2, [51, 52, 41], oracles=['no_start_after_exit', 'jobs_over'], profile={"crit": 0.6, "exc": 0.5, "window": 0.6, "tie": 0.5, "nested": 0.3, "never": 0.1},
                 rule="C05: at the main wake that leaves the loop everything pending must be doomed (cancel requested / "
                      "cancelling), nothing created; no job starts while its scheduler is not in its main loop; verdict "
                      "classification; acceptance up to level 2 (timing: the clock only moves when nothing is unreported). "
                      "Non-trivial = some critical job raises.",
                 nontrivial=lambda cfg, r: any((not j["sched"]) and j["crit"] and j["out"] == "exc" for j in cfg["jobs"])),
    "C08": RProp("C08", 2, [52, 51, 41], oracles=['no_start_after_exit', 'timeout_effect', 'jobs_over'], profile={"timeout": 0.8, "root_timeout": 0.7, "never": 0.25, "window": 0.5, "nested": 0.35},
                 rule="C08: expiry takes the timeout path (monitor chk_exit), nothing starts afterwards, timeout verdict; "
                      "acceptance up to level 2 compares the timeout argument of every asyncio.wait call and the instant of "
                      "every clock jump. Non-trivial = some scheduler has a timeout.",
                 nontrivial=lambda cfg, r: any(j["sched"] and j["timeout"] is not None for j in cfg["jobs"])),
    "C09": RProp("C09", 2, [52, 51, 111, 41], oracles=['no_start_after_exit', 'success_complete', 'window', 'reqs_first', 'eager', 'jobs_over'], profile={"forever": 0.45, "never": 0.3, "window": 0.5, "nested": 0.3},
                 rule="C09: at the wake that completes the non-forever jobs only forever jobs are pending and all are "
                      "cancelled there; none starts later; nothing below a finished run is live. Non-trivial = at least one "
                      "forever job.",
                 nontrivial=lambda cfg, r: any(j["forever"] for j in cfg["jobs"][1:])),
    "C10": RProp("C10", 1, [10, 51, 41], profile={"nested": 0.5, "crit": 0.5, "exc": 0.45, "window": 0.5, "timeout": 0.5},
                 rule="C10: a nested scheduler starts under the job rules (chk01, chk_nostart, parent window at level 1) and "
                      "its verdict / bubbling exception identity is classified by chk_end. Non-trivial = nesting depth >= 2.",
                 nontrivial=has_nested, max_jobs=14),
    "C11": RProp("C11", 3, [111, 51], oracles=['handlers_over', 'jobs_over'], profile={"nested": 0.45, "timeout": 0.7, "cdur": 0.5, "sdur": 0.6, "never": 0.25, "crit": 0.4, "exc": 0.4},
                 rule="C11: at every announced end of a run nothing below it is live (monitor chk_over); acceptance at level 3 "
                      "must end in a terminal model state; run-time side condition: after run() returned the loop is kept "
                      "running for a grace period, no event may be logged and no task may be left. Non-trivial = nested "
                      "schedulers present.",
                 nontrivial=has_nested, side=orphan_side),
    "C07": RProp("C07", 1, [70], oracles=['window'], profile={"fine": 0.4, "window": 0.9, "exc": 0.4, "cdur": 0.5, "timeout": 0.6, "nested": 0.35, "crit": 0.4,
                                          "tie": 0.5, "never": 0.15},
                 rule="C07: after every event the number of direct jobs of each windowed scheduler whose body is executing "
                      "(entered, not yet left, in the state implied by the events so far; a nested scheduler counts as one "
                      "while its run lasts) must not exceed jobs_window (monitor chk07); acceptance at level 1 additionally "
                      "requires a free slot in the parent's own window at every start. Non-trivial = some windowed scheduler "
                      "has more direct jobs than its window.",
                 nontrivial=has_tight_window),
    "C12": RProp("C12", 2, [120, 10, 70], oracles=["eager", "reqs_first", "window"], profile={"fine": 0.3, "window": 0.6, "edge": 0.6, "tie": 0.7, "exc": 0.3, "nested": 0.3, "never": 0.05,
                                                   "yields": 0.4},
                 rule="C12: whenever the virtual clock moves, in the state implied by the events so far every job of a "
                      "scheduler in its main loop that has not started must have a requirement that is not done, or be queued "
                      "for a slot of a window in which exactly jobs_window direct jobs are executing (monitor chk12); no start "
                      "before the requirements (chk01) and no window overrun (chk07); acceptance at level 2 requires each clock "
                      "jump to happen in a quiescent model state and to reach exactly the next deadline. Non-trivial = the "
                      "tree has a requirement edge or a windowed scheduler with more direct jobs than its window.",
                 nontrivial=lambda cfg, r: has_edges(cfg, r) or has_tight_window(cfg, r)),
    "C13": RProp("C13", 3, [130, 111], oracles=['shutdown_once', 'shutdown_quiet', 'shutdown_bound', 'shutdown_duration', 'handlers_over'], profile={"nested": 0.45, "timeout": 0.6, "sdur": 0.75, "sd_never": 0.15, "cdur": 0.3,
                                                 "never": 0.2, "crit": 0.4, "exc": 0.4, "sdto_none": 0.1},
                 rule="C13: when a co_shutdown() handler starts it must not have started before and no job of the same "
                      "scheduler may be live in the state implied by the events so far; at the end of every run that went "
                      "through its shutdown phase every handler below it, at any depth, must be finished; the shutdown wait "
                      "must return no later than begin + shutdown_timeout, with pending handlers only at that very instant "
                      "(monitor chk13). Acceptance at level 3 compares every handler creation, start, end and cancellation, "
                      "the value returned by every co_shutdown(), the late explicit shutdown() after the run, and requires a "
                      "terminal final state. Non-trivial = some job has a shutdown handler of non-zero duration.",
                 side=orphan_side, nontrivial=lambda cfg, r: any((not j["sched"]) and j["sdur"] for j in cfg["jobs"])),
    "C14": RProp("C14", 0, [140], oracles=["truth"], profile={"window": 0.6, "exc": 0.4},
                 rule="C14: at every quiescent point and after the run, the public predicates of every job (is_idle, "
                      "is_scheduled, is_running, is_done, result/exception identity) are compared with the state implied "
                      "by the events so far and checked for internal consistency. Non-trivial = at least 2 jobs.",
                 nontrivial=lambda cfg, r: len(cfg["jobs"]) > 2),
}


def _upgrade():
    from .props_sched import upgrade
    upgrade(PROPS["C12"])
    upgrade(PROPS["C01"])
    upgrade(PROPS["C13"])
    upgrade(PROPS["C09"])


_upgrade()
