#!/bin/sh
# usage: seedtest.sh <dir with patch.diff demo.py> <check ids...>
# Confirms a seeded change in the scratch worktree /tmp/wt (demo passes without / fails with the
# patch, test suite passes with it), then runs the given checks against the patched worktree.
d=$1; shift
WT=/tmp/wt
git -C $WT checkout -q -- . && git -C $WT clean -fdq
cp $d/demo.py $WT/demo_seed.py
( cd $WT && timeout 120 /venv/bin/python demo_seed.py >/dev/null 2>&1 ); r0=$?
git -C $WT apply $d/patch.diff || { echo "PATCH DOES NOT APPLY"; exit 2; }
( cd $WT && timeout 120 /venv/bin/python demo_seed.py >/dev/null 2>&1 ); r1=$?
if [ "$SKIPTESTS" = "1" ]; then tests="skipped"; else
tests=$( cd $WT && timeout 900 /venv/bin/python -m pytest -q -p no:cacheprovider --timeout=900 tests 2>&1 | tail -1 ); fi
echo "demo unpatched exit=$r0 (want 0); patched exit=$r1 (want 1); tests: $tests"
for c in "$@"; do
  out=$(cd /verif && VERIF_REPO=$WT ./check $c 2>/dev/null | grep -E "^(VIOLATION|OK|FAIL|KNOWN)" | tr '\n' ' ')
  echo "  check $c -> $out"
done
rm -f $WT/demo_seed.py
git -C $WT checkout -q -- . && git -C $WT clean -fdq
