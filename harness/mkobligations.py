"""Regenerates coq/obligations.json from the Props files: the list of property theorems with the
statement Coq prints for each.  Run by hand when a Props file is edited on purpose; the checks
compare against it so that a theorem cannot be weakened or dropped silently."""
import json
import os
import re
import shutil
import sys
import tempfile

from . import core


def main():
    props = sorted(f[:-2] for f in os.listdir(os.path.join(core.COQ, "Props")) if re.match(r"C\d+\.v$", f))
    ok, msg = core.ensure_build(None)
    if not ok:
        print(msg)
        return 1
    res = {}
    tmp = tempfile.mkdtemp()
    try:
        for p in props:
            txt = core.strip_comments(open(os.path.join(core.COQ, "Props", p + ".v")).read())
            names = re.findall(r"^\s*Theorem\s+([\w']+)", txt, re.M)
            st, err = core.coq_statements(p, names, tmp)
            if st is None:
                print(p, err)
                return 1
            res[p] = {"file": "coq/Props/%s.v" % p,
                      "theorems": [{"name": n, "statement": st[n][0]} for n in names]}
            print(p, len(names), "theorems")
    finally:
        shutil.rmtree(tmp, ignore_errors=True)
    json.dump(res, open(os.path.join(core.COQ, "obligations.json"), "w"), indent=1, sort_keys=True)
    return 0


if __name__ == "__main__":
    sys.exit(main())
