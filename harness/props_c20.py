"""C20: DOT export and list() describe the scheduler tree faithfully.

For every generated tree the implementation's dot_format() output (UTF-8 bytes) is
  * compared byte for byte with the model's rendering (correspondence),
  * parsed by the extracted DOT-subset parser and judged by the executable statements of the
    property (c20_spec_b: it is exactly the abstract graph of the tree; c20_prop_b: nodes, clusters,
    edges, labels and styles are right, whatever representative jobs were chosen),
and the printed lines of list() are compared with the model's (id / indent columns) and judged by
c20_list_spec_b."""
import itertools
import os
import shutil
import subprocess

from . import core
from .gworld import build, enc_tree, enc_rmap, enc_nats, shape_key
from .props_g import Prop

D7_SIGNATURE = "dot_format_empty_nested_scheduler_linked"
D7_TEXT = ("dot_format() raises ValueError('no entry/exit found') when an empty nested scheduler has, or is, "
           "a requirement (or is the entry/exit representative of a scheduler that has or is one); "
           "witness t{ e{} , j requires e }")

ALPHABET = ['"', '""', "\n", " ", "{", "}", "[", "]", "=", ";", ",", "->", "--", ":", "//", "/*", "#", "<", ">",
            "'", "a", "b", "job", "x1", "_", "é", "ü", "ß", "中文", "→", "😀", "\t", "%", "&", "|", "`", "\r",
            "subgraph", "digraph", "label"]


def random_label(rnd):
    r = rnd.random()
    if r < 0.15:
        return None
    if r < 0.2:
        return ""
    return "".join(rnd.choice(ALPHABET) for _ in range(rnd.randint(1, 5)))


class Rec:
    """stdout replacement that keeps the individual print() calls apart"""

    def __init__(self):
        self.records = []
        self.cur = []
        self.encoding = "utf-8"

    def write(self, s):
        if s == "\n":
            self.records.append("".join(self.cur))
            self.cur = []
        else:
            self.cur.append(s)

    def flush(self):
        pass


def capture_list(root):
    import contextlib
    rec = Rec()
    with contextlib.redirect_stdout(rec):
        root.list()
    return rec.records


def parse_list_records(records, objs, root):
    """-> list of [kind, job, id_int, depth, id_str] ; kind 0 job, 1 begin, 2 end"""
    from asynciojobs import PureScheduler
    by_id = {}

    def walk(s):
        for j in s.jobs:
            by_id.setdefault(j._sched_id, []).append(j)
            if isinstance(j, PureScheduler):
                walk(j)
    walk(root)
    out = []
    for r in records:
        sid, _, rest = r.partition(" ")
        cands = by_id.get(sid)
        if not cands:
            raise ValueError("list(): line with unknown id %r" % r[:60])
        job = cands[0]
        if rest.startswith("--end-- "):
            rest = rest[len("--end-- "):]
            main = job.repr_main()
            k = rest.find(" " + main)
            marks = rest[:k]
            if k < 0 or set(marks) - {"<"}:
                raise ValueError("list(): bad end line %r" % r[:60])
            out.append([2, job.hid, int(sid), len(marks) - 1, sid])
            continue
        short = job.repr_short()
        if not rest.startswith(short + " "):
            raise ValueError("list(): bad badge in %r" % r[:60])
        rest = rest[len(short) + 1:]
        main = job.repr_main()
        k = rest.find(main)
        indent = rest[:k]
        if k < 0 or (indent and (set(indent[:-1]) - {">"} or indent[-1] != " ")):
            raise ValueError("list(): bad indent in %r" % r[:60])
        depth = len(indent) - 1 if indent else 0
        out.append([1 if isinstance(job, PureScheduler) else 0, job.hid, int(sid), depth, sid])
    return out


def enc_bytes(b):
    return [len(b)] + list(b)


def enc_infos(recipe):
    out = [len(recipe["jobs"])]
    for j in recipe["jobs"]:
        lab = j.get("label")
        if lab is None:
            out.append(0)
        else:
            out.append(1)
            out += enc_bytes(lab.encode("utf-8"))
        out += [int(bool(j.get("critical"))), int(bool(j.get("forever")))]
    return out


# ---- the D7 class, decided on the recipe alone

def d7_class(recipe):
    """some nested scheduler that has or is a requirement is not 'solid' (= non-empty, and so are
    all schedulers nested in it)"""
    jobs, members = recipe["jobs"], recipe["members"]

    def solid(s):
        ms = members.get(str(s), [])
        return bool(ms) and all(solid(m) for m in ms if jobs[m]["kind"] != "atom")
    linked = set()
    for j, r in recipe["edges"]:
        linked.add(j)
        linked.add(r)
    return any(jobs[x]["kind"] != "atom" and x != recipe["root"] and not solid(x) for x in linked)


# ---- generators

def dag_edges(rnd, ms, dens):
    ms = list(ms)
    rnd.shuffle(ms)
    edges = []
    for a in range(len(ms)):
        for b in range(a):
            if rnd.random() < dens:
                edges.append([ms[a], ms[b]])
    return edges


def random_closed_tree(rnd, max_jobs, max_depth=3, p_sched=0.3, p_empty=0.15, hash_range=64, labels=True,
                       min_jobs=1):
    jobs, members = [], {}

    def new(kind):
        jobs.append({"kind": kind, "hash": rnd.randrange(hash_range), "forever": rnd.random() < 0.25,
                     "critical": rnd.random() < 0.5, "label": random_label(rnd) if labels else None})
        return len(jobs) - 1
    root = new("pure" if rnd.random() < 0.2 else "sched")
    members[str(root)] = []
    frontier = [(root, 1)]
    budget = rnd.randint(min_jobs, max_jobs)
    while budget > 0:
        s, d = rnd.choice(frontier)
        if d < max_depth and rnd.random() < p_sched:
            k = new("sched")
            members[str(k)] = []
            if rnd.random() >= p_empty:
                frontier.append((k, d + 1))
        else:
            k = new("atom")
        members[str(s)].append(k)
        budget -= 1
    edges = []
    for s, ms in members.items():
        edges += dag_edges(rnd, ms, rnd.choice([0.0, 0.2, 0.4, 0.7]))
    rnd.shuffle(edges)
    for s in members:
        rnd.shuffle(members[s])
    return {"jobs": jobs, "members": members, "edges": edges, "root": root}


def systematic_cases(rnd, inner_sizes):
    """root{a, S, b} with S holding 0..k atoms: every edge set compatible with some order of
    (a, S, b), every edge set on the inner chain order"""
    cases = []
    trio = [1, 2, 3]           # 1 = a, 2 = S, 3 = b
    for k in inner_sizes:
        inner = list(range(4, 4 + k))
        inner_pairs = [(inner[x], inner[y]) for x in range(k) for y in range(x)]
        for perm in itertools.permutations(trio):
            pairs = [(perm[x], perm[y]) for x in range(3) for y in range(x)]
            for mask in range(8):
                outer = [list(p) for i, p in enumerate(pairs) if mask >> i & 1]
                if not any(2 in e for e in outer) and perm != (1, 2, 3):
                    continue
                for imask in range(1 << len(inner_pairs)):
                    ie = [list(p) for i, p in enumerate(inner_pairs) if imask >> i & 1]
                    jobs = [{"kind": "sched", "hash": 0, "forever": False, "critical": False, "label": None}]
                    for x in range(1, 4 + k):
                        jobs.append({"kind": "sched" if x == 2 else "atom", "hash": rnd.randrange(16),
                                     "forever": rnd.random() < 0.3, "critical": rnd.random() < 0.5,
                                     "label": random_label(rnd)})
                    cases.append({"recipe": {"jobs": jobs, "members": {"0": [1, 2, 3], "2": inner},
                                             "edges": outer + ie, "root": 0}})
    return cases


def witness_d7():
    jobs = [{"kind": "sched", "hash": 0, "forever": False, "critical": False, "label": "t"},
            {"kind": "sched", "hash": 1, "forever": False, "critical": False, "label": "e"},
            {"kind": "atom", "hash": 2, "forever": False, "critical": False, "label": "j"}]
    return {"recipe": {"jobs": jobs, "members": {"0": [1, 2], "1": []}, "edges": [[2, 1]], "root": 0}}


DOT = shutil.which("dot")


def dot_canon_ok(data):
    try:
        r = subprocess.run([DOT, "-Tcanon"], input=data, capture_output=True, timeout=20)
    except Exception:        # noqa
        return False
    return r.returncode == 0 and not r.stderr.strip()


class C20(Prop):
    pid = "C20"
    rule = ("scheduler trees to depth 3 (Scheduler or PureScheduler root): systematic family root{a,S,b} with S "
            "holding 0..3 atoms under every edge set and order, random closed trees (<=16 jobs, empty nested "
            "schedulers with and without requirements, a DAG at each level, edges to and from nested schedulers), "
            "occasional trees with 100-140 jobs (3-digit ids), labels over quotes, newlines, DOT punctuation, "
            "keywords and non-ASCII text (no backslash), None and empty labels, all critical/forever flags, "
            "random set orders via __hash__; dot_format() compared byte for byte with the model and judged by the "
            "extracted parser against the abstract graph; list() compared on its id/indent columns; "
            "non-trivial = a nested scheduler or an edge or a label with a quote; distinct = distinct recipe "
            "shape, labels and flags")

    def generate(self, tier, rnd):
        cases = [witness_d7()]
        cases += systematic_cases(rnd, (0, 1, 2) if tier == "quick" else (0, 1, 2, 3))
        n = 1500 if tier == "quick" else 120000
        for _ in range(n):
            cases.append({"recipe": random_closed_tree(rnd, rnd.choice([2, 4, 8, 12, 16]))})
        for _ in range(4 if tier == "quick" else 150):
            cases.append({"recipe": random_closed_tree(rnd, 140, p_sched=0.12, p_empty=0.1, hash_range=4096,
                                                       min_jobs=100)})
        for c in cases:
            c["canon"] = False
        if DOT:
            for c in rnd.sample(cases, min(len(cases), 120 if tier == "quick" else 1500)):
                c["canon"] = True
        return cases

    def evaluate(self, cases):
        from asynciojobs import PureScheduler
        queries, obs = [], []
        for c in cases:
            rec = c["recipe"]
            objs = build(rec)
            root = objs[rec["root"]]
            tree, rq, inf = enc_tree(root), enc_rmap(objs), enc_infos(rec)
            o = {"q": len(queries), "dot": None, "dot_exc": None, "list": None, "list_exc": None}
            try:
                s = root.dot_format()
                o["dot"] = s.encode("utf-8")
            except Exception as e:       # noqa
                o["dot_exc"] = "%s: %s" % (type(e).__name__, e)
            try:
                o["list"] = parse_list_records(capture_list(root), objs, root)
            except Exception as e:       # noqa
                o["list_exc"] = "%s: %s" % (type(e).__name__, e)
            base = tree + rq
            queries.append([80] + base + inf)
            queries.append([81] + base + inf + ([0] if o["dot"] is None else [1] + enc_bytes(o["dot"])))
            queries.append([82] + base)
            ll = o["list"]
            queries.append([83] + base + ([0] if ll is None else
                                          [1, len(ll)] + [x for l in ll for x in l[:4]]))
            obs.append(o)
        outs = core.run_driver(queries)
        results = []
        for c, o in zip(cases, obs):
            rec = c["recipe"]
            q = o["q"]
            nested = sum(1 for i, j in enumerate(rec["jobs"]) if j["kind"] != "atom" and i != rec["root"])
            empties = sum(1 for i, j in enumerate(rec["jobs"])
                          if j["kind"] != "atom" and i != rec["root"] and not rec["members"].get(str(i)))
            quoted = any('"' in (j.get("label") or "") for j in rec["jobs"])
            res = {"status": "ok", "detail": None, "tags": {}, "nontrivial": None,
                   "model_cases": [(queries[q + i], outs[q + i]) for i in range(4)]}
            res["tags"] = {"jobs": min(len(rec["jobs"]), 20) if len(rec["jobs"]) < 100 else "100+",
                           "edges": min(len(rec["edges"]), 12), "nested": nested, "empty_nested": empties,
                           "raised": bool(o["dot_exc"]), "d7_class": d7_class(rec)}
            if nested or rec["edges"] or quoted:
                res["nontrivial"] = (shape_key(rec), tuple(j.get("label") for j in rec["jobs"]))
            problems = []
            m80, m81, m82, m83 = outs[q], outs[q + 1], outs[q + 2], outs[q + 3]
            # ---- dot_format
            if m80[0] != 1 or m81[0] != 1:
                problems.append(("mismatch", "model could not decode the case"))
            elif o["dot_exc"] is not None:
                valerr = o["dot_exc"].startswith("ValueError: no e")
                if m80[1] in (2, 3) and valerr:
                    res["signature"] = D7_SIGNATURE if d7_class(rec) else None
                    problems.append(("specfail", {"what": "dot_format() raised on an acyclic closed tree",
                                                  "exc": o["dot_exc"], "d7_class": d7_class(rec)}))
                elif m80[1] == 0:
                    problems.append(("specfail", {"what": "dot_format() raised, the model exports a graph",
                                                  "exc": o["dot_exc"]}))
                else:
                    problems.append(("mismatch", {"what": "dot_format() raised differently from the model",
                                                  "exc": o["dot_exc"], "model": m80[1]}))
            else:
                if m81[1:] != [1, 1]:
                    problems.append(("specfail", {
                        "what": "dot_format() output %s" % ("does not describe the tree (parsed graph differs from the abstract graph)"
                                                          if m81[2:] == [1] else "is not in the DOT subset grammar"),
                        "output": o["dot"].decode("utf-8")[:1500]}))
                if m80[1] != 0:
                    problems.append(("mismatch", {"what": "model raises, dot_format() does not", "model": m80[1]}))
                elif bytes(m80[3:3 + m80[2]]) != o["dot"]:
                    mb = bytes(m80[3:3 + m80[2]])
                    k = next((i for i, (x, y) in enumerate(zip(mb, o["dot"])) if x != y), min(len(mb), len(o["dot"])))
                    problems.append(("mismatch", {"what": "dot_format() bytes differ from the model's", "at": k,
                                                  "impl": o["dot"][max(0, k - 40):k + 40].decode("utf-8", "replace"),
                                                  "model": mb[max(0, k - 40):k + 40].decode("utf-8", "replace")}))
                if c.get("canon") and DOT:
                    res["tags"]["dot_Tcanon"] = "accepted" if dot_canon_ok(o["dot"]) else "rejected"
            # ---- list()
            if o["list_exc"] is not None:
                problems.append(("specfail", {"what": "list() failed or printed an unreadable line",
                                              "exc": o["list_exc"]}))
            elif m82[0] != 1 or m82[1] != 1:
                problems.append(("mismatch", {"what": "list(): model raises, implementation does not"}))
            else:
                n = m82[2]
                ml = [m82[3 + 4 * i:7 + 4 * i] for i in range(n)]
                il = [l[:4] for l in o["list"]]
                if m83 != [1, 1]:
                    problems.append(("specfail", {"what": "list() does not show every job once, numbered in topological order",
                                                  "lines": il[:60]}))
                if ml != il:
                    problems.append(("mismatch", {"what": "list() lines differ from the model's (kind, job, id, depth)",
                                                  "impl": il[:60], "model": ml[:60]}))
                # cosmetic: the width is computed from total-1 while ids run 1..total, so with exactly
                # 10 / 100 / 1000 jobs the last id is one character wider (the model reproduces it)
                if len({len(l[4]) for l in o["list"]}) > 1:
                    res["tags"]["id_width_not_uniform"] = len(rec["jobs"]) - 1
            for kind in ("specfail", "mismatch"):
                ps = [p for p in problems if p[0] == kind]
                if ps:
                    res.update(status=kind, detail=ps[0][1])
                    break
            if res["status"] != "specfail":
                res.pop("signature", None)
            results.append(res)
        return results

    def known_finding(self, case, res):
        if res.get("signature") == D7_SIGNATURE and res["status"] == "specfail":
            return core.listed_finding("C20", D7_SIGNATURE)
        return None

    def shrink_candidates(self, case):
        rec = case["recipe"]
        # drop an edge
        for i in range(len(rec["edges"])):
            r2 = dict(rec, edges=rec["edges"][:i] + rec["edges"][i + 1:])
            yield dict(case, recipe=r2)
        # drop a job (atoms, or schedulers that are empty), renumbering
        n = len(rec["jobs"])
        for x in range(n - 1, -1, -1):
            if x == rec["root"] or rec["members"].get(str(x)):
                continue
            ren = lambda y: y - 1 if y > x else y        # noqa
            jobs = rec["jobs"][:x] + rec["jobs"][x + 1:]
            members = {str(ren(int(s))): [ren(m) for m in ms if m != x]
                       for s, ms in rec["members"].items() if int(s) != x}
            edges = [[ren(a), ren(b)] for a, b in rec["edges"] if a != x and b != x]
            yield dict(case, recipe={"jobs": jobs, "members": members, "edges": edges, "root": ren(rec["root"])})
        # simplify labels and flags
        for x in range(n):
            j = rec["jobs"][x]
            for key, val in (("label", None), ("forever", False), ("critical", False)):
                if j.get(key) not in (val,):
                    jobs = list(rec["jobs"])
                    jobs[x] = dict(j, **{key: val})
                    yield dict(case, recipe=dict(rec, jobs=jobs))
            if j.get("label") and len(j["label"]) > 1:
                for lab in (j["label"][:len(j["label"]) // 2], j["label"][len(j["label"]) // 2:]):
                    jobs = list(rec["jobs"])
                    jobs[x] = dict(j, label=lab)
                    yield dict(case, recipe=dict(rec, jobs=jobs))
