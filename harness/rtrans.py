"""Raw history (harness/robserve.py) -> model events (coq/Run/RModel.v) -> integers
(coq/Extract/RCases.v).  Every atomic step of a coroutine starts with a non-output entry; the
output entries that follow it (tasks created, asyncio.wait calls, verdicts) are attached to it."""

BAD = 99999

WK = {"main": 0, "tidy": 1, "ctidy": 2, "shut": 3, "shtidy": 4}
SDRES = {"true": 0, "false": 1, "none": 2, "cancelled": 3}


def _num(x):
    """times are integer-valued floats"""
    if x is None:
        return None
    if isinstance(x, (int, float)) and float(x).is_integer():
        return max(0, int(x))
    return BAD


def enc_opt(x):
    return [0] if x is None else [1, x]


def enc_nats(l):
    # ids the harness could not attribute to a job (-1) become the sentinel BAD, never a negative
    return [len(l)] + [x if isinstance(x, int) and x >= 0 else BAD for x in l]


def enc_cfg(cfg):
    out = [1 if cfg.get("pure_root") else 0, len(cfg["jobs"])]
    for j in cfg["jobs"]:
        out += [j["parent"], int(j["sched"]), int(j["crit"]), int(j["forever"])]
        out += enc_nats(j["reqs"])
        if j["sched"]:
            out += [0, 0, 0, 0]
            out += [j["window"] or 0] + enc_opt(j["timeout"]) + enc_opt(j["sdto"])
        else:
            out += enc_opt(j["dur"]) + [1 if j["out"] == "exc" else 0, j["cdur"]] + enc_opt(j["sdur"])
            out += [0, 0, 0]
    return out


def enc_verdict(kind, tag=0):
    return {"true": [0, 0], "false": [1, 0], "raise": [2, tag], "cancelled": [3, 0]}.get(kind, [2, BAD])


def is_output(e):
    return e[0] in ("create", "waitcall", "end", "sdend") or (e[0] == "sdbegin" and e[2] == "inline")


def enc_output(e):
    k = e[0]
    if k == "create":
        return [1 if e[1] == "body" else 2, e[2]]
    if k == "sdbegin":
        return [3, e[1], 1 if e[2] == "inline" else 0]
    if k == "waitcall":
        return [4, e[1], WK.get(e[2], 9)] + enc_nats(e[3]) + enc_opt(_num(e[4]))
    if k == "sdend":
        return [5, e[1], SDRES.get(e[2], 9)]
    if k == "end":
        return [6, e[1]] + enc_verdict(e[2], e[3] if len(e) > 3 else 0)
    raise ValueError(e)


def translate(log):
    """-> (list of events, notes).  An event is (readable tuple, encoded ints)."""
    events = []
    notes = {"after_root": 0, "grace_left": None, "late": None, "orphan_events": []}
    started, hstarted = set(), set()
    i, n = 0, len(log)
    root_done = False
    in_late = False

    def collect(i):
        outs = []
        while i < n and is_output(log[i]):
            outs.append(log[i])
            i += 1
        return outs, i

    def enc_outs(outs):
        r = [len(outs)]
        for o in outs:
            r += enc_output(o)
        return r

    while i < n:
        e = log[i]
        k = e[0]
        i += 1
        ev = None
        if k == "begin":
            started.add(e[1])
            outs, i = collect(i)
            ev = (("EBegin", e[1], outs), [1, e[1]] + enc_outs(outs))
        elif k == "waitret":
            s, kind, done, pending = e[1], e[2], e[3], e[4]
            outs, i = collect(i)
            d = done if kind == "main" else pending if kind == "shut" else []
            ev = (("EWake", s, kind, d, outs), [2, s, WK.get(kind, 9)] + enc_nats(d) + enc_outs(outs))
        elif k == "waitcancel":
            outs, i = collect(i)
            ev = (("ECancelled", e[1], e[2], outs), [3, e[1], WK.get(e[2], 9)] + enc_outs(outs))
        elif k == "sdbegin":          # task role (inline ones are outputs)
            hstarted.add(e[1])
            outs, i = collect(i)
            outs = [e] + outs
            ev = (("ESdStart", e[1], outs), [4, e[1]] + enc_outs(outs))
        elif k == "start":
            started.add(e[1])
            ev = (("EStart", e[1]), [5, e[1]])
        elif k == "finish":
            ev = (("EFinish", e[1], e[2]), [6, e[1], 1 if e[2] == "exc" else 0])
        elif k == "chit":
            ev = (("ECancelHit", e[1]), [7, e[1]])
        elif k == "cend":
            ev = (("ECancelEnd", e[1]), [8, e[1]])
        elif k == "cabort":
            ev = (("ECancelAbort", e[1]), [9, e[1]])
        elif k == "taskcancelled":
            if e[1] == "body" and e[2] not in started:
                ev = (("EGone", e[2]), [10, e[2]])
            elif e[1] == "shut" and e[2] not in hstarted:
                ev = (("EHGone", e[2]), [14, e[2]])
        elif k == "hstart":
            hstarted.add(e[1])
            ev = (("EHStart", e[1]), [11, e[1]])
        elif k == "hend":
            ev = (("EHEnd", e[1]), [12, e[1]])
        elif k == "hcancel":
            ev = (("EHCancel", e[1]), [13, e[1]])
        elif k == "tick":
            ev = (("ETick", e[1]), [15, _num(e[1])])
        elif k == "gracetick":
            ev = (("EGrace", e[1]), [16, _num(e[1])])
        elif k == "latetick":
            notes["orphan_events"].append(e)
        elif k == "poll":
            jv, sv = e[1], e[2]
            enc = [17, len(jv)]
            for v in jv:
                enc += [v[0], v[1], v[2], v[3], v[4], v[5] if v[5] >= 0 else BAD, v[6] if v[6] >= 0 else BAD]
            enc.append(len(sv))
            for v in sv:
                enc += [v[0], v[1], v[2]]
            ev = (("EPoll", jv, sv), enc)
        elif k == "rootdone":
            root_done = True
            notes["outcome"] = list(e[1:])
        elif k == "graceend":
            notes["grace_left"] = [e[1], e[2]]
            in_late = True
        elif k == "grace-deadlock":
            pass
        elif k == "lateshutdown":
            notes["late"] = e[1]
        elif k == "create":
            # only the task of the late explicit shutdown of the root starts a step with 'create'
            if not (in_late and e[1] == "shut" and e[2] == 0):
                notes["orphan_events"].append(e)
        else:
            notes["orphan_events"].append(e)
        if ev is not None:
            events.append(ev)
            if root_done and not in_late and ev[0][0] not in ("EPoll", "EGrace"):
                notes["after_root"] += 1
                notes["orphan_events"].append(ev[0])
    return events, notes


def enc_history(events):
    out = [len(events)]
    for _, enc in events:
        # never a negative number in a case (ids the harness could not attribute are -1)
        out += [x if not (isinstance(x, int) and x < 0) else BAD for x in enc]
    return out


def enc_case(cfg, events):
    return [100] + enc_cfg(cfg) + enc_history(events)
