"""C06: containment of non-critical failures, as a relation between two runs.

For a configuration c and a set F of non-critical atomic jobs, c' = c with the outcome (return /
raise) of the jobs of F switched.  Theorem flip_accept_iff (coq/Run/RFlip.v): the model accepts a
history h for c iff it accepts flip_ev F h for c', where flip_ev only switches the outcome of the
EFinish events of F and the corresponding fields of the polled views.  This check runs the
implementation on c and on c' under the virtual-time loop and requires
  (1) the model to accept the recorded history h of c (levels 0..2),
  (2) the model to accept the switched history flip(h) for c' (that the python switch below is
      the model's flip_ev is thereby checked: any other change is rejected by the outcome guard or
      by the poll guard),
  (3) the recorded history of c' to BE flip(h): same events, same instants, same lists, same
      verdicts, same results and exception identities (specfail otherwise: a concrete pair of runs
      that differ by more than the switched outcome).
"""
import copy
import multiprocessing
import os

from . import core
from . import rgen
from .props_r import RProp, drop_job


def flip_cfg(cfg):
    c2 = copy.deepcopy(cfg)
    for j in cfg["flip"]:
        c2["jobs"][j]["out"] = "ret" if cfg["jobs"][j]["out"] == "exc" else "exc"
    return c2


def flip_log(log, F):
    out = []
    for e in log:
        if e[0] == "finish" and e[1] in F:
            e = (e[0], e[1], "ret" if e[2] == "exc" else "exc") + tuple(e[3:])
        elif e[0] == "poll":
            jv = []
            for v in e[1]:
                v = list(v)
                if v[0] in F and v[4]:
                    if v[5] == 1 and v[6] == 0:
                        v[5], v[6] = 0, 2 * v[0] + 1
                    elif v[5] == 0 and v[6] == 2 * v[0] + 1:
                        v[5], v[6] = 1, 0
                jv.append(v)
            e = (e[0], jv) + tuple(e[2:])
        out.append(e)
    return out


def canon(x):
    """events as comparable values: lists whose order is a set iteration order are sorted"""
    if isinstance(x, (list, tuple)):
        y = [canon(i) for i in x]
        if y and all(isinstance(i, int) for i in y):
            return tuple(sorted(y))
        return tuple(y)
    return x


def _run_pair(cfg):
    from .robserve import run_config
    from .rtrans import translate, enc_cfg, enc_history
    F = set(cfg["flip"])
    c2 = flip_cfg(cfg)
    r1 = run_config(cfg)
    r2 = run_config(c2)
    ev1, n1 = translate(r1["log"])
    ev1f, _ = translate(flip_log(r1["log"], F))
    ev2, n2 = translate(r2["log"])
    a = [canon(e[0]) for e in ev1f]
    b = [canon(e[0]) for e in ev2]
    diff = None
    for i in range(max(len(a), len(b))):
        if i >= len(a) or i >= len(b) or a[i] != b[i]:
            diff = {"event_index": i,
                    "expected (run of c, outcome switched)": ev1f[i][0] if i < len(ev1f) else None,
                    "observed (run of c')": ev2[i][0] if i < len(ev2) else None,
                    "context": [e[0] for e in ev2[max(0, i - 6): i]]}
            break
    return {"q1": [100] + enc_cfg(cfg) + enc_history(ev1), "q2": [100] + enc_cfg(c2) + enc_history(ev1f),
            "diff": diff, "notes": n1, "notes2": n2, "nev": len(ev1),
            "nfin": sum(1 for e in ev1 if e[0][0] == "EFinish" and e[0][1] in F)}


_POOL = None


class C06(RProp):
    def generate(self, tier, rnd):
        n = 1000 if tier == "quick" else 100000
        out = []
        if tier != "quick":
            for cfg in rgen.enumerate_small():
                cfg["flip"] = [i for i, j in enumerate(cfg["jobs"]) if i and not j["sched"] and not j["crit"]]
                if cfg["flip"]:
                    out.append(cfg)
        n += len(out)
        while len(out) < n:
            mj = rnd.choice([3, 5, 8, self.max_jobs, self.max_jobs])
            cfg = rgen.gen_config(rnd, max_jobs=mj, profile=self.profile)
            cand = [i for i, j in enumerate(cfg["jobs"]) if i and not j["sched"] and not j["crit"]]
            if not cand:
                cfg["flip"] = []
            else:
                k = rnd.choice([1, 1, 2, 3, len(cand)])
                cfg["flip"] = sorted(rnd.sample(cand, min(k, len(cand))))
            out.append(cfg)
        return out

    def evaluate(self, cases):
        global _POOL
        if len(cases) < 64:
            runs = [_run_pair(c) for c in cases]
        else:
            if _POOL is None:
                _POOL = multiprocessing.get_context("fork").Pool(min(16, os.cpu_count() or 4))
            runs = _POOL.map(_run_pair, cases, chunksize=16)
        q = []
        for r in runs:
            q += [r["q1"], r["q2"]]
        outs = core.run_driver(q)
        results = []
        for k, (cfg, r) in enumerate(zip(cases, runs)):
            o1, o2 = outs[2 * k], outs[2 * k + 1]
            jobs = cfg["jobs"]
            oc = (r["notes"].get("outcome") or ["?"])[0]
            res = {"status": "ok", "detail": None, "model_cases": [(q[2 * k], o1), (q[2 * k + 1], o2)],
                   "tags": {"jobs": len(jobs) - 1, "outcome": oc, "flipped": len(cfg["flip"]),
                            "flipped_that_finished": r["nfin"],
                            "windows": sum(1 for j in jobs if j["sched"] and j["window"]),
                            "depth": max(self._depth(cfg, i) for i in range(len(jobs)))},
                   "nontrivial": rgen.cfg_key(cfg) + (tuple(cfg["flip"]),) if r["nfin"] else None, "traces": 2}
            problems = []
            for name, o in (("history of c", o1), ("switched history for c'", o2)):
                if not o or o[0] != 1:
                    problems.append(("mismatch", "model could not decode the %s" % name))
                    continue
                if o[1] != 1:
                    problems.append(("mismatch", "configuration is not well-formed for the model"))
                lv = [o[2 + 4 * i: 6 + 4 * i] for i in range(4)]
                for i in range(self.level + 1):
                    if lv[i][0] != 1:
                        problems.append(("mismatch", {"what": "%s rejected by the model" % name, "level": i,
                                                      "event_index": lv[i][1], "guard_code": lv[i][2]}))
                        break
            if r["diff"] is not None:
                d = dict(r["diff"])
                d["what"] = "the run of c' differs from the run of c by more than the switched outcome of jobs %s" % cfg["flip"]
                problems.append(("specfail", d))
            for kind in ("specfail", "mismatch"):
                ps = [p for p in problems if p[0] == kind]
                if ps:
                    res.update(status=kind, detail=ps[0][1])
                    break
            results.append(res)
        return results

    def shrink_candidates(self, case):
        F = set(case["flip"])
        n = len(case["jobs"])
        for i in range(n - 1, 0, -1):
            if i in F:
                continue
            c2 = drop_job(case, i)
            if c2 is not None:
                c2["flip"] = sorted(x - 1 if x > i else x for x in F)
                yield c2
        if len(F) > 1:
            for x in sorted(F):
                c2 = copy.deepcopy(case)
                c2["flip"] = sorted(F - {x})
                yield c2
        for c2 in RProp.shrink_candidates(self, case):
            if "flip" in c2 and all(x < len(c2["jobs"]) for x in c2["flip"]) and len(c2["jobs"]) == n:
                yield c2


PROPS = {
    "C06": C06("C06", 2, [], profile={"exc": 0.5, "crit": 0.25, "window": 0.55, "nested": 0.35, "edge": 0.55, "tie": 0.5,
                                      "timeout": 0.4, "never": 0.08},
               rule="C06: metamorphic pairs. Each configuration is run twice on the implementation under the virtual-time "
                    "loop: as generated, and with the outcome (return/raise) of a random non-empty set of non-critical "
                    "atomic jobs switched. The second history must equal the first one event for event (starts, wakes with "
                    "their reported and pending sets, asyncio.wait timeouts, clock jumps, verdicts, results, exception "
                    "identities, handler events, polled predicates of every job) except for the switched outcome itself; "
                    "the model must accept the first history and its switched image (theorem flip_accept_iff). "
                    "Non-trivial = at least one switched job actually finished.", max_jobs=12),
}
