"""Core machinery shared by all checks: build, proof obligations, extracted driver, in-Coq
cross-check, verdict, evidence.  Run with /venv/bin/python; the implementation under test is
imported from VERIF_REPO (default /repo), never from an installed copy."""
import hashlib
import json
import os
import re
import shutil
import subprocess
import sys
import tempfile
import time

VERIF = os.path.dirname(os.path.dirname(os.path.abspath(__file__)))
REPO = os.environ.get("VERIF_REPO", "/repo")
COQ = os.path.join(VERIF, "coq")
BUILD = os.path.join(VERIF, "build")
DRIVER = os.path.join(BUILD, "driver")
EVIDENCE = os.environ.get("VERIF_EVIDENCE") or (os.path.join(VERIF, "evidence") if REPO == "/repo" else "/tmp/verif-evidence-scratch")
REPLAYS = os.environ.get("VERIF_REPLAYS") or (os.path.join(VERIF, "replays") if REPO == "/repo" else "/tmp/verif-replays-scratch")

ALLOWED_AXIOMS = {
    # standard-library axioms that a library may bring in; each use is named in the evidence
    "functional_extensionality_dep", "proof_irrelevance", "classic", "JMeq_eq", "Eq_rect_eq.eq_rect_eq",
    "Eqdep.Eq_rect_eq.eq_rect_eq",
}

TRUSTED_BASE = [
    "Coq 8.16.1 kernel (coqc, full .vo build; vm_compute in Examples and in the driver cross-check; no native_compute)",
    "axioms: none declared; every property theorem is checked with Print Assumptions on each run",
    "extraction: ExtrOcamlBasic only (bool, option, unit, list, prod, sumbool, sumor; andb/orb inlined); nat/N/positive stay Coq inductives; OCaml 4.13.1",
    "ocaml/driver.ml: int<->N conversion and line I/O only, cross-checked against vm_compute on a sample of this run's cases",
    "hand-written Gallina models tied to the implementation by the correspondence runs counted in this file (sampling)",
    "harness: virtual-time event loop, job subclasses, asyncio.wait/task-factory interposition, __hash__ control of set order",
    "CPython 3.12 asyncio semantics (wait, gather on done futures, Task.cancel, Queue) are modelled, not verified",
]


def trusted_base_for(oblig):
    used = sorted({a for t in oblig.get("theorems", []) for a in t.get("axioms", [])})
    tb = list(TRUSTED_BASE)
    if used:
        tb[1] = ("axioms: none declared by this development; the theorems of this property depend on the "
                 "standard-library axiom(s) %s (reported by Print Assumptions on this run)" % ", ".join(used))
    return tb


def setup_impl_path():
    """Make sure `import asynciojobs` resolves to the working tree under test."""
    if sys.path[0] != REPO:
        sys.path.insert(0, REPO)
    for k in list(sys.modules):
        if k == "asynciojobs" or k.startswith("asynciojobs."):
            del sys.modules[k]
    import asynciojobs  # noqa
    got = os.path.dirname(os.path.dirname(os.path.abspath(asynciojobs.__file__)))
    if os.path.realpath(got) != os.path.realpath(REPO):
        raise RuntimeError("asynciojobs imported from %s, expected %s" % (got, REPO))


# --------------------------------------------------------------------------- build

def ensure_build(log):
    """(Re)build the Coq development and the driver if anything is out of date.
    Returns (ok, message)."""
    import fcntl
    lock = open(os.path.join(VERIF, ".build.lock"), "w")
    fcntl.flock(lock, fcntl.LOCK_EX)
    try:
        r = subprocess.run(["sh", os.path.join(VERIF, "build.sh")], capture_output=True, text=True,
                           timeout=3400)
    except subprocess.TimeoutExpired:
        return False, "build timed out"
    finally:
        fcntl.flock(lock, fcntl.LOCK_UN)
        lock.close()
    if r.returncode != 0 or not os.path.exists(DRIVER):
        return False, "build failed:\n" + (r.stdout + r.stderr)[-3000:]
    return True, "ok"


_COMMENT = re.compile(r"\(\*.*?\*\)", re.S)
_FORBIDDEN = re.compile(
    r"\b(Admitted|admit|Axiom|Axioms|Parameter|Parameters|Conjecture|Conjectures|Admit\s+Obligations)\b"
    r"|Unset\s+Guard|Unset\s+Positivity|Unset\s+Universe|bypass_check|type-in-type|impredicative-set"
    r"|native_compute")


def strip_comments(s):
    # nested comments: strip repeatedly from the inside
    prev = None
    while prev != s:
        prev = s
        s = re.sub(r"\(\*(?:(?!\(\*|\*\)).)*\*\)", " ", s, flags=re.S)
    return s


def source_scan():
    """Reject forbidden constructs anywhere in the development. Returns list of offences."""
    bad = []
    for root, _, files in os.walk(COQ):
        for f in files:
            if not f.endswith(".v"):
                continue
            p = os.path.join(root, f)
            txt = strip_comments(open(p).read())
            for m in _FORBIDDEN.finditer(txt):
                bad.append("%s: %s" % (os.path.relpath(p, VERIF), m.group(0)))
            # Variable/Hypothesis outside a section declare axioms
            depth = 0
            for line in txt.split("\n"):
                ls = line.strip()
                if re.match(r"Section\s+\w+", ls):
                    depth += 1
                elif re.match(r"End\s+\w+\s*\.", ls) and depth > 0:
                    depth -= 1
                elif depth == 0 and re.match(r"(Variable|Variables|Hypothesis|Hypotheses|Context)\b", ls):
                    bad.append("%s: %s outside a section" % (os.path.relpath(p, VERIF), ls[:40]))
    for f in ("_CoqProject",):
        txt = open(os.path.join(COQ, f)).read()
        if re.search(r"type-in-type|impredicative-set|-vos|-vok", txt):
            bad.append("_CoqProject: forbidden flag")
    return bad


def _norm(s):
    return re.sub(r"\s+", " ", s).strip()


def load_obligations():
    return json.load(open(os.path.join(COQ, "obligations.json")))


def coq_statements(pid, names, tmp):
    """Return {name: (statement, assumptions-text)} as printed by Coq for Props/<pid>.v."""
    src = ["From AJ Require Import Props.%s." % pid]
    for n in names:
        src.append('Goal True. idtac "@@BEGIN %s". Abort.' % n)
        src.append("Check %s." % n)
        src.append('Goal True. idtac "@@ASSUME %s". Abort.' % n)
        src.append("Print Assumptions %s." % n)
        src.append('Goal True. idtac "@@END %s". Abort.' % n)
    path = os.path.join(tmp, "Ob_%s.v" % pid)
    open(path, "w").write("\n".join(src) + "\n")
    r = subprocess.run(["coqc", "-Q", COQ, "AJ", path], capture_output=True, text=True, timeout=600)
    out = r.stdout
    res = {}
    if r.returncode != 0:
        return None, (r.stdout + r.stderr)[-2000:]
    for n in names:
        m = re.search(r"@@BEGIN %s\n(.*?)@@ASSUME %s\n(.*?)@@END %s" % (n, n, n), out, re.S)
        if not m:
            return None, "no output for %s" % n
        raw = m.group(2)
        # axiom names: the lines of the "Axioms:" listing that start in column 0
        axioms = [l.split(":")[0].strip() for l in raw.split("\n")
                  if l and not l[0].isspace() and not l.startswith("Axioms") and not l.startswith("Closed under")]
        res[n] = (_norm(m.group(1)), _norm(raw), axioms)
    return res, ""


def check_obligations(pid, tmp):
    """Fail-closed check of the theorems listed for pid. Returns dict."""
    obl = load_obligations().get(pid)
    out = {"obligations": 0, "discharged": 0, "theorems": [], "problems": []}
    if not obl:
        out["problems"].append("no obligations listed for %s" % pid)
        return out
    names = [t["name"] for t in obl["theorems"]]
    out["obligations"] = len(names)
    res, err = coq_statements(pid, names, tmp)
    if res is None:
        out["problems"].append("Props/%s.v does not check: %s" % (pid, err))
        return out
    for t in obl["theorems"]:
        n = t["name"]
        stmt, assum, axioms = res[n]
        entry = {"name": n, "assumptions": assum}
        ok = True
        if _norm(t["statement"]) != stmt:
            ok = False
            out["problems"].append("statement of %s differs from the recorded one" % n)
        if assum != "Closed under the global context":
            extra = [a for a in axioms if a.split(".")[-1] not in {x.split(".")[-1] for x in ALLOWED_AXIOMS}]
            entry["axioms"] = axioms
            if extra or not axioms:
                ok = False
                out["problems"].append("%s depends on %s" % (n, assum[:200]))
        entry["ok"] = ok
        out["theorems"].append(entry)
        if ok:
            out["discharged"] += 1
    return out


# --------------------------------------------------------------------------- model evaluation

CASE_LIMIT = 120000


def _big_stack():
    """Raise the soft stack limit of THIS process to the hard limit; child processes (the extracted
    driver, whose recursive functions are not all tail-recursive) inherit it.  Done once, in the
    parent: a preexec_fn would run Python code between fork and exec in a process that has pool
    threads, which can deadlock on the import lock."""
    try:
        import resource
        soft, hard = resource.getrlimit(resource.RLIMIT_STACK)
        if soft != hard:
            resource.setrlimit(resource.RLIMIT_STACK, (hard, hard))
    except (ValueError, OSError, ImportError):
        pass


_big_stack()


def _run_driver_once(cases):
    data = "\n".join(" ".join(map(str, c)) for c in cases) + "\n"
    try:
        # the extracted model is linear in the size of a case; a run-away evaluation (unary numbers
        # built from an absurd value recorded on a changed implementation, say) is cut short and the
        # case isolated by bisection: bounded time and 6 GB of address space
        limit = max(30, int(0.15 * len(cases)))
        r = subprocess.run(["sh", "-c", "ulimit -v 6000000; exec \"$0\"", DRIVER], input=data, capture_output=True,
                           text=True, timeout=limit)
    except subprocess.TimeoutExpired:
        return None
    if r.returncode != 0:
        return None
    lines = r.stdout.split("\n")
    if lines and lines[-1] == "":
        lines.pop()
    if len(lines) != len(cases):
        return None
    try:
        return [[int(x) for x in l.split()] for l in lines]
    except ValueError:
        return None


def run_driver(cases):
    """cases: list of lists of ints. Returns list of lists of ints.  A case on which the extracted
    model cannot be evaluated (stack exhaustion on an absurdly long input, say) yields [0], which
    every property reads as 'not decodable' = a correspondence break for that case; the other
    cases are still evaluated."""
    if not cases:
        return []
    if any(len(c) > CASE_LIMIT for c in cases):
        # an implementation output far beyond anything the model can produce for these inputs
        res = [None if len(c) <= CASE_LIMIT else [0] for c in cases]
        rest = run_driver([c for c in cases if len(c) <= CASE_LIMIT])
        it = iter(rest)
        return [r if r is not None else next(it) for r in res]
    out = _run_driver_once(cases)
    if out is not None:
        return out
    if len(cases) == 1:
        return [[0]]
    mid = len(cases) // 2
    return run_driver(cases[:mid]) + run_driver(cases[mid:])


def coq_eval(cases, tmp, tag="x"):
    """Evaluate run_case inside Coq with vm_compute on the given cases."""
    if not cases:
        return []
    body = "; ".join("[" + "; ".join(map(str, c)) + "]" for c in cases)
    src = ("From AJ Require Import Extract.Cases.\nFrom Coq Require Import NArith List.\n"
           "Import ListNotations.\nLocal Open Scope N_scope.\n"
           "Eval vm_compute in (map run_case [%s])." % body)
    path = os.path.join(tmp, "cases_%s.v" % tag)
    open(path, "w").write(src)
    r = subprocess.run(["coqc", "-Q", COQ, "AJ", path], capture_output=True, text=True, timeout=900)
    if r.returncode != 0:
        raise RuntimeError("coqc on cases failed: " + (r.stdout + r.stderr)[-800:])
    txt = r.stdout
    i = txt.index("=")
    j = txt.rindex(": list")
    txt = txt[i + 1:j]
    res, cur, num, depth = [], None, "", 0
    for ch in txt:
        if ch == "[":
            depth += 1
            if depth == 2:
                cur = []
        elif ch == "]":
            if num and cur is not None:
                cur.append(int(num))
            num = ""
            if depth == 2:
                res.append(cur)
                cur = None
            depth -= 1
        elif ch.isdigit():
            num += ch
        else:
            if num and cur is not None:
                cur.append(int(num))
            num = ""
    return res


def crosscheck(cases, outputs, tmp, k=40, seed=0):
    """Evaluate a sample of the cases in Coq and compare with the driver's outputs."""
    import random
    rnd = random.Random(seed)
    idx = list(range(len(cases)))
    rnd.shuffle(idx)
    # keep literals small: vm_compute files with huge literals are slow
    idx = [i for i in idx if len(cases[i]) < 4000][:k]
    got = coq_eval([cases[i] for i in idx], tmp)
    bad = [i for i, g in zip(idx, got) if g != outputs[i]]
    return {"sampled": len(idx), "disagreements": len(bad), "first": bad[:1]}


# --------------------------------------------------------------------------- verdict & evidence

class Outcome:
    """Accumulates what a property run found."""

    def __init__(self, pid):
        self.pid = pid
        self.evaluations = 0
        self.nontrivial = set()
        self.samples = []
        self.dist = {}
        self.spec_failures = []      # concrete inputs on which the property statement fails on the impl
        self.mismatches = []         # model and implementation disagree (correspondence broken)
        self.known = []              # failures that match a known finding
        self.notes = []
        self.model_cases = []        # (case ints, driver output) for the cross-check
        self.traces = 0
        self.extra = {}

    def count(self, key, sub):
        d = self.dist.setdefault(key, {})
        d[str(sub)] = d.get(str(sub), 0) + 1

    def sample(self, s, limit=4):
        if len(self.samples) < limit:
            self.samples.append(s)


def load_known_findings():
    p = os.path.join(VERIF, "known_findings.json")
    if os.path.exists(p):
        return json.load(open(p))
    return {"findings": [], "fixed": []}


def listed_finding(pid, signature):
    """text of the finding of property pid with this signature if known_findings.json lists it (a
    failure is only ever suppressed by an entry of that committed file), else None"""
    for f in load_known_findings().get("findings", []):
        if f.get("property") == pid and f.get("signature") == signature:
            return f.get("text") or signature
    return None


def write_replay(pid, seed, n, payload):
    os.makedirs(REPLAYS, exist_ok=True)
    path = os.path.join(REPLAYS, "%s-%s-%d.json" % (pid, seed, n))
    json.dump(payload, open(path, "w"), indent=1, sort_keys=True, default=str)
    return path


def finish(pid, tier, seed, t0, oblig, scan, build_msg, out, xcheck, level_rule):
    """Print the verdict lines, write evidence, return the exit code."""
    violations = 0
    lines = []
    proof_broken = bool(oblig["problems"]) or bool(scan) or build_msg != "ok" \
        or oblig["obligations"] == 0 or oblig["obligations"] != oblig["discharged"]
    corr_broken = bool(out.mismatches) or (xcheck and xcheck.get("disagreements", 0) > 0)
    for kf in out.known:
        lines.append("KNOWN-FINDING: property=%s %s" % (pid, kf))
    n = 0
    if out.spec_failures:
        f = out.spec_failures[0]
        path = write_replay(pid, seed, n, {"property": pid, "kind": "property-fails-on-implementation",
                                          "case": f, "others": len(out.spec_failures) - 1})
        lines.append("VIOLATION property=%s replay=%s" % (pid, path))
        violations += 1
    elif proof_broken or corr_broken:
        what = {"property": pid, "kind": "no-longer-shown",
                "proof_problems": oblig["problems"], "source_scan": scan, "build": build_msg,
                "crosscheck": xcheck,
                "first_mismatch": out.mismatches[0] if out.mismatches else None,
                "mismatches": len(out.mismatches)}
        path = write_replay(pid, seed, n, what)
        lines.append("VIOLATION property=%s replay=%s no-failing-input-found" % (pid, path))
        violations += 1
    ev = {
        "property_id": pid, "tier": tier, "seed": seed, "level": "proof",
        "coverage": {
            "obligations": oblig["obligations"], "discharged": oblig["discharged"],
            "checker_cmd": "sh build.sh (coq_makefile + make, full .vo) ; coqc -Q coq AJ <generated Check/Print Assumptions file for Props/%s.v>" % pid,
            "trusted_base": trusted_base_for(oblig),
            "theorems": oblig["theorems"],
            "proof_problems": oblig["problems"] + scan + ([] if build_msg == "ok" else [build_msg]),
            "evaluations": out.evaluations,
            "distinct_nontrivial": len(out.nontrivial),
            "rule": level_rule,
            "samples": out.samples,
            "traces_validated_against_impl": out.traces,
            "distribution": out.dist,
            "model_vs_impl_mismatches": len(out.mismatches),
            "property_failures_on_impl": len(out.spec_failures),
            "known_findings_hit": len(out.known),
            "driver_vs_vm_compute": xcheck,
            "notes": out.notes,
        },
        "assumptions": [
            "theorems are about the Gallina model; the tie to the code is the correspondence run counted above",
            "implementation imported from %s (working tree)" % REPO,
        ],
        "wall_s": round(time.time() - t0, 2),
        "violations": violations,
    }
    ev["coverage"].update(out.extra)
    os.makedirs(EVIDENCE, exist_ok=True)
    json.dump(ev, open(os.path.join(EVIDENCE, "%s.json" % pid), "w"), indent=1, default=str)
    for l in lines:
        print(l)
    print("%s %s tier=%s seed=%s evaluations=%d nontrivial=%d obligations=%d/%d mismatches=%d failures=%d wall=%.1fs"
          % ("FAIL" if violations else "OK", pid, tier, seed, out.evaluations, len(out.nontrivial),
             oblig["discharged"], oblig["obligations"], len(out.mismatches), len(out.spec_failures),
             time.time() - t0))
    return 1 if violations else 0


def digest(obj):
    return hashlib.sha1(json.dumps(obj, sort_keys=True, default=str).encode()).hexdigest()[:16]
