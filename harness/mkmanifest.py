"""Writes MANIFEST.json from the table below (kept here so that the manifest stays consistent)."""
import json
import os

VERIF = os.path.dirname(os.path.dirname(os.path.abspath(__file__)))

NOTE_G = ("Trusted: Coq 8.16.1 kernel; the hand-written Gallina model of the graph code (coq/Graph), tied to "
          "/repo by differential execution on every run (sampling: generator coverage is in the evidence); "
          "extraction with ExtrOcamlBasic only + ocaml/driver.ml (cross-checked against vm_compute on every "
          "run); the harness (job subclasses with controlled __hash__). No axioms: every theorem is "
          "'Closed under the global context'.")
NOTE_R = ("Trusted: Coq 8.16.1 kernel; the hand-written run-time transition system (coq/Run), tied to /repo by "
          "replaying recorded implementation histories on the model on every run (sampling); CPython 3.12 "
          "asyncio semantics are modelled, not verified; virtual-time event loop and observation harness; "
          "extraction with ExtrOcamlBasic only + ocaml/driver.ml (cross-checked against vm_compute). No axioms.")

CLAIMED = {
    "C15": dict(tech="Rocq proof (induction on the marking loop, rank-function exactness) + differential execution of the extracted model against /repo",
                text="Theorems C15_terminates/complete/prefix_valid/exact/raises/cycle_detected/nested about the Gallina model of "
                     "topological_order()/check_cycles() hold for all graphs, sizes and iteration orders; the model is compared with the "
                     "implementation on all small digraphs, random trees and edit sequences on every run, and the executable statement "
                     "c15_spec_b (proved of the model) is evaluated on the implementation's own outputs.",
                ref="DESIGN.md §6 C15, §5", note=NOTE_G),
    "C16": dict(tech="Rocq proof (tree induction: the recursion equals a flat fold; exact characterisation) + differential execution against /repo",
                text="Theorems C16_recursion_is_flat/exact/closed/minimal/only_removes/truthful/idempotent hold for every scheduler tree with "
                     "unique jobs and every requirement map; the model is run against sanitize() on random trees with arbitrary edges on "
                     "every run, and c16_spec_b (proved of the model) is evaluated on the implementation's outputs.",
                ref="DESIGN.md §6 C16, §5", note=NOTE_G),
}

PENDING_REASON = "check under construction in this development: no theorem + correspondence registered yet, so the property is not claimed (the technique applies; see DESIGN.md §6)"


def main():
    claimed = dict(CLAIMED)
    for f in sorted(os.listdir(os.path.join(VERIF, "harness"))):
        if f.startswith("manifest_extra") and f.endswith(".json"):
            claimed.update(json.load(open(os.path.join(VERIF, "harness", f))))
    checks = []
    for pid in sorted(claimed):
        c = claimed[pid]
        if c["note"] == "R":
            note = NOTE_R
            if pid in ("C03", "C06", "C08"):
                note = NOTE_R.replace("No axioms.", "Axioms: none declared; the simulation theorems of this property "
                                      "(outcome switch / timeout removal) depend on the standard-library axiom "
                                      "functional_extensionality_dep, as Print Assumptions reports in the evidence file; "
                                      "all other theorems are closed.")
            note += (" Concrete failing inputs are searched with the executable monitors (within the prefix of the history "
                     "that the model accepts) and with the direct trace oracles of harness/oracles.py.")
            c = dict(c, note=note)
        checks.append({
            "property_id": pid,
            "quick_cmd": "./check %s --tier quick" % pid,
            "thorough_cmd": "./check %s --tier thorough" % pid,
            "evidence_file": "/verif/evidence/%s.json" % pid,
            "replay_cmd_template": "./check %s --replay {path}" % pid,
            "engine": "rocq-model",
            "level_claimed": {"category": "proof", "text": c["text"], "design_ref": c["ref"]},
            "level_note": c["note"],
            "technique": c["tech"],
        })
    allp = ["C%02d" % i for i in range(1, 21)]
    na = [{"property_id": p, "reason": PENDING_REASON} for p in allp if p not in claimed]
    man = {
        "version": 1,
        "setup_cmd": "sh build.sh clean",
        "hooks": {"guard": "ASYNCIOJOBS_VERIF", "enable": "no hooks: nothing in /repo is instrumented; all observation is done by subclassing and by interposing on asyncio inside the harness process",
                  "baseline_off_cmd": "cd /repo && /venv/bin/python -m pytest -ra -q -p no:cacheprovider --timeout=900 --continue-on-collection-errors",
                  "source_commits": [], "add_only": True},
        "engines": [{"name": "rocq-model", "path": "/verif/check",
                     "serves_properties": sorted(claimed),
                     "kind_free_text": "Coq 8.16.1 development (coq/), extracted OCaml driver (build/driver), Python harness (harness/) for proof-obligation checking and model/implementation correspondence"}],
        "checks": checks,
        "notes": "Fix commits in /repo are listed in known_findings.json (fixed: entries); known findings recorded rather than repaired: D7 (C20), F9 and F10 (C10), each with a witness, a class and a Coq refutation theorem. See DESIGN.md section 0.",
        "not_applicable": na,
    }
    json.dump(man, open(os.path.join(VERIF, "MANIFEST.json"), "w"), indent=1)
    print("claimed:", sorted(claimed), "pending:", len(na))


if __name__ == "__main__":
    main()
