"""Property runners for model G, part 3: C19 (construction API, props_c19.py) and C20 (DOT export and
list(), props_c20.py)."""
PROPS = {}
try:
    from .props_c19 import C19
    PROPS["C19"] = C19()
except ImportError:
    pass
try:
    from .props_c20 import C20
    PROPS["C20"] = C20()
except ImportError:
    pass
