"""C08, last sentence: a timeout that is never reached has no effect.  Theorem
C08_unreached_timeout_changes_nothing (coq/Run/RUntime.v) says that a run in which the main loop of
scheduler n always ends strictly before its expiration is, event for event, a run of the same tree
without that timeout, up to the timeout arguments of n's asyncio.wait calls.  This check runs the
implementation on such pairs (tree, tree with one unreached timeout removed) and compares the two
recorded histories."""
import copy
import multiprocessing
import os

from . import core
from . import rgen
from .props_r import RProp


def unreached_scheds(cfg, log):
    """schedulers with a timeout whose main loop ended strictly before begin + timeout"""
    jobs = cfg["jobs"]
    now = 0.0
    begin, left = {}, {}
    for e in log:
        k = e[0]
        if k == "tick":
            now = e[1]
        elif k == "begin":
            begin[e[1]] = now
        elif k == "waitcall" and e[2] in ("tidy", "ctidy", "shut"):
            left.setdefault(e[1], now)
        elif k == "end":
            left.setdefault(e[1], now)
        elif k == "rootdone":
            break
    out = []
    for n, j in enumerate(jobs):
        if j["sched"] and j["timeout"] is not None and n in begin and n in left:
            if left[n] < begin[n] + j["timeout"]:
                out.append(n)
    return out


def full_timeline(log):
    """what happened to every job, handler and scheduler, and when (instants, not the order of
    events inside an instant: the order in which timers that are due at the same instant fire
    depends on the layout of the timer heap, which one more timer changes)"""
    now = 0.0
    tl = {}
    for e in log:
        k = e[0]
        if k in ("tick", "gracetick", "latetick"):
            now = e[1]
        elif k == "start":
            tl[("job", e[1])] = [now, None, None]
        elif k == "finish":
            tl[("job", e[1])][1:] = [now, e[2]]
        elif k in ("cend", "cabort"):
            tl[("job", e[1])][1:] = [now, "cancelled"]
        elif k == "taskcancelled" and e[1] == "body" and ("job", e[2]) not in tl and ("run", e[2]) not in tl:
            tl[("gone", e[2])] = [now]
        elif k == "begin":
            tl[("run", e[1])] = [now, None, None]
        elif k == "end":
            tl[("run", e[1])][1:] = [now, tuple(e[2:])]
        elif k == "hstart":
            tl[("handler", e[1])] = [now, None, None]
        elif k in ("hend", "hcancel"):
            tl[("handler", e[1])][1:] = [now, k]
        elif k == "sdend":
            tl.setdefault(("sdend", e[1]), []).append((now, e[2]))
        elif k == "rootdone":
            tl["outcome"] = tuple(e[1:])
            break
    return tl


def tie_sensitive(cfg, log):
    """Runs in which the order of events inside one instant can matter: that order follows the layout
    of the timer heap, which one timer more or less changes.  It matters when a window hands out
    slots, and when an expiry (timeout, shutdown_timeout) can tie with a completion.  The
    comparison is made on window-free trees in runs where no timer of that kind fires."""
    if any(j["sched"] and j["window"] for j in cfg["jobs"]):
        return True
    for e in log:
        if e[0] == "waitret" and e[2] == "main" and not e[3]:
            return True                 # a timeout fired
        if e[0] == "waitret" and e[2] == "shut" and e[4]:
            return True                 # a shutdown_timeout fired
        if e[0] == "rootdone":
            break
    return False


def _run_pair(cfg):
    from .robserve import run_config
    r1 = run_config(cfg)
    if tie_sensitive(cfg, r1["log"]):
        return None
    cands = unreached_scheds(cfg, r1["log"])
    if not cands:
        return None
    n = cands[0]
    c2 = copy.deepcopy(cfg)
    c2["jobs"][n]["timeout"] = None
    r2 = run_config(c2)
    if tie_sensitive(c2, r2["log"]):
        return None
    t1, t2 = full_timeline(r1["log"]), full_timeline(r2["log"])
    # what happens in and after the first instant at which anything fails or is cancelled depends on
    # the order of callbacks inside that instant (a completion that ties with a failure), which the
    # layout of the timer heap decides: the two runs are compared strictly before that instant
    from .props_c10 import timeline as _tl
    T = min(_tl(r1["log"])[0]["first_cancel"], _tl(r2["log"])[0]["first_cancel"])

    def before(t):
        out = {}
        for k, v in t.items():
            if k == "outcome":
                if T == float("inf"):
                    out[k] = v
                continue
            if isinstance(v, list) and v and isinstance(v[0], tuple):
                out[k] = [x for x in v if x[0] < T]
                continue
            w = list(v)
            if w[0] >= T:
                continue
            if len(w) > 1 and (w[1] is None or w[1] >= T):
                w[1:] = [None, None]
            out[k] = w
        return out
    t1, t2 = before(t1), before(t2)
    if t1 == t2:
        return {"scheduler": n, "same": True}
    keys = sorted(set(t1) | set(t2), key=str)
    diff = [{"what": str(k), "with_timeout": t1.get(k), "without_timeout": t2.get(k)} for k in keys if t1.get(k) != t2.get(k)]
    return {"scheduler": n, "differences": diff[:6]}


_POOL = None


class C08(RProp):
    def evaluate(self, cases):
        global _POOL
        results = RProp.evaluate(self, cases)
        idx = [i for i, c in enumerate(cases) if any(j["sched"] and j["timeout"] is not None for j in c["jobs"])]
        if idx:
            args = [cases[i] for i in idx]
            if len(args) < 32:
                outs = [_run_pair(a) for a in args]
            else:
                if _POOL is None:
                    _POOL = multiprocessing.get_context("fork").Pool(min(16, os.cpu_count() or 4))
                outs = _POOL.map(_run_pair, args, chunksize=8)
            for i, d in zip(idx, outs):
                if d is None:
                    continue
                results[i]["tags"]["untimed_pair"] = 1
                results[i]["traces"] = results[i].get("traces", 0) + 1
                if not d.get("same") and results[i]["status"] != "specfail":
                    results[i]["status"] = "specfail"
                    results[i]["detail"] = dict(d, what="removing the timeout of scheduler %d, which is never reached in this run, "
                                                          "changes the run" % d["scheduler"])
        return results


from .props_r import PROPS as _RP      # noqa

_base = _RP["C08"]
PROPS = {
    "C08": C08("C08", _base.level, _base.monitors, oracles=_base.oracles, profile=_base.profile,
               rule=_base.rule.split(" Configurations:")[0] +
               " Last sentence of the property: for the window-free trees in whose run no timeout and no shutdown_timeout fires (ties inside one instant are then harmless), a scheduler whose main loop "
               "ended strictly before its expiration is found in the recorded run, the implementation is run again on the "
               "tree without that timeout, and the two runs must have the same timeline: every job, handler and scheduler "
               "begins and ends at the same virtual instants with the same outcome, result of co_shutdown() and verdict "
               "(theorem C08_unreached_timeout_changes_nothing; the order of events inside one instant is not compared: "
               "it follows the layout of the timer heap).",
               nontrivial=_base.nontrivial_fn, max_jobs=_base.max_jobs),
}

from .props_sched import upgrade as _upgrade_sched    # noqa: E402
_upgrade_sched(PROPS["C08"])
