"""Runs a scheduler tree of the implementation under the virtual-time loop and records what
happens (raw history).  Nothing in /repo is instrumented: observation is by subclassing the job
and scheduler classes, by giving asynciojobs.purescheduler a proxy for the `asyncio` and `time`
modules, and by a task factory.

configuration (JSON-able):
  {"jobs": [ {"parent": id, "sched": bool, "crit": bool, "forever": bool, "reqs": [ids],
              # atomic jobs: behaviour
              "dur": int|None, "out": "ret"|"exc", "cdur": int, "sdur": int|None, "yields": int,
              "cls": "abstract"|"job",
              # schedulers
              "window": int (0 = none), "timeout": int|None, "sdto": int|None, "verbose": bool,
              "hash": int }, ...],     # index = id, 0 = root, parent < id
   "pure_root": bool, "grace": int}
"""
import asyncio
import contextlib
import gc
import io
import os
import sys
import types
import warnings

import asynciojobs
import asynciojobs.purescheduler as PS
from asynciojobs import AbstractJob, Job, Scheduler, PureScheduler

from .vloop import VLoop, FakeTime, Deadlock, Livelock

_real_asyncio = asyncio
GRACE = 1000000


class JobError(Exception):
    """the exception raised by job `origin`; its message varies with the job (ordinary, empty, several
    lines, non-ASCII): the library prints it in verbose mode and in list()/debrief()"""
    def __init__(self, origin):
        msg = ("job %d raised" % origin, "", "job %d raised\nsecond line" % origin, "t\u00e2che %d \u2620" % origin)[origin % 4]
        super().__init__(msg)
        self.origin = origin


class Recorder:
    def __init__(self):
        self.log = []
        self.active = True
        self.task_info = {}      # id(task) -> (kind, hid)
        self.exc_origin = {}     # id(exc) -> tag
        self.keep = []           # keep exception objects alive (ids must stay unique)

    def rec(self, *ev):
        if self.active:
            self.log.append(ev)


class VTask(asyncio.Task):
    """a Task whose hash is chosen by the harness (equality stays identity)"""

    def __new__(cls, coro, *, vh=0, **kw):
        obj = super().__new__(cls)
        obj._vh = vh
        return obj

    def __init__(self, coro, *, vh=0, **kw):
        super().__init__(coro, **kw)

    def __hash__(self):
        return self._vh


def exc_tag(rec, e, sched_hid):
    """identity tag of an exception object: 2*j for the exception raised by atomic job j,
    2*s+1 for the TimeoutError raised first by scheduler s"""
    if isinstance(e, JobError):
        return 2 * e.origin
    k = id(e)
    if k not in rec.exc_origin:
        rec.exc_origin[k] = (2 * sched_hid + 1) if isinstance(e, TimeoutError) else 10 ** 6 + len(rec.exc_origin)
        rec.keep.append(e)
    return rec.exc_origin[k]


async def _never():
    await asyncio.get_running_loop().create_future()


async def body(rec, hid, spec, holder):
    rec.rec("start", hid)
    try:
        if spec["dur"] is None:
            await _never()
        else:
            if spec["dur"] > 0:
                await asyncio.sleep(spec["dur"])
            for _ in range(spec.get("yields", 0)):
                await asyncio.sleep(0)
    except asyncio.CancelledError:
        rec.rec("chit", hid)
        try:
            if spec["cdur"] > 0:
                await asyncio.sleep(spec["cdur"])
        except asyncio.CancelledError:
            rec.rec("cabort", hid)
            raise
        rec.rec("cend", hid)
        raise
    if spec["out"] == "exc":
        e = JobError(hid)
        holder.exc = e
        rec.rec("finish", hid, "exc")
        raise e
    holder.retval = object()
    rec.rec("finish", hid, "ret")
    return holder.retval


async def handler(rec, hid, spec):
    rec.rec("hstart", hid)
    try:
        if spec["sdur"] is None:
            await _never()
        elif spec["sdur"] > 0:
            await asyncio.sleep(spec["sdur"])
    except asyncio.CancelledError:
        rec.rec("hcancel", hid)
        raise
    rec.rec("hend", hid)


class RJob(AbstractJob):
    def __init__(self, rec, hid, spec, **kw):
        self.rec_, self.hid, self.spec, self._h = rec, hid, spec, spec["hash"]
        self.exc = self.retval = None
        super().__init__(**kw)

    def __hash__(self):
        return self._h

    async def co_run(self):
        return await body(self.rec_, self.hid, self.spec, self)

    async def co_shutdown(self):
        return await handler(self.rec_, self.hid, self.spec)


class RCJob(Job):
    """the library's coroutine-based Job class"""

    def __init__(self, rec, hid, spec, **kw):
        self.rec_, self.hid, self.spec, self._h = rec, hid, spec, spec["hash"]
        self.exc = self.retval = None
        super().__init__(body(rec, hid, spec, self), coshutdown=handler(rec, hid, spec), **kw)

    def __hash__(self):
        return self._h


class _SchedMixin:
    async def co_run(self):
        rec = self.rec_
        self._run_task = asyncio.current_task()
        rec.rec("begin", self.hid)
        try:
            v = await super().co_run()
        except asyncio.CancelledError:
            rec.rec("end", self.hid, "cancelled")
            raise
        except BaseException as e:      # noqa
            rec.rec("end", self.hid, "raise", exc_tag(rec, e, self.hid))
            raise
        rec.rec("end", self.hid, "true" if v is True else "false" if v is False else repr(v))
        return v

    async def co_shutdown(self):
        rec = self.rec_
        inline = asyncio.current_task() is getattr(self, "_run_task", None)
        rec.rec("sdbegin", self.hid, "inline" if inline else "task")
        try:
            v = await super().co_shutdown()
        except asyncio.CancelledError:
            rec.rec("sdend", self.hid, "cancelled")
            raise
        rec.rec("sdend", self.hid, "true" if v is True else "false" if v is False else "none" if v is None else repr(v))
        return v

    def __hash__(self):
        return self._h


class RSched(_SchedMixin, Scheduler):
    def __init__(self, rec, hid, spec, **kw):
        self.rec_, self.hid, self.spec, self._h = rec, hid, spec, spec["hash"]
        Scheduler.__init__(self, **kw)


class RPure(_SchedMixin, PureScheduler):
    def __init__(self, rec, hid, spec, **kw):
        self.rec_, self.hid, self.spec, self._h = rec, hid, spec, spec["hash"]
        PureScheduler.__init__(self, **kw)


def build(cfg, rec):
    objs = []
    for i, j in enumerate(cfg["jobs"]):
        if j["sched"]:
            kw = dict(jobs_window=j["window"] if j["window"] else (None if j.get("wnone", True) else 0),
                      timeout=j["timeout"], shutdown_timeout=j["sdto"], verbose=j.get("verbose", False))
            if i == 0 and cfg.get("pure_root"):
                o = RPure(rec, i, j, **kw)
            else:
                o = RSched(rec, i, j, critical=j["crit"], forever=j["forever"], **kw)
        else:
            cls = RCJob if j.get("cls") == "job" else RJob
            o = cls(rec, i, j, critical=j["crit"], forever=j["forever"])
        objs.append(o)
    order = cfg.get("insert_order") or list(range(1, len(objs)))
    for i in order:
        objs[cfg["jobs"][i]["parent"]].add(objs[i])
    for i, j in enumerate(cfg["jobs"]):
        for r in j["reqs"]:
            objs[i].requires(objs[r])
    return objs


def _task_ident(rec, t):
    return rec.task_info.get(id(t), ("?", -1))


def make_asyncio_proxy(rec):
    """module-like object given to asynciojobs.purescheduler in place of asyncio"""
    proxy = types.ModuleType("asyncio_proxy")
    proxy.__dict__.update(_real_asyncio.__dict__)

    async def _wait_impl(s, kind, fs, timeout, return_when):
        ids = sorted(_task_ident(rec, t)[1] for t in fs)
        rec.rec("waitcall", s, kind, ids, timeout)
        try:
            done, pending = await _real_asyncio.wait(fs, timeout=timeout, return_when=return_when)
        except asyncio.CancelledError:
            rec.rec("waitcancel", s, kind)
            raise
        rec.rec("waitret", s, kind, sorted(_task_ident(rec, t)[1] for t in done),
                sorted(_task_ident(rec, t)[1] for t in pending))
        return done, pending

    def wait(fs, *, timeout=None, return_when=_real_asyncio.ALL_COMPLETED):
        fs = set(fs) if not isinstance(fs, (set, list)) else fs
        fr = sys._getframe(1)
        name = fr.f_code.co_name
        s = fr.f_locals.get("self")
        if name == "co_run":
            kind = "main"
        elif name == "co_shutdown":
            kind = "shut"
        elif name == "_tidy_tasks":
            up = fr.f_back
            while up is not None and up.f_code.co_name in ("_tidy_tasks",):
                up = up.f_back
            upname = up.f_code.co_name if up is not None else "?"
            cls = up.f_code.co_qualname if up is not None else "?"
            if upname == "co_shutdown":
                # called from the normal path (after the wait returned) or from the except clause
                kind = "shtidy"
            elif cls.startswith("Scheduler."):
                kind = "ctidy"
            else:
                kind = "tidy"
        else:
            kind = "other:" + name
        return _wait_impl(getattr(s, "hid", -1), kind, fs, timeout, return_when)

    proxy.wait = wait
    return proxy


def view_of(objs, cfg):
    """public predicates of every job, as small integers"""
    out = []
    for i, o in enumerate(objs):
        if i == 0:
            continue
        idle, sch, run, done = o.is_idle(), o.is_scheduled(), o.is_running(), o.is_done()
        exc = o.raised_exception()
        if exc is None:
            e = 0
        elif exc is False:
            e = -1
        elif isinstance(exc, JobError):
            e = 1 + 2 * exc.origin
            if not cfg["jobs"][i]["sched"] and exc is not o.exc:
                e = -2
        else:
            e = 1 + o.rec_.exc_origin.get(id(exc), 10 ** 6)
        r = 0
        if done and not exc:
            try:
                res = o.result()
                if cfg["jobs"][i]["sched"]:
                    r = 2 if res is True else 3 if res is False else 4
                else:
                    r = 1 if res is o.retval else 4
            except Exception:       # noqa
                r = 5
        else:
            try:
                o.result()
                if not done:
                    r = 6          # result() must raise for an unfinished job
            except ValueError:
                pass
        out.append([i, int(bool(idle)), int(bool(sch)), int(bool(run)), int(bool(done)), r, e])
    sv = []
    for i, o in enumerate(objs):
        if cfg["jobs"][i]["sched"]:
            fto, fcr, why = o.failed_time_out(), o.failed_critical(), o.why()
            w = 0 if why == "FINE" else 1 if why.startswith("TIMED OUT") else 2 if "CRITICAL" in why else 3
            sv.append([i, int(bool(fto)), int(bool(fcr)), w])
    return out, sv


def inspect_all(objs, cfg):
    """what a monitoring job might do in the middle of a run: call the read-only inspection API of
    every scheduler (browsing, listing, export).  None of it may disturb the run; exceptions are
    ignored here (C15-C20 are about their results), only the run's behaviour is being observed"""
    for i, o in enumerate(objs):
        if not cfg["jobs"][i]["sched"]:
            continue
        calls = [lambda: list(o.entry_jobs()), lambda: list(o.exit_jobs()), o.check_cycles,
                 lambda: list(o.topological_order()), o.repr_entries, o.repr_exits, o.stats,
                 lambda: list(o.iterate_jobs()), o.list, o.list_safe, o.debrief, o.dot_format,
                 lambda: repr(o), o.why, o.failed_time_out, o.failed_critical]
        for j in list(o.jobs):
            calls += [lambda j=j: o.predecessors(j), lambda j=j: list(o.successors(j)),
                      lambda j=j: o.predecessors_upstream(j), lambda j=j: o.successors_downstream(j)]
        for c in calls:
            try:
                c()
            except Exception:       # noqa
                pass


def run_config(cfg):
    """-> dict(log=[...], outcome=..., final=...)"""
    rec = Recorder()
    loop = VLoop()
    old_asyncio, old_time = PS.asyncio, PS.time
    PS.asyncio = make_asyncio_proxy(rec)
    PS.time = FakeTime(loop)
    res = {"log": rec.log, "outcome": None}
    asyncio.set_event_loop(loop)
    sink = io.StringIO()
    try:
        with warnings.catch_warnings(), contextlib.redirect_stdout(sink):
            warnings.simplefilter("ignore")
            objs = build(cfg, rec)
            root = objs[0]

            counter = [0]

            def factory(lp, coro, **kw):
                code = getattr(coro, "cr_code", None)
                name = code.co_name if code else "?"
                fl = coro.cr_frame.f_locals if getattr(coro, "cr_frame", None) is not None else {}
                if name == "wrapped":
                    info = ("body", fl["job"].hid)
                elif name == "co_shutdown":
                    info = ("shut", fl["self"].hid)
                elif name == "co_run":
                    info = ("root", fl["self"].hid)
                else:
                    info = ("other", -1)
                # the iteration order of sets of tasks (asyncio.wait results, the sets that are
                # cancelled) must not depend on memory addresses: hash = f(configured hash, role)
                counter[0] += 1
                if info[1] >= 0:
                    jd = cfg["jobs"][info[1]]
                    vh = (jd.get("hash", 0) * 131 + jd.get("uid", info[1]) * 7 +
                          {"body": 1, "shut": 3, "root": 5}[info[0]]) * 2654435761 % (1 << 31)
                else:
                    vh = (counter[0] * 40503 + 11) % (1 << 31)
                t = VTask(coro, vh=vh, loop=lp, **kw)
                rec.task_info[id(t)] = info
                rec.keep.append(t)
                if info[0] in ("body", "shut"):
                    rec.rec("create", info[0], info[1])

                    def cb(task, info=info):
                        if task.cancelled():
                            rec.rec("taskcancelled", info[0], info[1])
                    t.add_done_callback(cb)
                return t

            loop.set_task_factory(factory)
            loop.set_exception_handler(lambda lp, ctx: None)

            def on_jump(t):
                jv, sv = view_of(objs, cfg)
                rec.rec("poll", jv, sv)
                if cfg.get("inspect"):
                    inspect_all(objs, cfg)
                rec.rec("tick", t)

            loop.on_jump = on_jump
            try:
                # watchdog: an implementation that spins without ever yielding to the loop is a livelock
                import signal

                def _alarm(signum, frame):
                    raise Livelock("no progress for 120 s of wall-clock time")
                try:
                    signal.signal(signal.SIGALRM, _alarm)
                    signal.setitimer(signal.ITIMER_REAL, int(os.environ.get("VERIF_WATCHDOG", "120")))
                except ValueError:          # not in the main thread
                    pass
                # half of the generated trees go through the synchronous wrappers run() / shutdown()
                v = root.run() if cfg.get("sync_api") else loop.run_until_complete(root.co_run())
                res["outcome"] = ["true" if v is True else "false" if v is False else repr(v)]
            except Deadlock:
                res["outcome"] = ["deadlock"]
            except Livelock:
                res["outcome"] = ["livelock"]
            except BaseException as e:      # noqa
                res["outcome"] = ["raise", exc_tag(rec, e, 0), type(e).__name__]
            rec.rec("rootdone", *res["outcome"])
            if res["outcome"][0] not in ("deadlock", "livelock"):
                jv, sv = view_of(objs, cfg)
                rec.rec("poll", jv, sv)
                # let the loop run on: nothing must happen any more
                loop.on_jump = lambda t: rec.rec("gracetick", t)
                h = loop.call_later(cfg.get("grace", GRACE), loop.stop)
                try:
                    loop.run_forever()
                except Deadlock:
                    rec.rec("grace-deadlock")
                left = [t for t in asyncio.all_tasks(loop) if not t.done()]
                rec.rec("graceend", len(left), sorted(_task_ident(rec, t) for t in left))
                jv, sv = view_of(objs, cfg)
                rec.rec("poll", jv, sv)
                # a later explicit shutdown sends nothing more
                loop.on_jump = lambda t: rec.rec("latetick", t)
                try:
                    v2 = root.shutdown() if cfg.get("sync_api") else loop.run_until_complete(root.co_shutdown())
                    rec.rec("lateshutdown", "true" if v2 is True else "false" if v2 is False else "none" if v2 is None else repr(v2))
                except BaseException as e:  # noqa
                    rec.rec("lateshutdown", "raise:" + type(e).__name__)
            rec.active = False
    finally:
        try:
            import signal
            signal.setitimer(signal.ITIMER_REAL, 0)
        except ValueError:
            pass
        PS.asyncio, PS.time = old_asyncio, old_time
        try:
            for t in asyncio.all_tasks(loop):
                t.cancel()
            with warnings.catch_warnings(), contextlib.redirect_stdout(sink):
                warnings.simplefilter("ignore")
                loop.on_jump = None
                try:
                    loop.run_until_complete(asyncio.sleep(0))
                except BaseException:       # noqa
                    pass
                loop.close()
        finally:
            asyncio.set_event_loop(None)
    return res
