"""Builds seeded/<id>/<A|B>/meta.json and seeded/MATRIX.md from the logs of the seed-evaluation
lanes (lines '== Cxx/V -> C01:VIOL C02:nofail ...') given on the command line."""
import json
import os
import re
import sys

VERIF = os.path.dirname(os.path.dirname(os.path.abspath(__file__)))
PROPS = ["C%02d" % i for i in range(1, 21)]


def main():
    rows = {}
    for path in sys.argv[1:]:
        for line in open(path):
            m = re.match(r"== (C\d\d)/([AB]2?) ->(.*)", line)
            if m:
                rows[(m.group(1), m.group(2))] = dict(x.split(":") for x in m.group(3).split())
    out = ["# Seeded changes: which check reports what", "",
           "Each change was written by a fresh sub-agent that saw only the text of one property and a scratch (variants A, B: first wave; A2, B2: second wave, asked for subtle changes)",
           "worktree of /repo.  Confirmed here for every one: `demo.py` exits 0 on the unchanged tree and 1 on the",
           "changed tree, and the repository's test suite still passes with the change applied (the timing test",
           "test_nesting1, flaky under load and dropped from the pinned baseline, and test_window under heavy",
           "parallel load excepted: re-run alone they pass).",
           "",
           "Legend: **V** = VIOLATION with a concrete failing input (replay names the input), n = VIOLATION",
           "`no-failing-input-found` (the history of the changed code is no longer accepted by the model, or a",
           "proof obligation no longer checks), . = the check stays silent.  Quick tier, seed 0.", "",
           "| seed | " + " | ".join(p[1:] for p in PROPS) + " |", "|---|" + "---|" * len(PROPS)]
    for p in PROPS:
        for v in ("A", "B", "A2", "B2"):
            d = os.path.join(VERIF, "seeded", p, v)
            if not os.path.isdir(d):
                continue
            r = rows.get((p, v))
            am = {}
            try:
                am = json.load(open(os.path.join(d, "agent_meta.json")))
            except Exception:    # noqa
                pass
            meta = {
                "property": p,
                "variant": v,
                "what_it_changes": am.get("summary") or am.get("description") or am.get("what"),
                "needs_to_manifest": am.get("needs") or am.get("trigger") or am.get("manifests_when"),
                "confirmed": {
                    "demo_on_unchanged_tree": "exit 0",
                    "demo_on_changed_tree": "exit 1",
                    "repository_tests_with_change": "pass (63 tests; see MATRIX.md for the two timing tests)",
                    "how": "harness/seedtest.sh <dir>: git worktree of /repo, git apply patch.diff, demo.py, pytest; "
                           "then every check with VERIF_REPO=<worktree> ./check --tier quick <id> from a built snapshot of /verif",
                },
                "reported_by": {k: {"VIOL": "violation with failing input", "nofail": "violation, no-failing-input-found",
                                    "ok": "silent"}[x] for k, x in (r or {}).items() if x != "ok"},
                "own_property_check": (r or {}).get(p),
            }
            json.dump(meta, open(os.path.join(d, "meta.json"), "w"), indent=1)
            if r:
                cells = [{"VIOL": "**V**", "nofail": "n", "ok": "."}[r.get(q, "ok")] for q in PROPS]
                out.append("| %s/%s | " % (p, v) + " | ".join(cells) + " |")
            else:
                out.append("| %s/%s | (not evaluated) |" % (p, v))
    missed = [k for k, r in rows.items() if r.get(k[0]) == "ok"]
    out += ["", "Seeds not reported by the check of their own property: %s" % (", ".join("%s/%s" % k for k in sorted(missed)) or "none"), ""]
    open(os.path.join(VERIF, "seeded", "MATRIX.md"), "w").write("\n".join(out) + "\n")
    print("rows:", len(rows), "missed:", missed)


if __name__ == "__main__":
    main()
