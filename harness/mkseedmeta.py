"""Builds seeded/<id>/<A|B>/meta.json and seeded/MATRIX.md from the logs of the seed-evaluation
lanes (lines '== Cxx/V -> C01:VIOL C02:nofail ...') given on the command line."""
import json
import os
import re
import sys

VERIF = os.path.dirname(os.path.dirname(os.path.abspath(__file__)))
PROPS = ["C%02d" % i for i in range(1, 21)]


TAIL = """
Rows of the first two waves date from the full matrix run at the time; their diagonal entries (each
change against the quick check of its own property) were re-run after the generator gained
fine-grained schedules and the C01/C10/C12 checks the closed-form schedule comparison: 80 of 80 reported with a
concrete failing input (C07/A2 and C11/B2, formerly `n` at the quick tier, included).  The rows of
the third wave were produced by the machinery as committed with them (mid-run inspection of the
read-only API and the timeout_effect oracle were added because of C03/A3 and C08/A3, see DESIGN.md
section 9.1).  Fourth wave, first run: 17 of 20 with a failing input, C08/B4 and C09/A4 as correspondence
breaks, C05/B4 missed; the rows show the state after the three additions described in DESIGN.md section 9.1.

## Harmless rewrites (`harmless/H<k><A|B>/`)

12 behaviour-preserving rewrites written by sub-agents (H1 main loop of co_run, H2 co_shutdown/_tidy_tasks,
H3 window.py + Scheduler.co_run / job.py life cycle, H4 graph queries, H5 dot export / sequence.py + requires,
H6 whole-package pyupgrade-style pass / type hints + helper extraction), each with the repository's
tests passing, each run against all 20 quick checks, twice (when they were written, and again on the
final machinery with the inspector, the targeted generators and the added oracles): every run silent
(no VIOLATION line of either kind).  H7A (by hand): the window rewritten on asyncio.Semaphore instead of the bounded
Queue, a different primitive with the same behaviour: the R checks that exercise windows stay silent.
"""


def main():
    rows = {}
    # rows already in MATRIX.md (earlier waves) are kept unless a log given now overrides them
    mpath = os.path.join(VERIF, "seeded", "MATRIX.md")
    if os.path.exists(mpath):
        for line in open(mpath):
            m = re.match(r"\| (C\d\d)/([AB][234]?) \| (.*) \|\s*$", line)
            if m and "not evaluated" not in line:
                cells = [c.strip() for c in m.group(3).split("|")]
                if len(cells) == len(PROPS):
                    rows[(m.group(1), m.group(2))] = {q: {"**V**": "VIOL", "n": "nofail", ".": "ok"}[c]
                                                      for q, c in zip(PROPS, cells)}
    for path in sys.argv[1:]:
        for line in open(path):
            m = re.match(r"== (C\d\d)/([AB][234]?) ->(.*)", line)
            if m:
                rows[(m.group(1), m.group(2))] = dict(x.split(":") for x in m.group(3).split())
    out = ["# Seeded changes: which check reports what", "",
           "Each change was written by a fresh sub-agent that saw only the text of one property and a scratch (variants A, B: first wave; A2, B2: second wave, asked for subtle changes; A3, B3: third wave, changes disguised as improvements -- optimisations, modernisations, refactorings, robustness tweaks; A4, B4: fourth wave, a blind test of the final machinery on ten properties, only the check of the property itself was run)",
           "worktree of /repo.  Confirmed here for every one: `demo.py` exits 0 on the unchanged tree and 1 on the",
           "changed tree, and the repository's test suite still passes with the change applied (the timing test",
           "test_nesting1, flaky under load and dropped from the pinned baseline, and test_window under heavy",
           "parallel load excepted: re-run alone they pass).",
           "",
           "Legend: **V** = VIOLATION with a concrete failing input (replay names the input), n = VIOLATION",
           "`no-failing-input-found` (the history of the changed code is no longer accepted by the model, or a",
           "proof obligation no longer checks), . = the check stays silent.  Quick tier, seed 0.", "",
           "| seed | " + " | ".join(p[1:] for p in PROPS) + " |", "|---|" + "---|" * len(PROPS)]
    for p in PROPS:
        for v in ("A", "B", "A2", "B2", "A3", "B3", "A4", "B4"):
            d = os.path.join(VERIF, "seeded", p, v)
            if not os.path.isdir(d):
                continue
            r = rows.get((p, v))
            am = {}
            try:
                am = json.load(open(os.path.join(d, "agent_meta.json")))
            except Exception:    # noqa
                pass
            meta = {
                "property": p,
                "variant": v,
                "what_it_changes": am.get("summary") or am.get("description") or am.get("what"),
                "needs_to_manifest": am.get("needs") or am.get("trigger") or am.get("manifests_when"),
                "confirmed": {
                    "demo_on_unchanged_tree": "exit 0",
                    "demo_on_changed_tree": "exit 1",
                    "repository_tests_with_change": "pass (63 tests; see MATRIX.md for the two timing tests)",
                    "how": "harness/seedtest.sh <dir>: git worktree of /repo, git apply patch.diff, demo.py, pytest; "
                           "then every check with VERIF_REPO=<worktree> ./check --tier quick <id> from a built snapshot of /verif",
                },
                "reported_by": {k: {"VIOL": "violation with failing input", "nofail": "violation, no-failing-input-found",
                                    "ok": "silent"}[x] for k, x in (r or {}).items() if x != "ok"},
                "own_property_check": (r or {}).get(p),
            }
            json.dump(meta, open(os.path.join(d, "meta.json"), "w"), indent=1)
            if r and len(r) < len(PROPS):
                out.append("| %s/%s | (own check only) %s: %s |" % (p, v, p, {"VIOL": "**V**", "nofail": "n", "ok": "."}[r.get(p, "ok")]))
            elif r:
                cells = [{"VIOL": "**V**", "nofail": "n", "ok": "."}[r.get(q, "ok")] for q in PROPS]
                out.append("| %s/%s | " % (p, v) + " | ".join(cells) + " |")
            else:
                out.append("| %s/%s | (not evaluated) |" % (p, v))
    missed = [k for k, r in rows.items() if r.get(k[0]) == "ok"]
    out += ["", "Seeds not reported by the check of their own property: %s" % (", ".join("%s/%s" % k for k in sorted(missed)) or "none"), ""]
    out += TAIL.splitlines()
    open(os.path.join(VERIF, "seeded", "MATRIX.md"), "w").write("\n".join(out) + "\n")
    print("rows:", len(rows), "missed:", missed)


if __name__ == "__main__":
    main()
