"""Random scheduler-tree configurations for the run-time model (see robserve.py for the format).

All generated configurations are acyclic and closed (requirements point to siblings with smaller
ids).  `admissible` ones satisfy the hypotheses of the progress property (C03): they must
terminate; the others are only run under an enclosing timeout."""
import random


def J(parent, rnd, **kw):
    d = dict(parent=parent, sched=False, crit=False, forever=False, reqs=[], dur=1, out="ret",
             cdur=0, sdur=0, yields=0, cls="abstract", hash=rnd.randrange(64))
    d.update(kw)
    return d


def S(parent, rnd, **kw):
    d = dict(parent=parent, sched=True, crit=False, forever=False, reqs=[], window=0, timeout=None,
             sdto=1, hash=rnd.randrange(64), verbose=False, wnone=True)
    d.update(kw)
    return d


def gen_config(rnd, max_jobs=14, max_depth=3, profile=None):
    """profile: dict of probabilities; missing keys take defaults"""
    p = dict(window=0.5, timeout=0.5, exc=0.35, crit=0.35, forever=0.2, never=0.15, nested=0.25,
             cdur=0.3, sdur=0.4, sd_never=0.08, edge=0.35, pure_root=0.25, job_cls=0.3, verbose=0.1,
             yields=0.3, maxdur=5, root_timeout=0.4, sdto_none=0.15, tie=0.3, fine=0.15, inspect=0.25)
    p.update(profile or {})
    # fine-grained schedules: completions separated by a few loop iterations inside one instant
    fine = rnd.random() < p["fine"]
    # ties: many completions in the same instant
    dset = rnd.choice([[1], [1, 2], [2, 3], [0, 1], [1, 1, 3]]) if rnd.random() < p["tie"] else None
    jobs = []
    pure_root = rnd.random() < p["pure_root"]
    root = S(0, rnd)
    root["crit"] = rnd.random() < 0.5
    if rnd.random() < p["root_timeout"]:
        root["timeout"] = rnd.randint(0, 9)
    jobs.append(root)
    depth = {0: 0}
    under_timeout = {0: root["timeout"] is not None}
    nsched = 1
    target = rnd.randint(1, max_jobs)
    scheds = [0]
    while len(jobs) < target + 1:
        par = rnd.choice(scheds)
        i = len(jobs)
        if depth[par] + 1 < max_depth and rnd.random() < p["nested"]:
            s = S(par, rnd)
            s["crit"] = rnd.random() < 0.5
            s["forever"] = rnd.random() < p["forever"] * 0.5
            if rnd.random() < p["timeout"]:
                s["timeout"] = rnd.randint(0, 8)
            jobs.append(s)
            depth[i] = depth[par] + 1
            under_timeout[i] = under_timeout[par] or s["timeout"] is not None
            scheds.append(i)
        else:
            j = J(par, rnd)
            j["crit"] = rnd.random() < p["crit"]
            j["forever"] = rnd.random() < p["forever"]
            j["out"] = "exc" if rnd.random() < p["exc"] else "ret"
            j["dur"] = rnd.choice(dset) if dset else rnd.randint(0, p["maxdur"])
            if rnd.random() < p["never"] and (j["forever"] or under_timeout[par]):
                j["dur"] = None
            if rnd.random() < p["cdur"]:
                j["cdur"] = rnd.randint(1, 2)
            if rnd.random() < p["sdur"]:
                j["sdur"] = rnd.randint(1, 3)
            if rnd.random() < p["yields"]:
                j["yields"] = rnd.randint(1, 3)
            if fine and j["dur"] is not None:
                j["dur"] = rnd.choice([0, 0, 1])
                j["yields"] = rnd.randint(0, 6)
            if rnd.random() < p["job_cls"]:
                j["cls"] = "job"
            jobs.append(j)
    n = len(jobs)
    # scheduler parameters
    for i in scheds:
        s = jobs[i]
        if rnd.random() < p["window"]:
            s["window"] = rnd.randint(1, 3)
        else:
            s["wnone"] = rnd.random() < 0.7
        s["sdto"] = None if rnd.random() < p["sdto_none"] else rnd.randint(0, 3)
        s["verbose"] = rnd.random() < p["verbose"]
    # shutdown handlers that never end need a finite shutdown_timeout right above
    for i in range(1, n):
        j = jobs[i]
        if not j["sched"] and rnd.random() < p["sd_never"] and jobs[j["parent"]]["sdto"] is not None:
            j["sdur"] = None
    # requirements: siblings with smaller ids
    kids = {}
    for i in range(1, n):
        kids.setdefault(jobs[i]["parent"], []).append(i)
    for par, ks in kids.items():
        dens = rnd.choice([0.0, p["edge"] * 0.5, p["edge"], min(1.0, p["edge"] * 2)])
        for a in ks:
            for b in ks:
                if b < a and rnd.random() < dens:
                    jobs[a]["reqs"].append(b)
            rnd.shuffle(jobs[a]["reqs"])
    cfg = {"jobs": jobs, "pure_root": pure_root}
    cfg["sync_api"] = rnd.random() < 0.5
    if rnd.random() < p["inspect"]:
        # a monitor calls the read-only inspection API of every scheduler at every quiescent point
        cfg["inspect"] = True
    make_admissible(cfg, rnd)
    order = list(range(1, n))
    rnd.shuffle(order)
    cfg["insert_order"] = order
    return cfg


def gen_ladder(rnd):
    """window stress: one scheduler with a window of 1-3 and 4-12 jobs that all last 0 or all last 1
    time unit plus 0-3 loop iterations, each later job requiring one or two earlier ones with
    probability 1/2: jobs queue for slots while others end a few callbacks apart in one instant and
    successors are created in between (the schedule on which a freed slot can be handed out twice)"""
    w = rnd.randint(1, 3)
    n = rnd.randint(w + 3, w + 9)
    root = S(0, rnd, window=w, crit=False, sdto=1)
    jobs = [root]
    d = rnd.choice([0, 1])
    for i in range(1, n + 1):
        j = J(0, rnd, dur=d, yields=rnd.randint(0, 3))
        if i > 1 and rnd.random() < 0.5:
            j["reqs"] = [rnd.randint(1, i - 1)]
            if i > 2 and rnd.random() < 0.2:
                r2 = rnd.randint(1, i - 1)
                if r2 not in j["reqs"]:
                    j["reqs"].append(r2)
        if rnd.random() < 0.15:
            j["out"] = "exc"
        if rnd.random() < 0.2:
            j["cls"] = "job"
        jobs.append(j)
    cfg = {"jobs": jobs, "pure_root": rnd.random() < 0.3, "sync_api": rnd.random() < 0.5}
    order = list(range(1, n + 1))
    rnd.shuffle(order)
    cfg["insert_order"] = order
    return cfg


def gen_stagger(rnd):
    """crash points of a nested run: an outer scheduler ends (timeout, or a critical job of its own
    raising) while a scheduler nested one or two levels below is in its main loop, is cancelling a
    job whose cancellation takes time, or is in its shutdown phase"""
    deep = rnd.random() < 0.6
    c = rnd.randint(1, 3)                     # how long the inner job takes to handle cancellation
    sd = rnd.choice([0, 0, 1, 2, 3])          # its shutdown handler
    t1 = rnd.randint(0, 3)                    # the inner run is told to stop at t1
    t2 = t1 + rnd.randint(0, c + sd + 1)      # the outer one ends at t2
    by_failure = rnd.random() < 0.4
    jobs = [S(0, rnd, crit=rnd.random() < 0.5, sdto=rnd.choice([None, 1, 2, 3]),
              timeout=None if by_failure else t2)]
    if by_failure:
        jobs.append(J(0, rnd, crit=True, out="exc", dur=t2))
    par = 0
    if deep:
        jobs.append(S(0, rnd, crit=rnd.random() < 0.5, timeout=t1, sdto=rnd.choice([None, 1, 2, 3])))
        par = len(jobs) - 1
    inner = S(par, rnd, crit=rnd.random() < 0.5, timeout=None if deep else t1, sdto=rnd.choice([1, 2, 3]),
              window=rnd.choice([0, 0, 1, 2]))
    jobs.append(inner)
    ii = len(jobs) - 1
    for _ in range(rnd.randint(1, 3)):
        jobs.append(J(ii, rnd, dur=rnd.choice([None, t2 + 4, t1 + 1]), cdur=rnd.choice([0, c, c]), sdur=rnd.choice([0, sd, sd]),
                      cls=rnd.choice(["abstract", "abstract", "job"])))
    if rnd.random() < 0.5:
        jobs.append(J(par, rnd, dur=rnd.randint(0, 3), reqs=[]))
    if rnd.random() < 0.4:
        jobs.append(J(0, rnd, dur=rnd.randint(0, 4), sdur=rnd.choice([0, 1])))
    # members must follow their scheduler and requirements point backwards: already the case
    cfg = {"jobs": jobs, "pure_root": False, "sync_api": rnd.random() < 0.5}
    order = list(range(1, len(jobs)))
    rnd.shuffle(order)
    cfg["insert_order"] = order
    return cfg


def never_ends(cfg, i, memo=None):
    """would job i (atomic or scheduler) never end on its own?  (conservative)"""
    j = cfg["jobs"][i]
    if not j["sched"]:
        return j["dur"] is None
    if j["timeout"] is not None:
        return False
    ks = [k for k in range(1, len(cfg["jobs"])) if cfg["jobs"][k]["parent"] == i]
    if not ks:
        return False
    finite = [k for k in ks if not cfg["jobs"][k]["forever"]]
    if not finite:
        # ends when a forever job ends
        return all(never_ends(cfg, k) or blocked(cfg, k) for k in ks)
    return any(never_ends(cfg, k) or blocked(cfg, k) for k in finite)


def blocked(cfg, i):
    """does job i depend (transitively) on a never-ending job"""
    return any(never_ends(cfg, r) or blocked(cfg, r) for r in cfg["jobs"][i]["reqs"])


def make_admissible(cfg, rnd):
    """repair the configuration so that the hypotheses of C03 hold: every scheduler that is not
    under a timeout ends; windows exceed the number of never-ending direct jobs"""
    jobs = cfg["jobs"]
    n = len(jobs)

    def has_timeout_above(i):
        while True:
            if jobs[i]["timeout"] is not None:
                return True
            if i == 0:
                return False
            i = jobs[i]["parent"]

    changed = True
    guard = 0
    while changed and guard < 50:
        changed = False
        guard += 1
        for i in range(n):
            if not jobs[i]["sched"] or has_timeout_above(i):
                continue
            if never_ends(cfg, i):
                # give it a timeout, or make its culprits finite
                ks = [k for k in range(1, n) if jobs[k]["parent"] == i]
                fixed = False
                for k in ks:
                    if not jobs[k]["sched"] and jobs[k]["dur"] is None and not (jobs[k]["forever"] and any(not jobs[x]["forever"] for x in ks)):
                        jobs[k]["dur"] = rnd.randint(0, 4)
                        fixed = True
                if not fixed:
                    jobs[i]["timeout"] = rnd.randint(0, 8)
                changed = True
        # a never-ending forever job must not be required by a job that has to finish, when
        # no timeout is above
        for i in range(1, n):
            if has_timeout_above(jobs[i]["parent"]):
                continue
            for r in list(jobs[i]["reqs"]):
                if (never_ends(cfg, r) or blocked(cfg, r)) and not jobs[i]["forever"]:
                    jobs[i]["reqs"].remove(r)
                    changed = True
    # windows
    for i in range(n):
        if jobs[i]["sched"] and jobs[i]["window"]:
            ks = [k for k in range(1, n) if jobs[k]["parent"] == i]
            nev = sum(1 for k in ks if never_ends(cfg, k))
            if jobs[i]["window"] <= nev and not has_timeout_above(i):
                jobs[i]["window"] = nev + 1
    cfg["admissible"] = True


def cfg_key(cfg):
    """canonical form ignoring hashes, insertion order, verbosity"""
    return tuple(
        (j["parent"], j["sched"], j["crit"], j["forever"], tuple(sorted(j["reqs"])),
         (j["window"], j["timeout"], j["sdto"]) if j["sched"] else (j["dur"], j["out"], j["cdur"], j["sdur"]))
        for j in cfg["jobs"]) + (cfg["pure_root"],)


def enumerate_small():
    """Exhaustive small scope: every tree of the two shapes below over a reduced parameter domain
    (durations 0/1, so every run terminates and ties abound).
      (a) a root with one or two atomic jobs (with or without a requirement between them);
      (b) a root with a nested scheduler holding one atomic job, and optionally one atomic sibling
          that may require the nested scheduler."""
    import itertools
    rnd = random.Random(0)

    def atom(parent, crit, forever, out, dur, sdur, reqs=()):
        return J(parent, rnd, crit=crit, forever=forever, out=out, dur=dur, sdur=sdur, reqs=list(reqs), hash=0)

    B = (False, True)
    atoms = [dict(crit=a, forever=b, out=o, dur=d, sdur=sd)
             for a in B for b in B for o in ("ret", "exc") for d in (0, 1) for sd in (0, 1)]
    roots = [dict(window=w, timeout=t, crit=cr, sdto=sd, pure=p)
             for w in (0, 1) for t in (None, 0, 1) for cr in B for sd in (0, None) for p in B]

    def mk(root, jobs):
        r = S(0, rnd, window=root["window"], timeout=root["timeout"], crit=root["crit"], sdto=root["sdto"], hash=0)
        js = [r] + jobs
        for i, j in enumerate(js):
            j["hash"] = i
        return {"jobs": js, "pure_root": root["pure"], "admissible": True}

    for root in roots:
        for a in atoms:
            yield mk(root, [atom(0, **a)])
        for a, b in itertools.product(atoms, atoms):
            for edge in B:
                yield mk(root, [atom(0, **a), atom(0, reqs=[1] if edge else [], **b)])
    roots_b = [dict(window=w, timeout=t, crit=True, sdto=1, pure=False) for w in (0, 1) for t in (None, 1)]
    nests = [dict(window=w, timeout=t, crit=cr) for w in (0, 1) for t in (None, 1) for cr in B]
    for root in roots_b:
        for ns in nests:
            for a in atoms:
                n = S(0, rnd, window=ns["window"], timeout=ns["timeout"], crit=ns["crit"], sdto=1)
                yield mk(root, [n, atom(1, **a)])
                for b in atoms:
                    for edge in B:
                        n = S(0, rnd, window=ns["window"], timeout=ns["timeout"], crit=ns["crit"], sdto=1)
                        yield mk(root, [n, atom(1, **a), atom(0, reqs=[1] if edge else [], **b)])
