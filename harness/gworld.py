"""Building scheduler trees in the implementation from JSON recipes, and encoding their state
for model G.  A recipe is self-contained so that a replay file can rebuild the scenario.

recipe = {
  "jobs":   [ {"kind": "atom"|"sched"|"pure", "hash": int, "forever": bool, "critical": bool,
               "label": str|None}, ... ]            # index = job id
  "members": { "<sched id>": [job ids, insertion order] },
  "edges":  [ [j, r], ... ]                          # j requires r, insertion order, added directly
  "root":   id
}
"""
import random

from asynciojobs import AbstractJob, Scheduler, PureScheduler


class HJob(AbstractJob):
    """Atomic job with a chosen hash value: controls iteration order of the sets it sits in."""

    def __init__(self, hid, hashv, **kw):
        self.hid = hid
        self._h = hashv
        super().__init__(**kw)

    def __hash__(self):
        return self._h

    async def co_run(self):
        return None

    async def co_shutdown(self):
        return None


class HSched(Scheduler):
    def __init__(self, hid, hashv, **kw):
        self.hid = hid
        self._h = hashv
        super().__init__(**kw)

    def __hash__(self):
        return self._h


class HPure(PureScheduler):
    def __init__(self, hid, hashv, **kw):
        self.hid = hid
        self._h = hashv
        super().__init__(**kw)
        self.required = set()       # a PureScheduler is not a job; uniform encoding only

    def __hash__(self):
        return self._h


def build(recipe):
    """Returns the list of objects, index = id."""
    objs = []
    for i, j in enumerate(recipe["jobs"]):
        kw = dict(forever=j.get("forever", False), critical=j.get("critical", False),
                  label=j.get("label"))
        if j["kind"] == "atom":
            objs.append(HJob(i, j["hash"], **kw))
        elif j["kind"] == "sched":
            objs.append(HSched(i, j["hash"], **kw))
        else:
            objs.append(HPure(i, j["hash"]))
    for s, ms in recipe["members"].items():
        for m in ms:
            objs[int(s)].jobs.add(objs[m])
    for j, r in recipe["edges"]:
        objs[j].required.add(objs[r])
    return objs


# ---- encoding of the current implementation state for the model

def enc_tree(obj):
    if isinstance(obj, PureScheduler):
        kids = list(obj.jobs)
        out = [1, obj.hid, len(kids)]
        for k in kids:
            out += enc_tree(k)
        return out
    return [0, obj.hid]


def enc_nats(l):
    return [len(l)] + list(l)


def req_ids(obj):
    return [r.hid for r in obj.required]


def enc_rmap(objs):
    out = [len(objs)]
    for o in objs:
        out += enc_nats(req_ids(o))
    return out


def snapshot_req(objs):
    """required sets as sorted id lists"""
    return [sorted(req_ids(o)) for o in objs]


def dec_rmap(ints, pos=0):
    """decode 'n (k x1..xk)*n' -> (list of lists, new pos)"""
    n = ints[pos]
    pos += 1
    res = []
    for _ in range(n):
        k = ints[pos]
        res.append(ints[pos + 1:pos + 1 + k])
        pos += 1 + k
    return res, pos


# ---- random recipes

def random_tree_recipe(rnd, max_jobs=12, max_depth=3, outsiders=2, pure_root=None,
                       p_sched=0.3, hash_range=64):
    """A scheduler tree (root is job 0) plus a few jobs that belong to no scheduler."""
    jobs = []
    members = {}

    def new(kind):
        jobs.append({"kind": kind, "hash": rnd.randrange(hash_range),
                     "forever": rnd.random() < 0.2, "critical": rnd.random() < 0.4, "label": None})
        return len(jobs) - 1

    if pure_root is None:
        pure_root = rnd.random() < 0.3
    root = new("pure" if pure_root else "sched")
    members[str(root)] = []
    frontier = [(root, 1)]
    budget = rnd.randint(1, max_jobs)
    while budget > 0 and frontier:
        s, d = rnd.choice(frontier)
        if d < max_depth and rnd.random() < p_sched:
            k = new("sched")
            members[str(k)] = []
            frontier.append((k, d + 1))
        else:
            k = new("atom")
        members[str(s)].append(k)
        budget -= 1
    for _ in range(rnd.randint(0, outsiders)):
        new("atom")
    return {"jobs": jobs, "members": members, "edges": [], "root": root}


def add_random_edges(rnd, recipe, density=None, within_p=0.6):
    """Arbitrary edges: within a scheduler, across schedulers, to outsiders, to/from schedulers."""
    n = len(recipe["jobs"])
    if density is None:
        density = rnd.choice([0.0, 0.1, 0.2, 0.35])
    parent = {}
    for s, ms in recipe["members"].items():
        for m in ms:
            parent[m] = int(s)
    edges = set()
    cand = [j for j in range(n) if recipe["jobs"][j]["kind"] != "pure"]
    for j in cand:
        for r in cand:
            if j == r:
                continue
            same = parent.get(j) is not None and parent.get(j) == parent.get(r)
            p = density * (1.5 if same else (1 - within_p) * 1.2)
            if rnd.random() < p:
                edges.add((j, r))
    edges = list(edges)
    rnd.shuffle(edges)
    recipe["edges"] = [list(e) for e in edges]
    return recipe


def shape_key(recipe):
    """Canonical description of a recipe, ignoring hash values (for distinct counting)."""
    return (tuple((j["kind"], j["forever"], j["critical"]) for j in recipe["jobs"]),
            tuple(sorted((int(s), tuple(ms)) for s, ms in recipe["members"].items())),
            tuple(sorted(map(tuple, recipe["edges"]))))
