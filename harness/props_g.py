"""Property runners for model G (graph / construction / export properties)."""
import contextlib
import io
import itertools
import random

from . import core
from .gworld import (build, enc_tree, enc_rmap, enc_nats, snapshot_req, dec_rmap,
                     random_tree_recipe, add_random_edges, shape_key)


def quiet(f, *a, **k):
    buf = io.StringIO()
    with contextlib.redirect_stdout(buf):
        return f(*a, **k)


class Prop:
    pid = None
    rule = ""

    def generate(self, tier, rnd):
        raise NotImplementedError

    def evaluate(self, cases):
        """-> list of dicts {status: ok|mismatch|specfail, detail, nontrivial (key or None),
        model_cases: [(ints, out)], tags: {...}}"""
        raise NotImplementedError

    def shrink_candidates(self, case):
        return []

    def known_finding(self, case, res):
        return None


def drop_edge_candidates(case):
    rec = case["recipe"]
    for i in range(len(rec["edges"])):
        r2 = dict(rec)
        r2["edges"] = rec["edges"][:i] + rec["edges"][i + 1:]
        c2 = dict(case)
        c2["recipe"] = r2
        yield c2


# =============================================================================== C16

class C16(Prop):
    pid = "C16"
    rule = ("random scheduler trees (depth<=3, <=14 jobs, PureScheduler or Scheduler root) with arbitrary "
            "requirement edges (to siblings' jobs, parents, children, jobs of no scheduler, to/from nested "
            "schedulers), random set orders via __hash__; sanitize() called twice; non-trivial = the tree has "
            "a nested scheduler or at least one edge leaves its scheduler; distinct = distinct (tree, flags, "
            "edge set)")

    def generate(self, tier, rnd):
        n = 400 if tier == "quick" else 6000
        cases = []
        for i in range(n):
            rec = random_tree_recipe(rnd, max_jobs=rnd.choice([3, 6, 10, 14]), outsiders=3)
            add_random_edges(rnd, rec)
            cases.append({"recipe": rec, "verbose": rnd.random() < 0.15})
        return cases

    def evaluate(self, cases):
        obs = []
        queries = []
        for c in cases:
            objs = build(c["recipe"])
            root = objs[c["recipe"]["root"]]
            o = {"exc": None}
            tree0, rq0 = enc_tree(root), enc_rmap(objs)
            try:
                o["ret1"] = quiet(root.sanitize, c.get("verbose"))
                tree1, rq1 = enc_tree(root), enc_rmap(objs)
                o["snap1"] = snapshot_req(objs)
                o["ret2"] = quiet(root.sanitize)
                rq2 = enc_rmap(objs)
                o["snap2"] = snapshot_req(objs)
            except Exception as e:       # noqa
                o["exc"] = repr(e)
                obs.append(o)
                continue
            o["q"] = len(queries)
            queries.append([1] + tree0 + rq0)
            queries.append([1] + tree1 + rq1)
            queries.append([11] + tree0 + rq0 + rq1 + [int(bool(o["ret1"]))])
            queries.append([11] + tree1 + rq1 + rq2 + [int(bool(o["ret2"]))])
            obs.append(o)
        outs = core.run_driver(queries)
        results = []
        for c, o in zip(cases, obs):
            res = {"status": "ok", "detail": None, "model_cases": [], "tags": {}}
            rec = c["recipe"]
            nested = sum(1 for j in rec["jobs"] if j["kind"] == "sched") - (rec["jobs"][rec["root"]]["kind"] == "sched")
            res["tags"] = {"jobs": len(rec["jobs"]), "edges": len(rec["edges"]), "nested": nested}
            res["nontrivial"] = shape_key(rec) if (nested > 0 or rec["edges"]) else None
            if o["exc"]:
                res.update(status="specfail", detail={"what": "sanitize() raised", "exc": o["exc"]})
                results.append(res)
                continue
            q = o["q"]
            res["model_cases"] = [(queries[q + i], outs[q + i]) for i in range(4)]
            res["tags"]["ret1"] = bool(o["ret1"])
            problems = []
            for k, (ret, snap) in enumerate([(o["ret1"], o["snap1"]), (o["ret2"], o["snap2"])]):
                m = outs[q + k]
                if m[0] != 1:
                    problems.append(("mismatch", "model could not decode call %d" % (k + 1)))
                    continue
                fine = m[1]
                mrq, _ = dec_rmap(m, 2)
                if bool(fine) != bool(ret) or [sorted(x) for x in mrq] != snap:
                    problems.append(("mismatch", {"call": k + 1, "impl_ret": ret, "model_ret": bool(fine),
                                                  "impl_required": snap, "model_required": [sorted(x) for x in mrq]}))
                if ret is not True and ret is not False:
                    problems.append(("specfail", {"call": k + 1, "what": "return value is not a bool", "ret": repr(ret)}))
                if outs[q + 2 + k] != [1, 1]:
                    problems.append(("specfail", {"call": k + 1, "what": "C16 statement (closed, minimal, truthful) fails on the implementation's result",
                                                  "impl_ret": ret, "impl_required_after": snap}))
            if o["ret2"] is not True or o["snap2"] != o["snap1"]:
                problems.append(("specfail", {"what": "second sanitize() did not return True / changed something",
                                              "ret2": o["ret2"]}))
            for kind in ("specfail", "mismatch"):
                ps = [p for p in problems if p[0] == kind]
                if ps:
                    res.update(status=kind, detail=ps[0][1])
                    break
            results.append(res)
        return results

    def shrink_candidates(self, case):
        return drop_edge_candidates(case)


# =============================================================================== C15

def all_digraphs(n, self_loops=False):
    pairs = [(j, r) for j in range(n) for r in range(n) if (j != r or self_loops)]
    for mask in range(1 << len(pairs)):
        yield [list(p) for i, p in enumerate(pairs) if mask >> i & 1]


def flat_recipe(rnd, n, edges, pure, hash_range=16):
    """one scheduler (id n) holding atoms 0..n-1"""
    jobs = [{"kind": "atom", "hash": rnd.randrange(hash_range), "forever": False, "critical": False,
             "label": None} for _ in range(n)]
    jobs.append({"kind": "pure" if pure else "sched", "hash": rnd.randrange(hash_range),
                 "forever": False, "critical": False, "label": None})
    order = list(range(n))
    rnd.shuffle(order)
    edges = list(edges)
    rnd.shuffle(edges)
    return {"jobs": jobs, "members": {str(n): order}, "edges": edges, "root": n}


def closed_tree_recipe(rnd, max_jobs, p_cycle):
    """tree with edges only between members of the same scheduler; cycles with some probability"""
    rec = random_tree_recipe(rnd, max_jobs=max_jobs, outsiders=0, p_sched=0.3)
    edges = []
    for s, ms in rec["members"].items():
        ms = list(ms)
        rnd.shuffle(ms)      # a random linear order: edges go backwards -> DAG
        dens = rnd.choice([0.15, 0.3, 0.5])
        for a in range(len(ms)):
            for b in range(a):
                if rnd.random() < dens:
                    edges.append([ms[a], ms[b]])
        if len(ms) >= 1 and rnd.random() < p_cycle:
            k = rnd.randint(1, min(4, len(ms)))
            cyc = rnd.sample(ms, k)
            for i in range(k):
                if k == 1:
                    edges.append([cyc[0], cyc[0]])
                else:
                    edges.append([cyc[i], cyc[(i + 1) % k]])
    uniq = []
    for e in edges:
        if e not in uniq:
            uniq.append(e)
    rnd.shuffle(uniq)
    rec["edges"] = uniq
    return rec


class C15(Prop):
    pid = "C15"
    rule = ("all digraphs on <=3 nodes (quick: plus a sample on 4..5 nodes; thorough: all on <=4 nodes, large "
            "sample on 5) in one scheduler under random set orders, random closed trees (depth<=3, <=14 jobs) "
            "with a cycle planted at a random level with p=0.4, and edit sequences that add/remove the closing "
            "edge of a cycle; observed: yielded sequence and whether topological_order() raised, "
            "PureScheduler/Scheduler.check_cycles(), _set_sched_ids() numbering; non-trivial = at least 2 "
            "edges or a cycle; distinct = distinct (members order, edge set, tree)")

    def generate(self, tier, rnd):
        cases = []
        small = 3 if tier == "quick" else 4
        for n in range(0, small + 1):
            for edges in all_digraphs(n, self_loops=(n <= 2)):
                for rep in range(2 if tier == "quick" else 3):
                    cases.append({"recipe": flat_recipe(rnd, n, edges, pure=rnd.random() < 0.5), "edit": None})
        for n, cnt in ((4, 250), (5, 250)) if tier == "quick" else ((5, 6000), (6, 3000)):
            pairs = [(j, r) for j in range(n) for r in range(n) if j != r]
            for _ in range(cnt):
                k = rnd.randint(0, min(len(pairs), 2 * n))
                edges = [list(p) for p in rnd.sample(pairs, k)]
                cases.append({"recipe": flat_recipe(rnd, n, edges, pure=rnd.random() < 0.5), "edit": None})
        for _ in range(300 if tier == "quick" else 5000):
            rec = closed_tree_recipe(rnd, rnd.choice([4, 8, 12, 14]), 0.4)
            cases.append({"recipe": rec, "edit": None})
        # edit sequences: toggle edges on a live tree, observing after every step
        for _ in range(60 if tier == "quick" else 1500):
            rec = closed_tree_recipe(rnd, rnd.choice([4, 8, 12]), 0.0)
            steps = []
            for _ in range(rnd.randint(2, 6)):
                s = rnd.choice(list(rec["members"].keys()))
                ms = rec["members"][s]
                if len(ms) >= 1:
                    a, b = rnd.choice(ms), rnd.choice(ms)
                    steps.append([a, b])
            cases.append({"recipe": rec, "edit": steps})
        return cases

    @staticmethod
    def observe_state(objs, root, o_list, queries):
        """observe every scheduler of the tree + the nested check + the numbering"""
        from asynciojobs import PureScheduler, Scheduler
        rq = enc_rmap(objs)
        o = {"levels": []}
        for s in objs:
            if not isinstance(s, PureScheduler):
                continue
            ms = [j.hid for j in s.jobs]
            yielded, raised = [], False
            try:
                for j in s.topological_order():
                    yielded.append(j.hid)
            except Exception:        # noqa
                raised = True
            pure_cc = quiet(PureScheduler.check_cycles, s)
            lv = {"s": s.hid, "ms": ms, "yielded": yielded, "raised": raised, "pure_cc": pure_cc,
                  "q": len(queries)}
            queries.append([2] + enc_nats(ms) + rq)
            queries.append([12] + enc_nats(ms) + rq + [int(raised)] + enc_nats(yielded))
            queries.append([4] + enc_tree(s) + rq)
            o["levels"].append(lv)
        tree = enc_tree(root)
        o["cc"] = quiet(root.check_cycles)
        o["cc_is_nested"] = isinstance(root, Scheduler)
        o["qcc"] = len(queries)
        queries.append([3 if o["cc_is_nested"] else 4] + tree + rq)
        # numbering
        try:
            nxt = root._set_sched_ids()
            ids = {}

            def walk(s):
                for j in s.jobs:
                    ids[j.hid] = int(j._sched_id)
                    if isinstance(j, PureScheduler):
                        walk(j)
            walk(root)
            o["ids"] = {"next": nxt, "ids": ids}
        except Exception:            # noqa
            o["ids"] = None
        o["qids"] = len(queries)
        queries.append([5] + tree + rq)
        o_list.append(o)

    def evaluate(self, cases):
        queries = []
        obs = []
        for c in cases:
            objs = build(c["recipe"])
            root = objs[c["recipe"]["root"]]
            states = []
            self.observe_state(objs, root, states, queries)
            for (a, b) in (c.get("edit") or []):
                if objs[b] in objs[a].required:
                    objs[a].required.remove(objs[b])
                else:
                    objs[a].required.add(objs[b])
                self.observe_state(objs, root, states, queries)
            obs.append(states)
        outs = core.run_driver(queries)
        results = []
        for c, states in zip(cases, obs):
            rec = c["recipe"]
            res = {"status": "ok", "detail": None, "model_cases": [], "tags": {}, "nontrivial": None}
            problems = []
            any_cycle = False
            for st_i, o in enumerate(states):
                for lv in o["levels"]:
                    q = lv["q"]
                    m = outs[q]
                    res["model_cases"].append((queries[q], m))
                    if m[0] != 1:
                        problems.append(("mismatch", "model could not decode"))
                        continue
                    m_r, m_y = m[1], m[3:3 + m[2]]
                    if m_r == 2:
                        problems.append(("mismatch", "model ran out of fuel"))
                    if (m_r != 0) != lv["raised"] or m_y != lv["yielded"]:
                        problems.append(("mismatch", {"step": st_i, "sched": lv["s"], "members": lv["ms"],
                                                      "impl": [lv["yielded"], lv["raised"]], "model": [m_y, m_r]}))
                    if outs[q + 1] != [1, 1]:
                        problems.append(("specfail", {"step": st_i, "sched": lv["s"], "members": lv["ms"],
                                                      "what": "C15 statement fails on topological_order() output",
                                                      "yielded": lv["yielded"], "raised": lv["raised"]}))
                    if outs[q + 2] != [1, int(bool(lv["pure_cc"]))]:
                        problems.append(("mismatch", {"step": st_i, "sched": lv["s"], "what": "PureScheduler.check_cycles",
                                                      "impl": lv["pure_cc"], "model": outs[q + 2]}))
                    if bool(lv["pure_cc"]) != (not lv["raised"]):
                        problems.append(("specfail", {"step": st_i, "sched": lv["s"],
                                                      "what": "check_cycles() disagrees with topological_order() raising",
                                                      "check_cycles": lv["pure_cc"], "raised": lv["raised"]}))
                    any_cycle = any_cycle or lv["raised"]
                # nested check: True iff no level raises (for a Scheduler root), own level for a pure root
                mcc = outs[o["qcc"]]
                if mcc != [1, int(bool(o["cc"]))]:
                    problems.append(("mismatch", {"step": st_i, "what": "check_cycles (root)", "impl": o["cc"], "model": mcc}))
                if o["cc_is_nested"]:
                    expect = not any(lv["raised"] for lv in o["levels"])
                else:
                    expect = not [lv for lv in o["levels"] if lv["s"] == rec["root"]][0]["raised"]
                if bool(o["cc"]) != expect or o["cc"] not in (True, False):
                    problems.append(("specfail", {"step": st_i, "what": "check_cycles() of the root is not 'every level acyclic'",
                                                  "impl": o["cc"], "expected": expect}))
                mids = outs[o["qids"]]
                if o["ids"] is None:
                    if mids != [1, 0]:
                        problems.append(("mismatch", {"step": st_i, "what": "_set_sched_ids raised, model did not"}))
                else:
                    if mids[:2] != [1, 1]:
                        problems.append(("mismatch", {"step": st_i, "what": "_set_sched_ids", "model": mids[:4]}))
                    else:
                        nxt, k = mids[2], mids[3]
                        pairs = {mids[4 + 2 * i]: mids[5 + 2 * i] for i in range(k)}
                        if nxt != o["ids"]["next"] or pairs != o["ids"]["ids"]:
                            problems.append(("mismatch", {"step": st_i, "what": "_set_sched_ids numbering",
                                                          "impl": o["ids"], "model": [nxt, pairs]}))
                    # the numbering respects requirements between members of one scheduler
                    ids = o["ids"]["ids"]
                    for j, r in rec["edges"]:
                        if j in ids and r in ids and ids[r] >= ids[j] and not any_cycle and not c.get("edit"):
                            problems.append(("specfail", {"what": "numbering not increasing along a requirement",
                                                          "edge": [j, r], "ids": ids}))
            res["tags"] = {"jobs": len(rec["jobs"]), "edges": len(rec["edges"]), "cyclic": any_cycle,
                           "edit": bool(c.get("edit"))}
            if len(rec["edges"]) >= 2 or any_cycle:
                res["nontrivial"] = (shape_key(rec), tuple(map(tuple, c.get("edit") or [])))
            for kind in ("specfail", "mismatch"):
                ps = [p for p in problems if p[0] == kind]
                if ps:
                    res.update(status=kind, detail=ps[0][1])
                    break
            results.append(res)
        return results

    def shrink_candidates(self, case):
        if case.get("edit"):
            for i in range(len(case["edit"])):
                c2 = dict(case)
                c2["edit"] = case["edit"][:i] + case["edit"][i + 1:]
                yield c2
        yield from drop_edge_candidates(case)


PROPS = {"C15": C15(), "C16": C16()}
