"""Validation of the virtual-time loop (not a registered check: it uses wall-clock sleeps).

The R checks run the implementation under a SelectorEventLoop whose clock jumps to the next timer.
This script runs the same configurations under an ordinary event loop in real time (durations
scaled to SCALE seconds) and compares, per job, the instants of body entry and exit (rounded to
units), the outcome, and the outcome of the top-level run, with what the virtual-time run records.
Configurations are generated without ties (distinct instants), because in real time the order of
two timers that are due together is not controlled."""
import asyncio
import copy
import random
import sys
import time

from . import core
core.setup_impl_path()
from . import robserve as RO      # noqa
from . import rgen                # noqa
from .props_c10 import timeline   # noqa

SCALE = 0.05
TIMEOUTS = 0     # 1: also trees with timeouts (a completion that ties with an expiry then differs legitimately)


def scaled(cfg):
    c = copy.deepcopy(cfg)
    for j in c["jobs"]:
        for k in ("dur", "cdur", "sdur", "timeout", "sdto"):
            if j.get(k) is not None:
                j[k] = j[k] * SCALE
    return c


def real_run(cfg):
    c = scaled(cfg)
    rec = RO.Recorder()
    stamps = []
    orig = rec.rec

    def stamped(*ev):
        stamps.append(time.monotonic())
        orig(*ev)
    rec.rec = stamped
    loop = asyncio.SelectorEventLoop()
    asyncio.set_event_loop(loop)
    try:
        objs = RO.build(c, rec)
        t0 = time.monotonic()
        try:
            v = loop.run_until_complete(asyncio.wait_for(objs[0].co_run(), 60))
            out = "true" if v is True else "false" if v is False else repr(v)
        except BaseException as e:      # noqa
            out = "raise"
    finally:
        try:
            for t in asyncio.all_tasks(loop):
                t.cancel()
            loop.run_until_complete(asyncio.sleep(0))
        except BaseException:       # noqa
            pass
        loop.close()
        asyncio.set_event_loop(None)
    tl = {}
    for ev, ts in zip(rec.log, stamps):
        u = round((ts - t0) / SCALE)
        k = ev[0]
        if k == "start":
            tl[ev[1]] = [u, None, None]
        elif k == "finish":
            tl[ev[1]][1:] = [u, ev[2]]
        elif k in ("cend", "cabort"):
            tl[ev[1]][1:] = [u, "cancelled"]
    return tl, out


def tie_free(cfg, log):
    """all timer instants of the virtual run are distinct"""
    now, seen, ok = 0.0, [], True
    per = {}
    for e in log:
        if e[0] == "tick":
            now = e[1]
        elif e[0] in ("finish", "cend", "hend") or (e[0] == "waitret" and e[2] in ("main", "shut") and not e[3] and e[2] == "main"):
            per.setdefault(now, 0)
            per[now] += 1
        elif e[0] == "rootdone":
            break
    return all(v == 1 for v in per.values())


def main():
    n = int(sys.argv[1]) if len(sys.argv) > 1 else 60
    rnd = random.Random(int(sys.argv[2]) if len(sys.argv) > 2 else 0)
    done = same = 0
    bad = []
    while done < n:
        cfg = rgen.gen_config(rnd, max_jobs=rnd.choice([3, 5, 7]),
                              profile={"tie": 0.0, "maxdur": 6, "never": 0.0, "yields": 0.0, "sd_never": 0.0, "job_cls": 0.0,
                                       "timeout": 0.0 if TIMEOUTS == 0 else 0.5, "root_timeout": 0.0 if TIMEOUTS == 0 else 0.4})
        r = RO.run_config(cfg)
        vt, vo = timeline(r["log"])
        vt.pop("first_cancel", None)
        if vo is None or vo[0] in ("deadlock", "livelock") or not tie_free(cfg, r["log"]):
            continue
        rt, ro = real_run(cfg)
        v2 = {k: [int(x[0]), None if x[1] is None else int(x[1]), x[2]] for k, x in vt.items()}
        done += 1
        if v2 == rt and (vo[0] == ro or (vo[0] == "raise" and ro == "raise")):
            same += 1
        else:
            bad.append({"cfg": cfg, "virtual": v2, "real": rt, "vo": vo, "ro": ro})
    print("compared %d tie-free configurations in real time (scale %.2fs): %d identical timelines" % (done, SCALE, same))
    for b in bad[:3]:
        print("DIFF", b["virtual"], b["real"], b["vo"], b["ro"])
    return 0 if same == done else 1


if __name__ == "__main__":
    sys.exit(main())
