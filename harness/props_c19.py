"""C19: the construction API (Sequence, requires, append, add/update/remove) builds exactly the
documented requirement edges.

A case is a short program over job / scheduler / sequence variables:

case = {"kinds": ["job"|"sched"|"pure", ...],   # index = id in the job/scheduler namespace
        "jhash": [int, ...],                    # __hash__ of object i (drives set iteration order)
        "qhash": [int, ...],                    # __hash__ of sequence q
        "prog":  [stmt, ...]}
stmt = ["newjob", j, arg, sched|None] | ["newseq", q, [item..], arg, sched|None]
     | ["newsched", s, [item..], arg, sched|None] | ["requires", j, [arg..], remove]
     | ["append", q, [item..]] | ["seqrequires", q, [arg..]] | ["add", s, item]
     | ["update", s, [item..]] | ["remove", s, j]
item = None | ["j", id] | ["q", id]
arg  = None | ["j", id] | ["q", id] | ["list", [arg..]] | ["tuple", [arg..]] | ["set", [arg..]]

The program is run by the library, statement by statement, with objects made by the real
constructors; after every statement (and after the first exception, where the run stops) all
required sets, scheduler contents, sequence contents and sequence schedulers are snapshot.  Each
prefix of the program is run by the extracted code model (op 60) and the executable statement of
the property (op 70: agreement with the documented meaning exec_doc) is evaluated on the
implementation's snapshot.  A set argument is built first; its observed iteration order is what
the model receives."""
import contextlib
import io

from . import core
from .props_g import Prop
from .gworld import HJob, HSched

from asynciojobs import Scheduler, PureScheduler, Sequence


class KSched(HSched):
    """Nested Scheduler with chosen hash, built by the real constructor with items and keywords."""

    def __init__(self, hid, hashv, *items, **kw):
        self.hid = hid
        self._h = hashv
        Scheduler.__init__(self, *items, **kw)


class KPure(PureScheduler):
    def __init__(self, hid, hashv, *items):
        self.hid = hid
        self._h = hashv
        PureScheduler.__init__(self, *items)
        self.required = set()

    def __hash__(self):
        return self._h


class HSeq(Sequence):
    """Sequence with a chosen hash, so that sets holding sequences iterate reproducibly."""

    def __init__(self, qid, hashv, *items, **kw):
        self.qid = qid
        self._h = hashv
        Sequence.__init__(self, *items, **kw)

    def __hash__(self):
        return self._h


class InvalidCase(Exception):
    pass


# --------------------------------------------------------------------------- encoding

def enc_item(it):
    if it is None:
        return [0]
    return [1 if it[0] == "j" else 2, it[1]]


def enc_items(its):
    out = [len(its)]
    for it in its:
        out += enc_item(it)
    return out


_TAG = {"list": 3, "tuple": 4, "set": 5}


def enc_arg(a):
    if a is None:
        return [0]
    if a[0] == "j":
        return [1, a[1]]
    if a[0] == "q":
        return [2, a[1]]
    out = [_TAG[a[0]], len(a[1])]
    for c in a[1]:
        out += enc_arg(c)
    return out


def enc_args(l):
    out = [len(l)]
    for a in l:
        out += enc_arg(a)
    return out


def enc_opt(x):
    return [0] if x is None else [1, x]


def enc_stmt(s):
    k = s[0]
    if k == "newjob":
        return [0, s[1]] + enc_arg(s[2]) + enc_opt(s[3])
    if k == "newseq":
        return [1, s[1]] + enc_items(s[2]) + enc_arg(s[3]) + enc_opt(s[4])
    if k == "newsched":
        return [2, s[1]] + enc_items(s[2]) + enc_arg(s[3]) + enc_opt(s[4])
    if k == "requires":
        return [3, s[1]] + enc_args(s[2]) + [int(bool(s[3]))]
    if k == "append":
        return [4, s[1]] + enc_items(s[2])
    if k == "seqrequires":
        return [5, s[1]] + enc_args(s[2])
    if k == "add":
        return [6, s[1]] + enc_item(s[2])
    if k == "update":
        return [7, s[1]] + enc_items(s[2])
    if k == "remove":
        return [8, s[1], s[2]]
    raise InvalidCase("unknown statement %r" % (k,))


def enc_prog(p):
    out = [len(p)]
    for s in p:
        out += enc_stmt(s)
    return out


def enc_table(rows):
    out = [len(rows)]
    for r in rows:
        out += [len(r)] + list(r)
    return out


def enc_snapshot(snap):
    out = [snap["err"]] + enc_table(snap["req"]) + enc_table(snap["mem"]) + enc_table(snap["seqs"])
    out += [len(snap["ss"])]
    for x in snap["ss"]:
        out += enc_opt(x)
    return out


def dec_outcome(m):
    """[1, err, table req, table mem, table seqs, opts] -> dict (sets sorted)"""
    if not m or m[0] != 1:
        return None
    pos = 2
    tabs = []
    for _ in range(3):
        n = m[pos]
        pos += 1
        rows = []
        for _ in range(n):
            k = m[pos]
            rows.append(m[pos + 1:pos + 1 + k])
            pos += 1 + k
        tabs.append(rows)
    n = m[pos]
    pos += 1
    ss = []
    for _ in range(n):
        if m[pos] == 0:
            ss.append(None)
            pos += 1
        else:
            ss.append(m[pos + 1])
            pos += 2
    return {"err": m[1], "req": [sorted(r) for r in tabs[0]], "mem": [sorted(r) for r in tabs[1]],
            "seqs": tabs[2], "ss": ss}


# --------------------------------------------------------------------------- running the library

class World:
    def __init__(self, case):
        self.case = case
        self.objs = {}
        self.seqs = {}

    def job(self, i):
        o = self.objs.get(i)
        if o is None or isinstance(o, KPure):
            raise InvalidCase("job %r does not exist" % (i,))
        return o

    def sched(self, i):
        o = self.objs.get(i)
        if o is None or not isinstance(o, PureScheduler):
            raise InvalidCase("scheduler %r does not exist" % (i,))
        return o

    def opt_sched(self, i):
        return None if i is None else self.sched(i)

    def seq(self, q):
        o = self.seqs.get(q)
        if o is None:
            raise InvalidCase("sequence %r does not exist" % (q,))
        return o

    def item(self, it):
        if it is None:
            return None
        return self.job(it[1]) if it[0] == "j" else self.seq(it[1])

    def arg(self, a):
        """-> (python value, the term with every set in its observed iteration order)"""
        if a is None:
            return None, None
        if a[0] == "j":
            return self.job(a[1]), ["j", a[1]]
        if a[0] == "q":
            return self.seq(a[1]), ["q", a[1]]
        kids = [self.arg(c) for c in a[1]]
        if a[0] == "list":
            return [v for v, _ in kids], ["list", [t for _, t in kids]]
        if a[0] == "tuple":
            return tuple(v for v, _ in kids), ["tuple", [t for _, t in kids]]
        if a[0] == "set":
            try:
                theset = set(v for v, _ in kids)
            except TypeError:
                raise InvalidCase("unhashable set element")
            order = []
            for v in theset:                       # the order requires() is going to see
                for w, t in kids:
                    if (w is v) or (isinstance(v, tuple) and isinstance(w, tuple) and w == v):
                        order.append(t)
                        break
                else:
                    raise InvalidCase("set element not found")
            if len(order) != len(theset) or len({repr(t) for t in order}) != len(order):
                raise InvalidCase("set order is not a permutation of the elements")
            return theset, ["set", order]
        raise InvalidCase("bad argument %r" % (a,))

    def run_stmt(self, s):
        """Executes one statement; returns the statement as seen by the model (set orders observed).
        Library exceptions propagate."""
        k = s[0]
        c = self.case
        if k == "newjob":
            v, t = self.arg(s[2])
            sch = self.opt_sched(s[3])
            if s[1] in self.objs or c["kinds"][s[1]] != "job":
                raise InvalidCase("bad newjob")
            self.pending = ["newjob", s[1], t, s[3]]
            self.objs[s[1]] = HJob(s[1], c["jhash"][s[1]], required=v, scheduler=sch)
        elif k == "newseq":
            items = [self.item(i) for i in s[2]]
            v, t = self.arg(s[3])
            sch = self.opt_sched(s[4])
            if s[1] in self.seqs:
                raise InvalidCase("bad newseq")
            self.pending = ["newseq", s[1], s[2], t, s[4]]
            self.seqs[s[1]] = HSeq(s[1], c["qhash"][s[1]], *items, required=v, scheduler=sch)
        elif k == "newsched":
            items = [self.item(i) for i in s[2]]
            v, t = self.arg(s[3])
            sch = self.opt_sched(s[4])
            if s[1] in self.objs or c["kinds"][s[1]] == "job":
                raise InvalidCase("bad newsched")
            self.pending = ["newsched", s[1], s[2], t, s[4]]
            if c["kinds"][s[1]] == "pure":
                if s[3] is not None or s[4] is not None:
                    raise InvalidCase("a PureScheduler takes no required=/scheduler=")
                self.objs[s[1]] = KPure(s[1], c["jhash"][s[1]], *items)
            else:
                self.objs[s[1]] = KSched(s[1], c["jhash"][s[1]], *items, required=v, scheduler=sch)
        elif k == "requires":
            j = self.job(s[1])
            vt = [self.arg(a) for a in s[2]]
            self.pending = ["requires", s[1], [t for _, t in vt], s[3]]
            if s[3]:
                j.requires(*[v for v, _ in vt], remove=True)
            else:
                j.requires(*[v for v, _ in vt])
        elif k == "append":
            q = self.seq(s[1])
            items = [self.item(i) for i in s[2]]
            self.pending = s
            q.append(*items)
        elif k == "seqrequires":
            q = self.seq(s[1])
            vt = [self.arg(a) for a in s[2]]
            self.pending = ["seqrequires", s[1], [t for _, t in vt]]
            q.requires(*[v for v, _ in vt])
        elif k == "add":
            sch = self.sched(s[1])
            it = self.item(s[2])
            self.pending = s
            sch.add(it)
        elif k == "update":
            sch = self.sched(s[1])
            items = [self.item(i) for i in s[2]]
            self.pending = s
            sch.update(items)
        elif k == "remove":
            sch = self.sched(s[1])
            j = self.job(s[2])
            self.pending = s
            sch.remove(j)
        else:
            raise InvalidCase("unknown statement")
        return self.pending

    def snapshot(self, err):
        n, nq = len(self.case["kinds"]), len(self.case["qhash"])
        rq, mem, sq, ss = [], [], [], []
        for i in range(n):
            o = self.objs.get(i)
            rq.append(sorted(x.hid for x in o.required) if o is not None else [])
            mem.append(sorted(x.hid for x in o.jobs) if isinstance(o, PureScheduler) else [])
        for q in range(nq):
            o = self.seqs.get(q)
            sq.append([x.hid for x in o.jobs] if o is not None else [])
            ss.append(o.scheduler.hid if (o is not None and o.scheduler is not None) else None)
        return {"err": err, "req": rq, "mem": mem, "seqs": sq, "ss": ss}


def run_impl(case):
    """-> (program as the model must see it, snapshots after each executed statement)"""
    w = World(case)
    seen, snaps = [], []
    for s in case["prog"]:
        err, exc = 0, None
        w.pending = None
        buf = io.StringIO()
        try:
            with contextlib.redirect_stdout(buf):
                seen.append(w.run_stmt(s))
        except InvalidCase:
            raise
        except KeyError as e:
            err, exc = 1, repr(e)
        except Exception as e:           # noqa
            err, exc = 2, repr(e)
        if err:
            if w.pending is None:
                raise InvalidCase("exception while building arguments: %s" % exc)
            seen.append(w.pending)
        snap = w.snapshot(err)
        snap["exc"] = exc
        snaps.append(snap)
        if err:
            break
    return seen, snaps


# --------------------------------------------------------------------------- generator

class Ref:
    """Bookkeeping for the generator only (which requirements / members are probably present, so
    that remove statements can aim at present and at absent ones).  Plays no part in any verdict."""

    def __init__(self):
        self.req = {}
        self.mem = {}
        self.seq = {}
        self.ss = {}

    def flat(self, items):
        out = []
        for it in items:
            if it is None:
                continue
            out += [it[1]] if it[0] == "j" else list(self.seq[it[1]])
        return out

    def names(self, a):
        if a is None:
            return []
        if a[0] == "j":
            return [a[1]]
        if a[0] == "q":
            return self.seq[a[1]][-1:]
        out = []
        for c in a[1]:
            out += self.names(c)
        return out

    def requires(self, j, args, rm):
        """True if (we think) it raises"""
        for a in args:
            for x in self.names(a):
                if rm:
                    if x not in self.req[j]:
                        return True
                    self.req[j].discard(x)
                elif x != j:
                    self.req[j].add(x)
        return False

    def chain(self, l):
        for a, b in zip(l, l[1:]):
            if a != b:
                self.req[b].add(a)

    def step(self, s):
        k = s[0]
        if k == "newjob":
            self.req[s[1]] = set()
            self.requires(s[1], [s[2]], False)
            if s[3] is not None:
                self.mem[s[3]].add(s[1])
        elif k == "newseq":
            l = self.flat(s[2])
            self.seq[s[1]] = l
            self.chain(l)
            if l:
                self.requires(l[0], [s[3]], False)
            self.ss[s[1]] = s[4]
            if s[4] is not None:
                self.mem[s[4]].update(l)
        elif k == "newsched":
            self.mem[s[1]] = set(self.flat(s[2]))
            self.req[s[1]] = set()
            self.requires(s[1], [s[3]], False)
            if s[4] is not None:
                self.mem[s[4]].add(s[1])
        elif k == "requires":
            return self.requires(s[1], s[2], s[3])
        elif k == "append":
            new = self.flat(s[2])
            self.chain(self.seq[s[1]][-1:] + new)
            self.seq[s[1]] = self.seq[s[1]] + new
            if self.ss[s[1]] is not None:
                self.mem[self.ss[s[1]]].update(new)
        elif k == "seqrequires":
            if self.seq[s[1]]:
                self.requires(self.seq[s[1]][0], s[2], False)
        elif k == "add":
            self.mem[s[1]].update(self.flat([s[2]]))
        elif k == "update":
            self.mem[s[1]].update(self.flat(s[2]))
        elif k == "remove":
            if s[2] not in self.mem[s[1]]:
                return True
            self.mem[s[1]].discard(s[2])
        return False


def gen_program(rnd, max_stmts=12, max_depth=3, hash_range=8):
    kinds, jhash, qhash, prog = [], [], [], []
    jobs, scheds = [], []          # ids usable as jobs / as schedulers
    ref = Ref()

    def leaf(p_none=0.15):
        r = rnd.random()
        if r < p_none or (not jobs and not qhash):
            return None
        if qhash and (r < 0.4 or not jobs):
            return ["q", rnd.randrange(len(qhash))]
        return ["j", rnd.choice(jobs)]

    def item():
        return leaf(0.12)

    def items(lo=0, hi=4):
        return [item() for _ in range(rnd.randint(lo, hi))]

    def arg(d, hashable=False):
        if d <= 0 or rnd.random() < 0.4:
            return leaf()
        kind = "tuple" if hashable else rnd.choice(["list", "tuple", "set", "set"])
        n = rnd.choice([0, 1, 1, 2, 2, 3, 4])
        return [kind, [arg(d - 1, hashable or kind == "set") for _ in range(n)]]

    def wrap(a, d):
        """hide a in some nesting"""
        for _ in range(rnd.randint(0, d)):
            kind = rnd.choice(["list", "tuple", "set"])
            extra = [None] if rnd.random() < 0.3 else []
            if kind == "set" and not hashable_term(a):
                kind = "tuple"
            kids = extra + [a]
            rnd.shuffle(kids)
            a = [kind, kids]
        return a

    def opt_sched():
        return rnd.choice(scheds) if scheds and rnd.random() < 0.5 else None

    def new_obj(kind):
        kinds.append(kind)
        jhash.append(rnd.randrange(hash_range))
        return len(kinds) - 1

    depth = rnd.randint(0, max_depth)
    nst = rnd.randint(max(2, max_stmts // 2), max_stmts)
    sched_first = rnd.random() < 0.5
    while len(prog) < nst:
        r = rnd.random()
        s = None
        if sched_first and not prog:
            r = 0.4                              # start with a scheduler
        if r < 0.2 or (not jobs and not (sched_first and not prog)):
            j = new_obj("job")
            s = ["newjob", j, arg(depth) if rnd.random() < 0.5 else None, opt_sched()]
        elif r < 0.36:
            q = len(qhash)
            s = ["newseq", q, items(0, 5) if rnd.random() < 0.9 else [],
                 arg(depth) if rnd.random() < 0.5 else None, opt_sched()]
        elif r < 0.44:
            pure = rnd.random() < 0.25
            i = new_obj("pure" if pure else "sched")
            s = ["newsched", i, items(0, 3), None if pure else (arg(depth) if rnd.random() < 0.3 else None),
                 None if pure else opt_sched()]
        elif r < 0.64:
            j = rnd.choice(jobs)
            rm = rnd.random() < 0.3
            if rm:
                present = sorted(ref.req[j])
                r2 = rnd.random()
                if present and r2 < 0.7:
                    k = rnd.randint(1, min(3, len(present)))
                    picks = rnd.sample(present, k)
                    args = []
                    for x in picks:
                        cands = [["j", x]] + [["q", q] for q in range(len(qhash)) if ref.seq[q][-1:] == [x]]
                        args.append(wrap(rnd.choice(cands), depth))
                    if rnd.random() < 0.3 and len(args) > 1:
                        kind = rnd.choice(["list", "tuple", "set"])
                        if kind == "set" and not all(hashable_term(a) for a in args):
                            kind = "list"
                        args = [[kind, args]]
                elif present and r2 < 0.8:       # twice the same: the second one is gone
                    x = ["j", rnd.choice(present)]
                    args = [wrap(["list", [x, x]], max(0, depth - 1))]
                elif r2 < 0.85:                  # oneself
                    args = [wrap(["j", j], depth)]
                else:
                    args = [arg(depth) for _ in range(rnd.randint(1, 2))]
            else:
                args = [arg(depth) for _ in range(rnd.randint(0, 3))]
            s = ["requires", j, args, rm]
        elif r < 0.78 and qhash:
            q = rnd.randrange(len(qhash))
            withs = [x for x in range(len(qhash)) if ref.ss.get(x) is not None]
            if withs and rnd.random() < 0.5:
                q = rnd.choice(withs)            # a sequence that has a scheduler
            r2 = rnd.random()
            if r2 < 0.12:
                its = [["q", q]]                 # s.append(s)
            elif r2 < 0.2:
                its = rnd.choice([[], [None], [None, None]])
            else:
                its = items(1, 4)
            s = ["append", q, its]
        elif r < 0.83 and qhash:
            s = ["seqrequires", rnd.randrange(len(qhash)), [arg(depth) for _ in range(rnd.randint(0, 2))]]
        elif r < 0.87 and scheds:
            s = ["add", rnd.choice(scheds), item()]
        elif r < 0.93 and scheds:
            s = ["update", rnd.choice(scheds), items(0, 4)]
        elif scheds:
            sc = rnd.choice(scheds)
            present = sorted(ref.mem[sc])
            if present and rnd.random() < 0.8:
                s = ["remove", sc, rnd.choice(present)]
            else:
                s = ["remove", sc, rnd.choice(jobs)]
        if s is None:
            continue
        prog.append(s)
        if s[0] == "newjob":
            jobs.append(s[1])
        elif s[0] == "newseq":
            qhash.append(rnd.randrange(hash_range))
        elif s[0] == "newsched":
            scheds.append(s[1])
            if kinds[s[1]] == "sched":
                jobs.append(s[1])
        if ref.step(s):
            break                                # the library is expected to raise here
    return {"kinds": kinds, "jhash": jhash, "qhash": qhash, "prog": prog}


def hashable_term(a):
    if a is None or a[0] in ("j", "q"):
        return True
    if a[0] == "tuple":
        return all(hashable_term(c) for c in a[1])
    return False


def small_args(leaves, depth):
    """all argument terms of the given depth over the leaves, containers of size <= 2"""
    if depth == 0:
        return list(leaves)
    sub = small_args(leaves, depth - 1)
    out = list(sub)
    for kind in ("list", "tuple", "set"):
        out.append([kind, []])
        for a in sub:
            if kind != "set" or hashable_term(a):
                out.append([kind, [a]])
        for a in leaves:
            for b in sub:
                if kind != "set" or (hashable_term(a) and hashable_term(b)):
                    out.append([kind, [a, b]])
    return out


def systematic(rnd, tier):
    """jobs 0,1,2; sequence 0 = (1, 2), sequence 1 empty; job 0 requires 1 and 2; then every small
    argument term with remove=False and remove=True, and through required= of each constructor"""
    leaves = [None, ["j", 0], ["j", 1], ["j", 2], ["q", 0], ["q", 1]]
    args = small_args(leaves, 1 if tier == "quick" else 2)
    if tier != "quick":
        rnd.shuffle(args)
        args = args[:6000]
    cases = []
    base = [["newjob", 0, None, None], ["newjob", 1, None, None], ["newjob", 2, None, None],
            ["newseq", 0, [["j", 1], ["j", 2]], None, None], ["newseq", 1, [], None, None]]
    pre = [["requires", 0, [["j", 1], ["j", 2]], False]]
    for i, a in enumerate(args):
        def mk(prog, kinds=("job", "job", "job"), nq=2):
            return {"kinds": list(kinds), "jhash": [rnd.randrange(4) for _ in kinds],
                    "qhash": [rnd.randrange(4) for _ in range(nq)], "prog": prog}
        cases.append(mk(base + pre + [["requires", 0, [a], True]]))
        cases.append(mk(base + [["requires", 0, [a], False]]))
        k = i % 4
        if k == 0:
            cases.append(mk(base + [["newjob", 3, a, None]], ("job",) * 4))
        elif k == 1:
            cases.append(mk(base + [["newseq", 2, [["j", 0], ["q", 0]], a, None]], nq=3))
        elif k == 2:
            cases.append(mk(base + [["newsched", 3, [["q", 0]], a, None]], ("job", "job", "job", "sched")))
        else:
            cases.append(mk(base + [["seqrequires", 0, [a, ["j", 0]]]]))
    return cases


# --------------------------------------------------------------------------- the property

def term_depth(a):
    if a is None or a[0] in ("j", "q"):
        return 0
    return 1 + max([term_depth(c) for c in a[1]] + [0])


def stmt_args(s):
    if s[0] in ("newjob",):
        return [s[2]]
    if s[0] in ("newseq", "newsched"):
        return [s[3]]
    if s[0] in ("requires", "seqrequires"):
        return list(s[2])
    return []


def has_kind(a, kind):
    if a is None or a[0] in ("j", "q"):
        return False
    return a[0] == kind or any(has_kind(c, kind) for c in a[1])


class C19(Prop):
    pid = "C19"
    rule = ("random construction programs (<=12 statements: HJob/Sequence/Scheduler/PureScheduler constructors with "
            "required= and scheduler=, requires with and without remove=True, Sequence.append incl. s.append(s) and "
            "no-op appends, Sequence.requires, add, update, remove; argument terms nested to depth <=3 (rarely 4) over lists, "
            "tuples and sets with None placeholders, empty sequences, repeated jobs; removes aimed at present, absent, "
            "duplicated and self requirements) plus a systematic family (every small argument term through requires "
            "add/remove and through required= of each constructor); objects are built by the real constructors, job/"
            "sequence hashes are seeded small integers so that set iteration order varies and the observed order of "
            "each set argument is passed to the model; after EVERY statement all required sets, scheduler contents, "
            "sequence contents, sequence schedulers and the exception kind are compared with exec_code on that "
            "prefix, and c19_spec_b (agreement with exec_doc) is evaluated on the implementation's snapshot; "
            "non-trivial = the program has a nested argument or a sequence of >=2 jobs; distinct = distinct program")

    def generate(self, tier, rnd):
        cases = systematic(rnd, tier)
        n = 2500 if tier == "quick" else 300000
        for _ in range(n):
            cases.append(gen_program(rnd, max_stmts=rnd.choice([5, 9, 12]), max_depth=3,
                                     hash_range=rnd.choice([2, 8, 64])))
        return cases

    def evaluate(self, cases):
        queries, obs = [], []
        for c in cases:
            seen, snaps = run_impl(c)
            n, nq = len(c["kinds"]), len(c["qhash"])
            o = {"seen": seen, "snaps": snaps, "q": len(queries)}
            for k, snap in enumerate(snaps):
                pre = [n, nq] + enc_prog(seen[:k + 1])
                queries.append([60] + pre)
                queries.append([70] + pre + enc_snapshot(snap))
            o["q61"] = len(queries)
            queries.append([61, n, nq] + enc_prog(seen))
            obs.append(o)
        outs = core.run_driver(queries)
        results = []
        for c, o in zip(cases, obs):
            res = {"status": "ok", "detail": None, "model_cases": [], "tags": {}, "nontrivial": None}
            seen, snaps = o["seen"], o["snaps"]
            problems = []
            for k, snap in enumerate(snaps):
                q = o["q"] + 2 * k
                m = dec_outcome(outs[q])
                impl = {x: snap[x] for x in ("err", "req", "mem", "seqs", "ss")}
                if m is None:
                    problems.append(("mismatch", {"step": k, "what": "model could not decode the program"}))
                    continue
                if outs[q + 1] != [1, 1]:
                    diff = [x for x in impl if impl[x] != m[x]]
                    problems.append(("specfail", {
                        "step": k, "statement": seen[k],
                        "what": "C19 statement fails: the library's state after this statement is not the documented one",
                        "differs_in": diff, "exception": snap["exc"],
                        "impl": {x: impl[x] for x in diff}, "documented": {x: m[x] for x in diff},
                        "program_as_run": seen[:k + 1]}))
                if m != impl:
                    diff = [x for x in impl if impl[x] != m[x]]
                    problems.append(("mismatch", {"step": k, "statement": seen[k], "differs_in": diff,
                                                  "exception": snap["exc"],
                                                  "impl": {x: impl[x] for x in diff},
                                                  "model": {x: m[x] for x in diff}}))
            last = len(snaps) - 1
            if last >= 0:
                ql = o["q"] + 2 * last
                res["model_cases"] = [(queries[ql], outs[ql]), (queries[o["q61"]], outs[o["q61"]])]
                if len(queries[ql + 1]) < 400:
                    res["model_cases"].append((queries[ql + 1], outs[ql + 1]))
                if dec_outcome(outs[o["q61"]]) != dec_outcome(outs[ql]):
                    problems.append(("mismatch", {"what": "exec_code and exec_doc differ (proved impossible)",
                                                  "program_as_run": seen}))
            allargs = [a for s in c["prog"] for a in stmt_args(s)]
            depth = max([term_depth(a) for a in allargs] + [0])
            longest = max([len(x) for x in (snaps[-1]["seqs"] if snaps else [])] + [0])
            err = snaps[-1]["err"] if snaps else 0
            res["tags"] = {
                "statements": len(c["prog"]), "arg_depth": depth, "longest_sequence": min(longest, 8),
                "set_arg": any(has_kind(a, "set") for a in allargs),
                "ends_with": {0: "no exception", 1: "KeyError"}.get(err, "other exception"),
                "remove": any(s[0] == "requires" and s[3] for s in c["prog"]),
                "append": any(s[0] == "append" for s in c["prog"]),
                "self_append": any(s[0] == "append" and ["q", s[1]] in s[2] for s in c["prog"]),
                "nested_sched": "sched" in c["kinds"],
                "pure_sched": "pure" in c["kinds"],
                # the library saw some set argument in another order than the one written down
                "set_reordered": repr(seen) != repr(c["prog"][:len(seen)]),
                "requires_remove": ("none" if not any(s[0] == "requires" and s[3] for s in seen) else
                                    "raised" if (seen and seen[-1][0] == "requires" and seen[-1][3] and err)
                                    else "all succeeded"),
                "scheduler_remove": ("none" if not any(s[0] == "remove" for s in seen) else
                                     "raised" if (seen and seen[-1][0] == "remove" and err) else "all succeeded"),
                "partial_effect": bool(err == 1 and len(snaps) >= 2 and seen[-1][0] == "requires"
                                       and snaps[-1]["req"] != snaps[-2]["req"]),
            }
            for s in c["prog"]:
                res["tags"].setdefault("has_" + s[0], True)
            if depth >= 1 or longest >= 2:
                res["nontrivial"] = c["prog"]
            res["traces"] = len(snaps)
            res["observed"] = {"final": {x: snaps[-1][x] for x in ("err", "req", "mem", "seqs")}} if snaps else None
            for kind in ("specfail", "mismatch"):
                ps = [p for p in problems if p[0] == kind]
                if ps:
                    res.update(status=kind, detail=ps[0][1])
                    break
            results.append(res)
        return results

    def shrink_candidates(self, case):
        prog = case["prog"]

        def with_prog(p):
            c2 = dict(case)
            c2["prog"] = p
            return c2

        # drop a statement (later ones first: they are less likely to be needed)
        for i in reversed(range(len(prog))):
            yield with_prog(prog[:i] + prog[i + 1:])
        # simplify the pieces of a statement
        for i, s in enumerate(prog):
            for s2 in simpler_stmts(s):
                yield with_prog(prog[:i] + [s2] + prog[i + 1:])

    def known_finding(self, case, res):
        return None


def simpler_args(a):
    if a is None:
        return
    yield None
    if a[0] in ("j", "q"):
        return
    kids = a[1]
    for k in kids:
        yield k
    for i in range(len(kids)):
        yield [a[0], kids[:i] + kids[i + 1:]]
    if a[0] != "list" and a[0] != "set":
        yield ["list", kids]
    for i, k in enumerate(kids):
        for k2 in simpler_args(k):
            if a[0] != "set" or hashable_term(k2):
                yield [a[0], kids[:i] + [k2] + kids[i + 1:]]


def simpler_lists(l, simp):
    for i in range(len(l)):
        yield l[:i] + l[i + 1:]
    for i, x in enumerate(l):
        for x2 in simp(x):
            yield l[:i] + [x2] + l[i + 1:]


def simpler_item(it):
    if it is not None:
        yield None


def simpler_stmts(s):
    k = s[0]
    if k == "newjob":
        for a in simpler_args(s[2]):
            yield [k, s[1], a, s[3]]
        if s[3] is not None:
            yield [k, s[1], s[2], None]
    elif k in ("newseq", "newsched"):
        for its in simpler_lists(s[2], simpler_item):
            yield [k, s[1], its, s[3], s[4]]
        for a in simpler_args(s[3]):
            yield [k, s[1], s[2], a, s[4]]
        if s[4] is not None:
            yield [k, s[1], s[2], s[3], None]
    elif k == "requires":
        for l in simpler_lists(s[2], simpler_args):
            yield [k, s[1], l, s[3]]
    elif k == "seqrequires":
        for l in simpler_lists(s[2], simpler_args):
            yield [k, s[1], l]
    elif k in ("append", "update"):
        for its in simpler_lists(s[2], simpler_item):
            yield [k, s[1], its]
