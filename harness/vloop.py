"""Virtual-time asyncio event loop.  Time only moves when nothing is ready: it jumps to the next
timer.  'Nothing ready and no timer' is a deadlock and stops the run."""
import asyncio
import heapq


class Deadlock(Exception):
    pass


class Livelock(Exception):
    pass


class VLoop(asyncio.SelectorEventLoop):
    def __init__(self, max_steps=200000):
        super().__init__()
        self.vtime = 0.0
        self.on_jump = None          # called as on_jump(new_time) just before the clock moves
        self.steps = 0
        self.max_steps = max_steps

    def time(self):
        return self.vtime

    def _run_once(self):
        self.steps += 1
        if self.steps > self.max_steps:
            raise Livelock()
        if not self._ready and not self._stopping:
            while self._scheduled and self._scheduled[0]._cancelled:
                h = heapq.heappop(self._scheduled)
                h._scheduled = False
                self._timer_cancelled_count = max(0, self._timer_cancelled_count - 1)
            if not self._scheduled:
                raise Deadlock()
            when = self._scheduled[0]._when
            if when > self.vtime:
                if self.on_jump is not None:
                    self.on_jump(when)
                self.vtime = when
        super()._run_once()


class FakeTime:
    """stands for the `time` module inside asynciojobs.purescheduler"""

    def __init__(self, loop):
        self._loop = loop

    def time(self):
        return self._loop.vtime

    def __getattr__(self, name):
        import time
        return getattr(time, name)
