"""./check <property> [--tier quick|thorough]   |   ./check <property> --replay <file>"""
import argparse
import json
import os
import random
import shutil
import sys
import tempfile
import time

from . import core


def registry():
    from . import props_g
    reg = dict(props_g.PROPS)
    for mod in ("props_g2", "props_g3"):
        try:
            m = __import__("harness." + mod, fromlist=["PROPS"])
            reg.update(m.PROPS)
        except ImportError:
            pass
    try:
        from . import props_r
        reg.update(props_r.PROPS)
        from . import props_c06
        reg.update(props_c06.PROPS)
        from . import props_c03
        reg.update(props_c03.PROPS)
        from . import props_c10
        reg.update(props_c10.PROPS)
        from . import props_c08
        reg.update(props_c08.PROPS)
    except ImportError:
        pass
    return reg


def shrink(prop, case, status, budget=150, seconds=90):
    cur = case
    progress = True
    t_end = time.time() + seconds
    while progress and budget > 0 and time.time() < t_end:
        progress = False
        for cand in prop.shrink_candidates(cur):
            budget -= 1
            if budget <= 0 or time.time() > t_end:
                break
            try:
                r = prop.evaluate([cand])[0]
            except Exception:        # noqa
                continue
            if r["status"] == status and prop.known_finding(cand, r) is None:
                cur = cand
                progress = True
                break
    return cur


def fresh_failure(pid, case, tmp):
    """evaluate one case in a new interpreter; returns the failure detail, or None if it passes there"""
    import subprocess
    path = os.path.join(tmp, "fresh_case.json")
    json.dump({"case": {"case": case}}, open(path, "w"), default=str)
    env = dict(os.environ)
    r = subprocess.run([sys.executable, "-m", "harness.main", pid, "--replay", path], cwd=core.VERIF,
                       capture_output=True, text=True, env=env, timeout=900)
    lines = r.stdout.split("\n")
    if "REPLAY-STATUS specfail" not in lines:
        return None
    for line in lines:
        if line.startswith("{") and '"status"' in line:
            try:
                return json.loads(line).get("detail")
            except ValueError:
                break
    return {"what": "fails when replayed (detail too long to quote)"}


def main(argv=None):
    ap = argparse.ArgumentParser()
    ap.add_argument("pid")
    ap.add_argument("--tier", default=os.environ.get("VERIF_TIER", "quick"), choices=["quick", "thorough"])
    ap.add_argument("--replay")
    a = ap.parse_args(argv)
    seed = int(os.environ.get("VERIF_SEED", "0") or 0)
    t0 = time.time()
    core.setup_impl_path()
    reg = registry()
    if a.pid not in reg:
        print("unknown property", a.pid)
        return 2
    prop = reg[a.pid]
    tmp = tempfile.mkdtemp(prefix="ajverif_")
    try:
        ok, msg = core.ensure_build(None)
        build_msg = "ok" if ok else msg
        if a.replay:
            return replay(prop, a.replay)
        if ok:
            oblig = core.check_obligations(a.pid, tmp)
        else:
            oblig = {"obligations": len(core.load_obligations().get(a.pid, {}).get("theorems", [])),
                     "discharged": 0, "theorems": [], "problems": ["build failed"]}
        scan = core.source_scan()
        out = core.Outcome(a.pid)
        xcheck = None
        if ok:
            rnd = random.Random(seed * 1000003 + hash(a.pid) % 1000 if False else seed * 1000003 + sum(map(ord, a.pid)))
            run_prop(prop, a.tier, rnd, out)
            mc = out.model_cases
            if mc:
                xcheck = core.crosscheck([c for c, _ in mc], [o for _, o in mc], tmp,
                                         k=40 if a.tier == "quick" else 200, seed=seed)
        else:
            out.notes.append("model could not be built: correspondence not run")
        # shrink the first property failure
        if out.spec_failures:
            # shrink, then make sure that what is written as a replay fails in a FRESH process (the
            # way --replay will run it): candidates are tried in order shrunk -> original -> the others
            f = out.spec_failures[0]
            small = shrink(prop, f["case"], "specfail")
            cands = [(small, f["case"] if small != f["case"] else None), (f["case"], None)]
            cands += [(g["case"], None) for g in out.spec_failures[1:6]]
            chosen = None
            for cand, frm in cands:
                det = fresh_failure(a.pid, cand, tmp)
                if det is not None:
                    chosen = {"case": cand, "detail": det, "shrunk_from": frm}
                    break
            if chosen is not None:
                out.spec_failures[0] = chosen
            else:
                # none of the failing inputs fails when run alone in a fresh process: they prove
                # nothing; the run is reported through the correspondence instead
                out.notes.append("%d failing inputs seen in this run were not reproducible in a fresh process"
                                 % len(out.spec_failures))
                out.mismatches.append({"case": f["case"], "detail": {"what": "failure not reproducible in a fresh process",
                                                                      "seen": f["detail"]}})
                out.spec_failures = []
        return core.finish(a.pid, a.tier, seed, t0, oblig, scan, build_msg, out, xcheck, prop.rule)
    finally:
        shutil.rmtree(tmp, ignore_errors=True)


def run_prop(prop, tier, rnd, out):
    # corpus first
    cases = []
    cdir = os.path.join(core.VERIF, "corpus", prop.pid)
    if os.path.isdir(cdir):
        for f in sorted(os.listdir(cdir)):
            if f.endswith(".json"):
                cases.append(json.load(open(os.path.join(cdir, f)))["case"])
    ncorpus = len(cases)
    cases += prop.generate(tier, rnd)
    out.extra["corpus_cases"] = ncorpus
    known = core.load_known_findings()
    t_start = time.time()
    B = 500
    for i in range(0, len(cases), B):
        if len(out.spec_failures) >= 40:
            # the property is already refuted on many inputs: the rest adds nothing
            out.extra["stopped_after_failures"] = i
            break
        if len(out.mismatches) >= 2000 or (time.time() - t_start > 1500 and (out.mismatches or out.spec_failures)):
            # the correspondence is broken on thousands of inputs (or the run is already long and
            # has something to report): stop looking for a failing input
            out.extra["stopped_after_mismatches"] = i
            break
        chunk = cases[i:i + B]
        results = prop.evaluate(chunk)
        for c, r in zip(chunk, results):
            out.evaluations += 1
            if r.get("nontrivial") is not None:
                out.nontrivial.add(core.digest(r["nontrivial"]))
            for k, v in (r.get("tags") or {}).items():
                out.count(k, v)
            out.count("status", r["status"])
            out.traces += r.get("traces", 0)
            for mcase in r.get("model_cases", []):
                if len(out.model_cases) < 3000:
                    out.model_cases.append(mcase)
            if r["status"] == "ok":
                if r.get("nontrivial") is not None:
                    out.sample({"case": c, "observed": r.get("observed")})
                continue
            kf = prop.known_finding(c, r)
            if kf is None:
                for f in known.get("findings", []):
                    if f["property"] == prop.pid and f.get("signature") and f["signature"] == r.get("signature"):
                        kf = f["text"]
            if kf:
                if kf not in out.known:
                    out.known.append(kf)
                continue
            if r["status"] == "specfail":
                out.spec_failures.append({"case": c, "detail": r["detail"]})
            else:
                out.mismatches.append({"case": c, "detail": r["detail"]})
    if not out.samples and cases:
        out.sample({"case": cases[0]})


def replay(prop, path):
    payload = json.load(open(path))
    case = None
    if payload.get("case"):
        case = payload["case"].get("case")
    if case is None and payload.get("first_mismatch"):
        case = payload["first_mismatch"].get("case")
    if case is None:
        print("replay file names no concrete input:", json.dumps(
            {k: payload.get(k) for k in ("kind", "proof_problems", "source_scan", "build", "crosscheck")})[:1500])
        return 1
    r = prop.evaluate([case])[0]
    kf = prop.known_finding(case, r) if r["status"] != "ok" else None
    if kf:
        print("REPLAY-STATUS known-finding")
        print("KNOWN-FINDING: property=%s %s" % (prop.pid, kf))
        return 0
    print("REPLAY-STATUS %s" % r["status"])
    print(json.dumps({"status": r["status"], "detail": r["detail"]}, default=str)[:20000])
    if r["status"] != "ok":
        print("VIOLATION property=%s replay=%s%s" % (prop.pid, path,
              "" if r["status"] == "specfail" else " no-failing-input-found"))
        return 1
    print("not reproduced on the current tree")
    return 0


def safe_main():
    """a check never dies with a traceback: an exception inside the harness (an implementation that
    behaves in a way the observers cannot even record, say) means the correspondence could not be
    established, which is reported as such, with the traceback as the replay"""
    try:
        return main()
    except SystemExit:
        raise
    except BaseException:       # noqa
        import traceback
        tb = traceback.format_exc()
        import re
        pid = next((x for x in sys.argv[1:] if re.fullmatch(r"C\d\d", x)), "?")
        try:
            path = core.write_replay(pid, os.environ.get("VERIF_SEED", "0"), 99,
                                     {"property": pid, "kind": "harness-exception",
                                      "what": "the harness raised while evaluating the implementation; the correspondence "
                                              "between model and implementation could not be established", "traceback": tb})
        except Exception:       # noqa
            path = "(replay could not be written)"
        sys.stderr.write(tb)
        print("VIOLATION property=%s replay=%s no-failing-input-found" % (pid, path))
        return 1


if __name__ == "__main__":
    sys.exit(safe_main())
