"""Closed-form schedule of failure-free trees (coq/Run/RSchedDef.v, RSched.v, RFlatten.v).

For a *plain* tree (no window, no timeout, no forever job, every atomic job ends by itself, handlers
take no time) the model computes the instants S x / E x at which every job must start and end
(`solve`, checked by `is_scheduleb` inside the driver: op 104).  Theorem runs_on_schedule says every
reachable state of the model agrees with them as long as no critical job has raised; theorem
same_times_as_flattened says the flattened graph has the same instants.  This module ties both to
the implementation:

  * the implementation is run on the tree and every body entry / exit that happens strictly before
    the first instant T* at which a critical job raises must be at S x / E x, and every job with
    S x < T* (E x < T*) must have started (ended) -- C12 first sentence in closed form, C01, C10;
  * the fully flattened graph is built here (independently of the model's `frq`), the driver checks
    that it is the flattened graph in the model's sense (`flat_ofb`, op 105), and the
    implementation is run on it: same instants again (C10 last sentence).
"""
import copy

from . import core
from .rtrans import enc_cfg, enc_nats

INF = float("inf")


def py_plain(cfg):
    """the trees of the closed form (the model's plainF): no window, no forever nested scheduler, finite
    handlers, atomic jobs end by themselves unless they are forever; nobody requires a forever job and a
    scheduler that has jobs has a non-forever one; timeouts must leave slack and forever jobs must not tie
    with the end of the main loop of their scheduler (py_slack, py_no_tie)"""
    jobs = cfg["jobs"]
    for i, j in enumerate(jobs):
        if any(jobs[r]["forever"] for r in j["reqs"]):
            return False
        if j["sched"]:
            if j.get("window") or (i != 0 and j["forever"]):
                return False
            ks = [k for k in range(1, len(jobs)) if jobs[k]["parent"] == i]
            if ks and all(jobs[k]["forever"] for k in ks):
                return False
        elif (j["dur"] is None and not j["forever"]) or j["sdur"] is None:
            return False
    return py_slack(cfg) and py_no_tie(cfg)


def has_forever(cfg):
    return any(j["forever"] for j in cfg["jobs"][1:])


def is_cut(cfg, S, M, x):
    """forever atomic job that does not end by itself strictly before the main loop of its scheduler"""
    j = cfg["jobs"][x]
    return (not j["sched"]) and j["forever"] and not (j["dur"] is not None and S[x] + j["dur"] < M[j["parent"]])


def py_no_tie(cfg):
    if not has_forever(cfg):
        return True
    S, E, M = py_schedule(cfg, with_M=True)
    for x, j in enumerate(cfg["jobs"]):
        if x and (not j["sched"]) and j["forever"]:
            m = M[j["parent"]]
            if not S[x] < m or (j["dur"] is not None and S[x] + j["dur"] == m):
                return False
    return True


def slow_handlers(cfg):
    return any((not j["sched"]) and j["sdur"] for j in cfg["jobs"])


def py_schedule(cfg, with_M=False):
    """start and end instants of every job by direct recursion over the tree (written independently
    of the model): a job starts when its scheduler has begun and its requirements have ended; the
    main loop of a scheduler ends (M) when its last non-forever job has; forever jobs still running
    then are cancelled and end cdur later; then the shutdown phase"""
    jobs = cfg["jobs"]
    n = len(jobs)
    kids = {}
    for k in range(1, n):
        kids.setdefault(jobs[k]["parent"], []).append(k)
    S, E, M = [None] * n, [None] * n, [None] * n

    def start(x):
        if S[x] is None:
            S[x] = 0 if x == 0 else max([start(jobs[x]["parent"])] + [end(r) for r in jobs[x]["reqs"]])
        return S[x]

    def mainend(x):
        if M[x] is None:
            M[x] = max([start(x)] + [end(y) for y in kids.get(x, []) if not jobs[y]["forever"]])
        return M[x]

    def end(x):
        if E[x] is None:
            j = jobs[x]
            start(x)
            if j["sched"]:
                m = mainend(x)
                tidy = max([0] + [jobs[y]["cdur"] for y in kids.get(x, [])
                                  if (not jobs[y]["sched"]) and jobs[y]["forever"]
                                  and not (jobs[y]["dur"] is not None and start(y) + jobs[y]["dur"] < m)])
                d = max([0] + [jobs[y]["sdur"] or 0 for y in kids.get(x, []) if not jobs[y]["sched"]])
                if j.get("sdto") is not None:
                    d = min(d, j["sdto"])
                E[x] = m + tidy + d
            elif j["forever"]:
                m = mainend(j["parent"])
                if j["dur"] is not None and start(x) + j["dur"] < m:
                    E[x] = start(x) + j["dur"]
                else:
                    E[x] = m + j["cdur"]
            else:
                E[x] = start(x) + (j["dur"] or 0)
        return E[x]

    for x in range(n):
        end(x)
    for x in range(n):
        if jobs[x]["sched"]:
            mainend(x)
    if with_M:
        return S, E, M
    return S, E


def py_slack(cfg):
    """every timed scheduler is scheduled to end strictly before its timeout expires"""
    if not any(j["sched"] and j.get("timeout") is not None for j in cfg["jobs"]):
        return True
    if any((not j["sched"]) and j["dur"] is None and not j["forever"] for j in cfg["jobs"]):
        return False
    S, E = py_schedule(cfg)
    return all(main_end(cfg, S, E, i) < S[i] + j["timeout"] for i, j in enumerate(cfg["jobs"])
               if j["sched"] and j.get("timeout") is not None)


def main_end(cfg, S, E, n):
    """instant at which the main loop of scheduler n ends (its last non-forever job has ended)"""
    return max([S[n]] + [E[y] for y in range(1, len(cfg["jobs"]))
                         if cfg["jobs"][y]["parent"] == n and not cfg["jobs"][y]["forever"]])


def add_forever_jobs(cfg, rnd):
    """append one to three forever atomic jobs (never-ending, or lasting 0-4, cancellation handler 0-2)
    to random non-empty schedulers of a plain tree, each possibly requiring a non-forever sibling"""
    from . import rgen
    jobs = cfg["jobs"]
    scheds = [i for i, j in enumerate(jobs) if j["sched"] and any(k["parent"] == i for k in jobs[1:])]
    for _ in range(rnd.randint(1, 3)):
        if not scheds:
            return cfg
        p = rnd.choice(scheds)
        sib = [k for k in range(1, len(jobs)) if jobs[k]["parent"] == p and not jobs[k]["forever"]]
        j = rgen.J(p, rnd, forever=True, dur=rnd.choice([None, None, 0, 1, 2, 3, 4]), cdur=rnd.choice([0, 0, 1, 2]),
                   sdur=rnd.choice([0, 0, 1]), crit=rnd.random() < 0.3, reqs=[rnd.choice(sib)] if sib and rnd.random() < 0.4 else [])
        jobs.append(j)
    if "insert_order" in cfg:
        cfg["insert_order"] = list(range(1, len(jobs)))
        rnd.shuffle(cfg["insert_order"])
    return cfg


def add_slack_timeouts(cfg, rnd):
    """give some schedulers of a plain tree a timeout that their schedule does not reach"""
    S, E = py_schedule(cfg)
    for i, j in enumerate(cfg["jobs"]):
        if j["sched"] and rnd.random() < 0.6:
            j["timeout"] = main_end(cfg, S, E, i) - S[i] + rnd.randint(1, 3)
    return cfg


def flat_reqs(cfg, x):
    """atomic jobs that atomic job x waits for, directly or through nested schedulers (written
    independently of the model's frq: walks the tree instead of using fuel)"""
    jobs = cfg["jobs"]
    kids = {}
    for k in range(1, len(jobs)):
        kids.setdefault(jobs[k]["parent"], []).append(k)

    def expand(r, acc):
        if not jobs[r]["sched"]:
            acc.add(r)
            return
        for y in kids.get(r, []):
            expand(y, acc)
        for q in jobs[r]["reqs"]:
            expand(q, acc)

    acc = set()
    a = x
    while True:
        for r in jobs[a]["reqs"]:
            expand(r, acc)
        if a == 0:
            break
        a = jobs[a]["parent"]
    return acc


def full_flatten(cfg):
    """-> (flattened cfg, table f: old id -> new id (0 for schedulers))"""
    jobs = cfg["jobs"]
    n = len(jobs)
    atoms = [x for x in range(1, n) if not jobs[x]["sched"]]
    fr = {x: flat_reqs(cfg, x) for x in atoms}
    order, placed, rest = [], set(), list(atoms)
    while rest:
        for x in rest:
            if fr[x] <= placed:
                order.append(x)
                placed.add(x)
                rest.remove(x)
                break
        else:
            return None, None
    ren = {old: new + 1 for new, old in enumerate(order)}
    root = copy.deepcopy(jobs[0])
    root.setdefault("uid", 0)
    newjobs = [root]
    for old in order:
        j = copy.deepcopy(jobs[old])
        j.setdefault("uid", old)
        j["parent"] = 0
        j["reqs"] = sorted(ren[r] for r in fr[old])
        newjobs.append(j)
    c2 = {"jobs": newjobs, "pure_root": cfg.get("pure_root", False)}
    f = [ren.get(x, 0) for x in range(n)]
    return c2, f


def timeline(log):
    """{atomic job: [start instant, end instant, how]} up to the end of the top-level run"""
    now = 0.0
    tl = {}
    for e in log:
        k = e[0]
        if k in ("tick", "gracetick", "latetick"):
            now = e[1]
        elif k == "start":
            tl.setdefault(e[1], [now, None, None])
        elif k == "finish":
            if e[1] in tl and tl[e[1]][1] is None:
                tl[e[1]][1:] = [now, e[2]]
        elif k in ("cend", "cabort"):
            if e[1] in tl and tl[e[1]][1] is None:
                tl[e[1]][1:] = [now, "cancelled"]
        elif k == "rootdone":
            break
    return tl


def compare(cfg, tl, S, E, names=None):
    """differences between what the implementation did (tl) and the schedule (S, E: indexed by the
    ids of cfg), strictly before the first instant at which a critical job raises"""
    jobs = cfg["jobs"]
    M = None
    if has_forever(cfg):
        _, _, M = py_schedule(cfg, with_M=True)
    tstar = min([E[x] for x, j in enumerate(jobs) if not j["sched"] and j["crit"] and j["out"] == "exc"] or [INF])
    diffs = []
    for x, j in enumerate(jobs):
        if x == 0 or j["sched"]:
            continue
        a = tl.get(x)
        st = a[0] if a else None
        en = a[1] if a and a[1] is not None else None
        how = a[2] if a else None
        name = names[x] if names else x
        if st is not None and st < tstar and st != S[x]:
            diffs.append({"job": name, "started_at": st, "schedule_says": S[x]})
        elif (st is None or st >= tstar) and S[x] < tstar:
            diffs.append({"job": name, "started_at": st, "schedule_says": S[x], "first_critical_failure_at": tstar})
        want = "cancelled" if (M is not None and is_cut(cfg, S, M, x)) else j["out"]
        if en is not None and en < tstar and (en != E[x] or how != want):
            diffs.append({"job": name, "ended_at": en, "how": how, "schedule_says": E[x], "configured_outcome": j["out"]})
        elif (en is None or en >= tstar) and E[x] < tstar:
            diffs.append({"job": name, "ended_at": en, "schedule_says": E[x], "first_critical_failure_at": tstar})
    return diffs


def model_schedules(cfgs):
    """op 104 for each configuration -> list of None (not plain / not decodable) or (S, E)"""
    def query(c):
        return [107 if has_forever(c) else 106 if slow_handlers(c) else 104] + enc_cfg(c)
    outs = core.run_driver([query(c) for c in cfgs])
    res = []
    for c, o in zip(cfgs, outs):
        n = len(c["jobs"])
        if has_forever(c):
            # op 107: wf, plainF, is_scheduleFb (of solveF), no_tieFb, slackFb, S, E
            if not o or o[0] != 1 or len(o) != 6 + 2 * n:
                res.append(("undecodable", None, None))
            elif o[1:6] != [1, 1, 1, 1, 1]:
                res.append(("model-refuses:wf,plainF,solver-check,no-tie,slack=%s" % o[1:6], None, None))
            else:
                S, E = o[6:6 + n], o[6 + n:6 + 2 * n]
                if (S, E) != tuple(py_schedule(c)):
                    res.append(("solver-differs-from-direct-recursion", None, None))
                else:
                    res.append(("ok", S, E))
            continue
        if slow_handlers(c):
            # op 106: wf, plainH, is_scheduleHb, slack of the main loops, S, E
            if not o or o[0] != 1 or len(o) != 5 + 2 * n:
                res.append(("undecodable", None, None))
            elif o[1:5] != [1, 1, 1, 1]:
                res.append(("model-refuses:wf,plainH,solver-check,slack=%s" % o[1:5], None, None))
            else:
                S, E = o[5:5 + n], o[5 + n:5 + 2 * n]
                if (S, E) != tuple(py_schedule(c)):
                    res.append(("solver-differs-from-direct-recursion", None, None))
                else:
                    res.append(("ok", S, E))
            continue
        if not o or o[0] != 1 or len(o) != 6 + 2 * n:
            res.append(("undecodable", None, None))
        elif o[1] != 1:
            res.append(("not-wf", None, None))
        elif o[4] != 1:
            res.append(("not-plainT", None, None))
        elif o[3] != 1:
            res.append(("solver-check-failed", None, None))
        elif o[5] != 1:
            res.append(("no-slack", None, None))
        elif (o[2] == 1) != (not any(j["sched"] and j.get("timeout") is not None for j in c["jobs"])):
            res.append(("plain-flag-differs", None, None))
        else:
            S, E = o[6:6 + n], o[6 + n:6 + 2 * n]
            if (S, E) != tuple(py_schedule(c)):
                res.append(("solver-differs-from-direct-recursion", None, None))
            else:
                res.append(("ok", S, E))
    return res


def _run_pair(cfg):
    """implementation runs of a plain tree and of its flattened graph -> (tl, c2, f, tl2)"""
    from .robserve import run_config
    c1 = copy.deepcopy(cfg)
    for i, j in enumerate(c1["jobs"]):
        j.setdefault("uid", i)
    tl1 = timeline(run_config(c1)["log"])
    c2, f = full_flatten(cfg)
    tl2 = timeline(run_config(c2)["log"]) if c2 is not None else None
    return tl1, c2, f, tl2


def evaluate_plain(cases, pool_map):
    """-> {index: ('specfail'|'mismatch', detail)} for the plain trees among cases, and the number
    of plain trees evaluated"""
    idx = [i for i, c in enumerate(cases) if py_plain(c)]
    if not idx:
        return {}, 0
    scheds = model_schedules([cases[i] for i in idx])
    runs = pool_map(_run_pair, [cases[i] for i in idx])
    q105, who = [], []
    for i, (tl1, c2, f, tl2) in zip(idx, runs):
        if c2 is not None:
            q105.append([105] + enc_cfg(cases[i]) + enc_cfg(c2) + enc_nats(f))
            who.append(i)
    o105 = dict(zip(who, core.run_driver(q105)))
    problems = {}
    for i, (status, S, E), (tl1, c2, f, tl2) in zip(idx, scheds, runs):
        cfg = cases[i]
        if status != "ok":
            # the harness's reading of `plain` and the model's must agree, and the solver's own
            # check must pass on every well-formed tree
            problems[i] = ("mismatch", {"what": "model does not produce a schedule for a plain tree", "status": status})
            continue
        d = compare(cfg, tl1, S, E)
        if d:
            problems[i] = ("specfail", {"what": "jobs of a tree without window, timeout or forever job do not run at the "
                                                "instants its requirements determine (each job starts when its last "
                                                "requirement ends, its scheduler having begun)", "differences": d[:6]})
            continue
        if slow_handlers(cfg) or has_forever(cfg):
            # the flattened graph legitimately differs (known finding F10) / the sentence excludes forever
            # jobs: only the tree itself is compared with the schedule (runs_on_scheduleH / runs_on_scheduleF)
            continue
        if c2 is None:
            problems[i] = ("mismatch", {"what": "harness could not order the flattened graph"})
            continue
        o = o105.get(i)
        if not o or o[0] != 1 or o[1:4] != [1, 1, 1]:
            problems[i] = ("mismatch", {"what": "the harness's flattened graph is not the model's (flat_ofb)", "driver": o})
            continue
        n = len(cfg["jobs"])
        S2, E2 = [0] * len(c2["jobs"]), [0] * len(c2["jobs"])
        names = [0] * len(c2["jobs"])
        for x in range(n):
            if f[x]:
                S2[f[x]], E2[f[x]], names[f[x]] = S[x], E[x], x
        d2 = compare(c2, tl2, S2, E2, names)
        if d2:
            problems[i] = ("specfail", {"what": "in the flattened graph jobs do not run at the same instants as the "
                                                "schedule of the nested tree", "flattened_graph": c2, "differences": d2[:6]})
            continue
        # both runs follow the schedule strictly before the first critical failure; from that instant
        # on they may part (known finding F9 of C10): reported as such by the C10 check only
        late = [{"job": x, "nested_tree (start, end, how)": tl1.get(x), "flattened_graph (start, end, how)": tl2.get(f[x])}
                for x in range(n) if f[x] and (list(tl1[x]) if x in tl1 else None) != (list(tl2[f[x]]) if f[x] in tl2 else None)]
        if late:
            problems[i] = ("known-F9", {"differences": late[:6], "flattened_graph": c2})
    return problems, len(idx)


_POOL = None


def pool_map(fn, args):
    global _POOL
    import multiprocessing
    import os
    if len(args) < 32:
        return [fn(a) for a in args]
    if _POOL is None:
        _POOL = multiprocessing.get_context("fork").Pool(min(16, os.cpu_count() or 4))
    return _POOL.map(fn, args, chunksize=8)


PLAIN_PROFILE = {"window": 0.0, "timeout": 0.0, "root_timeout": 0.0, "forever": 0.0, "never": 0.0, "sdur": 0.0,
                 "sd_never": 0.0, "nested": 0.45, "exc": 0.3, "crit": 0.3, "edge": 0.5, "tie": 0.5, "fine": 0.1}

SCHED_RULE = (" Closed-form schedule: a quarter as many additional plain trees (no window, forever or never-ending job, "
              "handlers of zero duration; nesting up to depth 3, raising and critical jobs allowed; half of them with "
              "timeouts on random schedulers that their schedule does not reach, a third with shutdown handlers of 1-3 time "
              "units on random jobs: schedule with shutdown phases, solveH / is_scheduleHb, driver op 106, theorem "
              "runs_on_scheduleH, no flattened-graph comparison for those; a third with forever jobs added: solveF, "
              "is_scheduleFb / no_tieFb / slackFb, driver op 107, theorem runs_on_scheduleF) are generated; for each, "
              "and for every such "
              "tree of the main batch, the extracted model computes the start and end instant of every job (solve, accepted "
              "only if is_scheduleb and slackb hold: driver op 104; also compared with a direct recursion written in the "
              "harness), the implementation is run and every body entry/exit strictly before the first instant at which a "
              "critical job raises must be at exactly those instants and none may be missing (theorems runs_on_schedule, "
              "runs_on_schedule_timeouts); the fully flattened graph is built by the harness, checked to be the model's "
              "flattened graph (flat_ofb, driver op 105), run on the implementation and compared with the same instants "
              "(theorem same_times_as_flattened).")


class WithSchedule:
    """mixin for RProp subclasses: adds the plain-tree batch and the closed-form comparison"""

    def generate(self, tier, rnd):
        from . import rgen
        out = super().generate(tier, rnd)
        n = 250 if tier == "quick" else 25000
        for _ in range(n):
            mj = rnd.choice([3, 5, 8, 12, 14])
            cfg = rgen.gen_config(rnd, max_jobs=mj, profile=PLAIN_PROFILE)
            if py_plain(cfg):
                if rnd.random() < 0.3:
                    for j in cfg["jobs"]:
                        if not j["sched"] and rnd.random() < 0.5:
                            j["sdur"] = rnd.randint(1, 3)
                if rnd.random() < 0.3:
                    add_forever_jobs(cfg, rnd)
                if rnd.random() < 0.5:
                    add_slack_timeouts(cfg, rnd)
                if py_plain(cfg):
                    out.append(cfg)
        return out

    def evaluate(self, cases):
        results = super().evaluate(cases)
        problems, k = evaluate_plain(cases, pool_map)
        for i, c in enumerate(cases):
            if py_plain(c):
                results[i]["tags"]["plain"] = ("forever-jobs" if has_forever(c) else "slow-handlers" if slow_handlers(c)
                                               else "timeouts" if any(j["sched"] and j.get("timeout") is not None for j in c["jobs"])
                                               else "plain")
                results[i]["traces"] = results[i].get("traces", 0) + 2
        for i, (kind, detail) in problems.items():
            cur = results[i]["status"]
            if kind == "known-F9":
                if self.pid == "C10" and cur == "ok":
                    from .props_c10 import F9_SIGNATURE, F9_TEXT
                    results[i].update(status="specfail", signature=F9_SIGNATURE,
                                      detail=dict(detail, what="known finding F9: " + F9_TEXT))
                continue
            if cur == "specfail" or (cur == "mismatch" and kind == "mismatch"):
                continue
            results[i]["status"] = kind
            results[i]["detail"] = detail
        return results


def upgrade(prop):
    """give an existing RProp instance the closed-form comparison"""
    prop.__class__ = type(prop.__class__.__name__ + "Sched", (WithSchedule, prop.__class__), {})
    prop.rule += SCHED_RULE
    return prop
