"""Development tool: run N random configurations, replay on the model, report rejections."""
import collections
import json
import random
import sys
import time

from . import core
core.setup_impl_path()
from .robserve import run_config   # noqa
from .rtrans import translate, enc_case    # noqa
from .rgen import gen_config   # noqa


def main():
    n = int(sys.argv[1]) if len(sys.argv) > 1 else 200
    seed = int(sys.argv[2]) if len(sys.argv) > 2 else 1
    maxjobs = int(sys.argv[3]) if len(sys.argv) > 3 else 10
    rnd = random.Random(seed)
    t0 = time.time()
    cases, metas = [], []
    for i in range(n):
        cfg = gen_config(rnd, max_jobs=maxjobs)
        r = run_config(cfg)
        ev, notes = translate(r["log"])
        cases.append(enc_case(cfg, ev))
        metas.append((cfg, ev, notes, r))
    t1 = time.time()
    outs = core.run_driver(cases)
    t2 = time.time()
    stats = collections.Counter()
    shown = 0
    for (cfg, ev, notes, r), out in zip(metas, outs):
        oc = notes.get("outcome", ["?"])[0]
        stats["outcome:" + oc] += 1
        if out[0] != 1:
            stats["undecodable"] += 1
            continue
        if out[1] != 1:
            stats["not-wf"] += 1
        lv = [out[2 + 4 * k: 6 + 4 * k] for k in range(4)]
        if all(x[0] == 1 for x in lv):
            stats["accepted"] += 1
            if lv[3][3] != 1 and oc not in ("deadlock", "livelock"):
                stats["accepted-not-terminal"] += 1
            if notes["after_root"] or (notes["grace_left"] and notes["grace_left"][0]):
                stats["orphans"] += 1
        else:
            k = min(i for i in range(4) if lv[i][0] != 1)
            idx, code = lv[k][1], lv[k][2]
            stats["rejected L%d code %d" % (k, code)] += 1
            if shown < int(sys.argv[4]) if len(sys.argv) > 4 else shown < 2:
                shown += 1
                print("---- rejected at level", k, "index", idx, "code", code, "outcome", oc)
                print(json.dumps(cfg))
                for q, e in enumerate(ev[max(0, idx - 12): idx + 2]):
                    print("  ", max(0, idx - 12) + q, e[0])
    print(dict(stats))
    print("impl %.1fs, model %.1fs, events/case %.0f" % (t1 - t0, t2 - t1, sum(len(m[1]) for m in metas) / max(1, n)))


if __name__ == "__main__":
    main()
