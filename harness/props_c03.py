"""C03: progress.  Admissible trees (the model's own predicate [admissible], evaluated by the
extracted code on each generated tree) must run to completion on the implementation: the
virtual-time loop reports 'nothing ready and no timer armed' as a deadlock and a virtual-time
horizon as a livelock."""
from . import core
from . import rgen
from .props_r import RProp, run_many


class C03(RProp):
    def evaluate(self, cases):
        results = RProp.evaluate(self, cases)          # acceptance up to self.level
        from .rtrans import enc_cfg
        q = [[103] + enc_cfg(c) for c in cases]
        outs = core.run_driver(q)
        for cfg, res, o in zip(cases, results, outs):
            adm = bool(o and o[0] == 1 and len(o) > 1 and o[1] == 1)
            oc = res["tags"].get("outcome")
            res["tags"]["admissible"] = adm
            res["model_cases"] = res.get("model_cases", []) + [([103] + enc_cfg(cfg), o)]
            if not adm:
                res["nontrivial"] = None
            exc_type = None
            if oc == "raise":
                exc_type = res.get("raise_type")
            if adm and oc == "raise" and exc_type not in (None, "JobError", "TimeoutError") and res["status"] != "specfail":
                res["status"] = "specfail"
                res["detail"] = {"what": "admissible tree, but run() does not finish properly: it raises %s, which is neither "
                                         "the exception of a critical job nor a TimeoutError" % exc_type,
                                 "model_verdict_on_history": res["detail"]}
            if adm and oc in ("deadlock", "livelock") and res["status"] != "specfail":
                res["status"] = "specfail"
                res["detail"] = {"what": "admissible tree, but run() does not terminate: %s detected under the "
                                         "virtual-time loop" % oc,
                                 "model_verdict_on_history": res["detail"]}
        return results


def interesting(cfg, r):
    jobs = cfg["jobs"]
    return any(j["sched"] and j["window"] for j in jobs) or any((not j["sched"]) and j["out"] == "exc" for j in jobs)


PROPS = {
    "C03": C03("C03", 2, [70, 120], profile={"window": 0.8, "exc": 0.5, "crit": 0.15, "never": 0.25, "forever": 0.3,
                                             "timeout": 0.35, "root_timeout": 0.3, "nested": 0.35, "edge": 0.5, "tie": 0.5},
               rule="C03: every generated tree is classified by the model's predicate admissible (acyclic and closed by "
                    "construction; every scheduler with no timeout at or above it owns a non-forever job, does not "
                    "contain or depend on a never-ending non-forever job, and has a window larger than the number of "
                    "never-ending jobs it may hold; never-ending handlers have a finite shutdown_timeout above). Admissible "
                    "trees must terminate on the implementation under the virtual-time loop (deadlock = nothing ready and "
                    "no timer armed; livelock = virtual-time horizon); their histories must be accepted at level 2 and "
                    "pass the window (chk07) and eagerness (chk12) monitors. Non-trivial = admissible with a window or a "
                    "raising job.", nontrivial=interesting, max_jobs=12),
}
