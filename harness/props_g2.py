"""Property runners for model G, part 2: queries (C17) and graph surgery (C18)."""
import itertools

from . import core
from .gworld import (build, enc_tree, enc_rmap, enc_nats, snapshot_req, dec_rmap,
                     random_tree_recipe, shape_key)
from .props_g import Prop, quiet, drop_edge_candidates


# ------------------------------------------------------------------------------ helpers

def sc_ids(o):
    return [x.hid for x in getattr(o, "_s_successors", ())]


def enc_sc(objs):
    out = [len(objs)]
    for o in objs:
        out += enc_nats(sc_ids(o))
    return out


def enc_flags(objs):
    return enc_nats([int(bool(getattr(o, "forever", False))) for o in objs])


def poison(objs, rng):
    """overwrite every _s_successors with arbitrary stale content: the property says 'whatever it
    was before'; the model is given what is observed afterwards"""
    have = [o for o in objs if hasattr(o, "_s_successors")]
    for o in have:
        o._s_successors = set(rng.sample(have, min(len(have), rng.choice([0, 0, 1, 2]))))


def case_rng(case):
    import random
    return random.Random(int(core.digest(case), 16))


def members(S):
    return [j.hid for j in S.jobs]


def dec_list(m, pos):
    k = m[pos]
    return m[pos + 1:pos + 1 + k], pos + 1 + k


def dag_edges_by_mask(n, mask):
    """edges j -> r (j requires r) with r < j: every DAG on n nodes is isomorphic to one of these"""
    pairs = [(j, r) for j in range(n) for r in range(j)]
    return [[j, r] for i, (j, r) in enumerate(pairs) if mask >> i & 1]


def n_pairs(n):
    return n * (n - 1) // 2


def subsets(ids, max_size=None, min_size=1):
    hi = len(ids) if max_size is None else min(max_size, len(ids))
    for k in range(min_size, hi + 1):
        for c in itertools.combinations(ids, k):
            yield list(c)


def flat_dag_recipe(rnd, n, edges, kind=None, hash_range=16, forever_p=0.0, relabel=True):
    """one scheduler (id n) holding atoms 0..n-1; node labels are permuted so that the fixed
    'requires a smaller number' shape of dag_edges_by_mask shows up under every labelling"""
    perm = list(range(n))
    if relabel:
        rnd.shuffle(perm)
    jobs = [{"kind": "atom", "hash": rnd.randrange(hash_range), "forever": rnd.random() < forever_p,
             "critical": False, "label": None} for _ in range(n)]
    if kind is None:
        kind = "pure" if rnd.random() < 0.4 else "sched"
    jobs.append({"kind": kind, "hash": rnd.randrange(hash_range), "forever": False, "critical": False,
                 "label": None})
    order = list(range(n))
    rnd.shuffle(order)
    edges = [[perm[a], perm[b]] for a, b in edges]
    rnd.shuffle(edges)
    return {"jobs": jobs, "members": {str(n): order}, "edges": edges, "root": n}


def random_dag_tree_recipe(rnd, max_jobs, outsiders=2, p_cross=0.0, p_cycle=0.0, forever_p=0.2,
                           density=None, p_sched=0.25):
    """scheduler tree whose every level is a random DAG; optionally a few edges that leave their
    scheduler (to outsiders, other levels) and, rarely, a planted cycle"""
    rec = random_tree_recipe(rnd, max_jobs=max_jobs, outsiders=outsiders, p_sched=p_sched)
    for j in rec["jobs"]:
        j["forever"] = rnd.random() < forever_p
    edges = []
    for s, ms in rec["members"].items():
        ms = list(ms)
        rnd.shuffle(ms)
        dens = density if density is not None else rnd.choice([0.1, 0.2, 0.35, 0.5])
        for a in range(len(ms)):
            for b in range(a):
                if rnd.random() < dens:
                    edges.append([ms[a], ms[b]])
        if len(ms) >= 2 and rnd.random() < p_cycle:
            k = rnd.randint(2, min(4, len(ms)))
            cyc = rnd.sample(ms, k)
            for i in range(k):
                edges.append([cyc[i], cyc[(i + 1) % k]])
    n = len(rec["jobs"])
    cand = [j for j in range(n) if rec["jobs"][j]["kind"] != "pure"]
    if p_cross > 0 and len(cand) >= 2:
        for _ in range(rnd.randint(0, 3)):
            if rnd.random() < p_cross:
                a, b = rnd.sample(cand, 2)
                edges.append([a, b])
    uniq = []
    for e in edges:
        if e not in uniq:
            uniq.append(e)
    rnd.shuffle(uniq)
    rec["edges"] = uniq
    return rec


def rehash(rnd, rec, hash_range=64):
    r2 = dict(rec)
    r2["jobs"] = [dict(j, hash=rnd.randrange(hash_range)) for j in rec["jobs"]]
    return r2


def first_problem(res, problems):
    for kind in ("specfail", "mismatch"):
        ps = [p for p in problems if p[0] == kind]
        if ps:
            res.update(status=kind, detail=ps[0][1])
            if isinstance(ps[0][1], dict) and ps[0][1].get("what"):
                res["signature"] = ps[0][1]["what"]
            return


# =============================================================================== C17

class C17(Prop):
    pid = "C17"
    rule = ("one scheduler per case (flat PureScheduler/Scheduler, or any scheduler of a random tree of depth<=3): "
            "every DAG shape on <=4 (quick) / <=5 (thorough) nodes under random relabelling, member order and "
            "__hash__ values x every non-empty set of start jobs; random DAG trees to 12 jobs with forever flags, "
            "nested schedulers as members, a few requirements that leave the scheduler and (rarely) a planted cycle; "
            "edit sequences (toggle requirement, add/remove member, toggle forever) with all queries observed "
            "after every edit, _s_successors overwritten with arbitrary stale content before every call that recomputes it, "
            "and successors()/successors_downstream()/exit_jobs() also run with compute_backlinks=False on stale links. Observed: predecessors, successors, _s_successors after "
            "_backlinks, predecessors_upstream, successors_downstream, entry_jobs, exit_jobs (both discard_forever "
            "values), iterate_jobs (both scan_schedulers values). non-trivial = at least 2 requirement edges inside "
            "the scheduler; distinct = distinct (tree, flags, edge set, edits)")

    # ---- generation
    def generate(self, tier, rnd):
        cases = []
        nmax = 4 if tier == "quick" else 5
        reps = 3 if tier == "quick" else 4
        for n in range(1, nmax + 1):
            for mask in range(1 << n_pairs(n)):
                edges = dag_edges_by_mask(n, mask)
                for _ in range(reps):
                    rec = flat_dag_recipe(rnd, n, edges, forever_p=0.3)
                    cases.append({"recipe": rec, "sched": n, "starts": list(subsets(list(range(n)))),
                                  "edits": []})
        if tier == "quick":
            # a sample of the 5-node shapes
            for _ in range(300):
                mask = rnd.randrange(1 << n_pairs(5))
                rec = flat_dag_recipe(rnd, 5, dag_edges_by_mask(5, mask), forever_p=0.3)
                cases.append({"recipe": rec, "sched": 5, "starts": list(subsets(list(range(5)))), "edits": []})
        # random trees, random start sets (members mostly, sometimes any job)
        for _ in range(600 if tier == "quick" else 15000):
            rec = random_dag_tree_recipe(rnd, rnd.choice([5, 8, 12, 12]), p_cross=0.3, p_cycle=0.05)
            cases.append(self.random_case(rnd, rec, edits=0))
        # edit sequences
        for _ in range(400 if tier == "quick" else 10000):
            rec = random_dag_tree_recipe(rnd, rnd.choice([4, 7, 10, 12]), p_cross=0.2, p_cycle=0.0, outsiders=3)
            cases.append(self.random_case(rnd, rec, edits=rnd.randint(1, 6)))
        return cases

    @staticmethod
    def random_case(rnd, rec, edits):
        scheds = [int(s) for s in rec["members"]]
        # the root most of the time
        s = rec["root"] if rnd.random() < 0.7 else rnd.choice(scheds)
        ms = list(rec["members"][str(s)])
        n = len(rec["jobs"])
        anyjob = [j for j in range(n) if rec["jobs"][j]["kind"] != "pure"]
        starts = []
        for _ in range(rnd.randint(2, 5)):
            pool = ms if (ms and rnd.random() < 0.85) else anyjob
            if not pool:
                continue
            k = rnd.randint(1, min(len(pool), rnd.choice([1, 1, 2, 3, 5])))
            starts.append(rnd.sample(pool, k))
        if not starts and anyjob:
            starts = [[rnd.choice(anyjob)]]
        eds = []
        cur = set(ms)
        outsiders = [j for j in anyjob if j not in cur and j != s and j != rec["root"]
                     and all(j not in m for m in rec["members"].values())]
        rank = {j: rnd.random() for j in anyjob}
        for _ in range(edits):
            x = rnd.random()
            if x < 0.55 and len(cur) >= 2:
                a, b = rnd.sample(sorted(cur), 2)
                if rank[a] < rank[b] and rnd.random() < 0.9:      # keep it a DAG most of the time
                    a, b = b, a
                eds.append(["edge", a, b])
            elif x < 0.7 and cur:
                j = rnd.choice(sorted(cur))
                eds.append(["remove", j])
                cur.discard(j)
                outsiders.append(j)
            elif x < 0.85 and outsiders:
                j = rnd.choice(outsiders)
                outsiders.remove(j)
                eds.append(["add", j])
                cur.add(j)
            elif anyjob:
                eds.append(["forever", rnd.choice(anyjob)])
        return {"recipe": rec, "sched": s, "starts": starts, "edits": eds}

    # ---- observation
    @staticmethod
    def apply_edit(objs, S, ed):
        if ed[0] == "edge":
            a, b = objs[ed[1]], objs[ed[2]]
            if b in a.required:
                a.required.remove(b)
            else:
                a.required.add(b)
        elif ed[0] == "remove":
            if objs[ed[1]] in S.jobs:
                S.remove(objs[ed[1]])
        elif ed[0] == "add":
            S.add(objs[ed[1]])
        elif ed[0] == "forever":
            o = objs[ed[1]]
            if hasattr(o, "forever"):
                o.forever = not o.forever

    @staticmethod
    def observe(objs, S, starts_list, queries, rng):
        """runs every query of C17 on the implementation; appends the model queries"""
        items = []

        def add(what, impl, q, flag=False, ordered=False, sq=None, **kw):
            it = dict(what=what, impl=impl, q=len(queries), flag=flag, ordered=ordered, sq=None, **kw)
            queries.append(q)
            if sq is not None:
                it["sq"] = len(queries)
                queries.append(sq)
            items.append(it)

        ms = members(S)
        ems = enc_nats(ms)
        rq = enc_rmap(objs)
        # 1. queries on stale links first
        for st in starts_list[:2]:
            sc = enc_sc(objs)
            sobj = [objs[i] for i in st]
            out = [x.hid for x in S.successors(*sobj, compute_backlinks=False)]
            add("successors(compute_backlinks=False)", out, [22] + ems + rq + sc + [0] + enc_nats(st), starts=st)
            out = [x.hid for x in S.successors_downstream(*sobj, compute_backlinks=False)]
            add("successors_downstream(compute_backlinks=False)", out,
                [24] + ems + rq + sc + [0] + enc_nats(st), flag=True, starts=st)
        sc = enc_sc(objs)
        fl = enc_flags(objs)
        out = [x.hid for x in S.exit_jobs(compute_backlinks=False)]
        add("exit_jobs(compute_backlinks=False)", out, [26] + ems + rq + sc + fl + [1, 0], ordered=True)
        # 2. the queries proper, each on freshly spoilt links
        for st in starts_list:
            est = enc_nats(st)
            sobj = [objs[i] for i in st]
            out = [x.hid for x in S.predecessors(*sobj)]
            add("predecessors", out, [20] + ems + rq + est, starts=st, sq=[30] + ems + rq + est + enc_nats(out))
            poison(objs, rng)
            sc = enc_sc(objs)
            out = [x.hid for x in S.successors(*sobj)]
            add("successors", out, [22] + ems + rq + sc + [1] + est, starts=st,
                sq=[31] + ems + rq + est + enc_nats(out))
            out = [x.hid for x in S.predecessors_upstream(*sobj)]
            add("predecessors_upstream", out, [23] + ems + rq + est, flag=True, starts=st,
                sq=[33] + ems + rq + est + enc_nats(out))
            poison(objs, rng)
            sc = enc_sc(objs)
            out = [x.hid for x in S.successors_downstream(*sobj)]
            add("successors_downstream", out, [24] + ems + rq + sc + [1] + est, flag=True, starts=st,
                sq=[34] + ems + rq + est + enc_nats(out))
        out = [x.hid for x in S.entry_jobs()]
        add("entry_jobs", out, [25] + ems + rq, ordered=True, sq=[35] + ems + rq + enc_nats(out))
        for d in (True, False):
            poison(objs, rng)
            sc = enc_sc(objs)
            out = [x.hid for x in S.exit_jobs(discard_forever=d)]
            add("exit_jobs(discard_forever=%s)" % d, out, [26] + ems + rq + sc + fl + [int(d), 1], ordered=True,
                sq=[36] + ems + rq + fl + [int(d)] + enc_nats(out))
        for scan in (False, True):
            tree = enc_tree(S)
            out = [x.hid for x in S.iterate_jobs(scan_schedulers=scan)]
            add("iterate_jobs(scan_schedulers=%s)" % scan, out, [27] + tree + [int(scan)], ordered=True,
                sq=[37] + tree + [int(scan)] + enc_nats(out))
        # 3. _backlinks itself
        poison(objs, rng)
        sc = enc_sc(objs)
        S._backlinks()
        after = [sorted(sc_ids(o)) for o in objs]
        sc_after = enc_sc(objs)
        add("_backlinks", after, [21] + ems + rq + sc, table=True, sq=[32] + ems + rq + sc_after)
        return {"ms": ms, "items": items}

    def evaluate(self, cases):
        queries = []
        obs = []
        for c in cases:
            o = {"exc": None, "states": []}
            try:
                objs = build(c["recipe"])
                S = objs[c["sched"]]
                rng = case_rng(c)
                o["states"].append(self.observe(objs, S, c["starts"], queries, rng))
                for ed in c.get("edits") or []:
                    self.apply_edit(objs, S, ed)
                    o["states"].append(self.observe(objs, S, c["starts"], queries, rng))
            except Exception as e:       # noqa
                o["exc"] = repr(e)
            obs.append(o)
        outs = core.run_driver(queries)
        results = []
        for c, o in zip(cases, obs):
            rec = c["recipe"]
            res = {"status": "ok", "detail": None, "model_cases": [], "tags": {}, "nontrivial": None}
            ms0 = rec["members"][str(c["sched"])]
            inner = [e for e in rec["edges"] if e[0] in ms0 and e[1] in ms0]
            res["tags"] = {"members": len(ms0), "edges_inside": len(inner), "edits": len(c.get("edits") or []),
                           "start_sets": len(c["starts"]),
                           "nested": sum(1 for j in ms0 if rec["jobs"][j]["kind"] == "sched"),
                           "forever": sum(1 for j in ms0 if rec["jobs"][j]["forever"])}
            if len(inner) >= 2:
                res["nontrivial"] = (shape_key(rec), c["sched"], tuple(map(tuple, c.get("edits") or [])))
            if o["exc"]:
                res.update(status="specfail", detail={"what": "a query raised", "exc": o["exc"]})
                res["signature"] = "a query raised"
                results.append(res)
                continue
            problems = []
            maxclos = 0
            for si, st in enumerate(o["states"]):
                for it in st["items"]:
                    m = outs[it["q"]]
                    if len(res["model_cases"]) < 6:
                        res["model_cases"].append((queries[it["q"]], m))
                    ctx = {"step": si, "what": it["what"], "members": st["ms"], "starts": it.get("starts")}
                    if m[0] != 1:
                        problems.append(("mismatch", dict(ctx, problem="model could not decode the case")))
                        continue
                    if it.get("table"):
                        tbl, _ = dec_rmap(m, 1)
                        mod = [sorted(x) for x in tbl]
                        if mod != it["impl"]:
                            problems.append(("mismatch", dict(ctx, impl=it["impl"], model=mod)))
                    else:
                        pos = 1
                        if it["flag"]:
                            if m[1] != 1:
                                problems.append(("mismatch", dict(ctx, problem="model ran out of fuel")))
                            pos = 2
                        mod, _ = dec_list(m, pos)
                        if it["what"] in ("predecessors_upstream", "successors_downstream"):
                            maxclos = max(maxclos, len(mod))
                        same = (mod == it["impl"]) if it["ordered"] else (sorted(mod) == sorted(it["impl"]))
                        if not same or len(set(it["impl"])) != len(it["impl"]):
                            problems.append(("mismatch", dict(ctx, impl=it["impl"], model=mod)))
                    if it["sq"] is not None:
                        if len(res["model_cases"]) < 12:
                            res["model_cases"].append((queries[it["sq"]], outs[it["sq"]]))
                        if outs[it["sq"]] != [1, 1]:
                            problems.append(("specfail", dict(ctx, impl=it["impl"],
                                                              problem="the C17 statement for this query is false of the implementation's answer")))
            res["tags"]["max_closure"] = maxclos
            first_problem(res, problems)
            results.append(res)
        return results

    def shrink_candidates(self, case):
        if case.get("edits"):
            for i in reversed(range(len(case["edits"]))):
                c2 = dict(case)
                c2["edits"] = case["edits"][:i] + case["edits"][i + 1:]
                yield c2
        if len(case["starts"]) > 1:
            for st in case["starts"]:
                c2 = dict(case)
                c2["starts"] = [st]
                yield c2
        elif case["starts"] and len(case["starts"][0]) > 1:
            st = case["starts"][0]
            for i in range(len(st)):
                c2 = dict(case)
                c2["starts"] = [st[:i] + st[i + 1:]]
                yield c2
        yield from drop_edge_candidates(case)


# =============================================================================== C18

class C18(Prop):
    pid = "C18"
    rule = ("one scheduler per case, operations applied one after another with the model re-synchronised from the "
            "implementation's observed state (members, every required set, every _s_successors set, subtrees) before "
            "each and members + all required sets compared after each: every DAG shape on <=4 (quick) / <=5 (thorough) "
            "nodes under random relabelling and __hash__ x every job as bypass target, x every keep_only subset, x "
            "every (starts, ends) pair of subsets of size <=2 (quick) / <=3 (thorough, <=4 nodes; size<=2 on 5) with "
            "all four keep flags; random DAG trees to 12 jobs (nested schedulers as members, non-member arguments, "
            "requirements that leave the scheduler, rarely a 2-cycle) with random operation sequences of length 1-5. "
            "non-trivial = an operation that removes a job which has a requirement or a dependant among the members; "
            "distinct = distinct (tree, edge set, operations)")

    def generate(self, tier, rnd):
        cases = []
        nmax = 4 if tier == "quick" else 5
        for n in range(1, nmax + 1):
            ids = list(range(n))
            for mask in range(1 << n_pairs(n)):
                edges = dag_edges_by_mask(n, mask)

                def mk(ops):
                    return {"recipe": flat_dag_recipe(rnd, n, edges), "sched": n, "ops": ops}
                for j in ids:
                    cases.append(mk([["bypass", j]]))
                for R in subsets(ids, min_size=0):
                    if n <= 4 or rnd.random() < 0.25:
                        cases.append(mk([["keep_only", R]]))
                size = 2 if (tier == "quick" or n == 5) else 3
                subs = list(subsets(ids, max_size=size, min_size=0))
                for st in subs:
                    for en in subs:
                        for ks in (True, False):
                            for ke in (True, False):
                                if n >= 4 and tier == "quick" and rnd.random() < 0.75:
                                    continue
                                if n == 5 and rnd.random() < 0.6:
                                    continue
                                cases.append(mk([["between", st, en, ks, ke]]))
        for _ in range(1500 if tier == "quick" else 30000):
            rec = random_dag_tree_recipe(rnd, rnd.choice([4, 6, 9, 12, 12]), p_cross=0.25,
                                         p_cycle=0.04, outsiders=2)
            cases.append(self.random_case(rnd, rec, rnd.randint(1, 5)))
        return cases

    @staticmethod
    def random_case(rnd, rec, nops):
        scheds = [int(s) for s in rec["members"]]
        s = rec["root"] if rnd.random() < 0.8 else rnd.choice(scheds)
        n = len(rec["jobs"])
        # non-member arguments: any job that is neither an ancestor of the scheduler under test (the tree
        # would become cyclic) nor nested deeper inside it (it would sit twice in the same tree)
        parent = {m: int(p) for p, ms_ in rec["members"].items() for m in ms_}
        banned = {s}
        a = s
        while a in parent:
            a = parent[a]
            banned.add(a)
        for j in range(n):
            a, depth = j, 0
            while a in parent:
                a = parent[a]
                depth += 1
                if a == s and depth >= 2:
                    banned.add(j)
        anyjob = [j for j in range(n) if rec["jobs"][j]["kind"] != "pure" and j not in banned]
        cur = list(rec["members"][str(s)])
        ops = []

        def some(k):
            pool = cur if (cur and rnd.random() < 0.9) else anyjob
            if not pool:
                return []
            return rnd.sample(pool, min(len(pool), k))
        for _ in range(nops):
            x = rnd.random()
            if x < 0.45:
                t = some(1)
                if t:
                    ops.append(["bypass", t[0]])
                    if t[0] in cur:
                        cur.remove(t[0])
            elif x < 0.65:
                keep = [j for j in cur if rnd.random() < 0.75]
                if rnd.random() < 0.2 and anyjob:
                    keep.append(rnd.choice(anyjob))
                ops.append(["keep_only", keep])
                cur = [j for j in cur if j in keep]
            else:
                st = some(rnd.choice([0, 1, 1, 2, 3]))
                en = some(rnd.choice([0, 1, 1, 2, 3]))
                ops.append(["between", st if (st or rnd.random() < 0.5) else None,
                            en if (en or rnd.random() < 0.5) else None,
                            rnd.random() < 0.6, rnd.random() < 0.6])
                # the harness does not track membership after this one: later targets may be non-members
        return {"recipe": rec, "sched": s, "ops": ops}

    @staticmethod
    def tree_of(objs, S, extra):
        pool = list(S.jobs) + [objs[i] for i in extra if objs[i] not in S.jobs]
        out = [len(pool)]
        for k in pool:
            out += enc_tree(k)
        return out

    def evaluate(self, cases):
        queries = []
        obs = []
        for c in cases:
            o = {"exc": None, "steps": []}
            try:
                objs = build(c["recipe"])
                S = objs[c["sched"]]
                rng = case_rng(c)
                for op in c["ops"]:
                    poison(objs, rng)
                    ms = members(S)
                    ems, rq, sc = enc_nats(ms), enc_rmap(objs), enc_sc(objs)
                    st = {"op": op, "ms": ms, "raised": None}
                    if op[0] == "bypass":
                        mq = [40] + ems + rq + [op[1]]
                        try:
                            S.bypass_and_remove(objs[op[1]])
                        except Exception as e:     # noqa
                            st["raised"] = type(e).__name__
                        spec = [50] + ems + rq + [op[1]]
                    elif op[0] == "keep_only":
                        mq = [41, S.hid] + self.tree_of(objs, S, []) + ems + rq + enc_nats(op[1])
                        arg = [objs[i] for i in op[1]]
                        try:
                            quiet(S.keep_only, iter(arg) if len(arg) % 2 else arg)
                        except Exception as e:     # noqa
                            st["raised"] = type(e).__name__
                        spec = [51] + ems + rq + enc_nats(op[1])
                    else:
                        _, sts, ens, ks, ke = op
                        s_l, e_l = sts or [], ens or []
                        mq = ([42, S.hid] + self.tree_of(objs, S, s_l + e_l) + ems + rq + sc
                              + enc_nats(s_l) + enc_nats(e_l) + [int(ks), int(ke)])
                        kw = {}
                        if sts is not None:
                            kw["starts"] = iter([objs[i] for i in sts]) if len(sts) == 1 else [objs[i] for i in sts]
                        if ens is not None:
                            kw["ends"] = [objs[i] for i in ens]
                        # default values of the keep flags are True
                        if not (ks and ke and len(s_l) % 2 == 0):
                            kw["keep_starts"] = ks
                            kw["keep_ends"] = ke
                        try:
                            quiet(S.keep_only_between, **kw)
                        except Exception as e:     # noqa
                            st["raised"] = type(e).__name__
                        spec = [52] + ems + rq + enc_nats(s_l) + enc_nats(e_l) + [int(ks), int(ke)]
                    st["ms_after"] = sorted(members(S))
                    st["rq_after"] = snapshot_req(objs)
                    st["q"] = len(queries)
                    queries.append(mq)
                    queries.append(spec + enc_nats(members(S)) + enc_rmap(objs))
                    # how much the operation did (for the coverage figures)
                    st["removed"] = len(ms) - len([x for x in st["ms_after"] if x in ms])
                    o["steps"].append(st)
            except Exception as e:       # noqa
                o["exc"] = repr(e)
            obs.append(o)
        outs = core.run_driver(queries)
        results = []
        for c, o in zip(cases, obs):
            rec = c["recipe"]
            res = {"status": "ok", "detail": None, "model_cases": [], "tags": {}, "nontrivial": None}
            ms0 = rec["members"][str(c["sched"])]
            inner = [e for e in rec["edges"] if e[0] in ms0 and e[1] in ms0]
            res["tags"] = {"members": len(ms0), "edges_inside": len(inner), "ops": len(c["ops"]),
                           "first_op": c["ops"][0][0] if c["ops"] else None,
                           "nested": sum(1 for j in ms0 if rec["jobs"][j]["kind"] == "sched")}
            if o["exc"]:
                res.update(status="mismatch", detail={"what": "harness error", "exc": o["exc"]})
                results.append(res)
                continue
            problems = []
            removed = 0
            for si, st in enumerate(o["steps"]):
                m, sp = outs[st["q"]], outs[st["q"] + 1]
                if len(res["model_cases"]) < 6:
                    res["model_cases"].append((queries[st["q"]], m))
                    res["model_cases"].append((queries[st["q"] + 1], sp))
                ctx = {"step": si, "op": st["op"], "what": st["op"][0], "members_before": st["ms"]}
                removed += st["removed"]
                if m[0] != 1:
                    problems.append(("mismatch", dict(ctx, problem="model could not decode the case")))
                    continue
                if st["op"][0] == "bypass":
                    is_member = st["op"][1] in st["ms"]
                    if m[1] == 0:
                        if st["raised"] != "ValueError":
                            problems.append(("mismatch", dict(ctx, problem="model refuses (not a member), implementation did not raise ValueError",
                                                              raised=st["raised"])))
                        if st["ms_after"] != sorted(st["ms"]):
                            problems.append(("specfail", dict(ctx, problem="refused bypass changed the members")))
                        continue
                    if st["raised"]:
                        problems.append(("specfail", dict(ctx, problem="bypass_and_remove raised on a member", raised=st["raised"],
                                                          member=is_member)))
                        continue
                    pos = 2
                else:
                    if st["raised"]:
                        problems.append(("specfail", dict(ctx, problem="the operation raised", raised=st["raised"])))
                        continue
                    pos = 1
                mms, pos = dec_list(m, pos)
                tbl, _ = dec_rmap(m, pos)
                mrq = [sorted(x) for x in tbl]
                if sorted(mms) != st["ms_after"] or mrq != st["rq_after"]:
                    diff = [i for i in range(len(mrq)) if mrq[i] != st["rq_after"][i]]
                    problems.append(("mismatch", dict(ctx, impl_members=st["ms_after"], model_members=sorted(mms),
                                                      required_differs_at=diff,
                                                      impl_required=[st["rq_after"][i] for i in diff],
                                                      model_required=[mrq[i] for i in diff])))
                if sp != [1, 1]:
                    problems.append(("specfail", dict(ctx, impl_members=st["ms_after"], impl_required=st["rq_after"],
                                                      problem="the C18 statement for this operation is false of the implementation's result")))
            res["tags"]["removed"] = min(removed, 6)
            if removed and inner:
                res["nontrivial"] = (shape_key(rec), c["sched"], repr(c["ops"]))
            first_problem(res, problems)
            results.append(res)
        return results

    def shrink_candidates(self, case):
        if len(case["ops"]) > 1:
            for i in reversed(range(len(case["ops"]))):
                c2 = dict(case)
                c2["ops"] = case["ops"][:i] + case["ops"][i + 1:]
                yield c2
        yield from drop_edge_candidates(case)


PROPS = {"C17": C17(), "C18": C18()}
