(* Property C19: placeholder *)
