(* Property C19: the construction API builds exactly the documented requirement edges.
   This file contains only the property theorems; each is closed by [exact].

   Programs ([list stmt], Graph/Build.v) are sequences of constructor / requires / append /
   add / update / remove calls with arbitrarily nested arguments.  [exec_code] follows the Python
   line by line, [exec_doc] is the documented meaning; both stop at the first exception and return
   the state reached together with the exception.  A set argument is the list of its elements in
   iteration order, and every statement below holds for every such list. *)
From AJ Require Import Common.Util Graph.GSpecs Graph.Build Graph.BuildProofs Graph.BuildSpecs.
From Coq Require Import Permutation.

(* code and documentation agree on every program: same exception, same sequences (as lists), same
   sequence schedulers, same required sets and scheduler contents (as sets) *)
Theorem C19_agree : forall p,
  snd (exec_code p) = snd (exec_doc p) /\
  (forall q, seqs (fst (exec_code p)) q = seqs (fst (exec_doc p)) q) /\
  (forall q, seq_sched (fst (exec_code p)) q = seq_sched (fst (exec_doc p)) q) /\
  (forall j x, In x (req (fst (exec_code p)) j) <-> In x (req (fst (exec_doc p)) j)) /\
  (forall s x, In x (members (fst (exec_code p)) s) <-> In x (members (fst (exec_doc p)) s)).
Proof. exact C19_agree_explicit. Qed.
Print Assumptions C19_agree.

(* the same for one statement from an arbitrary state (not only reachable ones) *)
Theorem C19_step_agree : forall st s, out_equiv (step_code st s) (step_doc st s).
Proof. exact step_agree. Qed.
Print Assumptions C19_step_agree.

(* the recursion of requires() through nested lists, tuples and sets is the flat description:
   flatten the arguments to the jobs they name, then add all but oneself / remove one by one
   (equal lists, equal exception, equal partial effect) *)
Theorem C19_requires_is_flat : forall sq self rm args r,
  requires_code sq self rm args r = doc_req self rm (names_list sq args) r.
Proof. exact requires_code_names. Qed.
Print Assumptions C19_requires_is_flat.

(* no job ever requires itself *)
Theorem C19_no_self : forall p j, ~ In j (req (fst (exec_code p)) j).
Proof. exact C19_no_self_main. Qed.
Print Assumptions C19_no_self.

(* required sets and scheduler contents never hold a job twice *)
Theorem C19_nodup : forall p,
  (forall j, NoDup (req (fst (exec_code p)) j)) /\
  (forall s, NoDup (members (fst (exec_code p)) s)).
Proof. exact C19_nodup_main. Qed.
Print Assumptions C19_nodup.

(* both invariants are preserved by every statement from any state that has them *)
Theorem C19_step_invariant : forall st s, inv st -> inv (fst (step_code st s)).
Proof. exact step_code_inv. Qed.
Print Assumptions C19_step_invariant.

(* requires( *args) adds exactly the named jobs other than oneself and never raises *)
Theorem C19_requires_add : forall st j args,
  let o := step_code st (Requires j args false) in
  snd o = None /\
  (forall x, In x (req (fst o) j) <->
             In x (req st j) \/ (In x (names_list (seqs st) args) /\ x <> j)) /\
  (forall k, k <> j -> req (fst o) k = req st k) /\
  members (fst o) = members st /\ seqs (fst o) = seqs st /\ seq_sched (fst o) = seq_sched st.
Proof. exact requires_add_spec. Qed.
Print Assumptions C19_requires_add.

(* requires( *args, remove=True) succeeds iff the named jobs are pairwise distinct and all present,
   and then removes exactly them; otherwise KeyError; it never adds and touches nothing else *)
Theorem C19_requires_remove : forall st j args,
  let o := step_code st (Requires j args true) in
  let ns := names_list (seqs st) args in
  (snd o = None <-> NoDup ns /\ incl ns (req st j)) /\
  (snd o = None -> forall x, In x (req (fst o) j) <-> In x (req st j) /\ ~ In x ns) /\
  (forall x, In x (req (fst o) j) -> In x (req st j)) /\
  (forall k, k <> j -> req (fst o) k = req st k) /\
  members (fst o) = members st /\ seqs (fst o) = seqs st /\ seq_sched (fst o) = seq_sched st.
Proof. exact requires_remove_spec. Qed.
Print Assumptions C19_requires_remove.

(* a sequence used as a requirement stands for its last job, an empty one for nothing *)
Theorem C19_sequence_as_requirement : forall sq q,
  names sq (ASeq q) = match sq q with [] => [] | _ :: _ => [last (sq q) 0] end.
Proof. exact names_seq. Qed.
Print Assumptions C19_sequence_as_requirement.

(* Sequence(...): flattened order; y acquires x exactly when x immediately precedes y, or y is the
   first job and required= names x; never x = y; all jobs registered in scheduler= *)
Theorem C19_sequence : forall st q items required scheduler,
  let o := step_code st (NewSeq q items required scheduler) in
  let l := flat (seqs st) items in
  snd o = None /\
  seqs (fst o) q = l /\
  (forall k, k <> q -> seqs (fst o) k = seqs st k) /\
  (forall x y, In x (req (fst o) y) <->
     In x (req st y) \/
     (x <> y /\ (consecutive x y l \/
                 (hd_error l = Some y /\ In x (names (upd (seqs st) q l) required))))) /\
  (forall s x, In x (members (fst o) s) <->
               In x (members st s) \/ (scheduler = Some s /\ In x l)).
Proof. exact newseq_spec. Qed.
Print Assumptions C19_sequence.

(* append(...): new jobs behind, chained to each other and to the former last job, registered *)
Theorem C19_append : forall st q items,
  let o := step_code st (SeqAppend q items) in
  let new := flat (seqs st) items in
  snd o = None /\
  seqs (fst o) q = seqs st q ++ new /\
  (forall k, k <> q -> seqs (fst o) k = seqs st k) /\
  (forall x y, In x (req (fst o) y) <->
     In x (req st y) \/ (x <> y /\ consecutive x y (opt_last (seqs st q) ++ new))) /\
  (forall s x, In x (members (fst o) s) <->
               In x (members st s) \/ (seq_sched st q = Some s /\ In x new)).
Proof. exact append_spec. Qed.
Print Assumptions C19_append.

(* a job constructor: requires exactly what required= names (never itself), registered in
   scheduler= *)
Theorem C19_newjob : forall st j required scheduler,
  let o := step_code st (NewJob j required scheduler) in
  snd o = None /\
  (forall x, In x (req (fst o) j) <-> In x (names (seqs st) required) /\ x <> j) /\
  (forall k x, k <> j -> In x (req (fst o) k) <-> In x (req st k)) /\
  (forall s x, In x (members (fst o) s) <->
               In x (members st s) \/ (scheduler = Some s /\ x = j)) /\
  (forall q, seqs (fst o) q = seqs st q).
Proof. exact newjob_spec. Qed.
Print Assumptions C19_newjob.

(* a (nested) Scheduler constructor: contains exactly the flattened items; as a job it behaves as
   above *)
Theorem C19_newsched : forall st s items required scheduler,
  let o := step_code st (NewSched s items required scheduler) in
  snd o = None /\
  (forall x, In x (req (fst o) s) <-> In x (names (seqs st) required) /\ x <> s) /\
  (forall k x, k <> s -> In x (req (fst o) k) <-> In x (req st k)) /\
  (forall x, In x (members (fst o) s) <->
             In x (flat (seqs st) items) \/ (scheduler = Some s /\ x = s)) /\
  (forall s' x, s' <> s -> In x (members (fst o) s') <->
                In x (members st s') \/ (scheduler = Some s' /\ x = s)) /\
  (forall q, seqs (fst o) q = seqs st q).
Proof. exact newsched_spec. Qed.
Print Assumptions C19_newsched.

(* update(items) / add(item) register exactly the flattened jobs *)
Theorem C19_update : forall st s items,
  let o := step_code st (Update s items) in
  snd o = None /\
  (forall s' x, In x (members (fst o) s') <->
                In x (members st s') \/ (s' = s /\ In x (flat (seqs st) items))) /\
  req (fst o) = req st /\ seqs (fst o) = seqs st.
Proof. exact update_spec. Qed.
Print Assumptions C19_update.

(* remove(j): KeyError iff j is not a member; otherwise exactly j leaves *)
Theorem C19_remove : forall st s j,
  let o := step_code st (Remove s j) in
  (snd o = None <-> In j (members st s)) /\
  (snd o = None -> forall x, In x (members (fst o) s) <-> In x (members st s) /\ x <> j) /\
  (snd o <> None -> forall x, In x (members (fst o) s) <-> In x (members st s)) /\
  (forall s', s' <> s -> members (fst o) s' = members st s') /\
  req (fst o) = req st /\ seqs (fst o) = seqs st.
Proof. exact remove_spec. Qed.
Print Assumptions C19_remove.

(* the order in which the elements of set arguments are listed (at any nesting depth) changes
   neither whether the program raises, nor -- when it does not -- any required set, scheduler
   content or sequence *)
Theorem C19_set_order : forall p p', Forall2 stmt_perm p p' ->
  snd (exec_code p) = snd (exec_code p') /\
  (snd (exec_code p) = None -> st_equiv (fst (exec_code p)) (fst (exec_code p'))).
Proof. exact C19_set_order_main. Qed.
Print Assumptions C19_set_order.

(* the executable statement used to judge implementation outcomes means agreement with the
   documentation ... *)
Theorem C19_spec_meaning : forall p n nq o_req o_mem o_seqs o_ss o_err,
  c19_spec_b p n nq o_req o_mem o_seqs o_ss o_err = true <->
  o_err = err_code (snd (exec_doc p)) /\
  (forall j, j < n -> seteq (o_req j) (req (fst (exec_doc p)) j)) /\
  (forall s, s < n -> seteq (o_mem s) (members (fst (exec_doc p)) s)) /\
  (forall q, q < nq -> o_seqs q = seqs (fst (exec_doc p)) q) /\
  (forall q, q < nq -> o_ss q = seq_sched (fst (exec_doc p)) q).
Proof. exact c19_spec_b_spec. Qed.
Print Assumptions C19_spec_meaning.

(* ... and holds of the code model's own outcome *)
Theorem C19_spec_model : forall p n nq,
  let st := fst (exec_code p) in
  c19_spec_b p n nq (req st) (members st) (seqs st) (seq_sched st)
             (err_code (snd (exec_code p))) = true.
Proof. exact c19_spec_model. Qed.
Print Assumptions C19_spec_model.

(* non-vacuity: scheduler 0; jobs 1..5; sequence 0 = (1, None, 2) in scheduler 0; sequence 1 is
   empty; sequence 2 nests sequence 0, repeats job 1 and gets required= a set holding a tuple with
   the empty sequence; append on both, including s.append(s); a remove through a nested list that
   succeeds (job 3 loses job 1) and one that raises KeyError after having removed job 2 (job 2 is
   named twice: the partial effect stays, job 4 is still required). *)
Definition ex_prog : list stmt :=
  [ NewSched 0 [] ANone None;
    NewJob 1 ANone None; NewJob 2 ANone None; NewJob 3 ANone None; NewJob 4 ANone None;
    NewSeq 0 [SJob 1; SNone; SJob 2] ANone (Some 0);
    NewSeq 1 [] ANone None;
    NewSeq 2 [SSeq 0; SSeq 1; SJob 1; SJob 3]
           (ASet [ATuple [ASeq 1; AJob 4]; ANone; AJob 1]) None;
    SeqAppend 0 [SNone; SJob 4];
    SeqAppend 1 [SSeq 1; SNone];
    SeqAppend 2 [SSeq 2];
    NewJob 5 (AList [ASeq 0; ATuple [AJob 2; ASet [AJob 5; ASeq 1]]]) (Some 0);
    Requires 3 [AList [ANone; ATuple [AJob 1]]] true;
    Requires 5 [AJob 2; ASet [AJob 2; AJob 4]] true ].

Example C19_nonvacuous :
  let o := exec_code ex_prog in
  snd o = Some KeyError /\
  map (seqs (fst o)) [0; 1; 2] = [[1; 2; 4]; []; [1; 2; 1; 3; 1; 2; 1; 3]] /\
  map (req (fst o)) [0; 1; 2; 3; 4; 5] = [[]; [2; 4; 3]; [1]; []; [2]; [4]] /\
  members (fst o) 0 = [1; 2; 4; 5] /\
  snd (exec_code (firstn 13 ex_prog)) = None /\
  req (fst (exec_code (firstn 12 ex_prog))) 3 = [1] /\
  c19_spec_b ex_prog 6 3 (req (fst o)) (members (fst o)) (seqs (fst o)) (seq_sched (fst o)) 1 = true /\
  c19_spec_b ex_prog 6 3 (req (fst o)) (members (fst o)) (seqs (fst o)) (seq_sched (fst o)) 0 = false.
Proof. vm_compute. repeat split. Qed.

(* C19_set_order is not vacuous (a set nested in a tuple, listed in two orders), and its restriction
   to runs without exception is needed: what a failing remove=True has already removed depends on
   the order ({1,2} minus the set {1,3}: listed [1;3] leaves {2}, listed [3;1] leaves {1,2}). *)
Example C19_set_order_nonvacuous :
  let pre := [NewJob 1 ANone None; NewJob 2 ANone None; NewJob 0 (AList [AJob 1; AJob 2]) None] in
  let p := pre ++ [Requires 0 [ATuple [ANone; ASet [AJob 1; AJob 3]]] true] in
  let p' := pre ++ [Requires 0 [ATuple [ANone; ASet [AJob 3; AJob 1]]] true] in
  Forall2 stmt_perm p p' /\
  snd (exec_code p) = Some KeyError /\ snd (exec_code p') = Some KeyError /\
  req (fst (exec_code p)) 0 = [2] /\ req (fst (exec_code p')) 0 = [1; 2].
Proof.
  split; [|vm_compute; repeat split].
  repeat (apply Forall2_cons; [apply sp_refl|]). apply Forall2_cons; [|apply Forall2_nil].
  apply sp_requires. apply (ap_in_list [] _ _ []). apply (ap_in_tuple [ANone] _ _ []).
  apply ap_set. apply perm_swap.
Qed.
