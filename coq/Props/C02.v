(* Property C02: no job's body is entered twice; a run that reports success has run every
   non-forever job to its own end.  Only property theorems here. Model R, level 0. *)
From AJ Require Import Common.Util Run.RModel Run.RFacts Run.RFacts2 Run.RInv Run.RMon Run.RProps1 Run.RProps2
  Props.RExample.

(* whenever the model accepts the event by which a job enters its body, that job has not
   entered its body before ([ran] is the started flag) *)
Theorem C02_not_started_before : forall lvl c h0 s e s', wf c = true ->
  Reach lvl c h0 s -> step lvl c s e = Some s' -> chk02a c s e = true.
Proof. exact C02a_holds. Qed.
Print Assumptions C02_not_started_before.

(* the start event sets the flag, and the flag is never reset: at most one start per job *)
Theorem C02_start_sets_flag : forall lvl c s x s',
  step lvl c s (EStart x) = Some s' -> ran (Jb s' x) = true.
Proof. exact C02a_start_sets. Qed.
Print Assumptions C02_start_sets_flag.

Theorem C02_flag_is_stable : forall lvl c h0 s e s' x, wf c = true ->
  Reach lvl c h0 s -> step lvl c s e = Some s' -> ran (Jb s x) = true -> ran (Jb s' x) = true.
Proof. exact C02a_ran_stable. Qed.
Print Assumptions C02_flag_is_stable.

(* whenever an accepted event announces the end of the run of scheduler n with verdict v, v is
   the right verdict for the state of n's jobs; for v = VTrue this says: every non-forever job of
   n is done (returned or raised) and no critical job of n raised *)
Theorem C02_success_complete : forall lvl c h0 s e s', wf c = true ->
  Reach lvl c h0 s -> step lvl c s e = Some s' -> chk_end c s e = true.
Proof. exact chk_end_holds. Qed.
Print Assumptions C02_success_complete.

Theorem C02_success_meaning : forall c s n, members c n <> [] -> nfinite c n <> 0 ->
  end_ok c s n VTrue = true ->
  forall x, In x (members c n) -> j_forever (jc c x) = false -> is_done (st (Jb s x)) = true.
Proof. exact end_ok_true_meaning. Qed.
Print Assumptions C02_success_meaning.

Theorem C02_accepted_histories : forall lvl c h, wf c = true -> accept lvl c h = true ->
  mon_ok chk02a c h = true /\ mon_ok chk_end c h = true.
Proof. exact C02_monitors. Qed.
Print Assumptions C02_accepted_histories.

(* non-vacuity: the recorded run ends with success (OEnd 0 VTrue) although a job raised, a nested
   scheduler timed out and a forever job was still running *)
Example C02_nonvacuous :
  accept 3 ex_cfg ex_hist = true /\ mon_ok chk_end ex_cfg ex_hist = true /\
  existsb (fun e => existsb (out_eqb (OEnd 0 VTrue)) (outs_of e)) ex_hist = true /\
  nfinite ex_cfg 0 = 5.
Proof. repeat split; vm_compute; reflexivity. Qed.
