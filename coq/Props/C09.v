(* Property C09: forever jobs are never waited for and never outlive the run.
   Only property theorems here. Model R, level 0 (timing statements: see C12/DESIGN). *)
From AJ Require Import Common.Util Run.RModel Run.RFacts Run.RFacts2 Run.RInv Run.RInv4 Run.RInv5 Run.RMon Run.RProps1
  Run.RProps2 Run.RProps3 Props.RExample.

(* The main wake whose report completes the non-forever jobs leaves the loop at once with the
   success path: in the state after it, everything still pending is forever (third conjunct of
   chk_exit), is being cancelled and has not finished (first), and nothing is created (second). *)
Theorem C09_ends_with_last : forall lvl c h0 s e s', wf c = true ->
  Reach lvl c h0 s -> step lvl c s e = Some s' -> chk_exit c s e = true.
Proof. exact chk_exit_holds. Qed.
Print Assumptions C09_ends_with_last.

(* success does not wait for forever jobs: verdict True iff all NON-forever jobs are done and no
   critical job raised (end_ok, see C04_meaning) *)
Theorem C09_not_waited_for : forall lvl c h0 s e s', wf c = true ->
  Reach lvl c h0 s -> step lvl c s e = Some s' -> chk_end c s e = true.
Proof. exact chk_end_holds. Qed.
Print Assumptions C09_not_waited_for.

(* a job starts only while the main loop of its scheduler runs: none starts after the exit *)
Theorem C09_none_starts_later : forall lvl c h0 s e s', wf c = true ->
  Reach lvl c h0 s -> step lvl c s e = Some s' -> chk_nostart c s e = true.
Proof. exact chk_nostart_holds. Qed.
Print Assumptions C09_none_starts_later.

(* when the run is over, no job below it at any depth (forever or not) is still live *)
Theorem C09_never_outlives : forall lvl c h s n x, wf c = true -> Reach lvl c h s ->
  ph (Rn s n) = POver -> x < njobs c -> below c n x = true -> live (st (Jb s x)) = false.
Proof. exact over_subtree_quiet. Qed.
Print Assumptions C09_never_outlives.

(* same rules: the start conditions (C01, window) and the creation rule do not mention the
   forever flag; a forever job that ends is Done and releases its successors by the same rule *)
Theorem C09_same_rules : forall c s n d x, eligible c s n d x <->
  In x (members c n) /\ st (Jb s x) = Idle /\ all_done s (reqs c x) = true /\
  exists q, In q (reqs c x) /\ In q d.
Proof. intros. unfold eligible. tauto. Qed.
Print Assumptions C09_same_rules.

Theorem C09_accepted_histories : forall lvl c h, wf c = true -> accept lvl c h = true ->
  mon_ok chk_exit c h = true /\ mon_ok chk_nostart c h = true /\ mon_ok chk_over c h = true.
Proof.
  intros lvl c h W Ha. split; [exact (chk_exit_monitor lvl c h W Ha)|].
  split; [exact (chk_nostart_monitor lvl c h W Ha)|exact (chk_over_monitor lvl c h W Ha)].
Qed.
Print Assumptions C09_accepted_histories.

(* timing: the wake that reports the last completion happens in the same instant as that
   completion -- the clock may only move when no finished task is unreported (level 2; acceptance
   at level 2 enforces the same on every implementation history) *)
Definition C09_timing_full_statement : Prop :=
  forall c h s t, wf c = true -> Reach 2 c h s ->
    step 2 c s (ETick t) <> None ->
    forall n, j_sched (jc c n) = true -> n < njobs c -> ph (Rn s n) = PMain ->
    forall x, In x (pend (Rn s n)) -> jfin s x = false.

Theorem C09_timing : C09_timing_full_statement.
Proof. exact tick_means_nothing_unreported. Qed.
Print Assumptions C09_timing.

(* non-vacuity: in the recorded run the forever job 8 is cancelled when the last regular job
   finishes, and the run then succeeds *)
Example C09_nonvacuous :
  accept 3 ex_cfg ex_hist = true /\ j_forever (jc ex_cfg 8) = true /\
  In (ECancelHit 8) ex_hist /\ mon_ok chk_exit ex_cfg ex_hist = true.
Proof. repeat split; try (vm_compute; reflexivity). vm_compute. tauto. Qed.
