(* Property C09: forever jobs are never waited for and never outlive the run.
   Only property theorems here. Model R, level 0 (timing statements: see C12/DESIGN). *)
From AJ Require Import Common.Util Run.RModel Run.RFacts Run.RFacts2 Run.RInv Run.RInv4 Run.RInv5 Run.RMon Run.RProps1
  Run.RProps2 Run.RProps3 Props.RExample Run.RSchedDef Run.RSched Run.RSchedF Run.RSolveF Run.RSchedTopF.

(* The main wake whose report completes the non-forever jobs leaves the loop at once with the
   success path: in the state after it, everything still pending is forever (third conjunct of
   chk_exit), is being cancelled and has not finished (first), and nothing is created (second). *)
Theorem C09_ends_with_last : forall lvl c h0 s e s', wf c = true ->
  Reach lvl c h0 s -> step lvl c s e = Some s' -> chk_exit c s e = true.
Proof. exact chk_exit_holds. Qed.
Print Assumptions C09_ends_with_last.

(* success does not wait for forever jobs: verdict True iff all NON-forever jobs are done and no
   critical job raised (end_ok, see C04_meaning) *)
Theorem C09_not_waited_for : forall lvl c h0 s e s', wf c = true ->
  Reach lvl c h0 s -> step lvl c s e = Some s' -> chk_end c s e = true.
Proof. exact chk_end_holds. Qed.
Print Assumptions C09_not_waited_for.

(* a job starts only while the main loop of its scheduler runs: none starts after the exit *)
Theorem C09_none_starts_later : forall lvl c h0 s e s', wf c = true ->
  Reach lvl c h0 s -> step lvl c s e = Some s' -> chk_nostart c s e = true.
Proof. exact chk_nostart_holds. Qed.
Print Assumptions C09_none_starts_later.

(* when the run is over, no job below it at any depth (forever or not) is still live *)
Theorem C09_never_outlives : forall lvl c h s n x, wf c = true -> Reach lvl c h s ->
  ph (Rn s n) = POver -> x < njobs c -> below c n x = true -> live (st (Jb s x)) = false.
Proof. exact over_subtree_quiet. Qed.
Print Assumptions C09_never_outlives.

(* same rules: the start conditions (C01, window) and the creation rule do not mention the
   forever flag; a forever job that ends is Done and releases its successors by the same rule *)
Theorem C09_same_rules : forall c s n d x, eligible c s n d x <->
  In x (members c n) /\ st (Jb s x) = Idle /\ all_done s (reqs c x) = true /\
  exists q, In q (reqs c x) /\ In q d.
Proof. intros. unfold eligible. tauto. Qed.
Print Assumptions C09_same_rules.

Theorem C09_accepted_histories : forall lvl c h, wf c = true -> accept lvl c h = true ->
  mon_ok chk_exit c h = true /\ mon_ok chk_nostart c h = true /\ mon_ok chk_over c h = true.
Proof.
  intros lvl c h W Ha. split; [exact (chk_exit_monitor lvl c h W Ha)|].
  split; [exact (chk_nostart_monitor lvl c h W Ha)|exact (chk_over_monitor lvl c h W Ha)].
Qed.
Print Assumptions C09_accepted_histories.

(* timing: the wake that reports the last completion happens in the same instant as that
   completion -- the clock may only move when no finished task is unreported (level 2; acceptance
   at level 2 enforces the same on every implementation history) *)
Definition C09_timing_full_statement : Prop :=
  forall c h s t, wf c = true -> Reach 2 c h s ->
    step 2 c s (ETick t) <> None ->
    forall n, j_sched (jc c n) = true -> n < njobs c -> ph (Rn s n) = PMain ->
    forall x, In x (pend (Rn s n)) -> jfin s x = false.

Theorem C09_timing : C09_timing_full_statement.
Proof. exact tick_means_nothing_unreported. Qed.
Print Assumptions C09_timing.

(* non-vacuity: in the recorded run the forever job 8 is cancelled when the last regular job
   finishes, and the run then succeeds *)
(* the property in closed form.  In a tree without window (forever atomic jobs that nobody requires,
   handlers and cancellations of any finite duration, timeouts that the schedule does not reach, any
   nesting depth; every scheduler that has jobs has a non-forever one), until a critical job raises
   and away from ties (no_tieF: no forever job becomes eligible, or would end, exactly at the instant
   at which the last non-forever job of its scheduler ends):
   - the main loop of scheduler n ends at M = MF c S E n, the instant at which its last non-forever job
     ends, however long its forever jobs would go on;
   - a forever job that ends by itself strictly before M is an ordinary completion; every other one
     ("cut") runs from S f to M, is cancelled at M, handles the cancellation for j_cdur and is
     Cancelled from M + j_cdur on; after M no forever job of n is Running, Idle or Created;
   - the run of n is over at M + (longest cancellation among the cut jobs) + shutdown phase. *)
Theorem C09_runs_on_scheduleF : forall c S E h s,
  wf c = true -> plainF c = true -> is_scheduleF c S E -> no_tieF c S E -> slackF c S E ->
  Reach 3 c h s -> calm c E s ->
  forall x, x < njobs c -> x <> 0 -> on_scheduleF c S E s x.
Proof. exact runs_on_scheduleF. Qed.
Print Assumptions C09_runs_on_scheduleF.

Theorem C09_forever_jobs_cut_off : forall c S E h s,
  wf c = true -> plainF c = true -> is_scheduleF c S E -> no_tieF c S E -> slackF c S E ->
  Reach 3 c h s -> calm c E s ->
  forall n f, n < njobs c -> j_sched (jc c n) = true -> In f (members c n) -> fvr c f = true ->
    ((MF c S E n < now s)%N ->
       st (Jb s f) <> Running /\ st (Jb s f) <> Idle /\ st (Jb s f) <> Created /\
       (cut c S E f = true -> st (Jb s f) = Cancelling \/ st (Jb s f) = Cancelled) /\
       (cut c S E f = false -> is_done (st (Jb s f)) = true)) /\
    ((S f < now s)%N -> (now s < MF c S E n)%N -> cut c S E f = true -> st (Jb s f) = Running).
Proof. exact forever_jobs_cut_off. Qed.
Print Assumptions C09_forever_jobs_cut_off.

Theorem C09_phases_on_scheduleF : forall c S E h s,
  wf c = true -> plainF c = true -> is_scheduleF c S E -> no_tieF c S E -> slackF c S E ->
  Reach 3 c h s -> calm c E s ->
  forall n, n < njobs c -> j_sched (jc c n) = true ->
    let M := MF c S E n in let T := tidy_len c S E n in
    (ph (Rn s n) = PIdle -> (now s <= S n)%N) /\
    (ph (Rn s n) = PMain -> (S n <= now s)%N /\ (now s <= M)%N) /\
    (ph (Rn s n) = PTidy WSuccess -> (M <= now s)%N /\ (now s <= M + T)%N) /\
    (ph (Rn s n) = PShut WSuccess -> (M + T <= now s)%N /\ (now s <= M + T + shut_len c n)%N) /\
    (ph (Rn s n) = POver -> (E n <= now s)%N) /\
    E n = (M + T + shut_len c n)%N /\ okph (ph (Rn s n)) /\
    (ph (Rn s n) = PMain -> forall T0, j_timeout (jc c n) = Some T0 -> expi (Rn s n) = Some (S n + T0)%N).
Proof. exact phases_on_scheduleF. Qed.
Print Assumptions C09_phases_on_scheduleF.

(* the same with the instants computed by the executable solver solveF (proved complete: RSolveF.v):
   no hypothesis about S and E is left; no_tie_ok and slackF_ok are boolean conditions on the tree *)
Theorem C09_runs_on_computed_scheduleF : forall c h s, wf c = true -> plainF c = true ->
  no_tie_ok c = true -> slackF_ok c = true -> Reach 3 c h s -> calm c (EofF c) s ->
  (forall x, x < njobs c -> x <> 0 -> on_scheduleF c (SofF c) (EofF c) s x) /\
  (forall n f, n < njobs c -> j_sched (jc c n) = true -> In f (members c n) -> fvr c f = true ->
     (MF c (SofF c) (EofF c) n < now s)%N ->
     st (Jb s f) <> Running /\ st (Jb s f) <> Idle /\ st (Jb s f) <> Created).
Proof. exact runs_on_computed_scheduleF. Qed.
Print Assumptions C09_runs_on_computed_scheduleF.

Theorem C09_scheduleF_unique : forall c S E S' E', wf c = true -> plainF c = true ->
  is_scheduleF c S E -> is_scheduleF c S' E' -> forall x, x < njobs c -> S x = S' x /\ E x = E' x.
Proof. exact scheduleF_unique. Qed.
Print Assumptions C09_scheduleF_unique.

(* non-vacuity: RSchedF.ExampleF, root{a: 2 s; f forever never-ending, cancellation 1 s; g forever 1 s}:
   its history is accepted at level 3, the tables pass the three boolean checks *)
Example C09_schedule_nonvacuous :
  wf RSchedF.ExampleF.ex_c = true /\ plainF RSchedF.ExampleF.ex_c = true /\
  accept 3 RSchedF.ExampleF.ex_c RSchedF.ExampleF.ex_h = true /\
  no_tie_ok RSchedF.ExampleF.ex_c = true /\ slackF_ok RSchedF.ExampleF.ex_c = true /\
  map (EofF RSchedF.ExampleF.ex_c) [0; 1; 2; 3] = [4; 2; 3; 1]%N.
Proof. repeat split; vm_compute; reflexivity. Qed.

Example C09_nonvacuous :
  accept 3 ex_cfg ex_hist = true /\ j_forever (jc ex_cfg 8) = true /\
  In (ECancelHit 8) ex_hist /\ mon_ok chk_exit ex_cfg ex_hist = true.
Proof. repeat split; try (vm_compute; reflexivity). vm_compute. tauto. Qed.
