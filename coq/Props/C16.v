(* Property C16: sanitize() closes the requirement relation minimally and reports truthfully.
   This file contains only the property theorems; each is closed by [exact]. *)
From AJ Require Import Common.Util Graph.GModel Graph.Sanitize Graph.GSpecs.

(* The code's recursion computes exactly the flat description: every member job of every
   scheduler of the tree gets its requirements intersected with the members of its own
   scheduler, in processing order, and the boolean is the negated disjunction of all changes. *)
Theorem C16_recursion_is_flat : forall t rq, sanitize t rq = san_flat t rq.
Proof. exact sanitize_flat. Qed.
Print Assumptions C16_recursion_is_flat.

Theorem C16_exact : forall t rq, tree_ok t ->
  forall j, fst (sanitize t rq) j = spec_rq (proc_order t) rq j.
Proof. exact sanitize_exact. Qed.
Print Assumptions C16_exact.

(* afterwards each requirement of each member is a member of the same scheduler *)
Theorem C16_closed : forall t rq j ms r, tree_ok t -> owner t j ms ->
  In r (fst (sanitize t rq) j) -> In r ms.
Proof. exact sanitize_closed. Qed.
Print Assumptions C16_closed.

(* no requirement between two members of the same scheduler is removed *)
Theorem C16_minimal : forall t rq j ms r, tree_ok t -> owner t j ms ->
  In r (rq j) -> In r ms -> In r (fst (sanitize t rq) j).
Proof. exact sanitize_minimal. Qed.
Print Assumptions C16_minimal.

(* nothing is ever added *)
Theorem C16_only_removes : forall t rq j r, tree_ok t ->
  In r (fst (sanitize t rq) j) -> In r (rq j).
Proof. exact sanitize_only_removes. Qed.
Print Assumptions C16_only_removes.

(* True iff nothing had to be removed anywhere *)
Theorem C16_truthful : forall t rq, tree_ok t ->
  (snd (sanitize t rq) = true <-> (forall j, fst (sanitize t rq) j = rq j)).
Proof. exact sanitize_truthful. Qed.
Print Assumptions C16_truthful.

(* so a second call returns True and changes nothing *)
Theorem C16_idempotent : forall t rq, tree_ok t ->
  let rq1 := fst (sanitize t rq) in
  snd (sanitize t rq1) = true /\ forall j, fst (sanitize t rq1) j = rq1 j.
Proof. exact sanitize_idempotent. Qed.
Print Assumptions C16_idempotent.

(* the executable statement used to judge implementation outputs holds of the model *)
Theorem C16_spec_model : forall t n rq, tree_ok t ->
  (forall j ms, owner t j ms -> j < n) ->
  let '(rq', ret) := sanitize t rq in c16_spec_b t n rq rq' ret = true.
Proof. exact c16_spec_model. Qed.
Print Assumptions C16_spec_model.

(* non-vacuity: a depth-2 tree with edges to a sibling scheduler's job, to a job of no scheduler
   and to the parent satisfies the hypothesis; sanitize reports the removal, then True. *)
Definition ex_tree := Sched 0 [Atom 1; Sched 2 [Atom 3; Atom 4]; Sched 5 [Atom 6]].
Definition ex_rq : rmap := tab_get_nat [[]; []; [1]; []; [3; 6; 7; 0]; [2]; [3]].
Example C16_nonvacuous :
  tree_ok ex_tree /\
  snd (sanitize ex_tree ex_rq) = false /\
  fst (sanitize ex_tree ex_rq) 4 = [3] /\ fst (sanitize ex_tree ex_rq) 6 = [] /\
  fst (sanitize ex_tree ex_rq) 2 = [1] /\
  snd (sanitize ex_tree (fst (sanitize ex_tree ex_rq))) = true.
Proof.
  split; [|vm_compute; repeat split].
  unfold tree_ok. apply nodup_b_spec. vm_compute. reflexivity.
Qed.
