(* Property C01: a job never starts before every one of its requirements has finished.
   Only property theorems here, each closed by [exact]. Model R, level 0 (hence every level). *)
From AJ Require Import Common.Util Run.RModel Run.RFacts Run.RInv Run.RMon Run.RProps1 Props.RExample Run.RSchedDef Run.RSched Run.RSchedTop Run.RSchedCor.

(* In every reachable state, whenever the model accepts the event by which a job enters its body
   (EStart for an atomic job, EBegin for a nested scheduler), every requirement of that job is
   done (returned or raised: is_done), and if the job sits in a nested scheduler p, p's run has
   begun and every requirement of p is done as well.  [chk01] is that statement as a boolean. *)
Theorem C01_requirements_first : forall lvl c h0 s e s', wf c = true ->
  Reach lvl c h0 s -> step lvl c s e = Some s' -> chk01 c s e = true.
Proof. exact C01_holds. Qed.
Print Assumptions C01_requirements_first.

(* what the boolean says, spelled out for an atomic job *)
Theorem C01_meaning : forall c s x, chk01 c s (EStart x) = true ->
  (forall r, In r (reqs c x) -> is_done (st (Jb s r)) = true) /\
  (parent c x <> 0 ->
   (forall r, In r (reqs c (parent c x)) -> is_done (st (Jb s r)) = true) /\
   st (Jb s (parent c x)) <> Idle /\ st (Jb s (parent c x)) <> Created).
Proof. exact chk01_meaning. Qed.
Print Assumptions C01_meaning.

(* done is for good: a requirement that has finished keeps its status and result *)
Theorem C01_done_is_stable : forall lvl c h0 s e s' x, wf c = true ->
  Reach lvl c h0 s -> step lvl c s e = Some s' ->
  is_done (st (Jb s x)) = true -> Jb s' x = Jb s x.
Proof. exact C01_done_stable. Qed.
Print Assumptions C01_done_is_stable.

(* a nested scheduler is done, as a job of its parent, only when its whole run is over *)
Theorem C01_nested_done_means_over : forall lvl c h0 s n, wf c = true ->
  Reach lvl c h0 s -> n <> 0 -> j_sched (jc c n) = true -> n < njobs c ->
  is_done (st (Jb s n)) = true -> ph (Rn s n) = POver.
Proof. exact nested_done_over. Qed.
Print Assumptions C01_nested_done_means_over.

(* trace form: every history accepted by the model, at any level, passes the monitor *)
Theorem C01_accepted_histories : forall lvl c h, wf c = true ->
  accept lvl c h = true -> mon_ok chk01 c h = true.
Proof. exact C01_monitor. Qed.
Print Assumptions C01_accepted_histories.

(* non-vacuity: the recorded implementation run is accepted and contains starts of jobs that
   have requirements, one of them inside a nested scheduler that itself has none *)
(* in closed form: the instant computed for the start of a job is never before the instant computed
   for the end of any of its requirements, nor before the beginning of its scheduler -- and every
   execution of a tree without window or forever job follows those instants (C12_runs_on_computed_scheduleH) *)
Theorem C01_schedule_respects_requirements : forall c S E x r, is_scheduleH c S E -> x < njobs c -> x <> 0 ->
  In r (reqs c x) -> (E r <= S x)%N /\ (S (parent c x) <= S x)%N.
Proof. exact schedule_respects_requirements. Qed.
Print Assumptions C01_schedule_respects_requirements.

Example C01_nonvacuous :
  wf ex_cfg = true /\ accept 3 ex_cfg ex_hist = true /\
  In (EStart 6) ex_hist /\ reqs ex_cfg 6 = [1; 2] /\ In (EStart 4) ex_hist /\ parent ex_cfg 4 = 3.
Proof. repeat split; try (vm_compute; reflexivity); vm_compute; tauto. Qed.
