(* Property C14: job results and life-cycle predicates tell the truth.
   Only property theorems here, each closed by [exact]. Model R, level 0 (hence every level). *)
From AJ Require Import Common.Util Run.RModel Run.RFacts Run.RInv Run.RMon Run.RProps1 Props.RExample.

(* [view_of] is the model image of job.py:516-585 (is_idle, is_scheduled, is_running, is_done,
   result(), raised_exception()); return values and exception objects are identity tags.
   Its meaning in terms of the life cycle: done iff the body returned or raised, the result /
   exception is that of the outcome, idle iff never scheduled. *)
Theorem C14_truth : forall x a,
  let v := view_of x a in
  v_done v = is_done (st a) /\
  (v_idle v = true <-> st a = Idle) /\
  v_sched v = negb (v_idle v) /\
  v_run v = ran a /\
  (forall t, v_exc v = S t <-> st a = DoneExc t) /\
  (v_exc v = 0 <-> is_exc (st a) = false) /\
  (v_res v = 1 <-> st a = DoneRet RVOwn) /\
  (v_res v = 2 <-> st a = DoneRet RVTrue) /\
  (v_res v = 3 <-> st a = DoneRet RVFalse) /\
  (v_res v = 0 <-> forall r, st a <> DoneRet r).
Proof. exact C14_truth. Qed.
Print Assumptions C14_truth.

(* every poll accepted by the model equals view_of on the state implied by the events so far,
   and is internally consistent: is_done -> is_running -> is_scheduled = not is_idle; a result
   or an exception only on a done job, never both *)
Theorem C14_polls_agree : forall lvl c h0 s e s', wf c = true ->
  Reach lvl c h0 s -> step lvl c s e = Some s' -> chk14 c s e = true.
Proof. exact C14_holds. Qed.
Print Assumptions C14_polls_agree.

(* in every reachable state: done implies running implies scheduled, for every job; in
   particular a job waiting for a window slot (Created) is scheduled but not running, and a
   cancelled or idle job is not done (by C14_truth) *)
Theorem C14_order : forall lvl c h s x, wf c = true -> Reach lvl c h s ->
  view_wf (view_of x (Jb s x)) = true /\
  (st (Jb s x) = Created -> v_sched (view_of x (Jb s x)) = true /\ v_run (view_of x (Jb s x)) = false).
Proof. exact view_order. Qed.
Print Assumptions C14_order.

(* no predicate ever reverts, and a done job keeps its result for good *)
Theorem C14_monotone : forall lvl c h0 s e s' x, wf c = true ->
  Reach lvl c h0 s -> step lvl c s e = Some s' ->
  let v := view_of x (Jb s x) in let v' := view_of x (Jb s' x) in
  (v_sched v = true -> v_sched v' = true) /\ (v_run v = true -> v_run v' = true) /\
  (v_done v = true -> v' = v).
Proof. exact C14_monotone. Qed.
Print Assumptions C14_monotone.

Theorem C14_accepted_histories : forall lvl c h, wf c = true ->
  accept lvl c h = true -> mon_ok chk14 c h = true.
Proof. exact C14_monitor. Qed.
Print Assumptions C14_accepted_histories.

(* non-vacuity: the recorded run polls a job that raised (exception tag 2*2), a cancelled forever
   job and a nested scheduler that returned False *)
Example C14_nonvacuous :
  accept 3 ex_cfg ex_hist = true /\
  exists jv sv, In (EPoll jv sv) ex_hist /\
    In (mkJv 2 false true true true 0 5) jv /\ In (mkJv 3 false true true true 3 0) jv /\
    In (mkJv 8 false true true false 0 0) jv.
Proof.
  split; [vm_compute; reflexivity|].
  assert (H : existsb (fun e => match e with
      | EPoll jv sv => existsb (jview_eqb (mkJv 2 false true true true 0 5)) jv
                       && existsb (jview_eqb (mkJv 3 false true true true 3 0)) jv
                       && existsb (jview_eqb (mkJv 8 false true true false 0 0)) jv
      | _ => false end) ex_hist = true) by (vm_compute; reflexivity).
  apply existsb_exists in H. destruct H as [e [He Hm]]. destruct e; try discriminate.
  exists jv, sv. split; [exact He|].
  rewrite !andb_true_iff in Hm. destruct Hm as [[A B] C].
  apply existsb_exists in A, B, C.
  destruct A as [a [A1 A2]], B as [b [B1 B2]], C as [d [C1 C2]].
  apply jview_eqb_eq in A2, B2, C2. subst. auto.
Qed.
