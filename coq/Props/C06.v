(* Property C06: non-critical failures are contained -- the rest of the run is unaffected.
   Only property theorems here. Model R, every level.  These theorems depend on the standard-library
   axiom functional_extensionality_dep (states contain functions and the correspondence between the
   two runs is stated as an equality of states); no other axiom. *)
From AJ Require Import Common.Util Run.RModel Run.RFacts Run.RProps2 Run.RFlip Props.RExample Run.RSchedDef Run.RSched Run.RSchedCor.

(* c' = flip_cfg F c: the same tree in which the jobs of F (atomic, not critical) raise where they
   returned and return where they raised.  flip_ev F switches the outcome of their EFinish events
   and the corresponding fields of their polled views, and nothing else. *)

(* one step: the same event (outcome switched) is accepted in the corresponding state, leads to the
   corresponding state, and the model's outputs -- created tasks, asyncio.wait calls with their
   lists and timeouts, verdicts -- are identical *)
Theorem C06_step : forall F lvl c s e s', flippable F c -> step lvl c s e = Some s' ->
  step lvl (flip_cfg F c) (flip_st F s) (flip_ev F e) = Some (flip_st F s') /\
  snd (reaction (flip_cfg F c) (flip_st F s) (flip_ev F e)) = snd (reaction c s e).
Proof. exact flip_step. Qed.
Print Assumptions C06_step.

(* whole runs: the two configurations have the same executions, up to the switched outcome *)
Theorem C06_same_runs : forall F lvl c h, flippable F c ->
  accept lvl (flip_cfg F c) (map (flip_ev F) h) = accept lvl c h.
Proof. exact flip_accept_iff. Qed.
Print Assumptions C06_same_runs.

Theorem C06_same_reachable_states : forall F lvl c h s, flippable F c -> Reach lvl c h s ->
  Reach lvl (flip_cfg F c) (map (flip_ev F) h) (flip_st F s).
Proof. exact flip_reach. Qed.
Print Assumptions C06_same_reachable_states.

(* what is the same: every event other than the finish of a switched job and the polls ... *)
Theorem C06_other_events_unchanged : forall F e,
  match e with EFinish j _ => F j = false | EPoll _ _ => False | _ => True end -> flip_ev F e = e.
Proof. exact flip_ev_other. Qed.
Print Assumptions C06_other_events_unchanged.

(* ... all observed outputs (verdict of every scheduler included) ... *)
Theorem C06_same_outputs : forall F h, map outs_of (map (flip_ev F) h) = map outs_of h.
Proof. exact flip_hist_outs. Qed.
Print Assumptions C06_same_outputs.

(* ... the state of every other job, of every run, handler and shutdown activity, and the clock *)
Theorem C06_other_jobs : forall F s j, F j = false -> Jb (flip_st F s) j = Jb s j.
Proof. exact flip_other_jobs. Qed.
Print Assumptions C06_other_jobs.

Theorem C06_runs_and_clock : forall F s,
  Rn (flip_st F s) = Rn s /\ Sd (flip_st F s) = Sd s /\ Hd (flip_st F s) = Hd s /\ now (flip_st F s) = now s.
Proof. exact flip_runs. Qed.
Print Assumptions C06_runs_and_clock.

(* the failed job counts as done for the jobs that require it ... *)
Theorem C06_failed_is_done : forall F s j, is_done (st (Jb (flip_st F s) j)) = is_done (st (Jb s j)).
Proof. exact flip_done. Qed.
Print Assumptions C06_failed_is_done.

(* ... and its exception stays retrievable from it *)
Theorem C06_exception_kept : forall F s j, F j = true -> st (Jb s j) = DoneRet RVOwn ->
  st (Jb (flip_st F s) j) = DoneExc (tag_job j).
Proof. exact flip_exception_kept. Qed.
Print Assumptions C06_exception_kept.

Theorem C06_wf : forall F c, wf (flip_cfg F c) = wf c.
Proof. exact flip_wf_eq. Qed.
Print Assumptions C06_wf.

(* non-vacuity: in the recorded run job 2 raises and is not critical; the switched history is
   accepted for the switched configuration *)
(* in closed form, and without any axiom: the scheduling equations do not mention outcomes, so in a
   tree without window or forever job every execution of the tree with the outcomes of any set F of
   non-critical jobs switched follows the SAME schedule S, E: no job starts or ends at another instant
   because a non-critical job raised (until a critical job raises) *)
Theorem C06_noncritical_failures_do_not_move_jobs : forall F c S E h s,
  wf c = true -> plainH c = true -> is_scheduleH c S E -> slackH c S E -> flippable F c ->
  Reach 3 (flip_cfg F c) h s -> calm c E s ->
  forall x, x < njobs c -> x <> 0 -> on_schedule (flip_cfg F c) S E s x.
Proof. exact noncritical_failures_do_not_move_jobs. Qed.
Print Assumptions C06_noncritical_failures_do_not_move_jobs.

Theorem C06_schedule_ignores_outcomes : forall F c S E, is_scheduleH c S E <-> is_scheduleH (flip_cfg F c) S E.
Proof. exact schedule_ignores_outcomes. Qed.
Print Assumptions C06_schedule_ignores_outcomes.

Example C06_nonvacuous :
  let F := fun j => Nat.eqb j 2 in
  flippableb F ex_cfg = true /\ In (EFinish 2 OExc) ex_hist /\
  accept 3 (flip_cfg F ex_cfg) (map (flip_ev F) ex_hist) = true /\
  In (EFinish 2 ORet) (map (flip_ev F) ex_hist).
Proof. cbn zeta. repeat split; try (vm_compute; reflexivity); vm_compute; tauto. Qed.
