(* Property C03: progress -- a run that can finish does finish; failures and windows never wedge it.
   Only property theorems here. Model R, level 3.  Proved: deadlock freedom of every admissible tree
   (C03_progress), finiteness of every execution (C03_bounded), and the facts behind them: no slot
   leaks, no wake-up is lost, eligible jobs are started, switching outcomes between return and raise
   preserves completion, the timeout path is taken at the deadline.  The check looks for deadlocks
   and livelocks on the implementation under the virtual-time loop, on trees the extracted model
   classifies as admissible.
   C03_failures_never_wedge depends on the standard-library axiom functional_extensionality_dep. *)
From AJ Require Import Common.Util Run.RModel Run.RFacts Run.RFacts2 Run.RInv Run.RMon Run.RProps2 Run.RProps3
  Run.RWin Run.RProps4 Run.RFlip Run.RShut1 Run.RShut2 Run.RTime Run.RAdm Run.RInvP Run.RProgA Run.RProgS Run.RProg Run.RTerm Props.RExample.

(* however many non-critical jobs raise: complete runs stay complete when outcomes are switched *)
Theorem C03_failures_never_wedge : forall F lvl c h, flippable F c ->
  completes lvl (flip_cfg F c) (map (flip_ev F) h) = completes lvl c h.
Proof. exact failures_never_wedge. Qed.
Print Assumptions C03_failures_never_wedge.

(* no window slot is ever leaked or handed out twice: the occupancy counter is exactly the number
   of direct jobs whose body is executing, whatever their outcome *)
Theorem C03_no_slot_leak : forall lvl c h s, wf c = true -> Reach lvl c h s ->
  forall p, qsz (Rn s p) = hcount c s p.
Proof. exact Wacc_reach. Qed.
Print Assumptions C03_no_slot_leak.

(* no lost wake-up: when time passes, every finished task has been reported to its main loop ... *)
Theorem C03_no_lost_wakeup : forall c h s t, wf c = true -> Reach 2 c h s ->
  step 2 c s (ETick t) <> None ->
  forall n, j_sched (jc c n) = true -> n < njobs c -> ph (Rn s n) = PMain ->
  forall x, In x (pend (Rn s n)) -> jfin s x = false.
Proof. exact tick_means_nothing_unreported. Qed.
Print Assumptions C03_no_lost_wakeup.

(* ... and every job that waits is waiting for an unfinished requirement or for a full window *)
Theorem C03_waiting_has_a_reason : forall lvl c h s, wf c = true -> 1 <= lvl -> Reach lvl c h s ->
  quiescent c s = true -> eager_ok c s = true.
Proof. exact eager_at_quiescence. Qed.
Print Assumptions C03_waiting_has_a_reason.

(* a scheduler with a timeout: the clock never passes the expiration while the main loop runs, so
   the timeout wake happens exactly at the deadline (then C08: everything pending is cancelled) *)
Theorem C03_timeout_is_honoured : forall lvl c h s n, wf c = true -> 2 <= lvl -> Reach lvl c h s ->
  ph (Rn s n) = PMain -> dl_ok s (expi (Rn s n)).
Proof. intros lvl c h s n W Hl Hr. apply (t_run c s (InvT_reach lvl c h s W Hl Hr)). Qed.
Print Assumptions C03_timeout_is_honoured.

(* PROGRESS.  [admissible] (Run/RAdm.v) formalises the hypotheses of the property: the tree is
   well formed (acyclic, closed); every scheduler with no timeout at or above it owns a non-forever
   job, contains no non-forever job that never ends or that requires (directly or not) a job that
   never ends, and has a window larger than the number of never-ending or blocked jobs it may hold;
   a handler that never ends has a finite shutdown_timeout right above.  Then no reachable state
   other than the end of the run is stuck: some job, handler or scheduler event is enabled, or the
   clock can move to the next deadline.  Whatever the completion order, however many non-critical
   jobs raise, however small the windows; schedulers under a timeout need no hypothesis at all. *)
Theorem C03_progress : forall c h s, admissible c = true -> Reach 3 c h s -> terminal c s = false ->
  exists e s', step 3 c s e = Some s' /\ match e with EPoll _ _ => False | _ => True end.
Proof. exact progress. Qed.
Print Assumptions C03_progress.

(* its two halves: the enabledness flags on which the clock rule (level 2) relies are faithful ... *)
Theorem C03_flags_are_faithful : forall c h s, wf c = true -> Reach 3 c h s -> InvP c s -> InvQ c s ->
  quiescent c s = false -> exists e s', step 3 c s e = Some s' /\ real_event e.
Proof. exact enabled_progress_reach. Qed.
Print Assumptions C03_flags_are_faithful.

(* ... and a dead state (nothing enabled, no deadline pending) is the end of the run *)
Theorem C03_no_dead_state : forall c h s, wf c = true -> admissible c = true -> Reach 3 c h s ->
  InvP c s -> InvQ c s -> quiescent c s = true -> deadlines c s = [] ->
  ph (Rn s 0) = PIdle \/ ph (Rn s 0) = POver.
Proof. exact dead_state_is_final. Qed.
Print Assumptions C03_no_dead_state.

(* TERMINATION.  Every execution is finite: the number of events other than pure observations
   (EPoll), the clock moving on after the end of the run (EGrace) and repeated explicit shutdown()
   calls of the environment on the root after the run (ESdStart 0, each a no-op: C03_late_shutdown_noop)
   is bounded by a function of the tree alone.  The potential function sums, per job, handler, run
   and shutdown activity, the stages and deadlines still ahead, plus a budget of cancellations that
   can still reach each task along its chain of ancestors. *)
Theorem C03_bounded : exists B : cfg -> nat,
  forall c h s, wf c = true -> Reach 3 c h s -> length (filter weighty h) <= B c.
Proof. exact bounded_executions. Qed.
Print Assumptions C03_bounded.

Theorem C03_every_step_pays : forall c h s e s', wf c = true -> Reach 3 c h s -> step 3 c s e = Some s' ->
  rho c s' <= rho c s /\ (weighty e = true -> rho c s' < rho c s).
Proof. exact rho_decreases. Qed.
Print Assumptions C03_every_step_pays.

(* the exclusion of ESdStart 0 is necessary: the environment may call shutdown() again and again *)
Theorem C03_unbounded_root_shutdown : ~ exists B : cfg -> nat,
  forall c h s, wf c = true -> Reach 3 c h s -> length (filter weighty0 h) <= B c.
Proof. exact unbounded_root_shutdown. Qed.
Print Assumptions C03_unbounded_root_shutdown.

Theorem C03_late_shutdown_noop : forall c s o s', wf c = true -> step 3 c s (ESdStart 0 o) = Some s' ->
  did (Sd s 0) = true ->
  Jb s' = Jb s /\ Rn s' = Rn s /\ now s' = now s /\ (forall m, Sd s' m = Sd s m) /\
  (forall x, Hd s' x = if Nat.eqb x 0 then mkHst HDone false None else Hd s x).
Proof. exact late_root_shutdown_noop. Qed.
Print Assumptions C03_late_shutdown_noop.

(* Together: from any reachable state of an admissible tree the run can always take a step
   (C03_progress) and can take only boundedly many (C03_bounded): every maximal execution is finite
   and ends with the top-level run over -- run() terminates. *)

Example C03_nonvacuous :
  admissible ex_cfg = true /\ completes 3 ex_cfg ex_hist = true /\ j_window (jc ex_cfg 0) = 2 /\
  In (EFinish 2 OExc) ex_hist.
Proof. repeat split; try (vm_compute; reflexivity). vm_compute. tauto. Qed.
