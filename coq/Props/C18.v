(* Property C18: graph surgery keeps exactly the documented jobs and preserves precedence.
   This file contains only the property theorems; each is closed by [exact].
   State of a scheduler: (members, requirement map).  [bypass] returns None when the
   implementation raises ValueError.  [reach rq ms a b]: a requires ... requires b, through
   members (Queries.v).  [no2cycle ms rq j]: no member other than j both requires j and is
   required by j (SurgeryP.v); every acyclic scheduler satisfies it. *)
From AJ Require Import Common.Util Graph.GModel Graph.Sanitize Graph.Topo Graph.GSpecs
  Graph.Queries Graph.QueriesP Graph.Surgery Graph.SurgeryP Graph.GSpecs2 Graph.GSpecs2S.

(* ---------------- bypass_and_remove ---------------- *)

Theorem C18_bypass_refuses : forall ms rq j, bypass ms rq j = None <-> ~ In j ms.
Proof. exact bypass_refuses. Qed.
Print Assumptions C18_bypass_refuses.

(* removes exactly j *)
Theorem C18_bypass_members : forall ms rq j ms' rq', bypass ms rq j = Some (ms', rq') ->
  forall x, In x ms' <-> In x ms /\ x <> j.
Proof. exact bypass_members. Qed.
Print Assumptions C18_bypass_members.

(* direct requirements change only by the documented re-linking: a member d that required j
   gets j's requirements (d itself excepted) and loses j; no other list changes *)
Theorem C18_bypass_relinks : forall ms rq j ms' rq', bypass ms rq j = Some (ms', rq') ->
  forall d r, In r (rq' d) <->
    (In r (rq d) \/ ((In d ms /\ In j (rq d)) /\ In r (rq j) /\ r <> d)) /\
    ((In d ms /\ In j (rq d)) -> r <> j).
Proof. exact bypass_rq. Qed.
Print Assumptions C18_bypass_relinks.

(* the loops run over sets whose internal order cannot be observed: any other order of the
   upstreams and downstreams gives the same requirement sets *)
Theorem C18_bypass_any_order : forall ms rq j ms' rq' ups downs,
  bypass ms rq j = Some (ms', rq') ->
  (forall x, In x ups <-> In x (rq j)) -> (forall x, In x downs <-> In x (downs_of ms rq j)) ->
  forall d r, In r (unlink j downs (relink ups downs rq) d) <-> In r (rq' d).
Proof. exact bypass_order_independent. Qed.
Print Assumptions C18_bypass_any_order.

(* no other ordering appears (needs no hypothesis at all) *)
Theorem C18_bypass_no_new_order : forall ms rq j ms' rq', bypass ms rq j = Some (ms', rq') ->
  forall x y, reach rq' ms' x y -> reach rq ms x y.
Proof. exact bypass_reach_sound. Qed.
Print Assumptions C18_bypass_no_new_order.

(* every path through j is re-linked *)
Theorem C18_bypass_relinks_paths : forall ms rq j ms' rq', bypass ms rq j = Some (ms', rq') ->
  no2cycle ms rq j ->
  forall x y, reach rq ms x y -> In x ms -> x <> j -> y <> j -> reach rq' ms' x y.
Proof. exact bypass_reach_complete. Qed.
Print Assumptions C18_bypass_relinks_paths.

(* must-run-before between the remaining jobs is unchanged *)
Theorem C18_bypass_preserves_order : forall ms rq j ms' rq',
  bypass ms rq j = Some (ms', rq') -> no2cycle ms rq j ->
  forall x y, In x ms' -> In y ms' -> (reach rq' ms' x y <-> reach rq ms x y).
Proof. exact bypass_reach. Qed.
Print Assumptions C18_bypass_preserves_order.

Theorem C18_bypass_preserves_order_dag : forall ms rq j ms' rq',
  bypass ms rq j = Some (ms', rq') -> acyclic rq ms ->
  forall x y, In x ms' -> In y ms' -> (reach rq' ms' x y <-> reach rq ms x y).
Proof. exact bypass_reach_acyclic. Qed.
Print Assumptions C18_bypass_preserves_order_dag.

(* the hypothesis is needed: with the 2-cycle 0 <-> 1, bypassing 1 would need "0 requires 0",
   which requires() refuses, so "0 before 0" is lost *)
Theorem C18_bypass_unconditional_refuted :
  exists ms rq j ms' rq' x y,
    bypass ms rq j = Some (ms', rq') /\ In x ms' /\ In y ms' /\
    reach rq ms x y /\ ~ reach rq' ms' x y.
Proof. exact bypass_reach_unconditional_refuted. Qed.
Print Assumptions C18_bypass_unconditional_refuted.

Theorem C18_bypass_closed : forall ms rq j ms' rq', bypass ms rq j = Some (ms', rq') ->
  closed rq ms -> closed rq' ms'.
Proof. exact bypass_closed. Qed.
Print Assumptions C18_bypass_closed.

Theorem C18_bypass_acyclic : forall ms rq j ms' rq', bypass ms rq j = Some (ms', rq') ->
  acyclic rq ms -> acyclic rq' ms'.
Proof. exact bypass_acyclic. Qed.
Print Assumptions C18_bypass_acyclic.

(* ---------------- keep_only ---------------- *)

Theorem C18_keep_only_members : forall ms rq remains x,
  In x (fst (keep_only ms rq remains)) <-> In x ms /\ In x remains.
Proof. exact keep_only_members. Qed.
Print Assumptions C18_keep_only_members.

(* exactly the original requirements among kept jobs and none to dropped ones; the lists of
   jobs that are not kept are left alone *)
Theorem C18_keep_only_requirements : forall ms rq remains x,
  let ms' := fst (keep_only ms rq remains) in
  snd (keep_only ms rq remains) x = if memb x ms' then inter (rq x) ms' else rq x.
Proof. exact keep_only_rq. Qed.
Print Assumptions C18_keep_only_requirements.

Theorem C18_keep_only_closed : forall ms rq remains,
  closed (snd (keep_only ms rq remains)) (fst (keep_only ms rq remains)).
Proof. exact keep_only_closed. Qed.
Print Assumptions C18_keep_only_closed.

Theorem C18_keep_only_acyclic : forall ms rq remains, acyclic rq ms ->
  acyclic (snd (keep_only ms rq remains)) (fst (keep_only ms rq remains)).
Proof. exact keep_only_acyclic. Qed.
Print Assumptions C18_keep_only_acyclic.

(* ---------------- keep_only_between ---------------- *)

(* kept: the members downstream of a start and upstream of an end (an empty or absent side is no
   constraint), plus the starts / the ends when keep_starts / keep_ends *)
Theorem C18_between_members : forall ms rq sc starts ends ks ke x, incl starts ms ->
  (In x (fst (keep_only_between ms rq sc starts ends ks ke)) <->
   (In x ms /\ (starts = [] \/ exists s, In s starts /\ reach rq ms x s)
            /\ (ends = [] \/ exists e, In e ends /\ reach rq ms e x))
   \/ (ks = true /\ In x starts) \/ (ke = true /\ In x ends)).
Proof. exact between_exact. Qed.
Print Assumptions C18_between_members.

Theorem C18_between_requirements : forall ms rq sc starts ends ks ke x,
  let ms' := fst (keep_only_between ms rq sc starts ends ks ke) in
  snd (keep_only_between ms rq sc starts ends ks ke) x =
  if memb x ms' then inter (rq x) ms' else rq x.
Proof. exact between_rq. Qed.
Print Assumptions C18_between_requirements.

Theorem C18_between_closed : forall ms rq sc starts ends ks ke,
  closed (snd (keep_only_between ms rq sc starts ends ks ke))
         (fst (keep_only_between ms rq sc starts ends ks ke)).
Proof. exact between_closed. Qed.
Print Assumptions C18_between_closed.

Theorem C18_between_acyclic : forall ms rq sc starts ends ks ke,
  (ks = true -> incl starts ms) -> (ke = true -> incl ends ms) -> acyclic rq ms ->
  acyclic (snd (keep_only_between ms rq sc starts ends ks ke))
          (fst (keep_only_between ms rq sc starts ends ks ke)).
Proof. exact between_acyclic. Qed.
Print Assumptions C18_between_acyclic.

(* ... and that hypothesis is needed: starts that are not members are added to the scheduler as
   they are, a cycle among them included *)
Theorem C18_between_acyclic_nonmember_refuted :
  exists ms rq sc starts ends ks ke,
    NoDup ms /\ closed rq ms /\ acyclic rq ms /\
    ~ acyclic (snd (keep_only_between ms rq sc starts ends ks ke))
              (fst (keep_only_between ms rq sc starts ends ks ke)).
Proof. exact between_acyclic_nonmember_refuted. Qed.
Print Assumptions C18_between_acyclic_nonmember_refuted.

(* ---------------- the recursive sanitize() of a Scheduler agrees on the members ---------------- *)

Theorem C18_keep_only_tree : forall i pool ms rq remains,
  tree_ok (Sched i (pick pool (inter ms remains))) ->
  fst (keep_only_t i pool ms rq remains) = fst (keep_only ms rq remains) /\
  forall j, In j (fst (keep_only ms rq remains)) ->
            snd (keep_only_t i pool ms rq remains) j = snd (keep_only ms rq remains) j.
Proof. exact keep_only_t_agrees. Qed.
Print Assumptions C18_keep_only_tree.

Theorem C18_between_tree : forall i pool ms rq sc starts ends ks ke,
  tree_ok (Sched i (pick pool (between_kept ms rq sc starts ends ks ke))) ->
  fst (keep_only_between_t i pool ms rq sc starts ends ks ke)
    = fst (keep_only_between ms rq sc starts ends ks ke) /\
  forall j, In j (fst (keep_only_between ms rq sc starts ends ks ke)) ->
            snd (keep_only_between_t i pool ms rq sc starts ends ks ke) j
              = snd (keep_only_between ms rq sc starts ends ks ke) j.
Proof. exact keep_only_between_t_agrees. Qed.
Print Assumptions C18_between_tree.

(* jobs outside the rebuilt tree are not touched by the recursive sanitize() *)
Theorem C18_tree_outside : forall i pool ms' rq j,
  ~ In j (map fst (proc_order (Sched i (pick pool ms')))) -> resan i pool ms' rq j = rq j.
Proof. exact resan_outside. Qed.
Print Assumptions C18_tree_outside.

(* ---------------- the executable statements hold of the model's results ---------------- *)

Theorem C18_bypass_spec_model : forall n ms rq j,
  match bypass ms rq j with
  | Some (ms', rq') => c18_bypass_spec_b n ms rq j ms' rq' = true
  | None => True
  end.
Proof. exact c18_bypass_spec_model. Qed.
Print Assumptions C18_bypass_spec_model.

Theorem C18_keep_only_spec_model : forall ms rq remains,
  let '(ms', rq') := keep_only ms rq remains in
  c18_keep_only_spec_b ms rq remains ms' rq' = true.
Proof. exact c18_keep_only_spec_model. Qed.
Print Assumptions C18_keep_only_spec_model.

Theorem C18_between_spec_model : forall ms rq sc starts ends ks ke,
  let '(ms', rq') := keep_only_between ms rq sc starts ends ks ke in
  c18_between_spec_b ms rq starts ends ks ke ms' rq' = true.
Proof. exact c18_between_spec_model. Qed.
Print Assumptions C18_between_spec_model.

(* ... and are sound: whenever they evaluate to true on a result (the implementation's), that
   result satisfies the statements above *)
Theorem C18_bypass_spec_sound : forall n ms rq j ms' rq',
  In j ms -> c18_bypass_spec_b n ms rq j ms' rq' = true ->
  (forall x, In x ms' <-> In x ms /\ x <> j) /\
  (forall d r, d < n ->
     (In r (rq' d) <->
      (In r (rq d) \/ ((In d ms /\ In j (rq d)) /\ In r (rq j) /\ r <> d)) /\
      ((In d ms /\ In j (rq d)) -> r <> j))) /\
  (no2cycle ms rq j ->
   forall x y, In x ms' -> In y ms' -> (reach rq' ms' x y <-> reach rq ms x y)) /\
  (closed rq ms -> closed rq' ms') /\
  (NoDup ms -> closed rq ms -> acyclic rq ms -> NoDup ms' /\ acyclic rq' ms').
Proof. exact c18_bypass_spec_sound. Qed.
Print Assumptions C18_bypass_spec_sound.

Theorem C18_keep_only_spec_sound : forall ms rq remains ms' rq',
  c18_keep_only_spec_b ms rq remains ms' rq' = true ->
  (forall x, In x ms' <-> In x ms /\ In x remains) /\
  (forall x r, In x ms' -> (In r (rq' x) <-> In r (rq x) /\ In r ms')) /\
  closed rq' ms' /\
  (NoDup ms -> closed rq ms -> acyclic rq ms -> NoDup ms' /\ acyclic rq' ms').
Proof. exact c18_keep_only_spec_sound. Qed.
Print Assumptions C18_keep_only_spec_sound.

Theorem C18_between_spec_sound : forall ms rq starts ends ks ke ms' rq',
  incl starts ms -> incl ends ms ->
  c18_between_spec_b ms rq starts ends ks ke ms' rq' = true ->
  (forall x, In x ms' <->
     (In x ms /\ (starts = [] \/ exists s, In s starts /\ reach rq ms x s)
              /\ (ends = [] \/ exists e, In e ends /\ reach rq ms e x))
     \/ (ks = true /\ In x starts) \/ (ke = true /\ In x ends)) /\
  (forall x r, In x ms' -> (In r (rq' x) <-> In r (rq x) /\ In r ms')) /\
  closed rq' ms' /\
  (NoDup ms -> closed rq ms -> acyclic rq ms -> NoDup ms' /\ acyclic rq' ms').
Proof. exact c18_between_spec_sound. Qed.
Print Assumptions C18_between_spec_sound.

(* non-vacuity: the chain-with-shortcut 4 -> 3 -> {2, 1} -> 0 (4 requires 3, 3 requires 2 and 1,
   2 and 1 require 0): closed, acyclic; bypassing 3 re-links 4 to 2 and 1; keep_only and
   keep_only_between on it keep what is documented *)
Definition ex_ms := [3; 0; 4; 1; 2].
Definition ex_rq : rmap := tab_get_nat [[]; [0]; [0]; [2; 1]; [3]].
Example C18_nonvacuous :
  closed ex_rq ex_ms /\ acyclic ex_rq ex_ms /\ no2cycle ex_ms ex_rq 3 /\
  (exists rq', bypass ex_ms ex_rq 3 = Some ([0; 4; 1; 2], rq') /\ rq' 4 = [2; 1] /\ rq' 3 = [2; 1]
               /\ rq' 1 = [0]) /\
  reach ex_rq ex_ms 4 0 /\
  fst (keep_only ex_ms ex_rq [4; 1; 0; 7]) = [0; 4; 1] /\
  snd (keep_only ex_ms ex_rq [4; 1; 0; 7]) 4 = [] /\
  snd (keep_only ex_ms ex_rq [4; 1; 0; 7]) 1 = [0] /\
  fst (keep_only_between ex_ms ex_rq (fun _ => []) [0] [4] false true) = [1; 2; 3; 4] /\
  snd (keep_only_between ex_ms ex_rq (fun _ => []) [0] [4] false true) 1 = [] /\
  fst (keep_only_between ex_ms ex_rq (fun _ => []) [] [3] true false) = [0; 1; 2] /\
  fst (keep_only_between ex_ms ex_rq (fun _ => [9]) [1] [] true true) = [3; 4; 1].
Proof.
  split. { apply closed_b_spec. vm_compute. reflexivity. }
  split. { assert (D : dag_b ex_rq ex_ms = true) by (vm_compute; reflexivity).
           apply dag_b_spec in D. apply D. }
  split. { apply no2cycle_b_spec. vm_compute. reflexivity. }
  split. { eexists. split; [vm_compute; reflexivity|]. repeat split; vm_compute; reflexivity. }
  split. { assert (U : In 0 (upstream ex_rq ex_ms [4])) by (vm_compute; auto 10).
           apply upstream_exact in U. destruct U as [s [[<-|[]] R]]. exact R. }
  repeat (split; [vm_compute; reflexivity|]). vm_compute; reflexivity.
Qed.
