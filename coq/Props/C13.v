(* Property C13: shutdown reaches every job exactly once, at its scheduler's end, in bounded time.
   Only property theorems here. Model R, level 3 (handlers, shutdown activities, FIFO of the loop). *)
From AJ Require Import Common.Util Run.RModel Run.RFacts Run.RFacts2 Run.RInv Run.RInv5 Run.RMon Run.RProps3
  Run.RShut1 Run.RShut2 Run.RTime Run.RProps5 Props.RExample Run.RSchedDef Run.RFlatten Run.RSolve Run.RSched Run.RSchedTop.

(* (a) at most once.  The life of the co_shutdown() task of a job only moves forward
   (none < created < running < done/cancelled) ... *)
Theorem C13_handler_moves_forward : forall lvl c h s e s' x, wf c = true -> 3 <= lvl -> Reach lvl c h s ->
  step lvl c s e = Some s' -> x <> 0 -> hrank (hs (Hd s x)) <= hrank (hs (Hd s' x)).
Proof. exact handler_rank_mono. Qed.
Print Assumptions C13_handler_moves_forward.

(* ... so in no execution does the handler of an atomic job (EHStart) or the co_shutdown() of a
   nested scheduler (ESdStart) start twice. *)
Theorem C13_at_most_once : forall lvl c h s x, wf c = true -> 3 <= lvl -> x <> 0 ->
  (Reach lvl c (h ++ [EHStart x]) s -> ~ In (EHStart x) h) /\
  (forall o, Reach lvl c (h ++ [ESdStart x o]) s -> forall o', ~ In (ESdStart x o') h).
Proof. exact shutdown_once. Qed.
Print Assumptions C13_at_most_once.

(* (b) at least once, at any depth, by any of the three exit paths: a run that went through its
   inline shutdown ends with its broadcast over, and when the broadcast of n is over every handler
   below n, at any depth, is finished (done, or cancelled after shutdown_timeout) -- whether the
   job ran, failed, was cancelled or never started. *)
Theorem C13_run_end_is_broadcast_end : forall lvl c h s e s' n, wf c = true -> 3 <= lvl -> Reach lvl c h s ->
  step lvl c s e = Some s' -> sd_inline s n = true -> sd_inline s' n = false ->
  ph (Rn s' n) = POver /\ sp (Sd s' n) = SdOver.
Proof. exact inline_end_over. Qed.
Print Assumptions C13_run_end_is_broadcast_end.

Theorem C13_everyone_below : forall lvl c h s n x, wf c = true -> 3 <= lvl -> Reach lvl c h s ->
  sp (Sd s n) = SdOver -> x < njobs c -> below c n x = true -> hfin s x = true.
Proof. exact shutdown_complete. Qed.
Print Assumptions C13_everyone_below.

(* "received": a handler is never cancelled before its first step (FIFO of the loop), so a finished
   handler is one that ran *)
Theorem C13_never_cancelled_before_start : forall lvl c h s j s', wf c = true -> 3 <= lvl -> Reach lvl c h s ->
  step lvl c s (EHGone j) = Some s' -> False.
Proof. exact handler_never_gone. Qed.
Print Assumptions C13_never_cancelled_before_start.

(* (c) never while a job of the same scheduler is still running: when a handler starts, no job of
   its scheduler is live (created, running or being cancelled); monitor chk13_start *)
Theorem C13_not_while_running : forall lvl c h0 s e s', wf c = true -> 3 <= lvl ->
  Reach lvl c h0 s -> step lvl c s e = Some s' -> chk13_start c s e = true.
Proof. exact chk13_start_holds. Qed.
Print Assumptions C13_not_while_running.

(* (d) bounded: while the shutdown wait lasts the clock has not passed its deadline
   (begin + shutdown_timeout); the wait returns with handlers still pending only at that very
   instant, and they are cancelled there (react_shut_wake); no deadline when the timeout is None *)
Theorem C13_wait_bounded : forall lvl c h s n, wf c = true -> 3 <= lvl -> Reach lvl c h s ->
  sp (Sd s n) = SdWait -> dl_ok s (sdl (Sd s n)).
Proof. intros lvl c h s n W Hl Hr. apply (t_sd c s (InvT3_reach lvl c h s W Hl Hr)). Qed.
Print Assumptions C13_wait_bounded.

Theorem C13_stragglers_at_deadline : forall lvl c h0 s e s', wf c = true -> 3 <= lvl ->
  Reach lvl c h0 s -> step lvl c s e = Some s' -> chk13_time c s e = true.
Proof. exact chk13_time_holds. Qed.
Print Assumptions C13_stragglers_at_deadline.

(* co_shutdown() reports True iff no handler had to be cancelled *)
Theorem C13_result : forall c n p s,
  (p = [] -> exists r, snd (fst (react_shut_wake c n p s)) = Some r /\ r = SRTrue) /\
  (p <> [] -> snd (fst (react_shut_wake c n p s)) = None).
Proof. exact shutdown_result. Qed.
Print Assumptions C13_result.

(* (e) a later explicit shutdown sends nothing more: the flag stays set for ever and a broadcast
   with the flag set creates no handler and changes nothing *)
Theorem C13_flag_is_forever : forall lvl c h s e s' n, wf c = true -> 3 <= lvl -> Reach lvl c h s ->
  step lvl c s e = Some s' -> did (Sd s n) = true -> did (Sd s' n) = true.
Proof. exact did_is_forever. Qed.
Print Assumptions C13_flag_is_forever.

Theorem C13_second_shutdown_is_empty : forall c n i s, did (Sd s n) = true ->
  shutdown_start c n i s = (s, [OSdBegin n i; OSdEnd n SRNone]).
Proof. exact second_shutdown_is_empty. Qed.
Print Assumptions C13_second_shutdown_is_empty.

Theorem C13_accepted_histories : forall lvl c h, wf c = true -> 3 <= lvl -> accept lvl c h = true ->
  mon_ok chk13 c h = true.
Proof. exact chk13_monitor. Qed.
Print Assumptions C13_accepted_histories.

(* Modelled, not proved: that the handler of a member cancelled after shutdown_timeout honours the
   cancellation at once (the harness's handlers do); the hand-over inside asyncio.wait. *)

(* (h) the shutdown phase in closed form.  In a tree without window or forever job (timeouts that the
   schedule does not reach allowed, handlers of any finite duration, any nesting depth), until a
   critical job raises: the shutdown phase of scheduler n begins at the instant M at which its last
   job ends, lasts exactly shut_len c n = min (shutdown_timeout, longest handler of its jobs) -- never
   more than shutdown_timeout --, nested schedulers having shut down at their own end; and n is over,
   for the jobs that require it, at M + shut_len c n. *)
Theorem C13_shutdown_phase_on_schedule : forall c S E h s,
  wf c = true -> plainH c = true -> is_scheduleH c S E -> slackH c S E ->
  Reach 3 c h s -> calm c E s ->
  forall n, n < njobs c -> j_sched (jc c n) = true ->
    let M := maxl (S n) (map E (members c n)) in
    (ph (Rn s n) = PMain -> (S n <= now s)%N /\ (now s <= M)%N) /\
    (ph (Rn s n) = PShut WSuccess -> (M <= now s)%N /\ (now s <= M + shut_len c n)%N) /\
    (ph (Rn s n) = POver -> (M + shut_len c n <= now s)%N /\ (n <> 0 -> (E n <= now s)%N)) /\
    okph (ph (Rn s n)).
Proof. exact shutdown_phase_on_schedule. Qed.
Print Assumptions C13_shutdown_phase_on_schedule.

Theorem C13_shutdown_length_bounded : forall c n t, j_sdto (jc c n) = Some t -> (shut_len c n <= t)%N.
Proof. intros c n t H. unfold shut_len. rewrite H. apply N.le_min_l. Qed.
Print Assumptions C13_shutdown_length_bounded.

(* non-vacuity: RSched.ExampleH (root{m{x: 1 s, co_shutdown 2 s}, y requires m}) and ExampleHcut (the same
   with shutdown_timeout 1 on m: the handler is cancelled at 2) are accepted at level 3 *)
Example C13_schedule_nonvacuous :
  plainH RSched.ExampleH.ex_c = true /\ accept 3 RSched.ExampleH.ex_c RSched.ExampleH.ex_h = true /\
  shut_len RSched.ExampleH.ex_c 1 = 2%N /\ SofH RSched.ExampleH.ex_c 3 = 3%N /\
  accept 3 RSched.ExampleHcut.ex_c RSched.ExampleHcut.ex_h = true /\ shut_len RSched.ExampleHcut.ex_c 1 = 1%N.
Proof. repeat split; vm_compute; reflexivity. Qed.

Example C13_nonvacuous :
  accept 3 ex_cfg ex_hist = true /\
  In (EHStart 4) ex_hist /\ In (EHCancel 4) ex_hist /\ In (EHStart 5) ex_hist /\ In (EHEnd 2) ex_hist /\
  existsb (fun e => match e with ESdStart 3 _ => true | _ => false end) ex_hist = true.
Proof. repeat split; try (vm_compute; reflexivity); vm_compute; tauto. Qed.
