(* Property C11: clean exit: once a run is over, nothing it started is still running.
   Only property theorems here. Model R, level 0 for the jobs; handlers: see below. *)
From AJ Require Import Common.Util Run.RModel Run.RFacts Run.RFacts2 Run.RInv Run.RInv4 Run.RInv5 Run.RMon Run.RProps1
  Run.RProps2 Run.RProps3 Props.RExample Run.RWin Run.RProps4 Run.RShut1 Run.RShut2 Run.RTime Run.RProps5.

(* When the run of scheduler n is over -- by success, critical failure, timeout, or because the
   enclosing scheduler cancelled it -- no job below n, at any nesting depth, is waiting for a slot,
   running, or handling a cancellation. *)
Theorem C11_subtree_quiet : forall lvl c h s n x, wf c = true -> Reach lvl c h s ->
  ph (Rn s n) = POver -> x < njobs c -> below c n x = true -> live (st (Jb s x)) = false.
Proof. exact over_subtree_quiet. Qed.
Print Assumptions C11_subtree_quiet.

(* and none will execute later: a finished job never changes, an idle job of a run that is over
   is never created (jobs are created by main wakes only), and a job starts only while the main
   loop of its scheduler runs *)
Theorem C11_stays_quiet : forall lvl c h0 s e s' x, wf c = true ->
  Reach lvl c h0 s -> step lvl c s e = Some s' ->
  finished (st (Jb s x)) = true -> Jb s' x = Jb s x.
Proof. exact not_live_stable. Qed.
Print Assumptions C11_stays_quiet.

Theorem C11_nothing_starts_later : forall lvl c h0 s e s', wf c = true ->
  Reach lvl c h0 s -> step lvl c s e = Some s' -> chk_nostart c s e = true.
Proof. exact chk_nostart_holds. Qed.
Print Assumptions C11_nothing_starts_later.

(* a run only ends (or enters its shutdown phase) once every task it waits for has finished *)
Theorem C11_waits_for_its_tasks : forall lvl c h s n x, wf c = true -> Reach lvl c h s ->
  quiet_ph (ph (Rn s n)) -> In x (pend (Rn s n)) -> finished (st (Jb s x)) = true.
Proof. exact quiet_pending_finished. Qed.
Print Assumptions C11_waits_for_its_tasks.

(* trace form: at every announced end of a run the subtree is quiet in the state after it *)
Theorem C11_at_every_end : forall lvl c h0 s e s', wf c = true ->
  Reach lvl c h0 s -> step lvl c s e = Some s' -> chk_over c s e = true.
Proof. exact chk_over_holds. Qed.
Print Assumptions C11_at_every_end.

Theorem C11_accepted_histories : forall lvl c h, wf c = true -> accept lvl c h = true ->
  mon_ok chk_over c h = true /\ mon_ok chk_nostart c h = true.
Proof.
  intros lvl c h W Ha. split; [exact (chk_over_monitor lvl c h W Ha)|exact (chk_nostart_monitor lvl c h W Ha)].
Qed.
Print Assumptions C11_accepted_histories.

(* the same for the co_shutdown() handler tasks: when a run ends through its shutdown phase its
   broadcast is over, and when the broadcast of n is over every handler task below n is finished
   (level 3; see C13) *)
Theorem C11_run_end_is_broadcast_end : forall lvl c h s e s' n, wf c = true -> 3 <= lvl -> Reach lvl c h s ->
  step lvl c s e = Some s' -> sd_inline s n = true -> sd_inline s' n = false ->
  ph (Rn s' n) = POver /\ sp (Sd s' n) = SdOver.
Proof. exact inline_end_over. Qed.
Print Assumptions C11_run_end_is_broadcast_end.

Theorem C11_handlers_finished : forall lvl c h s n x, wf c = true -> 3 <= lvl -> Reach lvl c h s ->
  sp (Sd s n) = SdOver -> x < njobs c -> below c n x = true -> hfin s x = true.
Proof. exact shutdown_complete. Qed.
Print Assumptions C11_handlers_finished.

(* On the implementation: acceptance at level 3 requires the final state to be [terminal] (root
   over, nothing enabled, no live deadline), and the harness lets the loop run on after run()
   returned and requires that no event is logged and no task is left. *)

Example C11_nonvacuous :
  accept 3 ex_cfg ex_hist = true /\
  match run 3 ex_cfg init ex_hist with Some s => terminal ex_cfg s | None => false end = true /\
  mon_ok chk_over ex_cfg ex_hist = true /\ below ex_cfg 3 4 = true /\ below ex_cfg 0 5 = true.
Proof. repeat split; vm_compute; reflexivity. Qed.
