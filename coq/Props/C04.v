(* Property C04: the verdict of a run, and its diagnosis, are exactly determined by what happened.
   Only property theorems here. Model R, level 0 (hence every level). *)
From AJ Require Import Common.Util Run.RModel Run.RFacts Run.RFacts2 Run.RInv Run.RMon Run.RProps1 Run.RProps2
  Props.RExample Run.RProps3 Run.RWin Run.RProps4 Run.RShut1 Run.RShut2 Run.RTime.

(* Whenever an accepted event announces the end of the run of a scheduler n (owning at least one
   non-forever job) with verdict v, then, in the state just before:
     v = VTrue            iff all non-forever jobs of n are done and no critical job of n raised;
     v = VFalse           only for a non-critical scheduler or a PureScheduler root;
     v = VRaise t         only for a critical Scheduler; t is the identity tag of the exception of a
                          critical job of n that raised, if there is one, and otherwise the tag of
                          n's own TimeoutError.
   [end_ok] is this statement as a boolean; [chk_end] applies it to every OEnd of the event. *)
Theorem C04_verdict_determined : forall lvl c h0 s e s', wf c = true ->
  Reach lvl c h0 s -> step lvl c s e = Some s' -> chk_end c s e = true.
Proof. exact chk_end_holds. Qed.
Print Assumptions C04_verdict_determined.

Theorem C04_meaning : forall c s n v, members c n <> [] -> nfinite c n <> 0 -> v <> VCancelled ->
  end_ok c s n v = true ->
  (v = VTrue <-> fin_all c s n = true /\ critx c s n = false) /\
  (v = VFalse -> noncrit c n = true) /\
  (forall t, v = VRaise t -> noncrit c n = false /\
     (critx c s n = true -> raised_by_critical c s n t = true) /\
     (critx c s n = false -> t = tag_timeout n)).
Proof. exact end_ok_meaning. Qed.
Print Assumptions C04_meaning.

(* the exit path (why) fixes the verdict and the flags read by failed_time_out(), failed_critical()
   and why(): set exactly for the cause, both clear after a success *)
Theorem C04_flags : forall c n w r cu s,
  let s' := fst (finish_run c n w r cu s) in
  fto (Rn s' n) = match w with WTimeout => true | _ => fto (Rn s n) end /\
  fcr (Rn s' n) = match w with WCritical => true | _ => fcr (Rn s n) end /\
  (verdict_of c n w cu = VTrue <-> w = WSuccess).
Proof. exact finish_run_flags. Qed.
Print Assumptions C04_flags.

(* during a run the two flags are clear (they are reset when the run begins) *)
Theorem C04_flags_clear_while_running : forall lvl c h s n, wf c = true -> Reach lvl c h s ->
  ph (Rn s n) <> POver -> fto (Rn s n) = false /\ fcr (Rn s n) = false.
Proof. exact flags_clear. Qed.
Print Assumptions C04_flags_clear_while_running.

(* in time: every wake of a main loop -- in particular the one that decides success -- happens no
   later than begin + timeout (level 2) *)
Theorem C04_in_time : forall lvl c h s n, wf c = true -> 2 <= lvl -> Reach lvl c h s ->
  ph (Rn s n) = PMain -> dl_ok s (expi (Rn s n)).
Proof. intros lvl c h s n W Hl Hr. apply (t_run c s (InvT_reach lvl c h s W Hl Hr)). Qed.
Print Assumptions C04_in_time.

Theorem C04_accepted_histories : forall lvl c h, wf c = true -> accept lvl c h = true ->
  mon_ok chk_end c h = true.
Proof. exact chk_end_monitor. Qed.
Print Assumptions C04_accepted_histories.

Example C04_nonvacuous :
  accept 3 ex_cfg ex_hist = true /\ mon_ok chk_end ex_cfg ex_hist = true /\
  existsb (fun e => existsb (out_eqb (OEnd 3 VFalse)) (outs_of e)) ex_hist = true /\
  j_timeout (jc ex_cfg 3) = Some 3%N.
Proof. repeat split; vm_compute; reflexivity. Qed.
