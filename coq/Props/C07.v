(* Property C07: a window of N is never exceeded, and is scoped to its own scheduler.
   Only property theorems here. Model R, level 1 (window guards). *)
From AJ Require Import Common.Util Run.RModel Run.RFacts Run.RFacts2 Run.RInv Run.RMon Run.RWin Props.RExample.

(* [hcount c s p]: the number of direct jobs of scheduler p whose body is executing in state s
   (entered and not left: Running or Cancelling); a nested scheduler is one such job while its run
   lasts.  The occupancy counter of the window (the queue of window.py) is exactly that number, in
   every reachable state of every execution, at every level: no slot is leaked or freed early,
   whatever the outcome of the job (return, raise, cancelled in its body, cancelled while queued). *)
Theorem C07_counter_is_exact : forall lvl c h s, wf c = true -> Reach lvl c h s ->
  forall p, qsz (Rn s p) = hcount c s p.
Proof. exact Wacc_reach. Qed.
Print Assumptions C07_counter_is_exact.

(* never more than jobs_window direct jobs execute at once *)
Theorem C07_never_exceeded : forall lvl c h s p, wf c = true -> 1 <= lvl -> Reach lvl c h s ->
  j_window (jc c p) <> 0 -> hcount c s p <= j_window (jc c p).
Proof. exact window_bound. Qed.
Print Assumptions C07_never_exceeded.

(* 0 (None) means no limit: the slot guard never blocks *)
Theorem C07_zero_is_no_limit : forall c s p, j_window (jc c p) = 0 -> slot_free c s p = true.
Proof. intros c s p H. unfold slot_free. cbn zeta. rewrite H. reflexivity. Qed.
Print Assumptions C07_zero_is_no_limit.

(* scope: the count of p ranges over the direct members of p only (a nested scheduler is one of
   them; its own jobs are members of it, not of p) *)
Theorem C07_direct_members_only : forall c p x, wf c = true ->
  (In x (members c p) <-> x < njobs c /\ parent c x = p /\ x <> 0).
Proof. intros c p x W. apply In_members. Qed.
Print Assumptions C07_direct_members_only.

(* and an event changes the counter of p by at most one, upwards only for the start of a direct
   job of p with a free slot in p's own window *)
Theorem C07_one_slot_per_start : forall lvl c s e s' p, wf c = true -> step lvl c s e = Some s' ->
  qsz (Rn s' p) <= qsz (Rn s p) \/
  (qsz (Rn s' p) = S (qsz (Rn s p)) /\ (1 <= lvl -> slot_free c s p = true)).
Proof. exact qsz_step. Qed.
Print Assumptions C07_one_slot_per_start.

Theorem C07_accepted_histories : forall lvl c h, wf c = true -> 1 <= lvl -> accept lvl c h = true ->
  mon_ok chk07 c h = true.
Proof. exact chk07_monitor. Qed.
Print Assumptions C07_accepted_histories.

(* non-vacuity: the recorded run has a root window of 2 that is full at some point while an
   eligible job waits *)
Example C07_nonvacuous :
  accept 3 ex_cfg ex_hist = true /\ j_window (jc ex_cfg 0) = 2 /\
  (exists h0 s, Reach 3 ex_cfg h0 s /\ hcount ex_cfg s 0 = 2).
Proof.
  split; [vm_compute; reflexivity|]. split; [reflexivity|].
  exists (firstn 4 ex_hist). 
  destruct (run 3 ex_cfg init (firstn 4 ex_hist)) as [s|] eqn:E; [|vm_compute in E; discriminate].
  exists s. split; [exact E|]. vm_compute in E. injection E as <-. vm_compute. reflexivity.
Qed.
