(* Property C15: cycle detection is exact; topological order is a valid linear extension.
   This file contains only the property theorems; each is closed by [exact]. *)
From Coq Require Import Permutation.
From AJ Require Import Common.Util Graph.GModel Graph.Sanitize Graph.Topo Graph.GSpecs.

(* the generator never exhausts the model's loop bound: it cannot loop forever *)
Theorem C15_terminates : forall rq ms, NoDup ms -> snd (topo rq ms) <> TFuel.
Proof. exact topo_fuel_enough. Qed.
Print Assumptions C15_terminates.

(* acyclic: every member exactly once, each after all of its requirements *)
Theorem C15_complete : forall rq ms, NoDup ms -> snd (topo rq ms) = TOk ->
  let out := fst (topo rq ms) in Permutation out ms /\ ordered rq out.
Proof. exact topo_complete. Qed.
Print Assumptions C15_complete.

(* whatever is yielded before an exception is duplicate-free and correctly ordered: nothing is
   silently dropped or misplaced *)
Theorem C15_prefix_valid : forall rq ms, NoDup ms ->
  let out := fst (topo rq ms) in NoDup out /\ incl out ms /\ ordered rq out.
Proof. exact topo_prefix_valid. Qed.
Print Assumptions C15_prefix_valid.

(* exactness *)
Theorem C15_exact : forall rq ms, NoDup ms -> closed rq ms ->
  (snd (topo rq ms) = TOk <-> acyclic rq ms).
Proof. exact topo_exact. Qed.
Print Assumptions C15_exact.

Theorem C15_raises : forall rq ms, NoDup ms -> closed rq ms -> ~ acyclic rq ms ->
  snd (topo rq ms) = TCycle.
Proof. exact topo_raises. Qed.
Print Assumptions C15_raises.

(* an explicit requirement cycle among members is always detected *)
Theorem C15_cycle_detected : forall rq ms, NoDup ms -> closed rq ms -> has_cycle rq ms ->
  snd (topo rq ms) = TCycle.
Proof. exact cycle_detected. Qed.
Print Assumptions C15_cycle_detected.

(* Scheduler.check_cycles: True iff every scheduler of the tree, at any depth, passes;
   PureScheduler.check_cycles is [check_cycles_pure], own level only, by definition *)
Theorem C15_nested : forall rq t, nodup_levels t ->
  (check_cycles rq t = true <-> all_levels_ok rq t).
Proof. exact check_cycles_nested. Qed.
Print Assumptions C15_nested.

Theorem C15_spec_model : forall rq ms, NoDup ms ->
  let '(out, r) := topo rq ms in
  c15_spec_b rq ms (negb (tres_eqb r TOk)) out = true.
Proof. exact c15_spec_model. Qed.
Print Assumptions C15_spec_model.

(* non-vacuity: a diamond in a hostile iteration order is sorted; adding a back edge is caught *)
Example C15_nonvacuous :
  let rq := tab_get_nat [[]; [0]; [0]; [1; 2]] in
  NoDup [3; 1; 2; 0] /\ closed rq [3; 1; 2; 0] /\
  topo rq [3; 1; 2; 0] = ([0; 1; 2; 3], TOk) /\
  topo (tab_get_nat [[3]; [0]; [0]; [1; 2]]) [3; 1; 2; 0] = ([], TCycle).
Proof.
  cbv zeta. split; [apply nodup_b_spec; reflexivity|]. split; [|vm_compute; auto].
  intros j r Hj Hr. apply memb_In.
  simpl in Hj. destruct Hj as [<-|[<-|[<-|[<-|[]]]]]; simpl in Hr; intuition (subst; reflexivity).
Qed.
