(* Property C05: a critical failure aborts at once: nothing new starts, running jobs are cancelled.
   Only property theorems here. Model R; level 0 unless stated. *)
From AJ Require Import Common.Util Run.RModel Run.RFacts Run.RFacts2 Run.RInv Run.RInv4 Run.RInv5 Run.RMon Run.RProps1
  Run.RProps2 Run.RProps3 Props.RExample Run.RWin Run.RProps4 Run.RShut1 Run.RShut2 Run.RTime Run.RProps5 Run.RTidy.

(* The main wake that reports the failed critical job leaves the loop with the critical path; in
   the state after it every job of the scheduler that is still pending (running, or queued for a
   window slot) has a cancellation requested or under way and has not finished, and no job has
   been created: [chk_exit]. *)
Theorem C05_cancel_now : forall lvl c h0 s e s', wf c = true ->
  Reach lvl c h0 s -> step lvl c s e = Some s' -> chk_exit c s e = true.
Proof. exact chk_exit_holds. Qed.
Print Assumptions C05_cancel_now.

(* a main wake that sees a critical job with an exception among the reported ones takes the
   critical path, whatever else was reported in the same instant *)
Theorem C05_critical_wins : forall c n d s, ph (Rn s n) = PMain ->
  d <> [] -> existsb (crit_exc c s) d = true ->
  let s' := fst (react_main c n d s) in
  ph (Rn s' n) = PTidy WCritical \/ ph (Rn s' n) = PShut WCritical.
Proof. exact critical_wins. Qed.
Print Assumptions C05_critical_wins.

(* from then on no job of that scheduler starts: a job starts only while the main loop runs *)
Theorem C05_no_new_start : forall lvl c h0 s e s', wf c = true ->
  Reach lvl c h0 s -> step lvl c s e = Some s' -> chk_nostart c s e = true.
Proof. exact chk_nostart_holds. Qed.
Print Assumptions C05_no_new_start.

(* a job whose cancellation was requested never finishes normally *)
Theorem C05_cancelled_never_finish : forall lvl c h s p x, wf c = true -> Reach lvl c h s ->
  exiting (ph (Rn s p)) -> In x (pend (Rn s p)) ->
  doomed c s x /\ is_done (st (Jb s x)) = false.
Proof. exact pending_doomed. Qed.
Print Assumptions C05_cancelled_never_finish.

(* jobs that had already finished keep their status and result *)
Theorem C05_results_kept : forall lvl c h0 s e s' x, wf c = true ->
  Reach lvl c h0 s -> step lvl c s e = Some s' ->
  finished (st (Jb s x)) = true -> Jb s' x = Jb s x.
Proof. exact not_live_stable. Qed.
Print Assumptions C05_results_kept.

(* the verdict is the critical one: False, or the exception of a critical job (C04) *)
Theorem C05_verdict : forall lvl c h0 s e s', wf c = true ->
  Reach lvl c h0 s -> step lvl c s e = Some s' -> chk_end c s e = true.
Proof. exact chk_end_holds. Qed.
Print Assumptions C05_verdict.

(* level 2: the scheduler reacts in the instant of the failure: the clock cannot move while a
   finished job is unreported *)
Theorem C05_same_instant : forall c h s t, wf c = true -> Reach 2 c h s ->
  step 2 c s (ETick t) <> None ->
  forall n, j_sched (jc c n) = true -> n < njobs c -> ph (Rn s n) = PMain ->
  forall x, In x (pend (Rn s n)) -> jfin s x = false.
Proof. exact tick_means_nothing_unreported. Qed.
Print Assumptions C05_same_instant.

Theorem C05_accepted_histories : forall lvl c h, wf c = true -> accept lvl c h = true ->
  mon_ok chk_exit c h = true /\ mon_ok chk_nostart c h = true /\ mon_ok chk_end c h = true.
Proof.
  intros lvl c h W Ha. split; [exact (chk_exit_monitor lvl c h W Ha)|].
  split; [exact (chk_nostart_monitor lvl c h W Ha)|exact (chk_end_monitor lvl c h W Ha)].
Qed.
Print Assumptions C05_accepted_histories.

(* end time: after the cancellations the run goes through its shutdown phase, whose wait never
   outlasts shutdown_timeout (level 3) *)
Theorem C05_shutdown_bounded : forall lvl c h s n, wf c = true -> 3 <= lvl -> Reach lvl c h s ->
  sp (Sd s n) = SdWait -> dl_ok s (sdl (Sd s n)).
Proof. intros lvl c h s n W Hl Hr. apply (t_sd c s (InvT3_reach lvl c h s W Hl Hr)). Qed.
Print Assumptions C05_shutdown_bounded.

(* when the jobs honour cancellation at once (cancellation takes no time: j_cdur = 0), the tidy
   phases take no time: the clock can only move while no run is waiting for cancelled tasks and no
   broadcast is waiting for cancelled handlers.  So the run ends exactly when the cancellations
   (instantaneous) and the shutdown wait (bounded by shutdown_timeout) are over. *)
Theorem C05_tidy_takes_no_time : forall c h s, wf c = true -> prompt_cancel c -> Reach 3 c h s ->
  quiescent c s = true ->
  (forall n, sched_id c n = true -> (forall w, ph (Rn s n) <> PTidy w) /\ ph (Rn s n) <> PCTidy) /\
  (forall n, sched_id c n = true -> sp (Sd s n) <> SdTidy).
Proof. exact tidy_takes_no_time. Qed.
Print Assumptions C05_tidy_takes_no_time.

Theorem C05_no_tick_while_tidying : forall c h s t s', wf c = true -> prompt_cancel c -> Reach 3 c h s ->
  step 3 c s (ETick t) = Some s' ->
  forall n, sched_id c n = true ->
    (forall w, ph (Rn s n) <> PTidy w) /\ ph (Rn s n) <> PCTidy /\ sp (Sd s n) <> SdTidy.
Proof. exact no_tick_while_tidying. Qed.
Print Assumptions C05_no_tick_while_tidying.

