(* Property C08: the timeout bounds the run: at expiry everything is cancelled and the run fails.
   Only property theorems here. Model R; level 0 unless stated. *)
From AJ Require Import Common.Util Run.RModel Run.RFacts Run.RFacts2 Run.RInv Run.RInv4 Run.RInv5 Run.RMon Run.RProps1
  Run.RProps2 Run.RProps3 Props.RExample Run.RWin Run.RProps4 Run.RShut1 Run.RShut2 Run.RTime Run.RProps5 Run.RUntime Run.RSchedDef Run.RFlatten Run.RSolve Run.RSched Run.RSchedTop.

(* a main wake that reports nothing is an expiry: it takes the timeout path *)
Theorem C08_expiry_path : forall c n s, ph (Rn s n) = PMain ->
  let s' := fst (react_main c n [] s) in
  ph (Rn s' n) = PTidy WTimeout \/ ph (Rn s' n) = PShut WTimeout.
Proof. exact timeout_path. Qed.
Print Assumptions C08_expiry_path.

(* ... and the model only accepts it when the scheduler has a timeout, at level 2 only once the
   clock has reached the expiration date, which was set to (begin of this scheduler's own run +
   its timeout) by the event that began the run -- also for a nested scheduler *)
Theorem C08_own_clock : forall c n s,
  let s' := fst (react_begin c n s) in
  members c n <> [] -> expi (Rn s' n) = optN_add (now s) (j_timeout (jc c n)) /\ tbeg (Rn s' n) = now s.
Proof. exact begin_sets_deadline. Qed.
Print Assumptions C08_own_clock.

Theorem C08_expiry_guard : forall lvl c s n o s', step lvl c s (EWake n KMain [] o) = Some s' ->
  (exists x, expi (Rn s n) = Some x /\ (2 <= lvl -> (x <= now s)%N)).
Proof. exact expiry_guard. Qed.
Print Assumptions C08_expiry_guard.

(* at that wake everything still pending is cancelled, nothing is created, nothing starts later *)
Theorem C08_cancel_all : forall lvl c h0 s e s', wf c = true ->
  Reach lvl c h0 s -> step lvl c s e = Some s' -> chk_exit c s e = true.
Proof. exact chk_exit_holds. Qed.
Print Assumptions C08_cancel_all.

Theorem C08_no_new_start : forall lvl c h0 s e s', wf c = true ->
  Reach lvl c h0 s -> step lvl c s e = Some s' -> chk_nostart c s e = true.
Proof. exact chk_nostart_holds. Qed.
Print Assumptions C08_no_new_start.

(* the verdict is the timeout verdict (False, or TimeoutError for a critical scheduler), also for
   timeout = 0; jobs finished earlier keep their results *)
Theorem C08_verdict : forall lvl c h0 s e s', wf c = true ->
  Reach lvl c h0 s -> step lvl c s e = Some s' -> chk_end c s e = true.
Proof. exact chk_end_holds. Qed.
Print Assumptions C08_verdict.

Theorem C08_results_kept : forall lvl c h0 s e s' x, wf c = true ->
  Reach lvl c h0 s -> step lvl c s e = Some s' ->
  finished (st (Jb s x)) = true -> Jb s' x = Jb s x.
Proof. exact not_live_stable. Qed.
Print Assumptions C08_results_kept.

Theorem C08_accepted_histories : forall lvl c h, wf c = true -> accept lvl c h = true ->
  mon_ok chk_exit c h = true /\ mon_ok chk_nostart c h = true /\ mon_ok chk_end c h = true.
Proof.
  intros lvl c h W Ha. split; [exact (chk_exit_monitor lvl c h W Ha)|].
  split; [exact (chk_nostart_monitor lvl c h W Ha)|exact (chk_end_monitor lvl c h W Ha)].
Qed.
Print Assumptions C08_accepted_histories.

(* the clock never passes the expiration date while the main loop runs: the timeout wake happens
   exactly at the deadline (guard 14 requires the deadline to be reached, this invariant that it is
   not passed) *)
Theorem C08_never_late : forall lvl c h s n x, wf c = true -> 2 <= lvl -> Reach lvl c h s ->
  ph (Rn s n) = PMain -> expi (Rn s n) = Some x -> (now s <= x)%N.
Proof.
  intros lvl c h s n x W Hl Hr Hp He. pose proof (t_run c s (InvT_reach lvl c h s W Hl Hr) n Hp) as H.
  unfold dl_ok in H. rewrite He in H. exact H.
Qed.
Print Assumptions C08_never_late.

(* likewise a job body ends exactly at its own deadline, never later (timing of everything else) *)
Theorem C08_bodies_on_time : forall lvl c h s j, wf c = true -> 2 <= lvl -> Reach lvl c h s ->
  j_sched (jc c j) = false -> (st (Jb s j) = Running \/ st (Jb s j) = Cancelling) -> dl_ok s (tend (Jb s j)).
Proof. intros lvl c h s j W Hl Hr. apply (t_job c s (InvT_reach lvl c h s W Hl Hr)). Qed.
Print Assumptions C08_bodies_on_time.

(* a timeout that is never reached changes nothing: if the main loop of n always ends before its
   expiration, the run is, event for event and instant for instant, a run of the same tree without
   that timeout (only the timeout arguments of n's asyncio.wait calls differ).  Uses the
   standard-library axiom functional_extensionality_dep (states contain functions). *)
Theorem C08_unreached_timeout_changes_nothing : forall n lvl c h, 2 <= lvl -> wf c = true ->
  unreached_along n lvl c init h -> accept lvl c h = true ->
  accept lvl (untime_cfg n c) (map (untime_ev n) h) = true.
Proof. exact untime_accept. Qed.
Print Assumptions C08_unreached_timeout_changes_nothing.

Theorem C08_untimed_step : forall n lvl c s e s', 2 <= lvl -> wf c = true ->
  unreached n s -> unreached n s' -> step lvl c s e = Some s' ->
  step lvl (untime_cfg n c) (untime_st n s) (untime_ev n e) = Some (untime_st n s').
Proof. exact untime_step. Qed.
Print Assumptions C08_untimed_step.

(* the converse holds under two side conditions (the timeout arguments carried by the history are
   the model's; no grace tick while n is still in its main loop) *)
Theorem C08_untimed_iff_partial : forall n lvl c h, 2 <= lvl -> wf c = true -> conv_along n c init h ->
  accept lvl (untime_cfg n c) (map (untime_ev n) h) = accept lvl c h.
Proof. exact untime_accept_iff_partial. Qed.
Print Assumptions C08_untimed_iff_partial.

(* second sentence of the property in closed form, as a statement about trees rather than about
   executions: in a tree without window or forever job (timeouts anywhere, any nesting depth) whose
   computed schedule leaves every timed scheduler n some slack (Eof c n < Sof c n + T: its jobs
   finish strictly before T, counted from the beginning of n's own run), every execution follows the
   schedule of the same tree without its timeouts -- [Sof], [Eof] do not depend on them -- no run
   ever enters a timeout phase, and the deadline armed by n is Sof c n + T: measured from n's own
   beginning, also when nested.  (Until a critical job raises: [calm].) *)
Theorem C08_unreached_timeouts_have_no_effect : forall c h s, wf c = true -> plainT c = true ->
  slack_ok c = true -> Reach 3 c h s -> calm c (Eof c) s ->
  (forall x, x < njobs c -> x <> 0 -> on_schedule c (Sof c) (Eof c) s x) /\
  (forall n, n < njobs c -> j_sched (jc c n) = true ->
     okph (ph (Rn s n)) /\
     (ph (Rn s n) = PMain -> forall T, j_timeout (jc c n) = Some T ->
        expi (Rn s n) = Some (Sof c n + T)%N /\ (now s <= Eof c n)%N /\ (Eof c n < Sof c n + T)%N)).
Proof. exact unreached_timeouts_have_no_effect. Qed.
Print Assumptions C08_unreached_timeouts_have_no_effect.

Theorem C08_runs_on_schedule_timeouts : forall c S E h s, wf c = true -> plainT c = true ->
  is_schedule c S E -> slack c S E -> Reach 3 c h s -> calm c E s ->
  forall x, x < njobs c -> x <> 0 -> on_schedule c S E s x.
Proof. exact runs_on_schedule_timeouts. Qed.
Print Assumptions C08_runs_on_schedule_timeouts.

(* non-vacuity: the three-level tree of RSched.ExampleT has timeouts 7/5/2 on its three schedulers,
   all with slack; its full history is accepted at level 3 *)
Example C08_slack_nonvacuous :
  plain RSched.ExampleT.ex_c = false /\ plainT RSched.ExampleT.ex_c = true /\ wf RSched.ExampleT.ex_c = true /\
  slack_ok RSched.ExampleT.ex_c = true /\ accept 3 RSched.ExampleT.ex_c RSched.ExampleT.ex_h = true.
Proof. repeat split; vm_compute; reflexivity. Qed.

Example C08_nonvacuous :
  accept 3 ex_cfg ex_hist = true /\ j_timeout (jc ex_cfg 3) = Some 3%N /\
  existsb (fun e => match e with EWake 3 KMain [] _ => true | _ => false end) ex_hist = true /\
  In (ECancelHit 4) ex_hist.
Proof. repeat split; try (vm_compute; reflexivity). vm_compute. tauto. Qed.
