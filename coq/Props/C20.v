(* Property C20: DOT export and listing describe the scheduler tree faithfully.
   This file contains only the property theorems; each is closed by [exact].

   Vocabulary (Graph/Dot.v, Graph/DotProofs.v): [dot_ast rq inf t] is the abstract DOT graph
   that the model of dot_format() builds for the tree [t] with requirement map [rq] and
   labels/flags [inf] ([Err] when the code raises); [dot_bytes] is [render (print_graph _)] of
   it, the exact characters of the returned string.  [parse] = lexer + recursive-descent
   parser for the DOT subset.  [tree_wf]: every level is acyclic and duplicate-free;
   [closed_tree]: requirements stay inside the job's scheduler; [unique_jobs]: a job sits in one
   scheduler only; [linked_solid]: no (recursively) empty nested scheduler has or is a
   requirement (the D7 class); [labels_ok]: no backslash in labels. *)
From Coq Require Import Permutation.
From AJ Require Import Common.Util Graph.GModel Graph.Sanitize Graph.Topo Graph.GSpecs
  Graph.Dot Graph.DotLex Graph.DotProofs Graph.DotSpecs.

(* labels survive quoting unchanged: any backslash-free byte string, of any length *)
Theorem C20_quote : forall s, ~ In 92%N s -> unquote (protect s) = Some s.
Proof. exact quote_roundtrip. Qed.
Print Assumptions C20_quote.

(* the hypothesis is needed: protect does not escape backslashes *)
Theorem C20_quote_backslash_refuted : unquote (protect [92%N]) = None.
Proof. exact quote_backslash_refuted. Qed.
Print Assumptions C20_quote_backslash_refuted.

(* critical <-> color=red, penwidth=2, else penwidth=0.5; forever <-> dashed; atomic <-> rounded *)
Theorem C20_style : forall inf idf atomic j,
  let a := style_attrs inf idf atomic j in
  attr_get k_penwidth a = Some (VStr (if jcrit (inf j) then v_two else v_half)) /\
  attr_get k_color a = (if jcrit (inf j) then Some (VStr v_red) else None) /\
  attr_get k_style a = Some (VStr (match atomic, jforever (inf j) with
                                   | true, true => v_rounded_dashed
                                   | true, false => v_rounded
                                   | false, true => v_dashed
                                   | false, false => []
                                   end)) /\
  attr_get k_shape a = Some (VStr v_box) /\
  attr_get k_label a = Some (VStr (idf j ++ v_colon ++ text_label inf j)).
Proof. exact style_spec. Qed.
Print Assumptions C20_style.

(* the lexer reads back any well-formed token list, white space dropped *)
Theorem C20_lex_render : forall ts, Forall tok_wf ts -> sep_okb ts = true ->
  lex (render ts) = Some (strip_ws ts).
Proof. exact lex_render. Qed.
Print Assumptions C20_lex_render.

(* printer and parser are inverse on every graph of the subset, at the byte level *)
Theorem C20_parse_print : forall g, graph_ok g -> parse (render (print_graph g)) = Some g.
Proof. exact parse_render_print. Qed.
Print Assumptions C20_parse_print.

(* whenever dot_format() returns, its bytes are valid DOT (subset grammar) and parse back to the
   abstract graph the export was built from *)
Theorem C20_roundtrip : forall rq inf t g, labels_ok inf -> dot_ast rq inf t = Ok g ->
  dot_bytes rq inf t = Ok (render (print_graph g)) /\
  parse (render (print_graph g)) = Some g.
Proof. exact dot_roundtrip. Qed.
Print Assumptions C20_roundtrip.

(* and it does return on every acyclic closed tree outside the D7 class *)
Theorem C20_roundtrip_full : forall rq inf t,
  tree_wf rq t -> closed_tree rq t -> linked_solid rq t -> labels_ok inf ->
  exists g, dot_ast rq inf t = Ok g /\
            dot_bytes rq inf t = Ok (render (print_graph g)) /\
            parse (render (print_graph g)) = Some g.
Proof. exact dot_roundtrip_full. Qed.
Print Assumptions C20_roundtrip_full.

(* what the abstract graph is: after the two header statements, the nodes and clusters are
   nested exactly as the tree with each scheduler's jobs in topological order ([shape b] is the
   node/cluster skeleton with attributes, [nt_of] the same skeleton computed from the tree: one
   node per atomic job, one cluster per nested scheduler, styled by [style_attrs]); there is no
   other graph-attribute statement; and the edges correspond one to one, in order, to the
   requirements [req_list], each with the right ends: the two jobs, or for a scheduler end an
   atomic job inside it ([rep]) with lhead / ltail naming its cluster ([edge_ok]) *)
Theorem C20_structure : forall rq inf t g, dot_ast rq inf t = Ok g ->
  exists ids nxt b,
    set_ids rq t = Some (ids, nxt) /\
    let idf := fun j => fmt (id_width (tree_size t - 1)) (assoc_id ids j) in
    gname g = v_name /\ gbody g = header [] ++ b /\
    (shape b = map (nt_of inf idf) (kids_of (tsort rq t)) /\ graph_attrs b = [] /\
     Forall2 (edge_ok idf) (req_list rq t) (edges_of b)).
Proof. exact dot_structure. Qed.
Print Assumptions C20_structure.

(* the sorted tree is the tree, up to the order of the jobs inside each scheduler *)
Theorem C20_same_tree : forall rq t, tree_wf rq t -> tperm t (tsort rq t).
Proof. exact tsort_tperm. Qed.
Print Assumptions C20_same_tree.

(* ids are unique across the whole tree, also as printed (zero-padded decimal) *)
Theorem C20_ids_distinct : forall rq t ids nxt w a b, tree_wf rq t -> unique_jobs t ->
  set_ids rq t = Some (ids, nxt) -> In a (below t) -> In b (below t) ->
  fmt w (assoc_id ids a) = fmt w (assoc_id ids b) -> a = b.
Proof. exact ids_distinct. Qed.
Print Assumptions C20_ids_distinct.

(* the requirements that get an edge are exactly the requirements of the jobs of the tree *)
Theorem C20_edges_exact : forall rq t, tree_wf rq t -> closed_tree rq t ->
  Permutation (map ends (req_list rq t)) (all_reqs rq t).
Proof. exact req_list_exact. Qed.
Print Assumptions C20_edges_exact.

(* the representative of a scheduler at the end of an edge is an atomic job inside it *)
Theorem C20_entry_inside : forall rq t x, mid_entry rq t = Ok x -> rep t x.
Proof. exact mid_entry_rep. Qed.
Print Assumptions C20_entry_inside.
Theorem C20_exit_inside : forall rq inf t x, mid_exit rq inf t = Ok x -> rep t x.
Proof. exact mid_exit_rep. Qed.
Print Assumptions C20_exit_inside.

(* dot_format() succeeds outside the D7 class *)
Theorem C20_total : forall rq inf t, tree_wf rq t -> closed_tree rq t -> linked_solid rq t ->
  exists g, dot_ast rq inf t = Ok g.
Proof. exact dot_total. Qed.
Print Assumptions C20_total.

(* D7 (known finding): t{ e{}, j requires e } meets every other hypothesis and dot_format()
   raises ValueError("no exit found"); list() still works *)
Theorem C20_D7_refuted :
  tree_wf d7_rq d7_tree /\ closed_tree d7_rq d7_tree /\ unique_jobs d7_tree /\ labels_ok d7_inf /\
  dot_ast d7_rq d7_inf d7_tree = Err ENoExit /\
  (exists L, list_model d7_rq d7_tree = Some L).
Proof. exact d7_refuted. Qed.
Print Assumptions C20_D7_refuted.

(* list(): the lines that introduce a job list every job of the tree exactly once, and the
   printed numbers are 1, 2, 3 ... from the top *)
Theorem C20_list : forall rq t L, tree_wf rq t -> unique_jobs t -> list_model rq t = Some L ->
  map (fun x => ljob (fst x)) (head_rows L) = walk rq t /\
  Permutation (map (fun x => ljob (fst x)) (head_rows L)) (below t) /\
  NoDup (map (fun x => ljob (fst x)) (head_rows L)) /\
  map snd (head_rows L) = seq 1 (length (head_rows L)).
Proof. exact list_numbered. Qed.
Print Assumptions C20_list.

(* ... in topological order: a requirement has a smaller number than the job requiring it *)
Theorem C20_list_topological : forall rq t ids nxt, tree_wf rq t -> unique_jobs t ->
  set_ids rq t = Some (ids, nxt) ->
  forall j r, sib_req rq t j r -> assoc_id ids r < assoc_id ids j.
Proof. exact ids_topological. Qed.
Print Assumptions C20_list_topological.

(* the executable statements used to judge implementation outputs hold of the model *)
Theorem C20_spec_model : forall rq inf t, labels_ok inf ->
  c20_spec_b rq inf t (model_out rq inf t) = true.
Proof. exact c20_spec_model. Qed.
Print Assumptions C20_spec_model.

Theorem C20_list_spec_model : forall rq t, tree_wf rq t -> unique_jobs t ->
  c20_list_spec_b rq t (option_map (map row_of) (list_model rq t)) = true.
Proof. exact c20_list_spec_model. Qed.
Print Assumptions C20_list_spec_model.

(* non-vacuity: a depth-3 tree with a quote and a newline in a label, a nested scheduler that has
   and is a requirement, a forever job and critical jobs meets all hypotheses; the export has 5
   nodes, 2 clusters, 6 edges and parses back *)
Definition ex_tree : jtree := Sched 0 [Atom 1; Sched 2 [Atom 3; Sched 4 [Atom 5]; Atom 6]; Atom 7].
Definition ex_rq : rmap := tab_get_nat [[]; []; [1]; []; [3]; []; [4; 3]; [2; 1]].
Definition ex_inf : infos := fun j =>
  {| jlabel := if Nat.eqb j 1 then Some [97; 34; 10; 98]%N else None;
     jcrit := Nat.even j; jforever := Nat.eqb j 5 |}.
Example C20_nonvacuous :
  tree_wf ex_rq ex_tree /\ closed_tree ex_rq ex_tree /\ linked_solid ex_rq ex_tree /\
  unique_jobs ex_tree /\ labels_ok ex_inf /\
  exists g b, dot_ast ex_rq ex_inf ex_tree = Ok g /\ dot_bytes ex_rq ex_inf ex_tree = Ok b /\
              parse b = Some g /\
              length (edges_of (gbody g)) = 6 /\ length (shape (gbody g)) = 3.
Proof.
  assert (Hwf : tree_wf ex_rq ex_tree).
  { split.
    - cbn [all_levels_ok ex_tree]. repeat split; vm_compute; reflexivity.
    - cbn [nodup_levels ex_tree]. repeat split; apply nodup_b_spec; reflexivity. }
  assert (Hcl : closed_tree ex_rq ex_tree).
  { cbn [closed_tree ex_tree]. repeat split; intros j r Hj Hr; apply memb_In;
      cbn in Hj; repeat (destruct Hj as [<-|Hj]; [cbn in Hr; intuition (subst; reflexivity)|]);
      destruct Hj. }
  assert (Hls : linked_solid ex_rq ex_tree).
  { cbn [linked_solid ex_tree]. repeat split; try (intros k Hk _; cbn in Hk;
      repeat (destruct Hk as [<-|Hk]; [cbn; repeat split; discriminate|]); destruct Hk). }
  assert (Hlab : labels_ok ex_inf).
  { intros j l. unfold ex_inf. cbn [jlabel]. destruct (Nat.eqb j 1); [|discriminate].
    intros E. inversion E. cbn. intuition discriminate. }
  split; [exact Hwf|]. split; [exact Hcl|]. split; [exact Hls|].
  split; [apply nodup_b_spec; reflexivity|]. split; [exact Hlab|].
  destruct (dot_roundtrip_full _ _ _ Hwf Hcl Hls Hlab) as (g & Hg & Hb & Hp).
  exists g, (render (print_graph g)). split; [exact Hg|]. split; [exact Hb|]. split; [exact Hp|].
  assert (E : dot_ast ex_rq ex_inf ex_tree = Ok g) by exact Hg.
  vm_compute in E. injection E as <-. split; vm_compute; reflexivity.
Qed.
