(* Property C20: placeholder *)
