(* Property C17: neighbour, reachability and traversal queries agree with the requirements.
   This file contains only the property theorems; each is closed by [exact].
   Vocabulary: [rq j] is job.required, [sc j] is job._s_successors as it was before the call,
   [link f ms a b] := In b (f a) /\ In b ms, [reach f ms] is a non-empty path of links
   (Queries.v); [reach rq ms a b] reads "a requires ... requires b". *)
From Coq Require Import Permutation.
From AJ Require Import Common.Util Graph.GModel Graph.Sanitize Graph.Topo Graph.GSpecs
  Graph.Queries Graph.QueriesP Graph.QueriesO Graph.GSpecs2.

(* predecessors(starts...): exactly the members directly required by one of the starts *)
Theorem C17_predecessors_exact : forall ms rq starts x,
  In x (predecessors ms rq starts) <-> In x ms /\ exists s, In s starts /\ In x (rq s).
Proof. exact predecessors_exact. Qed.
Print Assumptions C17_predecessors_exact.

Theorem C17_neighbours_nodup : forall f ms starts, NoDup (nbrs f ms starts).
Proof. exact nbrs_nodup. Qed.
Print Assumptions C17_neighbours_nodup.

(* _backlinks(): whatever _s_successors held before (stale links), afterwards the successors of
   a member are exactly the members that require it *)
Theorem C17_backlinks_exact : forall ms rq sc x y, In x ms ->
  (In y (backlinks ms rq sc x) <-> In y ms /\ In x (rq y)).
Proof. exact backlinks_member. Qed.
Print Assumptions C17_backlinks_exact.

(* ... and a job that is not a member keeps its stale links and gains the members requiring it *)
Theorem C17_backlinks_everywhere : forall ms rq sc x y,
  In y (backlinks ms rq sc x) <->
  (In y ms /\ In x (rq y)) \/ (~ In x ms /\ In y (sc x)).
Proof. exact backlinks_spec. Qed.
Print Assumptions C17_backlinks_everywhere.

(* successors(starts...): exactly the members that directly require one of the starts *)
Theorem C17_successors_exact : forall ms rq sc starts x, incl starts ms ->
  (In x (fst (successors ms rq sc true starts)) <->
   In x ms /\ exists s, In s starts /\ In s (rq x)).
Proof. exact successors_exact. Qed.
Print Assumptions C17_successors_exact.

(* the until-no-change loop of _neighbours_closure always ends by itself: the bound
   S (length ms) of the model is never reached, and one more round would add nothing *)
Theorem C17_closure_terminates : forall f ms starts, snd (closure f ms starts) = true.
Proof. exact closure_fuel. Qed.
Print Assumptions C17_closure_terminates.

Theorem C17_closure_stable : forall f ms starts,
  clos_round f ms (fst (closure f ms starts)) = fst (closure f ms starts).
Proof. exact closure_stable. Qed.
Print Assumptions C17_closure_stable.

(* the closure over any attribute is exactly reachability by a non-empty path, the union over
   all starts *)
Theorem C17_closure_exact : forall f ms starts x,
  In x (fst (closure f ms starts)) <-> exists s, In s starts /\ reach f ms s x.
Proof. exact closure_exact. Qed.
Print Assumptions C17_closure_exact.

Theorem C17_closure_nodup : forall f ms starts, NoDup (fst (closure f ms starts)).
Proof. exact closure_nodup. Qed.
Print Assumptions C17_closure_nodup.

(* the two sets that the loop iterates over internally (closure.copy() and the result of
   _neighbours) have an unobservable, changing iteration order: for every way of reordering them,
   differently in every round, the loop still ends within the bound and yields exactly the
   reachable jobs, i.e. the same set as [closure], which is the identity instance *)
Theorem C17_closure_any_order : forall (ordc : nat -> list nat -> list nat)
  (ordn : list nat -> list nat),
  (forall k l, Permutation (ordc k l) l) -> (forall l, Permutation (ordn l) l) ->
  forall f ms starts,
  snd (closure_o ordc ordn f ms starts) = true /\
  NoDup (fst (closure_o ordc ordn f ms starts)) /\
  forall x, In x (fst (closure_o ordc ordn f ms starts)) <->
            exists s, In s starts /\ reach f ms s x.
Proof. exact closure_o_exact. Qed.
Print Assumptions C17_closure_any_order.

Theorem C17_closure_any_order_same : forall (ordc : nat -> list nat -> list nat)
  (ordn : list nat -> list nat),
  (forall k l, Permutation (ordc k l) l) -> (forall l, Permutation (ordn l) l) ->
  forall f ms starts,
  Permutation (fst (closure_o ordc ordn f ms starts)) (fst (closure f ms starts)).
Proof. exact closure_o_same. Qed.
Print Assumptions C17_closure_any_order_same.

Theorem C17_closure_identity_order : forall f ms starts,
  closure_o (fun _ l => l) (fun l => l) f ms starts = closure f ms starts.
Proof. exact closure_o_id. Qed.
Print Assumptions C17_closure_identity_order.

(* predecessors_upstream(starts...) *)
Theorem C17_upstream_exact : forall rq ms starts x,
  In x (upstream rq ms starts) <-> exists s, In s starts /\ reach rq ms s x.
Proof. exact upstream_exact. Qed.
Print Assumptions C17_upstream_exact.

(* successors_downstream(starts...): exactly the members from which a start is reachable *)
Theorem C17_downstream_exact : forall ms rq sc starts x, incl starts ms ->
  (In x (downstream ms rq sc true starts) <->
   In x ms /\ exists s, In s starts /\ reach rq ms x s).
Proof. exact downstream_exact. Qed.
Print Assumptions C17_downstream_exact.

(* entry_jobs(): exactly the members that require nothing *)
Theorem C17_entry_spec : forall ms rq x, In x (entry_jobs ms rq) <-> In x ms /\ rq x = [].
Proof. exact entry_spec. Qed.
Print Assumptions C17_entry_spec.

(* ... which for a closed scheduler are the members that require no member *)
Theorem C17_entry_exact : forall ms rq x, closed rq ms ->
  (In x (entry_jobs ms rq) <-> In x ms /\ forall r, In r ms -> ~ In r (rq x)).
Proof. exact entry_exact. Qed.
Print Assumptions C17_entry_exact.

(* exit_jobs(discard_forever): exactly the members that no member requires, forever ones left
   out unless asked for; stale _s_successors do not matter *)
Theorem C17_exit_exact : forall ms rq sc fv discard x,
  In x (exit_jobs ms rq sc fv discard true) <->
  In x ms /\ (discard = true -> fv x = false) /\ forall y, In y ms -> ~ In x (rq y).
Proof. exact exit_exact. Qed.
Print Assumptions C17_exit_exact.

Theorem C17_entry_nodup : forall ms rq, NoDup ms -> NoDup (entry_jobs ms rq).
Proof. exact entry_nodup. Qed.
Print Assumptions C17_entry_nodup.

Theorem C17_exit_nodup : forall ms rq sc fv discard cb, NoDup ms ->
  NoDup (exit_jobs ms rq sc fv discard cb).
Proof. exact exit_nodup. Qed.
Print Assumptions C17_exit_nodup.

(* iterate_jobs(scan_schedulers=True) is the list of all jobs of the tree *)
Theorem C17_iterate_all : forall t, iter_jobs true t = tree_ids t.
Proof. exact iter_scan_all. Qed.
Print Assumptions C17_iterate_all.

(* every job of the tree is visited by the default traversal or is a scheduler *)
Theorem C17_iterate_partition : forall t,
  Permutation (tree_ids t) (iter_jobs false t ++ sched_ids t).
Proof. exact iter_partition. Qed.
Print Assumptions C17_iterate_partition.

(* each job exactly once; schedulers included iff asked for *)
Theorem C17_iterate_exact : forall t, NoDup (tree_ids t) ->
  NoDup (iter_jobs true t) /\ NoDup (iter_jobs false t) /\
  (forall x, In x (iter_jobs true t) <-> In x (tree_ids t)) /\
  (forall x, In x (iter_jobs false t) <-> In x (tree_ids t) /\ ~ In x (sched_ids t)).
Proof. exact iter_exact. Qed.
Print Assumptions C17_iterate_exact.

(* the executable statements used to judge implementation outputs decide the statements above *)
Theorem C17_pred_spec_iff : forall ms rq starts out,
  c17_pred_spec_b ms rq starts out = true <->
  NoDup out /\ forall x, In x out <-> In x ms /\ exists s, In s starts /\ In x (rq s).
Proof. exact c17_pred_spec_iff. Qed.
Print Assumptions C17_pred_spec_iff.

Theorem C17_succ_spec_iff : forall ms rq starts out, incl starts ms ->
  (c17_succ_spec_b ms rq starts out = true <->
   NoDup out /\ forall x, In x out <-> In x ms /\ exists s, In s starts /\ In s (rq x)).
Proof. exact c17_succ_spec_iff. Qed.
Print Assumptions C17_succ_spec_iff.

Theorem C17_backlinks_spec_iff : forall ms rq sc',
  c17_backlinks_spec_b ms rq sc' = true <->
  forall x, In x ms -> forall y, In y (sc' x) <-> In y ms /\ In x (rq y).
Proof. exact c17_backlinks_spec_iff. Qed.
Print Assumptions C17_backlinks_spec_iff.

Theorem C17_up_spec_iff : forall ms rq starts out,
  c17_up_spec_b ms rq starts out = true <->
  NoDup out /\ forall x, In x out <-> exists s, In s starts /\ reach rq ms s x.
Proof. exact c17_up_spec_iff. Qed.
Print Assumptions C17_up_spec_iff.

Theorem C17_down_spec_iff : forall ms rq starts out, incl starts ms ->
  (c17_down_spec_b ms rq starts out = true <->
   NoDup out /\ forall x, In x out <-> In x ms /\ exists s, In s starts /\ reach rq ms x s).
Proof. exact c17_down_spec_iff. Qed.
Print Assumptions C17_down_spec_iff.

Theorem C17_entry_spec_iff : forall ms rq out, closed rq ms -> NoDup ms ->
  (c17_entry_spec_b ms rq out = true <->
   NoDup out /\ forall x, In x out <-> In x ms /\ forall r, In r ms -> ~ In r (rq x)).
Proof. exact c17_entry_spec_iff. Qed.
Print Assumptions C17_entry_spec_iff.

Theorem C17_exit_spec_iff : forall ms rq fv discard out, NoDup ms ->
  (c17_exit_spec_b ms rq fv discard out = true <->
   NoDup out /\ forall x, In x out <->
     In x ms /\ (discard = true -> fv x = false) /\ forall y, In y ms -> ~ In x (rq y)).
Proof. exact c17_exit_spec_iff. Qed.
Print Assumptions C17_exit_spec_iff.

Theorem C17_iter_spec_iff : forall t scan out, NoDup (tree_ids t) ->
  (c17_iter_spec_b t scan out = true <->
   NoDup out /\ forall x, In x out <->
     In x (tree_ids t) /\ (scan = false -> ~ In x (sched_ids t))).
Proof. exact c17_iter_spec_iff. Qed.
Print Assumptions C17_iter_spec_iff.

(* ... and hold of the model's own answers *)
Theorem C17_pred_spec_model : forall ms rq starts,
  c17_pred_spec_b ms rq starts (predecessors ms rq starts) = true.
Proof. exact c17_pred_spec_model. Qed.
Print Assumptions C17_pred_spec_model.

Theorem C17_succ_spec_model : forall ms rq sc starts,
  c17_succ_spec_b ms rq starts (fst (successors ms rq sc true starts)) = true.
Proof. exact c17_succ_spec_model. Qed.
Print Assumptions C17_succ_spec_model.

Theorem C17_backlinks_spec_model : forall ms rq sc,
  c17_backlinks_spec_b ms rq (backlinks ms rq sc) = true.
Proof. exact c17_backlinks_spec_model. Qed.
Print Assumptions C17_backlinks_spec_model.

Theorem C17_up_spec_model : forall ms rq starts,
  c17_up_spec_b ms rq starts (upstream rq ms starts) = true.
Proof. exact c17_up_spec_model. Qed.
Print Assumptions C17_up_spec_model.

Theorem C17_down_spec_model : forall ms rq sc starts,
  c17_down_spec_b ms rq starts (downstream ms rq sc true starts) = true.
Proof. exact c17_down_spec_model. Qed.
Print Assumptions C17_down_spec_model.

Theorem C17_entry_spec_model : forall ms rq, c17_entry_spec_b ms rq (entry_jobs ms rq) = true.
Proof. exact c17_entry_spec_model. Qed.
Print Assumptions C17_entry_spec_model.

Theorem C17_exit_spec_model : forall ms rq sc fv discard,
  c17_exit_spec_b ms rq fv discard (exit_jobs ms rq sc fv discard true) = true.
Proof. exact c17_exit_spec_model. Qed.
Print Assumptions C17_exit_spec_model.

Theorem C17_iter_spec_model : forall t scan, c17_iter_spec_b t scan (iter_jobs scan t) = true.
Proof. exact c17_iter_spec_model. Qed.
Print Assumptions C17_iter_spec_model.

(* non-vacuity: the diamond 3 -> {1, 2} -> 0 (3 requires 1 and 2, which require 0), member 2
   forever, iteration orders scrambled, stale successor links everywhere; a nested tree. *)
Definition ex_ms := [2; 0; 3; 1].
Definition ex_rq : rmap := tab_get_nat [[]; [0]; [0]; [2; 1]].
Definition ex_sc : rmap := fun _ => [3; 7].
Definition ex_fv (j : nat) : bool := Nat.eqb j 2.
Definition ex_tree := Sched 9 [Atom 1; Sched 2 [Atom 3; Sched 4 []]; Atom 5].
Example C17_nonvacuous :
  closed ex_rq ex_ms /\ NoDup ex_ms /\ reach ex_rq ex_ms 3 0 /\
  upstream ex_rq ex_ms [3] = [2; 1; 0] /\
  downstream ex_ms ex_rq ex_sc true [0] = [2; 1; 3] /\
  downstream ex_ms ex_rq ex_sc true [1; 2] = [3] /\
  predecessors ex_ms ex_rq [3; 1] = [2; 1; 0] /\
  fst (successors ex_ms ex_rq ex_sc true [0]) = [2; 1] /\
  entry_jobs ex_ms ex_rq = [0] /\
  exit_jobs ex_ms ex_rq ex_sc (fun _ => false) true true = [3] /\
  exit_jobs [2; 0; 1] ex_rq ex_sc ex_fv true true = [1] /\
  exit_jobs [2; 0; 1] ex_rq ex_sc ex_fv false true = [2; 1] /\
  NoDup (tree_ids ex_tree) /\
  iter_jobs false ex_tree = [1; 3; 5] /\ iter_jobs true ex_tree = [9; 1; 2; 3; 4; 5].
Proof.
  split. { apply closed_b_spec. vm_compute. reflexivity. }
  split. { apply nodup_b_spec. vm_compute. reflexivity. }
  split. { apply (reach_step _ _ 3 1 0); [|apply reach_one]; split; vm_compute; auto. }
  repeat (split; [vm_compute; reflexivity|]).
  split. { apply nodup_b_spec. vm_compute. reflexivity. }
  split; vm_compute; reflexivity.
Qed.
