(* Property C12: eager start -- eligible jobs start immediately; a free window slot is never wasted.
   Only property theorems here. Model R, level 2 (timing: the clock moves only at quiescent points). *)
From AJ Require Import Common.Util Run.RModel Run.RFacts Run.RFacts2 Run.RInv Run.RMon Run.RWin Run.RProps1
  Run.RProps3 Run.RProps4 Run.RShut1 Run.RShut2 Run.RTime Run.RPrompt Props.RExample Run.RSchedDef Run.RFlatten Run.RSolve Run.RSolveH Run.RSched Run.RSchedTop.

(* Time passes only through ETick, and (level 2) only in a quiescent state: no job, run or handler
   has anything left to do at the current instant. *)
Theorem C12_clock_moves_only_when_quiet : forall c s t s',
  step 2 c s (ETick t) = Some s' -> quiescent c s = true.
Proof. exact tick_quiescent. Qed.
Print Assumptions C12_clock_moves_only_when_quiet.

(* In every quiescent reachable state, in every scheduler that is in its main loop, a job that has
   not started (Idle: no task yet; Created: task queued for a slot) is waiting for a requirement
   that is not done, or for a slot of a window that is full (exactly jobs_window direct jobs
   executing). *)
Theorem C12_eager : forall lvl c h s, wf c = true -> 1 <= lvl -> Reach lvl c h s ->
  quiescent c s = true -> eager_ok c s = true.
Proof. exact eager_at_quiescence. Qed.
Print Assumptions C12_eager.

(* Unwindowed: when the clock moves, every job whose requirements are all done has started; so a
   job starts in the instant in which its last requirement finishes (entry jobs: in the instant of
   the beginning of the run), independently of insertion or iteration order.  With C01 (never
   before) this fixes the start instant. *)
Theorem C12_unwindowed : forall lvl c h s t s' n x, wf c = true -> 2 <= lvl -> Reach lvl c h s ->
  step lvl c s (ETick t) = Some s' ->
  j_sched (jc c n) = true -> n < njobs c -> ph (Rn s n) = PMain -> j_window (jc c n) = 0 ->
  In x (members c n) -> (forall r, In r (reqs c x) -> is_done (st (Jb s r)) = true) ->
  st (Jb s x) <> Idle /\ st (Jb s x) <> Created.
Proof. exact unwindowed_started. Qed.
Print Assumptions C12_unwindowed.

Theorem C12_free_slot_not_wasted : forall lvl c h s t s' n x, wf c = true -> 2 <= lvl -> Reach lvl c h s ->
  step lvl c s (ETick t) = Some s' ->
  j_sched (jc c n) = true -> n < njobs c -> ph (Rn s n) = PMain ->
  hcount c s n < j_window (jc c n) ->
  In x (members c n) -> (forall r, In r (reqs c x) -> is_done (st (Jb s r)) = true) ->
  st (Jb s x) <> Idle /\ st (Jb s x) <> Created.
Proof. exact free_slot_not_wasted. Qed.
Print Assumptions C12_free_slot_not_wasted.

(* The same as a statement about histories.  Take any history in which the clock moves (ETick t) and
   job x -- atomic or a nested scheduler -- of an unwindowed scheduler starts later.  At the tick it
   was not the case that its scheduler was in its main loop with all the requirements of x done:
   the scheduler began, or the last requirement finished, after that tick; when no further tick
   lies in between, in the very instant t of the start. *)
Theorem C12_prompt_start : forall lvl c h1 s1 t h2 s2 e s3 x, wf c = true -> 2 <= lvl ->
  Reach lvl c h1 s1 -> run lvl c s1 (ETick t :: h2) = Some s2 ->
  (e = EStart x \/ exists o, e = EBegin x o) -> x <> 0 ->
  step lvl c s2 e = Some s3 ->
  j_window (jc c (parent c x)) = 0 ->
  ~ (ph (Rn s1 (parent c x)) = PMain /\ forall r, In r (reqs c x) -> is_done (st (Jb s1 r)) = true).
Proof. exact prompt_start. Qed.
Print Assumptions C12_prompt_start.

Theorem C12_prompt_instant : forall lvl c s1 t h2 s2, wf c = true ->
  run lvl c s1 (ETick t :: h2) = Some s2 ->
  forallb (fun e => negb (is_tick e)) h2 = true -> now s2 = t.
Proof. exact prompt_instant. Qed.
Print Assumptions C12_prompt_instant.

(* never before: C01 *)
Theorem C12_not_before : forall lvl c h0 s e s', wf c = true ->
  Reach lvl c h0 s -> step lvl c s e = Some s' -> chk01 c s e = true.
Proof. exact C01_holds. Qed.
Print Assumptions C12_not_before.

Theorem C12_accepted_histories : forall lvl c h, wf c = true -> 2 <= lvl -> accept lvl c h = true ->
  mon_ok chk12 c h = true.
Proof. exact chk12_monitor. Qed.
Print Assumptions C12_accepted_histories.

(* Not proved: the hand-over order among several queued jobs (FIFO) -- the property only requires
   that no slot is wasted. *)

(* first sentence in closed form: in a tree without window, timeout or forever job, as long as no
   critical job has raised, every job starts at the very instant S x at which its scheduler has
   begun and its last requirement ends (entry jobs when their run begins; the root begins at 0),
   whatever the insertion and iteration orders: the instants are a function of the tree alone *)
Theorem C12_runs_on_computed_schedule : forall c h s, wf c = true -> plain c = true ->
  Reach 3 c h s -> calm c (Eof c) s ->
  forall x, x < njobs c -> x <> 0 -> on_schedule c (Sof c) (Eof c) s x.
Proof. exact runs_on_computed_schedule. Qed.
Print Assumptions C12_runs_on_computed_schedule.

Theorem C12_computed_start : forall c x, wf c = true -> x < njobs c -> x <> 0 ->
  Sof c x = maxl (Sof c (parent c x)) (map (Eof c) (reqs c x)) /\ Sof c 0 = 0%N.
Proof. exact computed_start. Qed.
Print Assumptions C12_computed_start.

Theorem C12_not_started_before : forall c S E h s x, wf c = true -> plain c = true -> is_schedule c S E ->
  Reach 3 c h s -> calm c E s -> x < njobs c -> x <> 0 ->
  (now s < S x)%N -> st (Jb s x) = Idle \/ st (Jb s x) = Created.
Proof. exact not_started_before. Qed.
Print Assumptions C12_not_started_before.

Theorem C12_running_between : forall c S E h s x, wf c = true -> plain c = true -> is_schedule c S E ->
  Reach 3 c h s -> calm c E s -> x < njobs c -> x <> 0 ->
  (S x < now s)%N -> (now s < E x)%N -> st (Jb s x) = Running.
Proof. exact running_between. Qed.
Print Assumptions C12_running_between.

(* the same with shutdown handlers of any finite duration and timeouts that the schedule does not
   reach: every job starts at the instant SofH c x computed from the tree alone (a nested requirement
   being finished when its own run is, shutdown phase included) *)
Theorem C12_runs_on_computed_scheduleH : forall c h s, wf c = true -> plainH c = true ->
  slackH_ok c = true -> Reach 3 c h s -> calm c (EofH c) s ->
  (forall x, x < njobs c -> x <> 0 -> on_schedule c (SofH c) (EofH c) s x) /\
  (forall n, n < njobs c -> j_sched (jc c n) = true ->
     let M := maxl (SofH c n) (map (EofH c) (members c n)) in
     (ph (Rn s n) = PMain -> (SofH c n <= now s)%N /\ (now s <= M)%N) /\
     (ph (Rn s n) = PShut WSuccess -> (M <= now s)%N /\ (now s <= M + shut_len c n)%N) /\
     (ph (Rn s n) = POver -> (M + shut_len c n <= now s)%N /\ (n <> 0 -> (EofH c n <= now s)%N)) /\
     okph (ph (Rn s n))).
Proof. exact runs_on_computed_scheduleH. Qed.
Print Assumptions C12_runs_on_computed_scheduleH.

Theorem C12_scheduleH_unique : forall c S E S' E', wf c = true -> is_scheduleH c S E -> is_scheduleH c S' E' ->
  forall x, x < njobs c -> S x = S' x /\ E x = E' x.
Proof. exact scheduleH_unique. Qed.
Print Assumptions C12_scheduleH_unique.

(* non-vacuity of the closed form: a three-level plain tree (RSched.Example: root{1 (2s); 2 requires 1
   {3 (3s, raises, not critical); 4 requires 3 {5 (1s)}}}), its whole history accepted at level 3, and
   the instants the solver computes for it *)
Example C12_schedule_nonvacuous :
  wf RSched.Example.ex_c = true /\ plain RSched.Example.ex_c = true /\
  accept 3 RSched.Example.ex_c RSched.Example.ex_h = true /\
  map (Sof RSched.Example.ex_c) [0; 1; 2; 3; 4; 5] = [0; 0; 2; 2; 5; 5]%N /\
  map (Eof RSched.Example.ex_c) [0; 1; 2; 3; 4; 5] = [6; 2; 6; 5; 6; 6]%N.
Proof. repeat split; vm_compute; reflexivity. Qed.

Example C12_nonvacuous :
  accept 3 ex_cfg ex_hist = true /\
  existsb (fun e => match e with ETick _ => true | _ => false end) ex_hist = true /\
  (exists h0 s, Reach 3 ex_cfg h0 s /\ quiescent ex_cfg s = true /\ st (Jb s 6) = Idle /\ st (Jb s 7) = Idle).
Proof.
  split; [vm_compute; reflexivity|]. split; [vm_compute; reflexivity|].
  exists (firstn 4 ex_hist).
  destruct (run 3 ex_cfg init (firstn 4 ex_hist)) as [s|] eqn:E; [|vm_compute in E; discriminate].
  exists s. split; [exact E|]. vm_compute in E. injection E as <-. vm_compute. auto.
Qed.
