(* Property C10: a nested scheduler behaves as one job; nesting is transparent.
   Only property theorems here. Model R, level 0. *)
From AJ Require Import Common.Util Run.RModel Run.RFacts Run.RFacts2 Run.RInv Run.RInv4 Run.RInv5 Run.RMon Run.RProps1
  Run.RProps2 Run.RProps3 Props.RExample Run.RWin Run.RProps4 Run.RShut1 Run.RShut2 Run.RTime Run.RFlat Run.RInvP Run.RExc Run.RSchedDef Run.RFlatten Run.RSolve Run.RSched Run.RSchedTop Props.C10Finding.

(* (a) interface.  A nested scheduler starts (EBegin) under the very rule of an atomic job: all its
   requirements done, its parent's main loop running, a free slot in the parent's window (level
   1) -- chk01, chk_nostart, guard 3 are stated for EStart and EBegin alike -- and it counts as
   done for its parent only when its whole run is over. *)
Theorem C10_starts_like_a_job : forall lvl c h0 s e s', wf c = true ->
  Reach lvl c h0 s -> step lvl c s e = Some s' -> chk01 c s e = true /\ chk_nostart c s e = true.
Proof. exact starts_like_a_job. Qed.
Print Assumptions C10_starts_like_a_job.

Theorem C10_done_means_run_over : forall lvl c h0 s n, wf c = true ->
  Reach lvl c h0 s -> n <> 0 -> j_sched (jc c n) = true -> n < njobs c ->
  is_done (st (Jb s n)) = true -> ph (Rn s n) = POver.
Proof. exact nested_done_over. Qed.
Print Assumptions C10_done_means_run_over.

(* its own window and timeout appear in no rule of the parent: the end of the nested run is, for
   the parent, the end of one job with the status that corresponds to the verdict *)
Theorem C10_end_is_a_job_end : forall c n w r cu s, n <> 0 ->
  Jb (fst (finish_run c n w r cu s)) n = mkJst (jstat_of_verdict (verdict_of c n w cu)) false None true.
Proof. exact nested_end_status. Qed.
Print Assumptions C10_end_is_a_job_end.

(* (b) containment and propagation.  The verdict is the right one (C04): a failed non-critical
   nested scheduler ends with VFalse, which its parent reads as a returned job (result False, no
   failure); a failed critical one ends with VRaise t. *)
Theorem C10_verdict : forall lvl c h0 s e s', wf c = true ->
  Reach lvl c h0 s -> step lvl c s e = Some s' -> chk_end c s e = true.
Proof. exact chk_end_holds. Qed.
Print Assumptions C10_verdict.

Theorem C10_contained : forall c s n, st (Jb s n) = DoneRet RVFalse -> crit_exc c s n = false.
Proof. exact contained_is_not_failure. Qed.
Print Assumptions C10_contained.

(* the exception object that bubbles up: the TimeoutError of that very scheduler, or the object
   re-raised from one of its critical jobs (culprit_ok: a critical member whose status is DoneExc
   with the same tag); by induction along a chain of critical schedulers the tag at the top is
   the tag of the job where the exception originated *)
Theorem C10_same_object : forall c n w cu t, verdict_of c n w cu = VRaise t ->
  noncrit c n = false /\ ((w = WTimeout /\ t = tag_timeout n) \/ (w = WCritical /\ t = cu)).
Proof. exact raised_tag. Qed.
Print Assumptions C10_same_object.

(* the chain: every exception recorded on a job originates in an atomic job that raised it (and
   still holds it) or in a critical scheduler that timed out, and travels unchanged -- the same
   tag -- up a chain of critical members of critical schedulers; likewise for the exception that
   comes out of the top-level run() *)
Theorem C10_exception_has_origin : forall lvl c h s x t, wf c = true -> Reach lvl c h s -> x <> 0 ->
  st (Jb s x) = DoneExc t -> origin c s x t.
Proof. exact exc_has_origin. Qed.
Print Assumptions C10_exception_has_origin.

Theorem C10_root_exception_has_origin : forall lvl c h s e s' t, wf c = true -> Reach lvl c h s ->
  step lvl c s e = Some s' -> In (OEnd 0 (VRaise t)) (snd (reaction c s e)) -> origin c s' 0 t.
Proof. exact root_exc_has_origin. Qed.
Print Assumptions C10_root_exception_has_origin.

Theorem C10_chain_bottom : forall lvl c h s x t, wf c = true -> Reach lvl c h s -> x <> 0 ->
  st (Jb s x) = DoneExc t ->
  exists j, (j_sched (jc c j) = false /\ t = tag_job j /\ st (Jb s j) = DoneExc t) \/
            (j_sched (jc c j) = true /\ t = tag_timeout j).
Proof. exact chain_bottom. Qed.
Print Assumptions C10_chain_bottom.

(* and the parent then aborts exactly as for a raising critical job: the critical path is taken
   whenever a reported job is critical and has an exception, nested or not *)
Theorem C10_parent_aborts : forall c n d s, ph (Rn s n) = PMain ->
  d <> [] -> existsb (crit_exc c s) d = true ->
  let s' := fst (react_main c n d s) in
  ph (Rn s' n) = PTidy WCritical \/ ph (Rn s' n) = PShut WCritical.
Proof. exact critical_wins. Qed.
Print Assumptions C10_parent_aborts.

Theorem C10_accepted_histories : forall lvl c h, wf c = true -> accept lvl c h = true ->
  mon_ok chk01 c h = true /\ mon_ok chk_end c h = true.
Proof.
  intros lvl c h W Ha. split; [exact (C01_monitor lvl c h W Ha)|exact (chk_end_monitor lvl c h W Ha)].
Qed.
Print Assumptions C10_accepted_histories.

(* (c) Flattening.  In the flattened graph (an unwindowed scheduler) a job starts at the instant its
   last requirement finishes (C12).  A critical nested scheduler m without window or timeout, whose
   jobs are atomic, not forever, with instantaneous handlers, under a parent without window, is
   transparent in time: whenever time passes, m has begun as soon as its requirements are done and
   each of its jobs whose own requirements are done has started (so entry jobs start at the instant
   the last requirement of m finishes, the others at the instant their own last requirement
   finishes); and m is over -- done for the jobs that require it -- as soon as its last job is
   done.  These are the start and end instants the flattened graph gives. *)
Theorem C10_transparent_start : forall lvl c h s m x, wf c = true -> 1 <= lvl -> Reach lvl c h s ->
  quiescent c s = true -> transparent c m -> ph (Rn s (parent c m)) = PMain ->
  (forall r, In r (reqs c m) -> is_done (st (Jb s r)) = true) ->
  st (Jb s m) <> Idle /\ st (Jb s m) <> Created /\
  (ph (Rn s m) = PMain -> In x (members c m) ->
   (forall r, In r (reqs c x) -> is_done (st (Jb s r)) = true) ->
   st (Jb s x) <> Idle /\ st (Jb s x) <> Created).
Proof. exact transparent_start. Qed.
Print Assumptions C10_transparent_start.

Theorem C10_transparent_end : forall c h s m, wf c = true -> Reach 3 c h s -> quiescent c s = true ->
  transparent c m -> members c m <> [] ->
  (forall x, In x (members c m) -> is_done (st (Jb s x)) = true) ->
  ph (Rn s m) = POver.
Proof. exact transparent_end. Qed.
Print Assumptions C10_transparent_end.

(* (f) the flattened graph, in closed form.  [is_schedule c S E] are the scheduling equations of a
   tree: a job starts when its scheduler has begun and its requirements have ended, an atomic job
   ends [dur] later, a scheduler ends when it has begun and all its jobs have ended.  They have
   exactly one solution on a well-formed tree (existence and uniqueness below), the executable
   solver is right whenever its own check passes, and RSched.v (theorem C10_runs_on_schedule
   below) shows that every execution of a tree without window, timeout or forever job follows that
   solution until a critical job raises.  The flattened graph [c'] of [c] (flat_ofb: depth 1, the
   atomic jobs of c renamed by f, each requiring exactly its flat requirements [frq c x], i.e. the
   atomic jobs it waits for directly or through nested schedulers) has the same solution on
   every job: nested tree and flattened graph run every job at the same instants. *)
Theorem C10_schedule_exists : forall c, wf c = true -> exists S E, is_schedule c S E.
Proof. exact schedule_exists. Qed.
Print Assumptions C10_schedule_exists.

Theorem C10_schedule_unique : forall c S E S' E', wf c = true -> is_schedule c S E -> is_schedule c S' E' ->
  forall x, x < njobs c -> S x = S' x /\ E x = E' x.
Proof. exact schedule_unique. Qed.
Print Assumptions C10_schedule_unique.

Theorem C10_start_from_flat_requirements : forall c S E x, wf c = true -> is_schedule c S E ->
  atomic_id c x = true -> S x = maxl 0%N (map E (frq c x)).
Proof. exact start_from_flat_requirements. Qed.
Print Assumptions C10_start_from_flat_requirements.

Theorem C10_same_times_as_flattened : forall c c' f S E S' E', wf c = true -> wf c' = true ->
  flat_ofb c c' f = true -> is_schedule c S E -> is_schedule c' S' E' ->
  forall x, atomic_id c x = true -> S' (fname f x) = S x /\ E' (fname f x) = E x.
Proof. exact same_times_as_flattened. Qed.
Print Assumptions C10_same_times_as_flattened.

Theorem C10_solver_sound : forall c lS lE, solve c = (lS, lE) -> is_scheduleb c lS lE = true ->
  is_schedule c (tab lS) (tab lE).
Proof. exact solve_sound. Qed.
Print Assumptions C10_solver_sound.

Theorem C10_solver_complete : forall c, wf c = true ->
  let '(lS, lE) := solve c in is_scheduleb c lS lE = true.
Proof. exact solve_complete. Qed.
Print Assumptions C10_solver_complete.

(* every execution of a tree without window, timeout or forever job follows the schedule, for as long
   as no critical job has raised ([calm]): job x is not started before S x, runs (with deadline E x)
   between S x and E x, is done after E x, and is never cancelled *)
Theorem C10_runs_on_schedule : forall c S E h s, wf c = true -> plain c = true -> is_schedule c S E ->
  Reach 3 c h s -> calm c E s -> forall x, x < njobs c -> x <> 0 -> on_schedule c S E s x.
Proof. exact runs_on_schedule. Qed.
Print Assumptions C10_runs_on_schedule.

(* the last sentence of the property: nested tree and flattened graph run every job at the same
   instants (Sof, Eof: the schedule computed by the solver) *)
Theorem C10_nested_and_flattened_run_alike : forall c c' f, wf c = true -> wf c' = true ->
  plain c = true -> plain c' = true -> flat_ofb c c' f = true ->
  (forall x, atomic_id c x = true ->
     Sof c' (fname f x) = Sof c x /\ Eof c' (fname f x) = Eof c x) /\
  (forall h s, Reach 3 c h s -> calm c (Eof c) s ->
     forall x, x < njobs c -> x <> 0 -> on_schedule c (Sof c) (Eof c) s x) /\
  (forall h s, Reach 3 c' h s -> calm c' (Eof c') s ->
     forall k, k < njobs c' -> k <> 0 -> on_schedule c' (Sof c') (Eof c') s k).
Proof. exact nested_and_flattened_run_alike. Qed.
Print Assumptions C10_nested_and_flattened_run_alike.

(* REFUTED beyond that point (known finding F9): the sentence does not survive the first critical
   failure.  From the instant at which a critical job raises, a tree whose nested schedulers are all
   critical (no window, timeout, forever job) and its flattened graph may part, because a nested
   run finishes cancelling its own jobs before its run ends and its parent aborts.  The witness is
   a pair of histories recorded from the implementation (Props/C10Finding.v) and accepted by the
   model at level 3: job y ends by raising in the nested tree, is cancelled in the flattened graph. *)
Theorem C10_same_times_after_failure_refuted :
  exists c c' f h h' y,
    wf c = true /\ wf c' = true /\ plain c = true /\ plain c' = true /\ flat_ofb c c' f = true /\
    forallb (fun n => negb (j_sched (jc c n)) || j_crit (jc c n)) (all_ids c) = true /\
    accept 3 c h = true /\ accept 3 c' h' = true /\ atomic_id c y = true /\
    In (EFinish y OExc) h /\ ~ In (ECancelHit y) h /\
    In (ECancelHit (fname f y)) h' /\ ~ In (EFinish (fname f y) OExc) h'.
Proof. exact same_times_after_failure_refuted. Qed.
Print Assumptions C10_same_times_after_failure_refuted.

(* with shutdown handlers that take time the schedule is the one with shutdown phases (is_scheduleH):
   a nested scheduler is, for the jobs that require it, a job that ends when its own run does,
   shutdown phase included (first sentence of the property, in closed form) *)
Theorem C10_runs_on_scheduleH : forall c S E h s, wf c = true -> plainH c = true -> is_scheduleH c S E ->
  slackH c S E -> Reach 3 c h s -> calm c E s ->
  forall x, x < njobs c -> x <> 0 -> on_schedule c S E s x.
Proof. exact runs_on_scheduleH. Qed.
Print Assumptions C10_runs_on_scheduleH.

(* REFUTED as well when shutdown handlers take time (known finding F10), without any failure: a nested
   scheduler ends only after the shutdown phase of its own jobs (C13), so a job that requires it
   starts later than in the flattened graph.  Witness recorded from the implementation: y's body is
   entered at 3 in the nested tree and at 1 in the flattened graph. *)
Theorem C10_same_times_slow_shutdown_refuted :
  exists c c' f h h' y,
    wf c = true /\ wf c' = true /\ flat_ofb c c' f = true /\
    forallb (fun n => if j_sched (jc c n) then Nat.eqb (j_window (jc c n)) 0 && j_crit (jc c n) &&
                        match j_timeout (jc c n) with None => true | _ => false end
                      else negb (j_forever (jc c n)) && match j_out (jc c n) with ORet => true | _ => false end)
            (all_ids c) = true /\
    accept 3 c h = true /\ accept 3 c' h' = true /\ atomic_id c y = true /\
    start_at 0 h y = Some 3%N /\ start_at 0 h' (fname f y) = Some 1%N.
Proof. exact same_times_slow_shutdown_refuted. Qed.
Print Assumptions C10_same_times_slow_shutdown_refuted.

(* REFUTED as well under a parent that has a window (known finding F11): the nested scheduler holds one
   slot of its parent while all its jobs run (C07), in the flattened graph each of them needs a slot. *)
Theorem C10_same_times_windowed_parent_refuted :
  exists c c' f h h' y,
    wf c = true /\ wf c' = true /\ flat_ofb c c' f = true /\
    forallb (fun n => if j_sched (jc c n) then (Nat.eqb n 0 || Nat.eqb (j_window (jc c n)) 0) && j_crit (jc c n) &&
                        match j_timeout (jc c n) with None => true | _ => false end
                      else negb (j_forever (jc c n)) && match j_out (jc c n) with ORet => true | _ => false end)
            (all_ids c) = true /\
    accept 3 c h = true /\ accept 3 c' h' = true /\ atomic_id c y = true /\
    start_at 0 h y = Some 0%N /\ start_at 0 h' (fname f y) = Some 1%N.
Proof. exact same_times_windowed_parent_refuted. Qed.
Print Assumptions C10_same_times_windowed_parent_refuted.

(* non-vacuity of (f): a nested tree (critical nested scheduler 1 = {2; 3 requires 2}, job 4
   requires 1) and its flattened graph: the relation holds, both have a schedule, same instants *)
Definition ex_nested : cfg := mkCfg
  [ mkJ 0 true false false [] None ORet 0 None 0 None (Some 1%N);
    mkJ 0 true true false [] None ORet 0 None 0 None (Some 1%N);
    mkJ 1 false false false [] (Some 2%N) ORet 0 (Some 0%N) 0 None None;
    mkJ 1 false true false [2] (Some 3%N) ORet 0 (Some 0%N) 0 None None;
    mkJ 0 false false false [1] (Some 1%N) ORet 0 (Some 0%N) 0 None None ] false.
Definition ex_flattened : cfg := mkCfg
  [ mkJ 0 true false false [] None ORet 0 None 0 None (Some 1%N);
    mkJ 0 false false false [] (Some 2%N) ORet 0 (Some 0%N) 0 None None;
    mkJ 0 false true false [1] (Some 3%N) ORet 0 (Some 0%N) 0 None None;
    mkJ 0 false false false [1; 2] (Some 1%N) ORet 0 (Some 0%N) 0 None None ] false.
Example C10_flattened_nonvacuous :
  wf ex_nested = true /\ wf ex_flattened = true /\ plain ex_nested = true /\ plain ex_flattened = true /\
  flat_ofb ex_nested ex_flattened [0; 0; 1; 2; 3] = true /\ frq ex_nested 4 = [2; 3] /\
  solve ex_nested = ([0; 0; 0; 2; 5]%N, [6; 5; 2; 5; 6]%N) /\
  (let '(lS, lE) := solve ex_nested in is_scheduleb ex_nested lS lE) = true /\
  solve ex_flattened = ([0; 0; 2; 5]%N, [6; 2; 5; 6]%N) /\
  (let '(lS, lE) := solve ex_flattened in is_scheduleb ex_flattened lS lE) = true.
Proof. repeat split; vm_compute; reflexivity. Qed.

Example C10_nonvacuous :
  accept 3 ex_cfg ex_hist = true /\
  existsb (fun e => match e with EBegin 3 _ => true | _ => false end) ex_hist = true /\
  existsb (fun e => existsb (out_eqb (OEnd 3 VFalse)) (outs_of e)) ex_hist = true /\
  In (EStart 7) ex_hist /\ reqs ex_cfg 7 = [3].
Proof. repeat split; try (vm_compute; reflexivity). vm_compute. tauto. Qed.
