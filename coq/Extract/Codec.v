(* Decoding of test cases and encoding of results, as lists of N.
   A case is [opcode; args...]; the result is a list of N.  All parsing is done here, in Coq, so
   that the OCaml driver only converts integers and the same [run_case] can be evaluated by
   vm_compute for the cross-check. *)
From AJ Require Import Common.Util.

Definition reader (A : Type) := list N -> option (A * list N).

Definition ret {A} (a : A) : reader A := fun s => Some (a, s).
Definition bind {A B} (r : reader A) (f : A -> reader B) : reader B :=
  fun s => match r s with None => None | Some (a, s') => f a s' end.
Notation "x <- r ;; k" := (bind r (fun x => k)) (at level 61, r at next level, right associativity).

Definition rd_N : reader N := fun s => match s with [] => None | x :: s' => Some (x, s') end.
Definition rd_nat : reader nat := x <- rd_N ;; ret (N.to_nat x).
Definition rd_bool : reader bool := x <- rd_N ;; ret (negb (N.eqb x 0)).

Fixpoint rd_rep {A} (n : nat) (r : reader A) : reader (list A) :=
  match n with
  | 0 => ret []
  | S n' => a <- r ;; l <- rd_rep n' r ;; ret (a :: l)
  end.

Definition rd_list {A} (r : reader A) : reader (list A) := n <- rd_nat ;; rd_rep n r.
Definition rd_nats : reader (list nat) := rd_list rd_nat.
(* option: 0 = None, 1 x = Some x *)
Definition rd_opt {A} (r : reader A) : reader (option A) :=
  t <- rd_N ;; if N.eqb t 0 then ret None else (a <- r ;; ret (Some a)).

(* table indexed by id *)
Definition tab_get {A} (d : A) (l : list A) : nat -> A := fun i => nth i l d.

(* encoders *)
Definition en_nat (n : nat) : list N := [N.of_nat n].
Definition en_bool (b : bool) : list N := [if b then 1%N else 0%N].
Definition en_nats (l : list nat) : list N := N.of_nat (length l) :: map N.of_nat l.
Definition en_list {A} (f : A -> list N) (l : list A) : list N :=
  N.of_nat (length l) :: flat_map f l.
Definition en_opt {A} (f : A -> list N) (o : option A) : list N :=
  match o with None => [0%N] | Some a => 1%N :: f a end.

