(* Test-case dispatch for model R (run-time model). Opcodes 100-199. *)
From AJ Require Import Common.Util Extract.Codec Run.RModel Run.RMon Run.RProps1 Run.RProps2 Run.RProps3 Run.RWin Run.RProps4 Run.RProps5 Run.RAdm Run.RSchedDef Run.RSchedF Run.RSolveF.

Definition rd_optN : reader (option N) := rd_opt rd_N.

Definition rd_jcfg : reader jcfg :=
  p <- rd_nat ;; sc <- rd_bool ;; cr <- rd_bool ;; fo <- rd_bool ;; rq <- rd_nats ;;
  du <- rd_optN ;; ou <- rd_bool ;; cd <- rd_N ;; sd <- rd_optN ;;
  w <- rd_nat ;; t <- rd_optN ;; st <- rd_optN ;;
  ret (mkJ p sc cr fo rq du (if ou then OExc else ORet) cd sd w t st).

Definition rd_cfg : reader cfg :=
  pr <- rd_bool ;; js <- rd_list rd_jcfg ;; ret (mkCfg js pr).

Definition rd_wkind : reader wkind :=
  k <- rd_N ;;
  ret (match k with 0%N => KMain | 1%N => KTidy | 2%N => KCTidy | 3%N => KShut | _ => KShTidy end).

Definition rd_verdict : reader verdict :=
  v <- rd_N ;; t <- rd_nat ;;
  ret (match v with 0%N => VTrue | 1%N => VFalse | 2%N => VRaise t | _ => VCancelled end).

Definition rd_sdres : reader sdres :=
  v <- rd_N ;;
  ret (match v with 0%N => SRTrue | 1%N => SRFalse | 2%N => SRNone | _ => SRCancelled end).

Definition rd_out : reader out :=
  t <- rd_N ;;
  match t with
  | 1%N => j <- rd_nat ;; ret (OCreate j)
  | 2%N => j <- rd_nat ;; ret (OHCreate j)
  | 3%N => s <- rd_nat ;; i <- rd_bool ;; ret (OSdBegin s i)
  | 4%N => s <- rd_nat ;; k <- rd_wkind ;; ids <- rd_nats ;; to <- rd_optN ;; ret (OWaitCall s k ids to)
  | 5%N => s <- rd_nat ;; r <- rd_sdres ;; ret (OSdEnd s r)
  | 6%N => s <- rd_nat ;; v <- rd_verdict ;; ret (OEnd s v)
  | _ => fun _ => None
  end.

Definition rd_jview : reader jview :=
  i <- rd_nat ;; a <- rd_bool ;; b <- rd_bool ;; c <- rd_bool ;; d <- rd_bool ;; r <- rd_nat ;; e <- rd_nat ;;
  ret (mkJv i a b c d r e).
Definition rd_sview : reader sview :=
  i <- rd_nat ;; a <- rd_bool ;; b <- rd_bool ;; ret (mkSv i a b).

Definition rd_event : reader event :=
  t <- rd_N ;;
  match t with
  | 1%N => s <- rd_nat ;; o <- rd_list rd_out ;; ret (EBegin s o)
  | 2%N => s <- rd_nat ;; k <- rd_wkind ;; d <- rd_nats ;; o <- rd_list rd_out ;; ret (EWake s k d o)
  | 3%N => s <- rd_nat ;; k <- rd_wkind ;; o <- rd_list rd_out ;; ret (ECancelled s k o)
  | 4%N => s <- rd_nat ;; o <- rd_list rd_out ;; ret (ESdStart s o)
  | 5%N => j <- rd_nat ;; ret (EStart j)
  | 6%N => j <- rd_nat ;; oc <- rd_bool ;; ret (EFinish j (if oc then OExc else ORet))
  | 7%N => j <- rd_nat ;; ret (ECancelHit j)
  | 8%N => j <- rd_nat ;; ret (ECancelEnd j)
  | 9%N => j <- rd_nat ;; ret (ECancelAbort j)
  | 10%N => j <- rd_nat ;; ret (EGone j)
  | 11%N => j <- rd_nat ;; ret (EHStart j)
  | 12%N => j <- rd_nat ;; ret (EHEnd j)
  | 13%N => j <- rd_nat ;; ret (EHCancel j)
  | 14%N => j <- rd_nat ;; ret (EHGone j)
  | 15%N => x <- rd_N ;; ret (ETick x)
  | 16%N => x <- rd_N ;; ret (EGrace x)
  | 17%N => jv <- rd_list rd_jview ;; sv <- rd_list rd_sview ;; ret (EPoll jv sv)
  | _ => fun _ => None
  end.

(* result of replaying at one level: accepted?, index of the first rejected event, guard code,
   and whether the final state is terminal *)
Definition replay (lvl : nat) (c : cfg) (h : list event) : list N :=
  let '(s, r) := run_diag lvl c init h 0 in
  match r with
  | None => [1%N; 0%N; 0%N; if terminal c s then 1%N else 0%N]
  | Some (i, code) => [0%N; N.of_nat i; N.of_nat code; 0%N]
  end.

(* registered monitors: (property number * 10 + part, check) *)
Definition monitors : list (nat * (cfg -> state -> event -> bool)) :=
  [(10, chk01); (20, chk02a); (41, chk_end); (51, chk_nostart); (52, chk_exit); (111, chk_over); (140, chk14); (70, chk07); (120, chk12); (130, chk13)].

Definition run_rcase (op : N) : reader (list N) :=
  match op with
  | 100%N => (* acceptance at the four levels *)
      c <- rd_cfg ;; h <- rd_list rd_event ;;
      ret (en_bool (wf c) ++ replay 0 c h ++ replay 1 c h ++ replay 2 c h ++ replay 3 c h)
  | 101%N => (* monitors: for each, 0 = passes, S i = fails at event i *)
      c <- rd_cfg ;; h <- rd_list rd_event ;;
      ret (flat_map (fun m => [N.of_nat (fst m);
                               match mon (snd m) c init h 0 with None => 0%N | Some i => N.of_nat (S i) end])
                    monitors)
  | 103%N => (* hypotheses of the progress property *)
      c <- rd_cfg ;;
      ret (en_bool (admissible c) ++
           flat_map (fun n => [N.of_nat n; if never_ends c n then 1%N else 0%N]) (all_ids c))
  | 104%N => (* closed-form schedule: wf, plain, solver's own check, plainT, slack, S table, E table *)
      c <- rd_cfg ;;
      let '(lS, lE) := solve c in
      ret (en_bool (wf c) ++ en_bool (plain c) ++ en_bool (is_scheduleb c lS lE)
           ++ en_bool (plainT c) ++ en_bool (slackb c lS lE) ++ lS ++ lE)
  | 105%N => (* is c' the flattened graph of c under the renaming table f *)
      c <- rd_cfg ;; c' <- rd_cfg ;; f <- rd_nats ;;
      ret (en_bool (wf c) ++ en_bool (wf c') ++ en_bool (flat_ofb c c' f))
  | 106%N => (* schedule with shutdown phases: wf, plainH, solver's own check, slack of the main loops, S, E *)
      c <- rd_cfg ;;
      let '(lS, lE) := solveH c in
      ret (en_bool (wf c) ++ en_bool (plainH c) ++ en_bool (is_scheduleHb c lS lE)
           ++ en_bool (forallb (fun n => negb (j_sched (jc c n)) ||
                                 match j_timeout (jc c n) with
                                 | Some T => N.ltb (maxl (tab lS n) (map (tab lE) (members c n))) (tab lS n + T)
                                 | None => true
                                 end) (all_ids c))
           ++ lS ++ lE)
  | 107%N => (* schedule with forever jobs: wf, plainF, solver's own check, no tie, slack, S table, E table *)
      c <- rd_cfg ;;
      let '(lS, lE) := solveF c in
      ret (en_bool (wf c) ++ en_bool (plainF c) ++ en_bool (is_scheduleFb c lS lE)
           ++ en_bool (no_tieFb c lS lE) ++ en_bool (slackFb c lS lE) ++ lS ++ lE)
  | _ => fun _ => None
  end.
