(* Test-case dispatch for model R (run-time model). Opcodes 100-199. *)
From AJ Require Import Common.Util Extract.Codec.

Definition run_rcase (op : N) : reader (list N) :=
  match op with
  | _ => fun _ => None
  end.
