(* Top-level test-case dispatch: [run_case input] is what both the extracted driver and the
   in-Coq cross-check evaluate. *)
From AJ Require Import Common.Util Extract.Codec Extract.GCases Extract.GCases2 Extract.GCases3
  Extract.RCases.

Definition dispatch (op : N) : reader (list N) :=
  if N.ltb op 20 then run_gcase op
  else if N.ltb op 60 then run_gcase2 op
  else if N.ltb op 100 then run_gcase3 op
  else run_rcase op.

Definition run_case (s : list N) : list N :=
  match s with
  | [] => [0%N]
  | op :: rest =>
      match dispatch op rest with
      | Some (out, _) => 1%N :: out
      | None => [0%N]
      end
  end.
