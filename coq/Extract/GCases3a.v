(* Test-case dispatch for C19 (construction API). Opcodes 60-79. *)
From AJ Require Import Common.Util Graph.GModel Graph.Build Graph.BuildSpecs Extract.Codec
  Extract.GCases.

(* item: 0 | 1 j | 2 q *)
Definition rd_item : reader item :=
  t <- rd_N ;;
  if N.eqb t 0 then ret SNone
  else (i <- rd_nat ;; ret (if N.eqb t 1 then SJob i else SSeq i)).

(* arg: 0 | 1 j | 2 q | 3 n args.. (list) | 4 n args.. (tuple) | 5 n args.. (set, iteration order) *)
Fixpoint rd_arg (fuel : nat) : reader arg :=
  match fuel with
  | 0 => fun _ => None
  | S f =>
      t <- rd_N ;;
      if N.eqb t 0 then ret ANone
      else if N.eqb t 1 then (i <- rd_nat ;; ret (AJob i))
      else if N.eqb t 2 then (i <- rd_nat ;; ret (ASeq i))
      else (l <- rd_list (rd_arg f) ;;
            ret (if N.eqb t 3 then AList l else if N.eqb t 4 then ATuple l else ASet l))
  end.

Definition rd_arg_top : reader arg := fun s => rd_arg (length s) s.

Definition rd_stmt : reader stmt :=
  t <- rd_N ;;
  match t with
  | 0%N => j <- rd_nat ;; a <- rd_arg_top ;; s <- rd_opt rd_nat ;; ret (NewJob j a s)
  | 1%N => q <- rd_nat ;; its <- rd_list rd_item ;; a <- rd_arg_top ;; s <- rd_opt rd_nat ;;
           ret (NewSeq q its a s)
  | 2%N => i <- rd_nat ;; its <- rd_list rd_item ;; a <- rd_arg_top ;; s <- rd_opt rd_nat ;;
           ret (NewSched i its a s)
  | 3%N => j <- rd_nat ;; l <- rd_list rd_arg_top ;; rm <- rd_bool ;; ret (Requires j l rm)
  | 4%N => q <- rd_nat ;; its <- rd_list rd_item ;; ret (SeqAppend q its)
  | 5%N => q <- rd_nat ;; l <- rd_list rd_arg_top ;; ret (SeqRequires q l)
  | 6%N => s <- rd_nat ;; it <- rd_item ;; ret (Add s it)
  | 7%N => s <- rd_nat ;; its <- rd_list rd_item ;; ret (Update s its)
  | 8%N => s <- rd_nat ;; j <- rd_nat ;; ret (Remove s j)
  | _ => fun _ => None
  end.

Definition rd_prog : reader (list stmt) := rd_list rd_stmt.

Definition en_outcome (n nq : nat) (o : state * option error) : list N :=
  let st := fst o in
  en_nat (err_code (snd o))
  ++ en_list en_nats (map (req st) (seqn n))
  ++ en_list en_nats (map (members st) (seqn n))
  ++ en_list en_nats (map (seqs st) (seqn nq))
  ++ en_list (en_opt en_nat) (map (seq_sched st) (seqn nq)).

Definition run_gcase3a (op : N) : reader (list N) :=
  match op with
  | 60%N => (* the code model: n, nq, program -> outcome *)
      n <- rd_nat ;; nq <- rd_nat ;; p <- rd_prog ;; ret (en_outcome n nq (exec_code p))
  | 61%N => (* the documented meaning *)
      n <- rd_nat ;; nq <- rd_nat ;; p <- rd_prog ;; ret (en_outcome n nq (exec_doc p))
  | 70%N => (* C19 statement on an observed outcome *)
      n <- rd_nat ;; nq <- rd_nat ;; p <- rd_prog ;;
      e <- rd_nat ;; rq <- rd_list rd_nats ;; ms <- rd_list rd_nats ;; sq <- rd_list rd_nats ;;
      ss <- rd_list (rd_opt rd_nat) ;;
      ret (en_bool (c19_spec_b p n nq (tab_get [] rq) (tab_get [] ms) (tab_get [] sq)
                               (tab_get None ss) e))
  | _ => fun _ => None
  end.
