(* Test-case dispatch for C19 (construction API). Opcodes 60-79. *)
From AJ Require Import Common.Util Graph.GModel Extract.Codec Extract.GCases.

Definition run_gcase3a (op : N) : reader (list N) :=
  match op with
  | _ => fun _ => None
  end.
