(* Test-case dispatch for model G. *)
From AJ Require Import Common.Util Graph.GModel Graph.Sanitize Graph.GSpecs Extract.Codec.

Fixpoint rd_tree (fuel : nat) : reader jtree :=
  match fuel with
  | 0 => fun _ => None
  | S f =>
      tag <- rd_N ;; i <- rd_nat ;;
      if N.eqb tag 0 then ret (Atom i)
      else (ks <- rd_list (rd_tree f) ;; ret (Sched i ks))
  end.

Definition rd_tree_top : reader jtree := fun s => rd_tree (length s) s.

Definition rd_rmap : reader (nat * rmap) :=
  tbl <- rd_list rd_nats ;; ret (length tbl, tab_get [] tbl).

Definition en_tres (r : tres) : list N :=
  match r with TOk => [0%N] | TCycle => [1%N] | TFuel => [2%N] end.

Definition en_pair (p : nat * nat) : list N := [N.of_nat (fst p); N.of_nat (snd p)].

Definition run_gcase (op : N) : reader (list N) :=
  match op with
  | 1%N => (* sanitize: tree, rmap -> fine, new rmap *)
      t <- rd_tree_top ;; nr <- rd_rmap ;;
      let '(n, rq) := nr in
      let '(rq', fine) := sanitize t rq in
      ret (en_bool fine ++ en_list en_nats (map rq' (seqn n)))
  | 2%N => (* topological_order: members, rmap -> how it ends, yielded sequence *)
      ms <- rd_nats ;; nr <- rd_rmap ;;
      let '(out, r) := topo (snd nr) ms in
      ret (en_tres r ++ en_nats out)
  | 3%N => (* Scheduler.check_cycles *)
      t <- rd_tree_top ;; nr <- rd_rmap ;;
      ret (en_bool (check_cycles (snd nr) t))
  | 4%N => (* PureScheduler.check_cycles *)
      t <- rd_tree_top ;; nr <- rd_rmap ;;
      ret (en_bool (check_cycles_pure (snd nr) t))
  | 5%N => (* _set_sched_ids *)
      t <- rd_tree_top ;; nr <- rd_rmap ;;
      ret (match set_ids (snd nr) t with
           | None => [0%N]
           | Some (l, nxt) => 1%N :: N.of_nat nxt :: en_list en_pair l
           end)
  | 11%N => (* C16 statement on given outputs: tree, rq before, rq after, returned value *)
      t <- rd_tree_top ;; nr <- rd_rmap ;; nr' <- rd_rmap ;; ret_ <- rd_bool ;;
      ret (en_bool (c16_spec_b t (fst nr) (snd nr) (snd nr') ret_))
  | 12%N => (* C15 statement on given outputs: members, rq, raised, yielded *)
      ms <- rd_nats ;; nr <- rd_rmap ;; raised <- rd_bool ;; yielded <- rd_nats ;;
      ret (en_bool (c15_spec_b (snd nr) ms raised yielded))
  | _ => fun _ => None
  end.
