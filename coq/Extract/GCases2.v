(* Test-case dispatch for model G, part 2 (queries and surgery: C17, C18). Opcodes 20-59. *)
From AJ Require Import Common.Util Graph.GModel Extract.Codec Extract.GCases.

Definition run_gcase2 (op : N) : reader (list N) :=
  match op with
  | _ => fun _ => None
  end.
