(* Test-case dispatch for model G, part 2 (queries and surgery: C17, C18). Opcodes 20-59. *)
From AJ Require Import Common.Util Graph.GModel Graph.Queries Graph.Surgery Graph.GSpecs2
  Extract.Codec Extract.GCases.

(* forever flags, one number per id *)
Definition rd_flags : reader (nat -> bool) :=
  l <- rd_nats ;; ret (fun j => negb (Nat.eqb (nth j l 0) 0)).

Definition en_rmap (n : nat) (f : rmap) : list N := en_list en_nats (map f (seqn n)).

Definition en_clos (r : list nat * bool) : list N := en_bool (snd r) ++ en_nats (fst r).

Definition run_gcase2 (op : N) : reader (list N) :=
  match op with
  (* ---- C17: model outputs ---- *)
  | 20%N => (* _neighbours over a given attribute map: members, map, starts *)
      ms <- rd_nats ;; nf <- rd_rmap ;; starts <- rd_nats ;;
      ret (en_nats (nbrs (snd nf) ms starts))
  | 21%N => (* _backlinks: members, required, _s_successors before -> _s_successors after *)
      ms <- rd_nats ;; nr <- rd_rmap ;; ns <- rd_rmap ;;
      ret (en_rmap (fst nr) (backlinks ms (snd nr) (snd ns)))
  | 22%N => (* successors: members, required, _s_successors, compute_backlinks, starts *)
      ms <- rd_nats ;; nr <- rd_rmap ;; ns <- rd_rmap ;; cb <- rd_bool ;; starts <- rd_nats ;;
      ret (en_nats (fst (successors ms (snd nr) (snd ns) cb starts)))
  | 23%N => (* predecessors_upstream: members, required, starts -> fuel ok, closure *)
      ms <- rd_nats ;; nr <- rd_rmap ;; starts <- rd_nats ;;
      ret (en_clos (closure (snd nr) ms starts))
  | 24%N => (* successors_downstream: members, required, _s_successors, compute_backlinks, starts *)
      ms <- rd_nats ;; nr <- rd_rmap ;; ns <- rd_rmap ;; cb <- rd_bool ;; starts <- rd_nats ;;
      ret (en_clos (closure (if cb then backlinks ms (snd nr) (snd ns) else snd ns) ms starts))
  | 25%N => (* entry_jobs *)
      ms <- rd_nats ;; nr <- rd_rmap ;;
      ret (en_nats (entry_jobs ms (snd nr)))
  | 26%N => (* exit_jobs: members, required, _s_successors, forever flags, discard, backlinks *)
      ms <- rd_nats ;; nr <- rd_rmap ;; ns <- rd_rmap ;; fv <- rd_flags ;;
      discard <- rd_bool ;; cb <- rd_bool ;;
      ret (en_nats (exit_jobs ms (snd nr) (snd ns) fv discard cb))
  | 27%N => (* iterate_jobs: tree, scan_schedulers *)
      t <- rd_tree_top ;; scan <- rd_bool ;;
      ret (en_nats (iter_jobs scan t))
  (* ---- C17: the statement on given outputs ---- *)
  | 30%N =>
      ms <- rd_nats ;; nr <- rd_rmap ;; starts <- rd_nats ;; out <- rd_nats ;;
      ret (en_bool (c17_pred_spec_b ms (snd nr) starts out))
  | 31%N =>
      ms <- rd_nats ;; nr <- rd_rmap ;; starts <- rd_nats ;; out <- rd_nats ;;
      ret (en_bool (c17_succ_spec_b ms (snd nr) starts out))
  | 32%N =>
      ms <- rd_nats ;; nr <- rd_rmap ;; ns <- rd_rmap ;;
      ret (en_bool (c17_backlinks_spec_b ms (snd nr) (snd ns)))
  | 33%N =>
      ms <- rd_nats ;; nr <- rd_rmap ;; starts <- rd_nats ;; out <- rd_nats ;;
      ret (en_bool (c17_up_spec_b ms (snd nr) starts out))
  | 34%N =>
      ms <- rd_nats ;; nr <- rd_rmap ;; starts <- rd_nats ;; out <- rd_nats ;;
      ret (en_bool (c17_down_spec_b ms (snd nr) starts out))
  | 35%N =>
      ms <- rd_nats ;; nr <- rd_rmap ;; out <- rd_nats ;;
      ret (en_bool (c17_entry_spec_b ms (snd nr) out))
  | 36%N =>
      ms <- rd_nats ;; nr <- rd_rmap ;; fv <- rd_flags ;; discard <- rd_bool ;; out <- rd_nats ;;
      ret (en_bool (c17_exit_spec_b ms (snd nr) fv discard out))
  | 37%N =>
      t <- rd_tree_top ;; scan <- rd_bool ;; out <- rd_nats ;;
      ret (en_bool (c17_iter_spec_b t scan out))
  (* ---- C18: model outputs ---- *)
  | 40%N => (* bypass_and_remove: members, required, job *)
      ms <- rd_nats ;; nr <- rd_rmap ;; j <- rd_nat ;;
      ret (match bypass ms (snd nr) j with
           | None => [0%N]
           | Some (ms', rq') => 1%N :: en_nats ms' ++ en_rmap (fst nr) rq'
           end)
  | 41%N => (* keep_only: scheduler id, pool of subtrees, members, required, remains *)
      i <- rd_nat ;; pool <- rd_list rd_tree_top ;; ms <- rd_nats ;; nr <- rd_rmap ;;
      remains <- rd_nats ;;
      let '(ms', rq') := keep_only_t i pool ms (snd nr) remains in
      ret (en_nats ms' ++ en_rmap (fst nr) rq')
  | 42%N => (* keep_only_between *)
      i <- rd_nat ;; pool <- rd_list rd_tree_top ;; ms <- rd_nats ;; nr <- rd_rmap ;;
      ns <- rd_rmap ;; starts <- rd_nats ;; ends <- rd_nats ;; ks <- rd_bool ;; ke <- rd_bool ;;
      let '(ms', rq') := keep_only_between_t i pool ms (snd nr) (snd ns) starts ends ks ke in
      ret (en_nats ms' ++ en_rmap (fst nr) rq')
  (* ---- C18: the statement on given outputs ---- *)
  | 50%N =>
      ms <- rd_nats ;; nr <- rd_rmap ;; j <- rd_nat ;; ms' <- rd_nats ;; nr' <- rd_rmap ;;
      ret (en_bool (c18_bypass_spec_b (fst nr) ms (snd nr) j ms' (snd nr')))
  | 51%N =>
      ms <- rd_nats ;; nr <- rd_rmap ;; remains <- rd_nats ;; ms' <- rd_nats ;; nr' <- rd_rmap ;;
      ret (en_bool (c18_keep_only_spec_b ms (snd nr) remains ms' (snd nr')))
  | 52%N =>
      ms <- rd_nats ;; nr <- rd_rmap ;; starts <- rd_nats ;; ends <- rd_nats ;;
      ks <- rd_bool ;; ke <- rd_bool ;; ms' <- rd_nats ;; nr' <- rd_rmap ;;
      ret (en_bool (c18_between_spec_b ms (snd nr) starts ends ks ke ms' (snd nr')))
  | _ => fun _ => None
  end.
