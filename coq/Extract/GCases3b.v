(* Test-case dispatch for C20 (DOT export, list()). Opcodes 80-99. *)
From AJ Require Import Common.Util Graph.GModel Extract.Codec Extract.GCases.

Definition run_gcase3b (op : N) : reader (list N) :=
  match op with
  | _ => fun _ => None
  end.
