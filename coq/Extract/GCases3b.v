(* Test-case dispatch for C20 (DOT export, list()). Opcodes 80-99. *)
From AJ Require Import Common.Util Graph.GModel Graph.Dot Graph.DotSpecs Extract.Codec Extract.GCases.

Definition rd_bytes : reader bytes := rd_list rd_N.
Definition rd_jinfo : reader jinfo :=
  l <- rd_opt rd_bytes ;; c <- rd_bool ;; f <- rd_bool ;;
  ret {| jlabel := l; jcrit := c; jforever := f |}.
Definition dflt_info : jinfo := {| jlabel := None; jcrit := false; jforever := false |}.
Definition rd_infos : reader infos := l <- rd_list rd_jinfo ;; ret (tab_get dflt_info l).

Definition en_bytes (b : bytes) : list N := N.of_nat (length b) :: b.
Definition en_derr (e : derr) : list N :=
  match e with ECycle => [1%N] | ENoEntry => [2%N] | ENoExit => [3%N] | ENotClosed => [4%N] end.
Definition en_lkind (k : lkind) : N := match k with LJob => 0%N | LBegin => 1%N | LEnd => 2%N end.
Definition en_line (x : lline * nat) : list N :=
  [en_lkind (lkind_of (fst x)); N.of_nat (ljob (fst x)); N.of_nat (snd x); N.of_nat (ldepth (fst x))].

Definition rd_lrow : reader lrow :=
  k <- rd_N ;; j <- rd_nat ;; i <- rd_nat ;; d <- rd_nat ;;
  ret (if N.eqb k 0 then LJob else if N.eqb k 1 then LBegin else LEnd, j, i, d).

Definition run_gcase3b (op : N) : reader (list N) :=
  match op with
  | 80%N => (* dot_format: tree, rmap, infos -> 0 bytes | error code *)
      t <- rd_tree_top ;; nr <- rd_rmap ;; inf <- rd_infos ;;
      ret (match dot_bytes (snd nr) inf t with
           | Ok b => 0%N :: en_bytes b
           | Err e => en_derr e
           end)
  | 81%N => (* C20 statement on the implementation's output: tree, rmap, infos, raised?, bytes
               -> statement holds, output parses *)
      t <- rd_tree_top ;; nr <- rd_rmap ;; inf <- rd_infos ;; out <- rd_opt rd_bytes ;;
      ret (en_bool (c20_spec_b (snd nr) inf t out)
           ++ en_bool (match out with
                       | Some b => match parse b with Some _ => true | None => false end
                       | None => false
                       end))
  | 82%N => (* list(): tree, rmap -> lines (kind, job, printed id, depth) *)
      t <- rd_tree_top ;; nr <- rd_rmap ;;
      ret (match list_model (snd nr) t with
           | None => [0%N]
           | Some l => 1%N :: en_list en_line l
           end)
  | 83%N => (* C20 list statement on the implementation's lines: tree, rmap, raised? lines *)
      t <- rd_tree_top ;; nr <- rd_rmap ;; out <- rd_opt (rd_list rd_lrow) ;;
      ret (en_bool (c20_list_spec_b (snd nr) t out))
  | _ => fun _ => None
  end.
