(* Extraction of the executable models.  ExtrOcamlBasic only: numbers stay Coq inductives. *)
Require Extraction.
Require Import ExtrOcamlBasic.
From AJ Require Import Extract.Cases.
Extraction "Extract/model.ml" run_case.
