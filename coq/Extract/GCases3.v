(* Test-case dispatch for model G, part 3 (construction API and DOT export: C19, C20).
   Opcodes 60-99. *)
From AJ Require Import Common.Util Graph.GModel Extract.Codec Extract.GCases.

Definition run_gcase3 (op : N) : reader (list N) :=
  match op with
  | _ => fun _ => None
  end.
