(* Test-case dispatch for model G, part 3 (construction API and DOT export: C19, C20).
   Opcodes 60-79: C19 (GCases3a.v); 80-99: C20 (GCases3b.v). *)
From AJ Require Import Common.Util Graph.GModel Extract.Codec Extract.GCases
  Extract.GCases3a Extract.GCases3b.

Definition run_gcase3 (op : N) : reader (list N) :=
  if N.ltb op 80 then run_gcase3a op else run_gcase3b op.
