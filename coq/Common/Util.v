(* Common list utilities for both models.  Stdlib only. *)
From Coq Require Export List Arith NArith Bool Lia PeanoNat.
Export ListNotations.

Set Implicit Arguments.

(* ---------- membership on nat lists ---------- *)

Definition memb (x : nat) (l : list nat) : bool := existsb (Nat.eqb x) l.

Lemma memb_In x l : memb x l = true <-> In x l.
Proof.
  unfold memb. rewrite existsb_exists. split.
  - intros [y [Hy E]]. apply Nat.eqb_eq in E. subst. exact Hy.
  - intros H. exists x. split; [exact H | apply Nat.eqb_refl].
Qed.

Lemma memb_false x l : memb x l = false <-> ~ In x l.
Proof.
  rewrite <- memb_In. destruct (memb x l); split; intros H; congruence.
Qed.

Lemma memb_app x l1 l2 : memb x (l1 ++ l2) = memb x l1 || memb x l2.
Proof. unfold memb. apply existsb_app. Qed.

Lemma memb_cons x y l : memb x (y :: l) = Nat.eqb x y || memb x l.
Proof. reflexivity. Qed.

(* remove all occurrences *)
Definition remv (x : nat) (l : list nat) : list nat :=
  filter (fun y => negb (Nat.eqb x y)) l.

Lemma In_remv x y l : In y (remv x l) <-> In y l /\ y <> x.
Proof.
  unfold remv. rewrite filter_In. split; intros [H1 H2]; split; auto.
  - intro E. subst. rewrite Nat.eqb_refl in H2. discriminate.
  - apply negb_true_iff. apply Nat.eqb_neq. auto.
Qed.

(* intersection / difference, keeping the order of the first list *)
Definition inter (l1 l2 : list nat) : list nat := filter (fun x => memb x l2) l1.
Definition diff (l1 l2 : list nat) : list nat := filter (fun x => negb (memb x l2)) l1.

Lemma In_inter x l1 l2 : In x (inter l1 l2) <-> In x l1 /\ In x l2.
Proof. unfold inter. rewrite filter_In, memb_In. tauto. Qed.

Lemma In_diff x l1 l2 : In x (diff l1 l2) <-> In x l1 /\ ~ In x l2.
Proof.
  unfold diff. rewrite filter_In, negb_true_iff, memb_false. tauto.
Qed.

(* add if absent (set.add), at the end *)
Definition addn (x : nat) (l : list nat) : list nat :=
  if memb x l then l else l ++ [x].

Lemma In_addn x y l : In y (addn x l) <-> y = x \/ In y l.
Proof.
  unfold addn. destruct (memb x l) eqn:E.
  - apply memb_In in E. split; [tauto|]. intros [->|H]; auto.
  - rewrite in_app_iff. simpl. split; intros; intuition.
Qed.

Lemma NoDup_app_intro (A : Type) (l1 l2 : list A) :
  NoDup l1 -> NoDup l2 -> (forall x, In x l1 -> ~ In x l2) -> NoDup (l1 ++ l2).
Proof.
  induction l1 as [|a l1 IH]; simpl; intros H1 H2 Hd; [exact H2|].
  inversion H1 as [|? ? Hn H1']; subst. constructor.
  - rewrite in_app_iff. intros [H|H]; [auto|]. apply (Hd a); auto.
  - apply IH; auto.
Qed.

Lemma NoDup_app_inv (A : Type) (l1 l2 : list A) :
  NoDup (l1 ++ l2) -> NoDup l1 /\ NoDup l2 /\ (forall x, In x l1 -> ~ In x l2).
Proof.
  induction l1 as [|a l1 IH]; simpl; intros H.
  - repeat split; auto. constructor.
  - inversion H as [|? ? Hn H']; subst. destruct (IH H') as (A1 & A2 & A3).
    repeat split; auto.
    + constructor; auto. intro Hin. apply Hn. apply in_app_iff. auto.
    + intros x [->|Hx]; auto. intro Hin. apply Hn. apply in_app_iff. auto.
Qed.

Lemma NoDup_addn x l : NoDup l -> NoDup (addn x l).
Proof.
  intros H. unfold addn. destruct (memb x l) eqn:E; [exact H|].
  apply memb_false in E.
  apply NoDup_app_intro; auto.
  - constructor; [intros []|constructor].
  - intros y Hy [->|[]]. auto.
Qed.

Lemma NoDup_filter (A : Type) (f : A -> bool) l : NoDup l -> NoDup (filter f l).
Proof.
  induction l as [|a l IH]; simpl; intros H; [constructor|].
  inversion H; subst. destruct (f a); auto.
  constructor; auto. rewrite filter_In. tauto.
Qed.

(* boolean list equality on nat lists *)
Fixpoint list_eqb (l1 l2 : list nat) : bool :=
  match l1, l2 with
  | [], [] => true
  | x :: l1', y :: l2' => Nat.eqb x y && list_eqb l1' l2'
  | _, _ => false
  end.

Lemma list_eqb_eq l1 l2 : list_eqb l1 l2 = true <-> l1 = l2.
Proof.
  revert l2. induction l1 as [|x l1 IH]; destruct l2 as [|y l2]; simpl;
    try (split; intros; congruence).
  rewrite andb_true_iff, Nat.eqb_eq, IH. split.
  - intros [-> ->]. reflexivity.
  - intros E. inversion E. auto.
Qed.

(* index of first occurrence *)
Fixpoint index_of (x : nat) (l : list nat) : nat :=
  match l with
  | [] => 0
  | y :: l' => if Nat.eqb x y then 0 else S (index_of x l')
  end.

(* pointwise update of total functions *)
Definition upd (A : Type) (f : nat -> A) (k : nat) (v : A) : nat -> A :=
  fun x => if Nat.eqb x k then v else f x.

Lemma upd_same (A : Type) (f : nat -> A) k v : upd f k v k = v.
Proof. unfold upd. rewrite Nat.eqb_refl. reflexivity. Qed.

Lemma upd_other (A : Type) (f : nat -> A) k v x : x <> k -> upd f k v x = f x.
Proof. unfold upd. intros H. apply Nat.eqb_neq in H. rewrite H. reflexivity. Qed.

(* list-indexed maps: value at position i, with a default *)
Fixpoint set_nth (A : Type) (l : list A) (i : nat) (v : A) : list A :=
  match l, i with
  | [], _ => []
  | _ :: l', 0 => v :: l'
  | x :: l', S i' => x :: set_nth l' i' v
  end.

Lemma nth_set_nth_same (A : Type) (l : list A) i v d :
  i < length l -> nth i (set_nth l i v) d = v.
Proof.
  revert i. induction l as [|x l IH]; simpl; intros i H; [lia|].
  destruct i; simpl; auto. apply IH. lia.
Qed.

Lemma nth_set_nth_other (A : Type) (l : list A) i j v d :
  i <> j -> nth j (set_nth l i v) d = nth j l d.
Proof.
  revert i j. induction l as [|x l IH]; simpl; intros i j H; [reflexivity|].
  destruct i, j; simpl; auto; try congruence.
Qed.

Lemma length_set_nth (A : Type) (l : list A) i v : length (set_nth l i v) = length l.
Proof.
  revert i. induction l as [|x l IH]; simpl; intros i; [reflexivity|].
  destruct i; simpl; auto.
Qed.

(* [0; 1; ...; n-1] *)
Fixpoint seqn (n : nat) : list nat := match n with 0 => [] | S n' => seqn n' ++ [n'] end.

Lemma In_seqn j n : In j (seqn n) <-> j < n.
Proof.
  induction n as [|n IH]; simpl; [split; [intros []|lia]|].
  rewrite in_app_iff, IH. simpl. lia.
Qed.

Definition tab_get_nat (l : list (list nat)) : nat -> list nat := fun i => nth i l [].

Fixpoint nodupb (l : list nat) : bool :=
  match l with [] => true | x :: l' => negb (memb x l') && nodupb l' end.

Lemma nodupb_spec l : nodupb l = true <-> NoDup l.
Proof.
  induction l as [|x l IH]; simpl; [split; [constructor|reflexivity]|].
  rewrite andb_true_iff, negb_true_iff, memb_false, IH. split.
  - intros [H1 H2]. constructor; auto.
  - intros H. inversion H; auto.
Qed.

Lemma NoDup_seqn n : NoDup (seqn n).
Proof.
  induction n as [|n IH]; simpl; [constructor|].
  apply NoDup_app_intro; auto.
  - constructor; [intros []|constructor].
  - intros x Hx [->|[]]. apply In_seqn in Hx. lia.
Qed.
