(* Soundness of the C18 executable statements: when the boolean evaluated on an
   implementation result is true, that result satisfies the Prop statement of the property. *)
From AJ Require Import Common.Util Graph.GModel Graph.Sanitize Graph.Topo Graph.GSpecs
  Graph.Queries Graph.Surgery Graph.QueriesP Graph.SurgeryP Graph.GSpecs2.

Lemma imp_b_inv (a b : bool) : negb a || b = true -> a = true -> b = true.
Proof. destruct a; simpl; intros H E; [exact H | discriminate]. Qed.

Lemma upstream_one rq ms x y : In y (upstream rq ms [x]) <-> reach rq ms x y.
Proof.
  rewrite upstream_exact. split.
  - intros [s [[<-|[]] R]]. exact R.
  - intros R. exists x. split; [left; reflexivity | exact R].
Qed.

Lemma dag_preserved_inv rq ms rq' ms' :
  negb (dag_b rq ms) || dag_b rq' ms' = true ->
  NoDup ms -> closed rq ms -> acyclic rq ms -> NoDup ms' /\ acyclic rq' ms'.
Proof.
  intros H A B C. assert (D : dag_b rq ms = true) by (apply dag_b_spec; auto).
  apply (imp_b_inv _ _ H) in D. apply dag_b_spec in D. tauto.
Qed.

Theorem c18_bypass_spec_sound n ms rq j ms' rq' :
  In j ms -> c18_bypass_spec_b n ms rq j ms' rq' = true ->
  (forall x, In x ms' <-> In x ms /\ x <> j) /\
  (forall d r, d < n ->
     (In r (rq' d) <->
      (In r (rq d) \/ ((In d ms /\ In j (rq d)) /\ In r (rq j) /\ r <> d)) /\
      ((In d ms /\ In j (rq d)) -> r <> j))) /\
  (no2cycle ms rq j ->
   forall x y, In x ms' -> In y ms' -> (reach rq' ms' x y <-> reach rq ms x y)) /\
  (closed rq ms -> closed rq' ms') /\
  (NoDup ms -> closed rq ms -> acyclic rq ms -> NoDup ms' /\ acyclic rq' ms').
Proof.
  intros Hj H. unfold c18_bypass_spec_b in H. apply memb_In in Hj. rewrite Hj in H.
  cbn [negb orb] in H. rewrite !andb_true_iff in H.
  destruct H as [[[[H1 H2] H3] H4] H5].
  rewrite same_set_iff in H1. rewrite forallb_forall in H2.
  assert (Hm : forall x, In x ms' <-> In x ms /\ x <> j).
  { intros x. rewrite (H1 x). apply In_remv. }
  split; [exact Hm|]. split.
  { intros d r Hd. assert (Hin : In d (seqn n)) by (apply In_seqn; exact Hd).
    specialize (H2 d Hin). rewrite same_set_iff in H2. rewrite (H2 r). apply relinked_spec. }
  split.
  { intros N2 x y Hx Hy. apply no2cycle_b_spec in N2. apply (imp_b_inv _ _ H3) in N2.
    rewrite forallb_forall in N2. specialize (N2 x Hx). rewrite same_set_iff in N2.
    specialize (N2 y). rewrite upstream_one, In_remv, upstream_one in N2.
    apply Hm in Hy. tauto. }
  split.
  { intros C. apply closed_b_spec. apply (imp_b_inv _ _ H4). apply closed_b_spec. exact C. }
  apply dag_preserved_inv. exact H5.
Qed.

Lemma kept_req_b_spec ms rq ms' rq' : kept_req_b ms rq ms' rq' = true <->
  forall x r, In x ms' -> (In r (rq' x) <-> In r (rq x) /\ In r ms').
Proof.
  unfold kept_req_b. rewrite forallb_forall. split.
  - intros H x r Hx. specialize (H x Hx). rewrite same_set_iff in H. rewrite (H r). apply In_inter.
  - intros H x Hx. apply same_set_iff. intros r. rewrite (H x r Hx). symmetry. apply In_inter.
Qed.

Theorem c18_keep_only_spec_sound ms rq remains ms' rq' :
  c18_keep_only_spec_b ms rq remains ms' rq' = true ->
  (forall x, In x ms' <-> In x ms /\ In x remains) /\
  (forall x r, In x ms' -> (In r (rq' x) <-> In r (rq x) /\ In r ms')) /\
  closed rq' ms' /\
  (NoDup ms -> closed rq ms -> acyclic rq ms -> NoDup ms' /\ acyclic rq' ms').
Proof.
  unfold c18_keep_only_spec_b. rewrite !andb_true_iff. intros [[[H1 H2] H3] H4].
  rewrite same_set_iff in H1. split.
  { intros x. rewrite (H1 x). apply In_inter. }
  split; [exact (proj1 (kept_req_b_spec ms rq ms' rq') H2)|].
  split; [apply closed_b_spec; exact H3|].
  apply dag_preserved_inv. exact H4.
Qed.

Theorem c18_between_spec_sound ms rq starts ends ks ke ms' rq' :
  incl starts ms -> incl ends ms ->
  c18_between_spec_b ms rq starts ends ks ke ms' rq' = true ->
  (forall x, In x ms' <->
     (In x ms /\ (starts = [] \/ exists s, In s starts /\ reach rq ms x s)
              /\ (ends = [] \/ exists e, In e ends /\ reach rq ms e x))
     \/ (ks = true /\ In x starts) \/ (ke = true /\ In x ends)) /\
  (forall x r, In x ms' -> (In r (rq' x) <-> In r (rq x) /\ In r ms')) /\
  closed rq' ms' /\
  (NoDup ms -> closed rq ms -> acyclic rq ms -> NoDup ms' /\ acyclic rq' ms').
Proof.
  intros Hs He H. unfold c18_between_spec_b in H.
  assert (P : subset_b starts ms && subset_b ends ms = true).
  { apply andb_true_iff. split; apply subset_b_spec; assumption. }
  rewrite P in H. cbn [negb orb] in H. rewrite !andb_true_iff in H.
  destruct H as [[[H1 H2] H3] H4]. rewrite same_set_iff in H1. split.
  { intros x. rewrite (H1 x), (between_doc_spec ms rq (fun _ => []) starts ends ks ke x Hs).
    apply (between_exact ms rq (fun _ => []) starts ends ks ke x Hs). }
  split; [exact (proj1 (kept_req_b_spec ms rq ms' rq') H2)|].
  split; [apply closed_b_spec; exact H3|].
  apply dag_preserved_inv. exact H4.
Qed.
