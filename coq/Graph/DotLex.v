(* C20: the lexer reads back what [render] writes; quoting preserves labels. *)
From AJ Require Import Common.Util Graph.GModel Graph.Dot.

(* ---------- quoted strings ---------- *)

Lemma lex_str : forall s acc rest, ~ In 92%N s ->
  lex_go (LStr acc) (escape s ++ 34%N :: rest) =
  match lex_go LStart rest with Some r => Some (TStr (rev acc ++ s) :: r) | None => None end.
Proof.
  induction s as [|c s IH]; intros acc rest Hs.
  - cbn [escape app lex_go step]. rewrite N.eqb_refl, app_nil_r.
    destruct (lex_go LStart rest); reflexivity.
  - assert (Hc : c <> 92%N) by (intro E; apply Hs; left; auto).
    assert (Hs' : ~ In 92%N s) by (intro E; apply Hs; right; auto).
    cbn [escape]. destruct (N.eqb_spec c 34) as [->|Hq].
    + cbn [app lex_go step]. change (N.eqb 92 34) with false. cbn iota.
      rewrite N.eqb_refl. cbn [lex_go step]. rewrite N.eqb_refl.
      rewrite (IH (34%N :: acc) rest Hs'). cbn [rev]. rewrite <- app_assoc. cbn [app].
      destruct (lex_go LStart rest); reflexivity.
    + cbn [app lex_go step].
      apply N.eqb_neq in Hq. rewrite Hq. apply N.eqb_neq in Hc. rewrite Hc.
      rewrite (IH (c :: acc) rest Hs'). cbn [rev]. rewrite <- app_assoc. cbn [app].
      destruct (lex_go LStart rest); reflexivity.
Qed.

(* labels survive quoting unchanged *)
Theorem quote_roundtrip : forall s, ~ In 92%N s -> unquote (protect s) = Some s.
Proof.
  intros s Hs. unfold unquote, lex, protect.
  cbn [lex_go step]. change (step_start 34) with (Some (@nil token, LStr [])). cbn iota.
  rewrite (lex_str s [] [] Hs). reflexivity.
Qed.

(* a label with a backslash does not: the closing quote is swallowed *)
Theorem quote_backslash_refuted : unquote (protect [92%N]) = None.
Proof. vm_compute. reflexivity. Qed.

(* ---------- identifiers ---------- *)

Definition starts_nonid (b : bytes) : Prop :=
  match b with [] => True | c :: _ => is_idchar c = false end.

Lemma lex_id : forall s acc rest, forallb is_idchar s = true -> starts_nonid rest ->
  lex_go (LId acc) (s ++ rest) =
  match lex_go LStart rest with Some r => Some (TId (rev acc ++ s) :: r) | None => None end.
Proof.
  induction s as [|c s IH]; intros acc rest Hs Hr.
  - cbn [app]. rewrite app_nil_r. destruct rest as [|c r].
    + reflexivity.
    + cbn in Hr. cbn [lex_go step]. rewrite Hr.
      destruct (step_start c) as [[e st']|]; [|reflexivity].
      destruct (lex_go st' r); reflexivity.
  - cbn [forallb] in Hs. apply andb_true_iff in Hs. destruct Hs as [Hc Hs].
    cbn [app lex_go step]. rewrite Hc. rewrite (IH (c :: acc) rest Hs Hr).
    cbn [rev]. rewrite <- app_assoc. cbn [app].
    destruct (lex_go LStart rest); reflexivity.
Qed.

(* ---------- whole token lists ---------- *)

Definition tok_wf (t : token) : Prop :=
  match t with
  | TId s => s <> [] /\ forallb is_idchar s = true
  | TStr s => ~ In 92%N s
  | _ => True
  end.

Definition is_tid (t : token) : bool := match t with TId _ => true | _ => false end.

(* no two identifiers touch *)
Fixpoint sep_okb (ts : list token) : bool :=
  match ts with
  | [] => true
  | t :: r => negb (is_tid t && match r with t' :: _ => is_tid t' | [] => false end) && sep_okb r
  end.

Lemma render_starts_nonid t r : is_tid t = false -> starts_nonid (render (t :: r)).
Proof.
  intros H. destruct t; try discriminate; cbn; reflexivity.
Qed.

Theorem lex_render : forall ts, Forall tok_wf ts -> sep_okb ts = true ->
  lex (render ts) = Some (strip_ws ts).
Proof.
  unfold lex. induction ts as [|t r IH]; intros Hwf Hsep; [reflexivity|].
  inversion Hwf as [|? ? Ht Hr]; subst.
  cbn [sep_okb] in Hsep. apply andb_true_iff in Hsep. destruct Hsep as [Hadj Hsep].
  specialize (IH Hr Hsep).
  change (render (t :: r)) with (render_tok t ++ render r).
  destruct t; cbn [render_tok strip_ws filter is_ws_tok negb];
    try (cbn [app lex_go step];
         match goal with |- context [step_start ?c] =>
           let v := eval vm_compute in (step_start c) in change (step_start c) with v end;
         cbn iota; rewrite IH; reflexivity).
  - (* TId *)
    destruct Ht as [Hne Hid]. destruct s as [|c s]; [congruence|].
    cbn [forallb] in Hid. apply andb_true_iff in Hid. destruct Hid as [Hc Hs].
    cbn [app lex_go step]. unfold step_start at 1. rewrite Hc.
    assert (Hst : starts_nonid (render r)).
    { destruct r as [|t' r']; [exact I|]. apply render_starts_nonid.
      cbn [is_tid andb] in Hadj. destruct (is_tid t'); [discriminate|reflexivity]. }
    rewrite (lex_id s [c] (render r) Hs Hst). rewrite IH. reflexivity.
  - (* TStr *)
    unfold protect. cbn [app lex_go step].
    change (step_start 34) with (Some (@nil token, LStr [])). cbn iota.
    rewrite <- app_assoc. cbn [app]. rewrite (lex_str s [] (render r) Ht). rewrite IH. reflexivity.
  - (* TArrow *)
    cbn [app lex_go step]. change (step_start 45) with (Some (@nil token, LMinus)). cbn iota.
    cbn [lex_go step]. change (N.eqb 62 62) with true. cbn iota. rewrite IH. reflexivity.
Qed.

(* ---------- the printer without white space ---------- *)

Fixpoint tk_attrs (comma : bool) (l : list attr) : list token :=
  match l with
  | [] => []
  | [a] => print_attr a
  | a :: l' => print_attr a ++ (if comma then [TComma] else []) ++ tk_attrs comma l'
  end.

Fixpoint tk_stmt (s : stmt) : list token :=
  match s with
  | SAssign k v => [TId k; TEq; TId v; TSemi]
  | SGraph a => [TId kw_graph; TLBrack] ++ tk_attrs true a ++ [TRBrack; TSemi]
  | SNode id a => [TId id; TLBrack] ++ tk_attrs true a ++ [TRBrack]
  | SEdge s d [] => [TId s; TArrow; TId d; TSemi]
  | SEdge s d a => [TId s; TArrow; TId d; TLBrack] ++ tk_attrs false a ++ [TRBrack; TSemi]
  | SSub name body => [TId kw_subgraph; TId name; TLBrace] ++ flat_map tk_stmt body ++ [TRBrace]
  end.

Definition tk_graph (g : graph) : list token :=
  [TId kw_digraph; TId (gname g); TLBrace] ++ flat_map tk_stmt (gbody g) ++ [TRBrace].

Lemma strip_app a b : strip_ws (a ++ b) = strip_ws a ++ strip_ws b.
Proof. apply filter_app. Qed.

Lemma strip_print_attr a : strip_ws (print_attr a) = print_attr a.
Proof. destruct a as [k [v|v]]; reflexivity. Qed.

Lemma strip_attrs_comma l : strip_ws (print_attrs TComma l) = tk_attrs true l.
Proof.
  induction l as [|a l IH]; [reflexivity|].
  destruct l as [|b l']; [apply strip_print_attr|].
  change (print_attrs TComma (a :: b :: l'))
    with (print_attr a ++ TComma :: print_attrs TComma (b :: l')).
  rewrite strip_app, strip_print_attr. cbn [strip_ws filter is_ws_tok negb].
  change (filter (fun t => negb (is_ws_tok t)) (print_attrs TComma (b :: l')))
    with (strip_ws (print_attrs TComma (b :: l'))).
  rewrite IH. reflexivity.
Qed.

Lemma strip_attrs_space l : strip_ws (print_attrs TSp l) = tk_attrs false l.
Proof.
  induction l as [|a l IH]; [reflexivity|].
  destruct l as [|b l']; [apply strip_print_attr|].
  change (print_attrs TSp (a :: b :: l'))
    with (print_attr a ++ TSp :: print_attrs TSp (b :: l')).
  rewrite strip_app, strip_print_attr. cbn [strip_ws filter is_ws_tok negb].
  change (filter (fun t => negb (is_ws_tok t)) (print_attrs TSp (b :: l')))
    with (strip_ws (print_attrs TSp (b :: l'))).
  rewrite IH. reflexivity.
Qed.

(* induction principle for statements *)
Section stmt_ind2.
  Variable P : stmt -> Prop.
  Hypothesis H1 : forall k v, P (SAssign k v).
  Hypothesis H2 : forall a, P (SGraph a).
  Hypothesis H3 : forall i a, P (SNode i a).
  Hypothesis H4 : forall s d a, P (SEdge s d a).
  Hypothesis H5 : forall n b, Forall P b -> P (SSub n b).
  Fixpoint stmt_ind2 (s : stmt) : P s :=
    match s with
    | SAssign k v => H1 k v
    | SGraph a => H2 a
    | SNode i a => H3 i a
    | SEdge s d a => H4 s d a
    | SSub n b => H5 n b ((fix f (l : list stmt) : Forall P l :=
                             match l with
                             | [] => Forall_nil P
                             | x :: l' => Forall_cons x (stmt_ind2 x) (f l')
                             end) b)
    end.
End stmt_ind2.

Lemma strip_flat_map (f g : stmt -> list token) l :
  Forall (fun s => strip_ws (f s) = g s) l -> strip_ws (flat_map f l) = flat_map g l.
Proof.
  induction 1 as [|s l Hs Hl IH]; [reflexivity|].
  cbn [flat_map]. rewrite strip_app, Hs, IH. reflexivity.
Qed.

Lemma strip_stmt s : strip_ws (print_stmt s) = tk_stmt s.
Proof.
  induction s as [k v|a|i a|s d a|n b IH] using stmt_ind2.
  - reflexivity.
  - cbn [print_stmt tk_stmt]. rewrite !strip_app, strip_attrs_comma. reflexivity.
  - cbn [print_stmt tk_stmt]. rewrite !strip_app, strip_attrs_comma. reflexivity.
  - destruct a as [|x a]; [reflexivity|].
    cbn [print_stmt tk_stmt]. rewrite !strip_app, strip_attrs_space. reflexivity.
  - cbn [print_stmt tk_stmt]. rewrite !strip_app. rewrite (strip_flat_map print_stmt tk_stmt b IH).
    reflexivity.
Qed.

Lemma strip_graph g : strip_ws (print_graph g) = tk_graph g.
Proof.
  unfold print_graph, tk_graph. rewrite !strip_app.
  rewrite (strip_flat_map print_stmt tk_stmt).
  - reflexivity.
  - apply Forall_forall. intros s _. apply strip_stmt.
Qed.

(* ---------- the parser reads back the printer ---------- *)

Lemma parse_val_print v : parse_val (print_val v) = Some v.
Proof. destruct v; reflexivity. Qed.

Lemma parse_attrs_tk comma : forall l fuel rest, length l < fuel ->
  parse_attrs fuel (tk_attrs comma l ++ TRBrack :: rest) = Some (l, rest).
Proof.
  induction l as [|[k v] l IH]; intros fuel rest Hf.
  - destruct fuel; [lia|]. reflexivity.
  - destruct fuel as [|f]; [lia|]. cbn [length] in Hf.
    destruct l as [|b l'].
    + cbn [tk_attrs print_attr fst snd app parse_attrs]. rewrite parse_val_print.
      destruct f; [lia|]. reflexivity.
    + change (tk_attrs comma ((k, v) :: b :: l'))
        with (print_attr (k, v) ++ (if comma then [TComma] else []) ++ tk_attrs comma (b :: l')).
      cbn [print_attr fst snd app parse_attrs]. rewrite parse_val_print.
      assert (E : skip_comma (((if comma then [TComma] else []) ++ tk_attrs comma (b :: l'))
                              ++ TRBrack :: rest)
                  = tk_attrs comma (b :: l') ++ TRBrack :: rest).
      { destruct comma; cbn [app skip_comma]; [reflexivity|].
        destruct b as [kb vb]. destruct l'; reflexivity. }
      rewrite <- app_assoc in E |- *. rewrite E.
      rewrite (IH f rest ltac:(cbn [length] in *; lia)). reflexivity.
Qed.

Definition not_kw (a : bytes) : Prop :=
  bytes_eqb a kw_subgraph = false /\ bytes_eqb a kw_graph = false.

Fixpoint stmt_wf (s : stmt) : Prop :=
  match s with
  | SAssign k _ => not_kw k
  | SGraph _ => True
  | SNode i _ => not_kw i
  | SEdge a _ _ => not_kw a
  | SSub _ b => (fix all (l : list stmt) : Prop :=
                   match l with [] => True | x :: l' => stmt_wf x /\ all l' end) b
  end.

Lemma stmt_wf_Forall l :
  (fix all (l : list stmt) : Prop :=
     match l with [] => True | x :: l' => stmt_wf x /\ all l' end) l <-> Forall stmt_wf l.
Proof.
  induction l as [|x l IH]; split; intros H; auto.
  - destruct H. constructor; auto. apply IH; auto.
  - inversion H; subst. split; auto. apply IH; auto.
Qed.

Fixpoint stmt_size (s : stmt) : nat :=
  match s with
  | SSub _ b => S (fold_right (fun x n => stmt_size x + n) 0 b)
  | _ => 1
  end.
Definition stmts_size (l : list stmt) : nat := fold_right (fun x n => stmt_size x + n) 0 l.

Lemma stmt_size_pos s : 0 < stmt_size s.
Proof. destruct s; cbn; lia. Qed.

Lemma tk_stmts_head l r : exists t ts, (flat_map tk_stmt l ++ TRBrace :: r) = t :: ts /\ t <> TSemi.
Proof.
  destruct l as [|s l].
  - exists TRBrace, r. split; [reflexivity|discriminate].
  - destruct s as [k v|a|i a|s d a|n b]; cbn [flat_map tk_stmt app];
      try (eexists; eexists; split; [reflexivity|discriminate]).
    destruct a; cbn [app]; eexists; eexists; split; try reflexivity; discriminate.
Qed.

Lemma skip_semi_stmts l r :
  skip_semi (flat_map tk_stmt l ++ TRBrace :: r) = flat_map tk_stmt l ++ TRBrace :: r.
Proof.
  destruct (tk_stmts_head l r) as (t & ts & E & Ht). rewrite E.
  destruct t; try reflexivity. congruence.
Qed.

Lemma length_tk_attrs comma l : length l <= length (tk_attrs comma l).
Proof.
  induction l as [|a l IH]; [cbn; lia|].
  destruct l as [|b l']; [cbn; lia|].
  change (tk_attrs comma (a :: b :: l'))
    with (print_attr a ++ (if comma then [TComma] else []) ++ tk_attrs comma (b :: l')).
  rewrite !app_length. cbn [length print_attr] in *. lia.
Qed.

Lemma parse_attrs_in a rest tail :
  parse_attrs (S (length (tk_attrs (fst a) (snd a) ++ TRBrack :: tail ++ rest)))
              (tk_attrs (fst a) (snd a) ++ TRBrack :: tail ++ rest)
  = Some (snd a, tail ++ rest).
Proof.
  apply parse_attrs_tk. rewrite app_length. pose proof (length_tk_attrs (fst a) (snd a)). lia.
Qed.

Lemma parse_simple_tk s rest : stmt_wf s -> (forall n b, s <> SSub n b) ->
  exists a r, tk_stmt s ++ rest = TId a :: r /\ bytes_eqb a kw_subgraph = false /\
              exists r', parse_simple a r = Some (s, r') /\ (r' = rest \/ r' = TSemi :: rest).
Proof.
  intros Hwf Hns. destruct s as [k v|a|i a|s d a|n b].
  - destruct Hwf as [Hk1 Hk2]. exists k, (TEq :: TId v :: TSemi :: rest).
    split; [reflexivity|]. split; [exact Hk1|].
    unfold parse_simple. rewrite Hk2. eexists. split; [reflexivity|]. right. reflexivity.
  - exists kw_graph, (TLBrack :: tk_attrs true a ++ TRBrack :: [TSemi] ++ rest).
    split; [cbn [tk_stmt app]; rewrite <- app_assoc; reflexivity|]. split; [reflexivity|].
    unfold parse_simple. change (bytes_eqb kw_graph kw_graph) with true. cbn iota.
    pose proof (parse_attrs_in (true, a) rest [TSemi]) as E. cbn [fst snd] in E. rewrite E.
    eexists. split; [reflexivity|]. right. reflexivity.
  - destruct Hwf as [Hk1 Hk2]. exists i, (TLBrack :: tk_attrs true a ++ TRBrack :: [] ++ rest).
    split; [cbn [tk_stmt app]; rewrite <- app_assoc; reflexivity|]. split; [exact Hk1|].
    unfold parse_simple. rewrite Hk2.
    pose proof (parse_attrs_in (true, a) rest []) as E. cbn [fst snd] in E. rewrite E.
    eexists. split; [reflexivity|]. left. reflexivity.
  - destruct Hwf as [Hk1 Hk2]. destruct a as [|x a].
    + exists s, (TArrow :: TId d :: TSemi :: rest).
      split; [reflexivity|]. split; [exact Hk1|].
      unfold parse_simple. rewrite Hk2.
      eexists. split; [reflexivity|]. right. reflexivity.
    + exists s, (TArrow :: TId d :: TLBrack :: tk_attrs false (x :: a) ++ TRBrack :: [TSemi] ++ rest).
      split; [cbn [tk_stmt app]; rewrite <- app_assoc; reflexivity|]. split; [exact Hk1|].
      unfold parse_simple. rewrite Hk2.
      pose proof (parse_attrs_in (false, x :: a) rest [TSemi]) as E. cbn [fst snd] in E.
      rewrite E.
      eexists. split; [reflexivity|]. right. reflexivity.
  - exfalso. eapply Hns. reflexivity.
Qed.

Lemma parse_stmts_tk : forall fuel l rest, Forall stmt_wf l -> stmts_size l < fuel ->
  parse_stmts fuel (flat_map tk_stmt l ++ TRBrace :: rest) = Some (l, TRBrace :: rest).
Proof.
  induction fuel as [|f IH]; intros l rest Hwf Hsz; [lia|].
  destruct l as [|s l].
  - reflexivity.
  - inversion Hwf as [|? ? Hs Hl]; subst.
    cbn [flat_map]. rewrite <- app_assoc.
    unfold stmts_size in Hsz. cbn [fold_right] in Hsz. fold (stmts_size l) in Hsz.
    pose proof (stmt_size_pos s) as Hpos.
    destruct s as [k v|a|i a|s d a|n b].
    5:{ (* nested subgraph *)
      cbn [tk_stmt app]. rewrite <- !app_assoc. cbn [app parse_stmts].
      change (bytes_eqb kw_subgraph kw_subgraph) with true. cbn iota.
      cbn [stmt_wf] in Hs. apply stmt_wf_Forall in Hs.
      cbn [stmt_size] in Hsz. fold (stmts_size b) in Hsz.
      rewrite (IH b _ Hs ltac:(lia)).
      rewrite skip_semi_stmts. rewrite (IH l rest Hl ltac:(lia)). reflexivity. }
    all: match goal with |- context [tk_stmt ?s] =>
           destruct (parse_simple_tk s (flat_map tk_stmt l ++ TRBrace :: rest) Hs
                       ltac:(intros; discriminate))
             as (a0 & r0 & E & Hk & r' & Hp & Hr')
         end;
      rewrite E; cbn [parse_stmts]; rewrite Hk, Hp;
      assert (Hsk : skip_semi r' = flat_map tk_stmt l ++ TRBrace :: rest)
        by (destruct Hr' as [-> | ->]; [apply skip_semi_stmts|reflexivity]);
      rewrite Hsk;
      rewrite (IH l rest Hl ltac:(cbn [stmt_size] in Hsz; lia)); reflexivity.
Qed.

Definition graph_wf (g : graph) : Prop := Forall stmt_wf (gbody g).

Lemma length_tk_stmts l : stmts_size l <= length (flat_map tk_stmt l).
Proof.
  assert (Hs : forall s, stmt_size s <= length (tk_stmt s)).
  { induction s as [k v|a|i a|s d a|n b IHb] using stmt_ind2; try (cbn; lia).
    - destruct a; cbn; lia.
    - cbn [stmt_size tk_stmt]. rewrite !app_length. cbn [length].
      assert (fold_right (fun x n => stmt_size x + n) 0 b <= length (flat_map tk_stmt b)).
      { induction IHb as [|x b Hx Hb IH]; [cbn; lia|].
        cbn [fold_right flat_map]. rewrite app_length. lia. }
      lia. }
  induction l as [|s l IH]; [cbn; lia|].
  unfold stmts_size in *. cbn [fold_right flat_map]. rewrite app_length. specialize (Hs s). lia.
Qed.

Theorem parse_tokens_tk g : graph_wf g -> parse_tokens (tk_graph g) = Some g.
Proof.
  intros Hwf. unfold tk_graph, parse_tokens. cbn [app].
  change (bytes_eqb kw_digraph kw_digraph) with true. cbn iota.
  rewrite (parse_stmts_tk _ (gbody g) [] Hwf).
  - destruct g; reflexivity.
  - rewrite app_length. pose proof (length_tk_stmts (gbody g)). cbn [length]. lia.
Qed.

(* ---------- byte level: parse (render (print g)) = g ---------- *)

Lemma sep_app a b : sep_okb a = true -> sep_okb b = true ->
  is_tid (last a TNl) && is_tid (hd TNl b) = false -> sep_okb (a ++ b) = true.
Proof.
  induction a as [|t a IH]; intros Ha Hb Hj; [exact Hb|].
  destruct a as [|t' a'].
  - cbn [app sep_okb]. rewrite Hb, andb_true_r. cbn [last] in Hj.
    destruct b as [|t' b']; [rewrite andb_false_r; reflexivity|]. cbn [hd] in Hj. rewrite Hj. reflexivity.
  - cbn [sep_okb] in Ha. apply andb_true_iff in Ha. destruct Ha as [H1 H2].
    assert (IH' : sep_okb ((t' :: a') ++ b) = true) by (apply IH; auto).
    cbn [app] in IH' |- *. cbn [sep_okb] in IH' |- *. rewrite H1. exact IH'.
Qed.

Definition id_ok (s : bytes) : Prop := s <> [] /\ forallb is_idchar s = true.
Definition val_ok (v : aval) : Prop := match v with VId s => id_ok s | VStr s => ~ In 92%N s end.
Definition attr_ok (a : attr) : Prop := id_ok (fst a) /\ val_ok (snd a).

Fixpoint stmt_ok (s : stmt) : Prop :=
  match s with
  | SAssign k v => not_kw k /\ id_ok k /\ id_ok v
  | SGraph a => Forall attr_ok a
  | SNode i a => not_kw i /\ id_ok i /\ Forall attr_ok a
  | SEdge x y a => not_kw x /\ id_ok x /\ id_ok y /\ Forall attr_ok a
  | SSub n b => id_ok n /\
                (fix all (l : list stmt) : Prop :=
                   match l with [] => True | x :: l' => stmt_ok x /\ all l' end) b
  end.

Lemma stmt_ok_Forall l :
  (fix all (l : list stmt) : Prop :=
     match l with [] => True | x :: l' => stmt_ok x /\ all l' end) l <-> Forall stmt_ok l.
Proof.
  induction l as [|x l IH]; split; intros H; auto.
  - destruct H. constructor; auto. apply IH; auto.
  - inversion H; subst. split; auto. apply IH; auto.
Qed.

Definition graph_ok (g : graph) : Prop := id_ok (gname g) /\ Forall stmt_ok (gbody g).

Lemma stmt_ok_wf s : stmt_ok s -> stmt_wf s.
Proof.
  induction s as [k v|a|i a|s d a|n b IH] using stmt_ind2; cbn [stmt_ok stmt_wf]; try tauto.
  intros [_ H]. apply stmt_ok_Forall in H. apply stmt_wf_Forall.
  rewrite Forall_forall in *. auto.
Qed.

Definition piece_ok (ts : list token) : Prop := Forall tok_wf ts /\ sep_okb ts = true.

Lemma piece_app a b : piece_ok a -> piece_ok b ->
  is_tid (last a TNl) && is_tid (hd TNl b) = false -> piece_ok (a ++ b).
Proof.
  intros [A1 A2] [B1 B2] H. split; [apply Forall_app; auto|apply sep_app; auto].
Qed.

Ltac wf_list := repeat (apply Forall_cons || apply Forall_nil);
  try assumption; try exact I.

Lemma kw_ok : id_ok kw_graph /\ id_ok kw_subgraph /\ id_ok kw_digraph.
Proof. repeat split; try discriminate; reflexivity. Qed.

Lemma piece_attr a : attr_ok a -> piece_ok (print_attr a).
Proof.
  intros [Hk Hv]. destruct a as [k v]. cbn [fst snd] in *. unfold print_attr. cbn [fst snd].
  split.
  - wf_list. destruct v; exact Hv.
  - destruct v; reflexivity.
Qed.

Lemma hd_print_attr a : is_tid (hd TNl (print_attr a)) = true.
Proof. reflexivity. Qed.

Lemma piece_attrs sep l : is_tid sep = false -> tok_wf sep -> Forall attr_ok l ->
  piece_ok (print_attrs sep l).
Proof.
  intros Hsep Hw. induction 1 as [|a l Ha Hl IH]; [split; [constructor|reflexivity]|].
  destruct l as [|b l']; [apply piece_attr; exact Ha|].
  change (print_attrs sep (a :: b :: l')) with (print_attr a ++ [sep] ++ print_attrs sep (b :: l')).
  apply piece_app; [apply piece_attr; exact Ha| |].
  - apply piece_app; [split; [wf_list|cbn; rewrite Hsep; reflexivity]|exact IH|].
    cbn [last]. rewrite Hsep. reflexivity.
  - cbn [app hd]. rewrite Hsep. apply andb_false_r.
Qed.

Lemma last_app_cons (a : list token) x l d : last (a ++ x :: l) d = last (x :: l) d.
Proof.
  induction a as [|y a IH]; [reflexivity|].
  change ((y :: a) ++ x :: l) with (y :: (a ++ x :: l)).
  destruct (a ++ x :: l) eqn:E; [destruct a; discriminate|]. rewrite <- IH. reflexivity.
Qed.

Lemma piece_stmt s : stmt_ok s -> piece_ok (print_stmt s) /\ last (print_stmt s) TNl = TNl.
Proof.
  destruct kw_ok as (Kg & Ks & Kd).
  induction s as [k v|a|i a|x y a|n b IH] using stmt_ind2; cbn [stmt_ok]; intros Hok.
  - destruct Hok as (_ & Hk & Hv). split; [|reflexivity].
    split; [wf_list|reflexivity].
  - split; [|cbn [print_stmt]; rewrite app_assoc, last_app_cons; reflexivity].
    cbn [print_stmt]. apply piece_app; [split; [wf_list|reflexivity]| |reflexivity].
    apply piece_app; [apply piece_attrs; auto; exact I|split; [wf_list|reflexivity]|].
    cbn [hd is_tid]. apply andb_false_r.
  - destruct Hok as (_ & Hi & Ha).
    split; [|cbn [print_stmt]; rewrite app_assoc, last_app_cons; reflexivity].
    cbn [print_stmt]. apply piece_app; [split; [wf_list|reflexivity]| |reflexivity].
    apply piece_app; [apply piece_attrs; auto; exact I|split; [wf_list|reflexivity]|].
    cbn [hd is_tid]. apply andb_false_r.
  - destruct Hok as (_ & Hx & Hy & Ha). destruct a as [|a0 a].
    + split; [|reflexivity]. split; [wf_list|reflexivity].
    + split; [|cbn [print_stmt]; rewrite app_assoc, last_app_cons; reflexivity].
      cbn [print_stmt].
      apply piece_app; [split; [wf_list|reflexivity]| |reflexivity].
      apply piece_app; [apply piece_attrs; auto; exact I|split; [wf_list|reflexivity]|].
      cbn [hd is_tid]. apply andb_false_r.
  - destruct Hok as (Hn & Hb). apply stmt_ok_Forall in Hb.
    split; [|cbn [print_stmt]; rewrite app_assoc, last_app_cons; reflexivity].
    cbn [print_stmt].
    apply piece_app; [split; [wf_list|reflexivity]| |reflexivity].
    assert (Hbody : piece_ok (flat_map print_stmt b) /\ last (flat_map print_stmt b) TNl = TNl).
    { clear Hn. induction b as [|s b IHb]; [split; [split; [constructor|reflexivity]|reflexivity]|].
      inversion IH as [|? ? IHs IHb']; subst. inversion Hb as [|? ? Hs Hb']; subst.
      destruct (IHs Hs) as [P1 L1]. destruct (IHb IHb' Hb') as [P2 L2].
      cbn [flat_map]. split.
      - apply piece_app; auto. rewrite L1. reflexivity.
      - destruct (flat_map print_stmt b) as [|t0 r0] eqn:E.
        + rewrite app_nil_r. exact L1.
        + rewrite last_app_cons. exact L2. }
    destruct Hbody as [P L].
    apply piece_app; [exact P|split; [wf_list|reflexivity]|].
    rewrite L. reflexivity.
Qed.

Lemma piece_stmts l : Forall stmt_ok l ->
  piece_ok (flat_map print_stmt l) /\ last (flat_map print_stmt l) TNl = TNl.
Proof.
  induction 1 as [|s l Hs Hl IH]; [split; [split; [constructor|reflexivity]|reflexivity]|].
  destruct (piece_stmt s Hs) as [P1 L1]. destruct IH as [P2 L2].
  cbn [flat_map]. split.
  - apply piece_app; auto. rewrite L1. reflexivity.
  - destruct (flat_map print_stmt l) as [|t0 r0] eqn:E.
    + rewrite app_nil_r. exact L1.
    + rewrite last_app_cons. exact L2.
Qed.

Lemma piece_graph g : graph_ok g -> piece_ok (print_graph g).
Proof.
  intros [Hn Hb]. destruct kw_ok as (Kg & Ks & Kd). unfold print_graph.
  destruct (piece_stmts (gbody g) Hb) as [P L].
  apply piece_app; [split; [wf_list|reflexivity]| |reflexivity].
  apply piece_app; [exact P|split; [wf_list|reflexivity]|].
  rewrite L. reflexivity.
Qed.

(* the export, as bytes, reads back as the abstract graph it was printed from *)
Theorem parse_render_print g : graph_ok g -> parse (render (print_graph g)) = Some g.
Proof.
  intros Hok. destruct (piece_graph g Hok) as [Hwf Hsep].
  unfold parse. rewrite (lex_render _ Hwf Hsep), strip_graph.
  apply parse_tokens_tk. destruct Hok as [_ Hb].
  unfold graph_wf. rewrite Forall_forall in *. intros s Hs. apply stmt_ok_wf. auto.
Qed.
