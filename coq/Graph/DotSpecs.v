(* Executable statements of C20, evaluated on the implementation's outputs. *)
From AJ Require Import Common.Util Graph.GModel Graph.GSpecs Graph.Dot.

Definition aval_eqb (a b : aval) : bool :=
  match a, b with
  | VId x, VId y => bytes_eqb x y
  | VStr x, VStr y => bytes_eqb x y
  | _, _ => false
  end.

Fixpoint attrs_eqb (a b : list attr) : bool :=
  match a, b with
  | [], [] => true
  | (k, v) :: a', (k', v') :: b' => bytes_eqb k k' && aval_eqb v v' && attrs_eqb a' b'
  | _, _ => false
  end.

Fixpoint stmt_eqb (s1 s2 : stmt) : bool :=
  match s1, s2 with
  | SAssign k v, SAssign k' v' => bytes_eqb k k' && bytes_eqb v v'
  | SGraph a, SGraph a' => attrs_eqb a a'
  | SNode i a, SNode i' a' => bytes_eqb i i' && attrs_eqb a a'
  | SEdge s d a, SEdge s' d' a' => bytes_eqb s s' && bytes_eqb d d' && attrs_eqb a a'
  | SSub n b, SSub n' b' =>
      bytes_eqb n n' &&
      (fix go (l1 l2 : list stmt) : bool :=
         match l1, l2 with
         | [], [] => true
         | x :: l1', y :: l2' => stmt_eqb x y && go l1' l2'
         | _, _ => false
         end) b b'
  | _, _ => false
  end.

Fixpoint stmts_eqb (l1 l2 : list stmt) : bool :=
  match l1, l2 with
  | [], [] => true
  | x :: l1', y :: l2' => stmt_eqb x y && stmts_eqb l1' l2'
  | _, _ => false
  end.

Definition graph_eqb (g1 g2 : graph) : bool :=
  bytes_eqb (gname g1) (gname g2) && stmts_eqb (gbody g1) (gbody g2).

(* [out]: what dot_format() returned, None if it raised.  The export must parse (in the DOT
   subset) to exactly the abstract graph of the tree; it must raise exactly when the model
   does. *)
Definition c20_spec_b (rq : rmap) (inf : infos) (t : jtree) (out : option bytes) : bool :=
  match dot_ast rq inf t, out with
  | Ok g, Some b => match parse b with Some g' => graph_eqb g' g | None => false end
  | Err _, None => true
  | _, _ => false
  end.

(* ---------- list() ---------- *)
(* a printed line: kind, job, printed id, depth ('>' count; for an end line '<' count minus 1) *)
Definition lrow := (lkind * nat * nat * nat)%type.

Definition row_of (x : lline * nat) : lrow := (lkind_of (fst x), ljob (fst x), snd x, ldepth (fst x)).

(* (child, parent, child is a scheduler) for every job below the root *)
Fixpoint family (t : jtree) : list (nat * nat * bool) :=
  match t with
  | Atom _ => []
  | Sched i kids => map (fun k => (tid k, i, is_sched k)) kids ++ flat_map family kids
  end.

Definition is_child (fam : list (nat * nat * bool)) (p c : nat) (sched : bool) : bool :=
  existsb (fun x => match x with (c', p', s') => Nat.eqb c c' && Nat.eqb p p' && Bool.eqb s' sched end) fam.

(* the lines are a well-bracketed walk of the tree: every line sits directly under the scheduler
   whose header is the innermost open one, at the depth of the nesting *)
Fixpoint walk_lines (fam : list (nat * nat * bool)) (root : nat) (stack : list nat) (ls : list lrow)
  : bool :=
  match ls with
  | [] => is_nil stack
  | (k, j, _, d) :: ls' =>
      match k with
      | LJob => Nat.eqb d (length stack) && is_child fam (hd root stack) j false
                && walk_lines fam root stack ls'
      | LBegin => Nat.eqb d (length stack) && is_child fam (hd root stack) j true
                  && walk_lines fam root (j :: stack) ls'
      | LEnd => match stack with
                | s :: st' => Nat.eqb s j && Nat.eqb d (length st') && walk_lines fam root st' ls'
                | [] => false
                end
      end
  end.

Definition is_end (r : lrow) : bool := match r with (LEnd, _, _, _) => true | _ => false end.
Definition row_job (r : lrow) : nat := match r with (_, j, _, _) => j end.
Definition row_id (r : lrow) : nat := match r with (_, _, i, _) => i end.

Fixpoint row_id_of (ls : list lrow) (j : nat) : nat :=
  match ls with
  | [] => 0
  | r :: ls' => if negb (is_end r) && Nat.eqb (row_job r) j then row_id r else row_id_of ls' j
  end.

(* numbering increases along every requirement between two jobs of the same scheduler *)
Fixpoint req_order_ok (rq : rmap) (idof : nat -> nat) (t : jtree) : bool :=
  match t with
  | Atom _ => true
  | Sched _ kids =>
      forallb (fun k => forallb (fun r => negb (memb r (map tid kids)) || (idof r <? idof (tid k)))
                                (rq (tid k))) kids
      && forallb (req_order_ok rq idof) kids
  end.

Definition c20_list_spec_b (rq : rmap) (t : jtree) (out : option (list lrow)) : bool :=
  match out with
  | None => match list_model rq t with None => true | Some _ => false end
  | Some ls =>
      let heads := filter (fun r => negb (is_end r)) ls in
      (* every job of the tree exactly once *)
      nodup_b (map row_job heads) && same_set (map row_job heads) (below t)
      (* numbered 1, 2, 3 ... in the order of the lines *)
      && list_eqb (map row_id heads) (seq 1 (length heads))
      && forallb (fun r => negb (is_end r) || Nat.eqb (row_id r) (row_id_of ls (row_job r))) ls
      (* nested as the schedulers are *)
      && walk_lines (family t) (tid t) [] ls
      (* in topological order *)
      && req_order_ok rq (row_id_of ls) t
  end.
