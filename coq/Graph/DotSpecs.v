(* Executable statements of C20, evaluated on the implementation's outputs. *)
From Coq Require Import Permutation.
From AJ Require Import Common.Util Graph.GModel Graph.Sanitize Graph.Topo Graph.GSpecs Graph.Dot
  Graph.DotLex Graph.DotProofs.

Definition aval_eqb (a b : aval) : bool :=
  match a, b with
  | VId x, VId y => bytes_eqb x y
  | VStr x, VStr y => bytes_eqb x y
  | _, _ => false
  end.

Fixpoint attrs_eqb (a b : list attr) : bool :=
  match a, b with
  | [], [] => true
  | (k, v) :: a', (k', v') :: b' => bytes_eqb k k' && aval_eqb v v' && attrs_eqb a' b'
  | _, _ => false
  end.

Fixpoint stmt_eqb (s1 s2 : stmt) : bool :=
  match s1, s2 with
  | SAssign k v, SAssign k' v' => bytes_eqb k k' && bytes_eqb v v'
  | SGraph a, SGraph a' => attrs_eqb a a'
  | SNode i a, SNode i' a' => bytes_eqb i i' && attrs_eqb a a'
  | SEdge s d a, SEdge s' d' a' => bytes_eqb s s' && bytes_eqb d d' && attrs_eqb a a'
  | SSub n b, SSub n' b' =>
      bytes_eqb n n' &&
      (fix go (l1 l2 : list stmt) : bool :=
         match l1, l2 with
         | [], [] => true
         | x :: l1', y :: l2' => stmt_eqb x y && go l1' l2'
         | _, _ => false
         end) b b'
  | _, _ => false
  end.

Fixpoint stmts_eqb (l1 l2 : list stmt) : bool :=
  match l1, l2 with
  | [], [] => true
  | x :: l1', y :: l2' => stmt_eqb x y && stmts_eqb l1' l2'
  | _, _ => false
  end.

Definition graph_eqb (g1 g2 : graph) : bool :=
  bytes_eqb (gname g1) (gname g2) && stmts_eqb (gbody g1) (gbody g2).

(* [out]: what dot_format() returned, None if it raised.  The export must parse (in the DOT
   subset) to exactly the abstract graph of the tree; it must raise exactly when the model
   does. *)
Definition c20_spec_b (rq : rmap) (inf : infos) (t : jtree) (out : option bytes) : bool :=
  match dot_ast rq inf t, out with
  | Ok g, Some b => match parse b with Some g' => graph_eqb g' g | None => false end
  | Err _, None => true
  | _, _ => false
  end.


Lemma bytes_eqb_refl a : bytes_eqb a a = true.
Proof. induction a as [|x a IH]; [reflexivity|]. cbn. rewrite N.eqb_refl, IH. reflexivity. Qed.

Lemma aval_eqb_refl a : aval_eqb a a = true.
Proof. destruct a; apply bytes_eqb_refl. Qed.

Lemma attrs_eqb_refl a : attrs_eqb a a = true.
Proof.
  induction a as [|[k v] a IH]; [reflexivity|]. cbn. rewrite bytes_eqb_refl, aval_eqb_refl, IH. reflexivity.
Qed.

Lemma stmt_eqb_refl s : stmt_eqb s s = true.
Proof.
  induction s as [k v|a|i a|x y a|n b IH] using stmt_ind2; cbn [stmt_eqb];
    rewrite ?bytes_eqb_refl, ?attrs_eqb_refl; try reflexivity.
  cbn [andb]. induction IH as [|s b Hs Hb IHb]; [reflexivity|]. rewrite Hs, IHb. reflexivity.
Qed.

Lemma stmts_eqb_refl l : stmts_eqb l l = true.
Proof. induction l as [|s l IH]; [reflexivity|]. cbn. rewrite stmt_eqb_refl, IH. reflexivity. Qed.

Lemma graph_eqb_refl g : graph_eqb g g = true.
Proof. unfold graph_eqb. rewrite bytes_eqb_refl, stmts_eqb_refl. reflexivity. Qed.

Definition model_out (rq : rmap) (inf : infos) (t : jtree) : option bytes :=
  match dot_bytes rq inf t with Ok b => Some b | Err _ => None end.

(* the model's own export satisfies the statement: by the byte-level round trip *)
Theorem c20_spec_model rq inf t : labels_ok inf ->
  c20_spec_b rq inf t (model_out rq inf t) = true.
Proof.
  intros Hlab. unfold c20_spec_b, model_out.
  destruct (dot_ast rq inf t) as [g|e] eqn:E.
  - destruct (dot_roundtrip rq inf t g Hlab E) as [-> ->]. apply graph_eqb_refl.
  - unfold dot_bytes, dot_tokens. rewrite E. reflexivity.
Qed.

(* ---------- list() ---------- *)
(* a printed line: kind, job, printed id, depth ('>' count; for an end line '<' count minus 1) *)
Definition lrow := (lkind * nat * nat * nat)%type.

Definition row_of (x : lline * nat) : lrow := (lkind_of (fst x), ljob (fst x), snd x, ldepth (fst x)).

(* (child, parent, child is a scheduler) for every job below the root *)
Fixpoint family (t : jtree) : list (nat * nat * bool) :=
  match t with
  | Atom _ => []
  | Sched i kids => map (fun k => (tid k, i, is_sched k)) kids ++ flat_map family kids
  end.

Definition is_child (fam : list (nat * nat * bool)) (p c : nat) (sched : bool) : bool :=
  existsb (fun x => match x with (c', p', s') => Nat.eqb c c' && Nat.eqb p p' && Bool.eqb s' sched end) fam.

(* the lines are a well-bracketed walk of the tree: every line sits directly under the scheduler
   whose header is the innermost open one, at the depth of the nesting *)
Fixpoint walk_lines (fam : list (nat * nat * bool)) (root : nat) (stack : list nat) (ls : list lrow)
  : bool :=
  match ls with
  | [] => is_nil stack
  | (k, j, _, d) :: ls' =>
      match k with
      | LJob => Nat.eqb d (length stack) && is_child fam (hd root stack) j false
                && walk_lines fam root stack ls'
      | LBegin => Nat.eqb d (length stack) && is_child fam (hd root stack) j true
                  && walk_lines fam root (j :: stack) ls'
      | LEnd => match stack with
                | s :: st' => Nat.eqb s j && Nat.eqb d (length st') && walk_lines fam root st' ls'
                | [] => false
                end
      end
  end.

Definition is_end (r : lrow) : bool := match r with (LEnd, _, _, _) => true | _ => false end.
Definition row_job (r : lrow) : nat := match r with (_, j, _, _) => j end.
Definition row_id (r : lrow) : nat := match r with (_, _, i, _) => i end.

Fixpoint row_id_of (ls : list lrow) (j : nat) : nat :=
  match ls with
  | [] => 0
  | r :: ls' => if negb (is_end r) && Nat.eqb (row_job r) j then row_id r else row_id_of ls' j
  end.

(* numbering increases along every requirement between two jobs of the same scheduler *)
Fixpoint req_order_ok (rq : rmap) (idof : nat -> nat) (t : jtree) : bool :=
  match t with
  | Atom _ => true
  | Sched _ kids =>
      forallb (fun k => forallb (fun r => negb (memb r (map tid kids)) || (idof r <? idof (tid k)))
                                (rq (tid k))) kids
      && forallb (req_order_ok rq idof) kids
  end.

Definition c20_list_spec_b (rq : rmap) (t : jtree) (out : option (list lrow)) : bool :=
  match out with
  | None => match list_model rq t with None => true | Some _ => false end
  | Some ls =>
      let heads := filter (fun r => negb (is_end r)) ls in
      (* every job of the tree exactly once *)
      nodup_b (map row_job heads) && same_set (map row_job heads) (below t)
      (* numbered 1, 2, 3 ... in the order of the lines *)
      && list_eqb (map row_id heads) (seq 1 (length heads))
      && forallb (fun r => negb (is_end r) || Nat.eqb (row_id r) (row_id_of ls (row_job r))) ls
      (* nested as the schedulers are *)
      && walk_lines (family t) (tid t) [] ls
      (* in topological order *)
      && req_order_ok rq (row_id_of ls) t
  end.

(* ---- the model's own listing satisfies the statement ---- *)

Lemma is_end_row x : is_end (row_of x) = is_end_line (fst x).
Proof. destruct x as [[k j d] n]. destruct k; reflexivity. Qed.

Lemma heads_rows L :
  filter (fun r => negb (is_end r)) (map row_of L) = map row_of (head_rows L).
Proof.
  unfold head_rows. rewrite filter_map_comm. f_equal; try (apply filter_ext; intros x;
  rewrite is_end_row; reflexivity).
Qed.

Lemma row_job_of x : row_job (row_of x) = ljob (fst x).
Proof. destruct x as [[k j d] n]. reflexivity. Qed.
Lemma row_id_of_row x : row_id (row_of x) = snd x.
Proof. destruct x as [[k j d] n]. reflexivity. Qed.

Lemma is_child_In fam p c s : In (c, p, s) fam -> is_child fam p c s = true.
Proof.
  intros H. unfold is_child. apply existsb_exists. exists (c, p, s). split; [exact H|].
  rewrite !Nat.eqb_refl, eqb_reflx. reflexivity.
Qed.

Lemma family_kid i kids k : In k kids -> In (tid k, i, is_sched k) (family (Sched i kids)).
Proof. intros H. cbn [family]. apply in_app_iff. left. apply in_map_iff. exists k. auto. Qed.

Lemma family_incl i kids k : In k kids -> incl (family k) (family (Sched i kids)).
Proof.
  intros H x Hx. cbn [family]. apply in_app_iff. right. apply in_flat_map. exists k. auto.
Qed.

Lemma walk_lines_model rq (idf : nat -> nat) t : forall d l, list_lines_at rq d t = Some l ->
  forall fam root stack rest, incl (family t) fam -> d = length stack -> hd root stack = tid t ->
  walk_lines fam root stack (map (fun x => row_of (x, idf (ljob x))) l ++ rest)
  = walk_lines fam root stack rest.
Proof.
  induction t as [i|i kids IH] using jtree_ind2; intros d l H fam root stack rest Hfam Hd Hhd.
  - cbn in H. inversion H. reflexivity.
  - cbn [list_lines_at] in H. destruct (topo rq (map tid kids)) as [order r].
    destruct (tres_eqb r TOk); [|discriminate].
    apply oconcat_map_Some in H. destruct H as (bs & HF & ->). cbn [tid] in Hhd.
    induction HF as [|j pj ord bs Hj HF IHF]; [reflexivity|].
    cbn [concat]. rewrite map_app, <- app_assoc.
    rewrite lookup_app_find in Hj. destruct (find_kid j kids) as [k|] eqn:Ef; [|discriminate].
    cbn [option_map join_opt] in Hj. destruct (find_kid_In _ _ _ Ef) as [Hin Ht].
    pose proof (is_child_In fam i (tid k) (is_sched k) (Hfam _ (family_kid i kids k Hin))) as Hch.
    destruct k as [a|a ks]; cbn [own_lines tid is_sched] in *.
    + inversion Hj; subst pj. cbn [map app row_of fst snd lkind_of ljob ldepth walk_lines].
      rewrite Hhd, Hch, Hd, Nat.eqb_refl. cbn [andb]. exact IHF.
    + destruct (list_lines_at rq (S d) (Sched a ks)) as [lk|] eqn:El; [|discriminate].
      inversion Hj; subst pj. cbn [map app row_of fst snd lkind_of ljob ldepth walk_lines].
      rewrite Hhd, Hch, Hd, Nat.eqb_refl. cbn [andb]. rewrite map_app, <- app_assoc.
      rewrite Forall_forall in IH.
      assert (Hfam' : incl (family (Sched a ks)) fam)
        by (intros x Hx; apply Hfam; eapply family_incl; eauto).
      assert (Hd' : S d = length (a :: stack)) by (cbn [length]; rewrite Hd; reflexivity).
      rewrite (IH _ Hin (S d) lk El fam root (a :: stack) _ Hfam' Hd' eq_refl).
      cbn [map app row_of fst snd lkind_of ljob ldepth walk_lines].
      rewrite ?Hd, !Nat.eqb_refl. cbn [andb]. exact IHF.
Qed.

Lemma row_id_of_spec (f : nat -> nat) ls j :
  (forall r, In r ls -> row_id r = f (row_job r)) ->
  (exists r, In r ls /\ is_end r = false /\ row_job r = j) -> row_id_of ls j = f j.
Proof.
  intros Hall (r & Hin & He & Hj). induction ls as [|x ls IH]; [destruct Hin|].
  cbn [row_id_of]. destruct (negb (is_end x) && Nat.eqb (row_job x) j) eqn:E.
  - apply andb_true_iff in E. destruct E as [_ E]. apply Nat.eqb_eq in E. rewrite <- E.
    apply Hall. left. reflexivity.
  - destruct Hin as [->|Hin].
    + rewrite He, Hj, Nat.eqb_refl in E. discriminate.
    + apply IH; auto. intros y Hy. apply Hall. right. exact Hy.
Qed.

Lemma req_order_ok_intro rq idof t :
  (forall j r, sib_req rq t j r -> idof r < idof j) -> req_order_ok rq idof t = true.
Proof.
  induction t as [i|i kids IH] using jtree_ind2; intros H; [reflexivity|].
  cbn [req_order_ok]. apply andb_true_iff. split.
  - apply forallb_forall. intros k Hk. apply forallb_forall. intros r Hr.
    destruct (memb r (map tid kids)) eqn:Em; [|reflexivity]. cbn [negb orb].
    apply Nat.ltb_lt. apply H. cbn [sib_req]. left. apply memb_In in Em.
    repeat split; auto. apply in_map. exact Hk.
  - apply forallb_forall. intros k Hk. rewrite Forall_forall in IH. apply IH; auto.
    intros j r Hs. apply H. cbn [sib_req]. right. apply sib_req_Exists. exists k. auto.
Qed.

Lemma end_line_job rq t : forall d l y, list_lines_at rq d t = Some l -> In y l ->
  In (ljob y) (walk rq t).
Proof.
  intros d l y H Hy. rewrite <- (list_lines_walk rq t d l H).
  revert d l H Hy. induction t as [i|i kids IH] using jtree_ind2; intros d l H Hy.
  - cbn in H. inversion H; subst. destruct Hy.
  - cbn [list_lines_at] in H. destruct (topo rq (map tid kids)) as [order r].
    destruct (tres_eqb r TOk); [|discriminate].
    apply oconcat_map_Some in H. destruct H as (bs & HF & ->).
    induction HF as [|j pj ord bs Hj HF IHF]; [destruct Hy|].
    cbn [concat] in *. rewrite heads_app, map_app. apply in_app_iff.
    apply in_app_iff in Hy. destruct Hy as [Hy|Hy]; [left|right; auto].
    rewrite lookup_app_find in Hj. destruct (find_kid j kids) as [k|] eqn:Ef; [|discriminate].
    cbn [option_map join_opt] in Hj. destruct (find_kid_In _ _ _ Ef) as [Hin Ht].
    destruct k as [a|a ks]; cbn [own_lines] in Hj.
    + inversion Hj; subst pj. destruct Hy as [<-|[]]. left. reflexivity.
    + destruct (list_lines_at rq (S d) (Sched a ks)) as [lk|] eqn:El; [|discriminate].
      inversion Hj; subst pj. unfold heads. cbn [filter is_end_line lkind_of negb map ljob].
      destruct Hy as [<-|Hy]; [left; reflexivity|].
      apply in_app_iff in Hy. destruct Hy as [Hy|[<-|[]]]; [|left; reflexivity].
      right. rewrite filter_app, map_app. apply in_app_iff. left.
      rewrite Forall_forall in IH. apply (IH _ Hin (S d) lk El Hy).
Qed.

Theorem c20_list_spec_model rq t : tree_wf rq t -> unique_jobs t ->
  c20_list_spec_b rq t (option_map (map row_of) (list_model rq t)) = true.
Proof.
  intros Hwf Hu. destruct (list_model rq t) as [L|] eqn:EL; cbn [option_map c20_list_spec_b];
    [|rewrite EL; reflexivity].
  destruct (list_numbered rq t L Hwf Hu EL) as (Hw & Hp & Hnd & Hs).
  unfold list_model in EL. destruct (set_ids rq t) as [[ids nxt]|] eqn:Es; [|discriminate].
  destruct (list_lines_at rq 0 t) as [l|] eqn:El; [|discriminate]. inversion EL; subst L. clear EL.
  set (L := map (fun x => (x, assoc_id ids (ljob x))) l) in *.
  rewrite heads_rows, !map_map.
  assert (Ej : map (fun x => row_job (row_of x)) (head_rows L) = map (fun x => ljob (fst x)) (head_rows L))
    by (apply map_ext; intros x; apply row_job_of).
  assert (Ei : map (fun x => row_id (row_of x)) (head_rows L) = map snd (head_rows L))
    by (apply map_ext; intros x; apply row_id_of_row).
  rewrite Ej, Ei, map_length.
  assert (Hrows : forall r, In r (map row_of L) -> row_id r = assoc_id ids (row_job r)).
  { intros r Hr. apply in_map_iff in Hr. destruct Hr as (x & <- & Hx).
    unfold L in Hx. apply in_map_iff in Hx. destruct Hx as (y & <- & _).
    rewrite row_id_of_row, row_job_of. reflexivity. }
  assert (Hhead : forall j, In j (below t) ->
            exists r, In r (map row_of L) /\ is_end r = false /\ row_job r = j).
  { intros j Hj. apply (Permutation_in _ (Permutation_sym Hp)) in Hj.
    apply in_map_iff in Hj. destruct Hj as (x & <- & Hx). unfold head_rows in Hx.
    apply filter_In in Hx. destruct Hx as [Hx Hne]. exists (row_of x).
    split; [apply in_map; exact Hx|]. split; [|apply row_job_of].
    rewrite is_end_row. apply negb_true_iff. exact Hne. }
  rewrite !andb_true_iff. split; [split; [split; [split; [split|]|]|]|].
  - apply nodup_b_spec. exact Hnd.
  - unfold same_set. apply andb_true_iff. split; apply subset_b_spec; intros x Hx.
    + apply (Permutation_in _ Hp). exact Hx.
    + apply (Permutation_in _ (Permutation_sym Hp)). exact Hx.
  - apply list_eqb_eq. exact Hs.
  - apply forallb_forall. intros r Hr. destruct (is_end r) eqn:Ee; [|reflexivity]. cbn [negb orb].
    apply Nat.eqb_eq. rewrite (row_id_of_spec (assoc_id ids) _ (row_job r) Hrows).
    + apply Hrows. exact Hr.
    + apply Hhead.
      (* an end line belongs to a scheduler of the tree *)
      apply in_map_iff in Hr. destruct Hr as (x & <- & Hx). rewrite row_job_of.
      rewrite is_end_row in Ee. unfold L in Hx. apply in_map_iff in Hx.
      destruct Hx as (y & <- & Hy). cbn [fst] in *.
      apply (Permutation_in _ Hp). rewrite Hw.
      eapply end_line_job; eauto.
  - unfold L. rewrite map_map.
    pose proof (walk_lines_model rq (assoc_id ids) t 0 l El (family t) (tid t) [] []
                  (incl_refl _) eq_refl eq_refl) as W.
    rewrite app_nil_r in W. exact W.
  - apply req_order_ok_intro. intros j r Hsr.
    assert (Hb : In j (below t) /\ In r (below t)).
    { clear -Hsr. induction t as [i|i kids IH] using jtree_ind2; [destruct Hsr|].
      cbn [sib_req] in Hsr. unfold below. cbn [kids_of].
      destruct Hsr as [(Hj & Hr & _)|Hsr].
      - split; apply in_flat_map.
        + apply in_map_iff in Hj. destruct Hj as (k & <- & Hk). exists k. split; auto.
          rewrite tree_ids_below. left. reflexivity.
        + apply in_map_iff in Hr. destruct Hr as (k & <- & Hk). exists k. split; auto.
          rewrite tree_ids_below. left. reflexivity.
      - apply sib_req_Exists in Hsr. destruct Hsr as (k & Hk & Hs).
        rewrite Forall_forall in IH. destruct (IH k Hk Hs) as [H1 H2].
        split; apply in_flat_map; exists k; (split; [exact Hk|]); rewrite tree_ids_below; right; assumption. }
    destruct Hb as [Hbj Hbr].
    rewrite (row_id_of_spec (assoc_id ids) _ j Hrows (Hhead j Hbj)).
    rewrite (row_id_of_spec (assoc_id ids) _ r Hrows (Hhead r Hbr)).
    eapply ids_topological; eauto.
Qed.
