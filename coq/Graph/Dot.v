(* C20 (DOT export): placeholder *)
From AJ Require Import Common.Util Graph.GModel.
