(* Model G, part 3b: dot_format() and list().  Executable definitions only; proofs are in
   DotLex.v (lexer / parser round trip) and DotProofs.v (structure of the exported graph).

   Python's [str] is modelled as the list of its UTF-8 bytes, a byte as an [N].

   Mirrors asynciojobs/purescheduler.py (dot_format 1297-1329, _dot_body 1331-1396,
   _middle_entry_job / _middle_exit_job 578-629, entry_jobs / exit_jobs 373-410, _backlinks,
   _set_sched_ids 1120-1142, list 1161-1173), scheduler.py (_list 172-193, dot_cluster_name,
   _set_sched_id), job.py (_list, dot_style 259-297, _get_graph_label, _get_text_label,
   repr_id) and dotstyle.py (protect, value, __repr__). *)
From AJ Require Import Common.Util Graph.GModel.
From Coq Require String Ascii.

Definition byte := N.
Definition bytes := list N.

Definition bs (s : String.string) : bytes :=
  map Ascii.N_of_ascii (String.list_ascii_of_string s).
Import String.StringSyntax.
Local Open Scope string_scope.

Fixpoint bytes_eqb (a b : bytes) : bool :=
  match a, b with
  | [], [] => true
  | x :: a', y :: b' => N.eqb x y && bytes_eqb a' b'
  | _, _ => false
  end.

(* ------------------------------------------------------------------ *)
(* Tokens and rendering.  White space is explicit so that [render] is plain concatenation and
   the token list mirrors the format strings of _dot_body character by character. *)

Inductive token :=
| TId (s : bytes)            (* identifier or numeral, as written *)
| TStr (s : bytes)           (* double-quoted string; [s] is the content before escaping *)
| TLBrace | TRBrace | TLBrack | TRBrack | TEq | TComma | TSemi | TArrow
| TSp | TNl.

(* DotStyle.protect: string.replace('"', r'\"') then wrap in double quotes *)
Fixpoint escape (s : bytes) : bytes :=
  match s with
  | [] => []
  | c :: s' => if N.eqb c 34 then 92%N :: 34%N :: escape s' else c :: escape s'
  end.

Definition protect (s : bytes) : bytes := 34%N :: escape s ++ [34%N].

Definition render_tok (t : token) : bytes :=
  match t with
  | TId s => s
  | TStr s => protect s
  | TLBrace => [123%N] | TRBrace => [125%N] | TLBrack => [91%N] | TRBrack => [93%N]
  | TEq => [61%N] | TComma => [44%N] | TSemi => [59%N] | TArrow => [45%N; 62%N]
  | TSp => [32%N] | TNl => [10%N]
  end.

Definition render (ts : list token) : bytes := flat_map render_tok ts.

Definition is_ws_tok (t : token) : bool := match t with TSp | TNl => true | _ => false end.
Definition strip_ws (ts : list token) : list token := filter (fun t => negb (is_ws_tok t)) ts.

(* ------------------------------------------------------------------ *)
(* Abstract syntax of the DOT subset that dot_format emits. *)

Inductive aval := VId (s : bytes) | VStr (s : bytes).
Definition attr := (bytes * aval)%type.

Inductive stmt :=
| SAssign (k v : bytes)                       (* compound=true; *)
| SGraph (a : list attr)                      (* graph [k="v",...]; *)
| SNode (id : bytes) (a : list attr)          (* id [k="v",...] *)
| SEdge (src dst : bytes) (a : list attr)     (* src -> dst;   src -> dst [k=v k=v]; *)
| SSub (name : bytes) (body : list stmt).     (* subgraph name{ ... } *)

Record graph := { gname : bytes; gbody : list stmt }.

Definition kw_digraph : bytes := Eval compute in bs "digraph".
Definition kw_subgraph : bytes := Eval compute in bs "subgraph".
Definition kw_graph : bytes := Eval compute in bs "graph".

(* ---- printer: the format strings of _dot_body and DotStyle.__repr__ *)

Definition print_val (v : aval) : token := match v with VId s => TId s | VStr s => TStr s end.
Definition print_attr (a : attr) : list token := [TId (fst a); TEq; print_val (snd a)].

(* ",".join(...) / " ".join(...) *)
Fixpoint print_attrs (sep : token) (l : list attr) : list token :=
  match l with
  | [] => []
  | [a] => print_attr a
  | a :: l' => print_attr a ++ sep :: print_attrs sep l'
  end.

Fixpoint print_stmt (s : stmt) : list token :=
  match s with
  | SAssign k v => [TId k; TEq; TId v; TSemi; TNl]
  | SGraph a => [TId kw_graph; TSp; TLBrack] ++ print_attrs TComma a ++ [TRBrack; TSemi; TNl]
  | SNode id a => [TId id; TSp; TLBrack] ++ print_attrs TComma a ++ [TRBrack; TNl]
  | SEdge s d [] => [TId s; TSp; TArrow; TSp; TId d; TSemi; TNl]
  | SEdge s d a => [TId s; TSp; TArrow; TSp; TId d; TSp; TLBrack] ++ print_attrs TSp a
                   ++ [TRBrack; TSemi; TNl]
  | SSub name body => [TId kw_subgraph; TSp; TId name; TLBrace; TNl]
                      ++ flat_map print_stmt body ++ [TRBrace; TNl]
  end.

Definition print_graph (g : graph) : list token :=
  [TId kw_digraph; TSp; TId (gname g); TLBrace; TNl]
  ++ flat_map print_stmt (gbody g) ++ [TRBrace; TNl].

(* ------------------------------------------------------------------ *)
(* Lexer: a finite-state machine over bytes; white-space tokens are not produced. *)

Definition is_digit (c : N) : bool := N.leb 48 c && N.leb c 57.
Definition is_idchar (c : N) : bool :=
  is_digit c || (N.leb 65 c && N.leb c 90) || (N.leb 97 c && N.leb c 122) || N.eqb c 95.
Definition is_ws (c : N) : bool := N.eqb c 32 || N.eqb c 10 || N.eqb c 9 || N.eqb c 13.

Inductive lstate :=
| LStart
| LId (acc : bytes)          (* reversed *)
| LStr (acc : bytes)         (* inside quotes, reversed content *)
| LEsc (acc : bytes)         (* just after a backslash inside quotes *)
| LMinus.

Definition punct (c : N) : option token :=
  if N.eqb c 123 then Some TLBrace else if N.eqb c 125 then Some TRBrace
  else if N.eqb c 91 then Some TLBrack else if N.eqb c 93 then Some TRBrack
  else if N.eqb c 61 then Some TEq else if N.eqb c 44 then Some TComma
  else if N.eqb c 59 then Some TSemi else None.

Definition step_start (c : N) : option (list token * lstate) :=
  if is_idchar c then Some ([], LId [c])
  else if N.eqb c 34 then Some ([], LStr [])
  else if N.eqb c 45 then Some ([], LMinus)
  else if is_ws c then Some ([], LStart)
  else match punct c with Some t => Some ([t], LStart) | None => None end.

(* In a quoted string DOT knows one escape only: backslash-quote stands for a quote; any other
   backslash is kept together with the character that follows. *)
Definition step (st : lstate) (c : N) : option (list token * lstate) :=
  match st with
  | LStart => step_start c
  | LId acc =>
      if is_idchar c then Some ([], LId (c :: acc))
      else match step_start c with
           | Some (e, st') => Some (TId (rev acc) :: e, st')
           | None => None
           end
  | LStr acc =>
      if N.eqb c 34 then Some ([TStr (rev acc)], LStart)
      else if N.eqb c 92 then Some ([], LEsc acc)
      else Some ([], LStr (c :: acc))
  | LEsc acc =>
      if N.eqb c 34 then Some ([], LStr (34%N :: acc))
      else Some ([], LStr (c :: 92%N :: acc))
  | LMinus => if N.eqb c 62 then Some ([TArrow], LStart) else None
  end.

Fixpoint lex_go (st : lstate) (b : bytes) : option (list token) :=
  match b with
  | [] => match st with
          | LStart => Some []
          | LId acc => Some [TId (rev acc)]
          | _ => None
          end
  | c :: b' =>
      match step st c with
      | None => None
      | Some (e, st') =>
          match lex_go st' b' with
          | None => None
          | Some r => Some (e ++ r)
          end
      end
  end.

Definition lex (b : bytes) : option (list token) := lex_go LStart b.

(* what a DOT reader makes of one quoted string *)
Definition unquote (b : bytes) : option bytes :=
  match lex b with Some [TStr s] => Some s | _ => None end.

(* ------------------------------------------------------------------ *)
(* Parser (recursive descent) on white-space-free token lists. *)

Definition parse_val (t : token) : option aval :=
  match t with TId s => Some (VId s) | TStr s => Some (VStr s) | _ => None end.

Definition skip_comma (ts : list token) : list token :=
  match ts with TComma :: r => r | _ => ts end.
Definition skip_semi (ts : list token) : list token :=
  match ts with TSemi :: r => r | _ => ts end.

(* after '[': a_list with optional single commas, up to and including ']' *)
Fixpoint parse_attrs (fuel : nat) (ts : list token) : option (list attr * list token) :=
  match fuel with
  | 0 => None
  | S f =>
      match ts with
      | TRBrack :: r => Some ([], r)
      | TId k :: TEq :: v :: r =>
          match parse_val v with
          | None => None
          | Some v' =>
              match parse_attrs f (skip_comma r) with
              | Some (a, r') => Some ((k, v') :: a, r')
              | None => None
              end
          end
      | _ => None
      end
  end.

(* one statement that starts with an identifier other than "subgraph" *)
Definition parse_simple (a : bytes) (r : list token) : option (stmt * list token) :=
  if bytes_eqb a kw_graph then
    match r with
    | TLBrack :: r1 =>
        match parse_attrs (S (length r1)) r1 with
        | Some (at_, r2) => Some (SGraph at_, r2)
        | None => None
        end
    | _ => None
    end
  else
    match r with
    | TEq :: TId v :: r1 => Some (SAssign a v, r1)
    | TArrow :: TId d :: TLBrack :: r1 =>
        match parse_attrs (S (length r1)) r1 with
        | Some (at_, r2) => Some (SEdge a d at_, r2)
        | None => None
        end
    | TArrow :: TId d :: r1 => Some (SEdge a d [], r1)
    | TLBrack :: r1 =>
        match parse_attrs (S (length r1)) r1 with
        | Some (at_, r2) => Some (SNode a at_, r2)
        | None => None
        end
    | _ => None
    end.

(* stmt_list up to (not including) the closing brace *)
Fixpoint parse_stmts (fuel : nat) (ts : list token) : option (list stmt * list token) :=
  match fuel with
  | 0 => None
  | S f =>
      match ts with
      | TRBrace :: _ => Some ([], ts)
      | TId a :: r =>
          if bytes_eqb a kw_subgraph then
            match r with
            | TId name :: TLBrace :: r1 =>
                match parse_stmts f r1 with
                | Some (body, TRBrace :: r2) =>
                    match parse_stmts f (skip_semi r2) with
                    | Some (l, r3) => Some (SSub name body :: l, r3)
                    | None => None
                    end
                | _ => None
                end
            | _ => None
            end
          else
            match parse_simple a r with
            | Some (s, r1) =>
                match parse_stmts f (skip_semi r1) with
                | Some (l, r2) => Some (s :: l, r2)
                | None => None
                end
            | None => None
            end
      | _ => None
      end
  end.

Definition parse_tokens (ts : list token) : option graph :=
  match ts with
  | TId d :: TId name :: TLBrace :: r =>
      if bytes_eqb d kw_digraph then
        match parse_stmts (S (length r)) r with
        | Some (b, [TRBrace]) => Some {| gname := name; gbody := b |}
        | _ => None
        end
      else None
  | _ => None
  end.

Definition parse (b : bytes) : option graph :=
  match lex b with Some ts => parse_tokens ts | None => None end.

(* ------------------------------------------------------------------ *)
(* Decimal numerals: str.format("{:0wd}") *)

Fixpoint digits_fuel (fuel n : nat) : bytes :=
  match fuel with
  | 0 => []
  | S f => if n <? 10 then [N.of_nat (48 + n)]
           else digits_fuel f (n / 10) ++ [N.of_nat (48 + n mod 10)]
  end.
Definition digits (n : nat) : bytes := digits_fuel (S n) n.

Definition pad (w : nat) (s : bytes) : bytes := repeat 48%N (w - length s) ++ s.
Definition fmt (w n : nat) : bytes := pad w (digits n).

(* width = 1 if total <= 9 else int(math.log(total-1, 10)) + 1: the number of decimal digits of
   total-1 (floating point: exact for total-1 < 1000; nothing below depends on the value) *)
Definition id_width (total : nat) : nat :=
  if total <=? 9 then 1 else length (digits (total - 1)).

(* ------------------------------------------------------------------ *)
(* What the export looks at besides the tree and the requirements. *)

Record jinfo := { jlabel : option bytes; jcrit : bool; jforever : bool }.
Definition infos := nat -> jinfo.

Inductive derr :=
| ECycle        (* topological_order() raised *)
| ENoEntry      (* ValueError("no entry found") *)
| ENoExit       (* ValueError("no exit found") *)
| ENotClosed.   (* a requirement is not a job of the same scheduler: outside the model *)

Inductive res (A : Type) := Ok (a : A) | Err (e : derr).
Arguments Ok {A} a.
Arguments Err {A} e.

Definition rbind {A B} (r : res A) (f : A -> res B) : res B :=
  match r with Ok a => f a | Err e => Err e end.

Fixpoint rconcat {A} (l : list (res (list A))) : res (list A) :=
  match l with
  | [] => Ok []
  | Ok a :: l' => match rconcat l' with Ok b => Ok (a ++ b) | Err e => Err e end
  | Err e :: _ => Err e
  end.

Fixpoint rmapM {A B} (f : A -> res B) (l : list A) : res (list B) :=
  match l with
  | [] => Ok []
  | a :: l' => match f a with
               | Ok b => match rmapM f l' with Ok bs' => Ok (b :: bs') | Err e => Err e end
               | Err e => Err e
               end
  end.

(* apply [f] to the kid with a given id (keeps recursive calls structural) *)
Section Lookup.
  Context {A : Type}.
  Variable f : jtree -> A.
  Fixpoint lookup_app (ks : list jtree) (j : nat) : option A :=
    match ks with
    | [] => None
    | k :: ks' => if Nat.eqb (tid k) j then Some (f k) else lookup_app ks' j
    end.
End Lookup.

Definition k_style := Eval compute in bs "style".
Definition k_label := Eval compute in bs "label".
Definition k_shape := Eval compute in bs "shape".
Definition k_color := Eval compute in bs "color".
Definition k_penwidth := Eval compute in bs "penwidth".
Definition k_lhead := Eval compute in bs "lhead".
Definition k_ltail := Eval compute in bs "ltail".
Definition k_compound := Eval compute in bs "compound".
Definition v_true := Eval compute in bs "true".
Definition v_box := Eval compute in bs "box".
Definition v_red := Eval compute in bs "red".
Definition v_two := Eval compute in bs "2".
Definition v_half := Eval compute in bs "0.5".
Definition v_rounded := Eval compute in bs "rounded".
Definition v_dashed := Eval compute in bs "dashed".
Definition v_nolabel := Eval compute in bs "NOLABEL".
Definition v_cluster := Eval compute in bs "cluster_".
Definition v_name := Eval compute in bs "asynciojobs".
Definition v_colon := Eval compute in bs ": ".

Fixpoint join_comma (l : list bytes) : bytes :=
  match l with
  | [] => []
  | [a] => a
  | a :: l' => a ++ 44%N :: join_comma l'
  end.

Definition is_nil {A} (l : list A) : bool := match l with [] => true | _ => false end.

Section DotBody.
  Variable rq : rmap.
  Variable inf : infos.
  Variable idf : nat -> bytes.       (* repr_id() of a job, after _set_sched_ids *)

  (* _get_text_label for classes that do not redefine text_label() *)
  Definition text_label (j : nat) : bytes :=
    match jlabel (inf j) with Some l => l | None => v_nolabel end.
  (* _get_graph_label for classes that do not redefine graph_label(); it is never the bare
     string "NOLABEL", so dot_style always sets the label *)
  Definition graph_label (j : nat) : bytes := idf j ++ v_colon ++ text_label j.

  (* AbstractJob.dot_style, in dict insertion order; [atomic] = not isinstance(PureScheduler) *)
  Definition style_attrs (atomic : bool) (j : nat) : list attr :=
    [(k_style, VStr (join_comma ((if atomic then [v_rounded] else [])
                                 ++ (if jforever (inf j) then [v_dashed] else []))));
     (k_label, VStr (graph_label j));
     (k_shape, VStr v_box)]
    ++ (if jcrit (inf j) then [(k_color, VStr v_red); (k_penwidth, VStr v_two)]
        else [(k_penwidth, VStr v_half)]).

  Definition cluster (j : nat) : bytes := v_cluster ++ idf j.

  (* entry_jobs: members without any requirement, in iteration order *)
  Definition entries (ms : list nat) : list nat := filter (fun j => is_nil (rq j)) ms.
  (* after _backlinks: j has a successor iff some member requires it *)
  Definition has_succ (ms : list nat) (j : nat) : bool := existsb (fun k => memb j (rq k)) ms.
  Definition exits (discard : bool) (ms : list nat) : list nat :=
    filter (fun j => negb (discard && jforever (inf j)) && negb (has_succ ms j)) ms.
  (* the "second chance" of _middle_exit_job *)
  Definition exit_cands (ms : list nat) : list nat :=
    match exits true ms with [] => exits false ms | l => l end.
  (* element number (n-1)//2 *)
  Definition middle (l : list nat) : option nat :=
    match l with [] => None | _ => Some (nth (Nat.div2 (length l - 1)) l 0) end.

  Definition flat_res {A} (o : option (res A)) : res A :=
    match o with Some r => r | None => Err ENotClosed end.

  Fixpoint mid_entry (t : jtree) : res nat :=
    match t with
    | Atom i => Ok i
    | Sched _ kids =>
        match middle (entries (map tid kids)) with
        | None => Err ENoEntry
        | Some c => flat_res (lookup_app mid_entry kids c)
        end
    end.

  Fixpoint mid_exit (t : jtree) : res nat :=
    match t with
    | Atom i => Ok i
    | Sched _ kids =>
        match middle (exit_cands (map tid kids)) with
        | None => Err ENoExit
        | Some c => flat_res (lookup_app mid_exit kids c)
        end
    end.

  (* the edge emitted for "k requires r", r a job of the same scheduler *)
  Definition edge_stmt (kids : list jtree) (k : jtree) (r : nat) : res stmt :=
    match find_kid r kids with
    | None => Err ENotClosed
    | Some kr =>
        match k, kr with
        | Atom j, Atom _ => Ok (SEdge (idf r) (idf j) [])
        | Atom j, Sched _ _ =>
            rbind (mid_exit kr) (fun a =>
            Ok (SEdge (idf a) (idf j) [(k_ltail, VId (cluster r))]))
        | Sched j _, Atom _ =>
            rbind (mid_entry k) (fun b =>
            Ok (SEdge (idf r) (idf b) [(k_lhead, VId (cluster j))]))
        | Sched j _, Sched _ _ =>
            rbind (mid_exit kr) (fun a =>
            rbind (mid_entry k) (fun b =>
            Ok (SEdge (idf a) (idf b) [(k_lhead, VId (cluster j)); (k_ltail, VId (cluster r))])))
        end
    end.

  Definition edge_stmts (kids : list jtree) (k : jtree) : res (list stmt) :=
    rmapM (edge_stmt kids k) (rq (tid k)).

  (* the two lines every body starts with *)
  Definition header (a : list attr) : list stmt := [SAssign k_compound v_true; SGraph a].

  Section Level.
    Variable recbody : jtree -> res (list stmt).
    Definition own_stmt (k : jtree) : res stmt :=
      match k with
      | Atom i => Ok (SNode (idf i) (style_attrs true i))
      | Sched i _ =>
          match recbody k with
          | Ok b => Ok (SSub (cluster i) (header (style_attrs false i) ++ b))
          | Err e => Err e
          end
      end.
    Definition job_stmts (kids : list jtree) (j : nat) : res (list stmt) :=
      match flat_res (lookup_app own_stmt kids j) with
      | Err e => Err e
      | Ok s =>
          match find_kid j kids with
          | None => Err ENotClosed
          | Some k => match edge_stmts kids k with Ok es => Ok (s :: es) | Err e => Err e end
          end
      end.
  End Level.

  (* the loop of _dot_body *)
  Fixpoint body (t : jtree) : res (list stmt) :=
    match t with
    | Atom _ => Ok []
    | Sched _ kids =>
        let '(order, r) := topo rq (map tid kids) in
        if tres_eqb r TOk then rconcat (map (job_stmts body kids) order) else Err ECycle
    end.
End DotBody.

Fixpoint assoc_id (l : list (nat * nat)) (j : nat) : nat :=
  match l with
  | [] => 0
  | (k, n) :: l' => if Nat.eqb k j then n else assoc_id l' j
  end.

(* dot_format(): numbering first (raises on any cycle in the tree), then the body *)
Definition dot_ast (rq : rmap) (inf : infos) (t : jtree) : res graph :=
  match set_ids rq t with
  | None => Err ECycle
  | Some (ids, _) =>
      let w := id_width (tree_size t - 1) in
      let idf := fun j => fmt w (assoc_id ids j) in
      match body rq inf idf t with
      | Ok b => Ok {| gname := v_name; gbody := header [] ++ b |}
      | Err e => Err e
      end
  end.

Definition dot_tokens (rq : rmap) (inf : infos) (t : jtree) : res (list token) :=
  match dot_ast rq inf t with Ok g => Ok (print_graph g) | Err e => Err e end.

Definition dot_bytes (rq : rmap) (inf : infos) (t : jtree) : res bytes :=
  match dot_tokens rq inf t with Ok ts => Ok (render ts) | Err e => Err e end.

(* ------------------------------------------------------------------ *)
(* list(): one line per job, a header and an "--end--" line per nested scheduler.
   Columns modelled: the id, the kind of line, the number of '>' (resp. '<' minus one). *)

Inductive lkind := LJob | LBegin | LEnd.
Record lline := { lkind_of : lkind; ljob : nat; ldepth : nat }.

Section ListLines.
  Variable rq : rmap.
  Section Level.
    Variable rec : nat -> jtree -> option (list lline).
    Variable depth : nat.
    Definition own_lines (k : jtree) : option (list lline) :=
      match k with
      | Atom i => Some [{| lkind_of := LJob; ljob := i; ldepth := depth |}]
      | Sched i _ =>
          match rec (S depth) k with
          | Some l => Some ({| lkind_of := LBegin; ljob := i; ldepth := depth |} :: l
                            ++ [{| lkind_of := LEnd; ljob := i; ldepth := depth |}])
          | None => None
          end
      end.
  End Level.

  Fixpoint oconcat {A} (l : list (option (list A))) : option (list A) :=
    match l with
    | [] => Some []
    | Some a :: l' => match oconcat l' with Some b => Some (a ++ b) | None => None end
    | None :: _ => None
    end.

  Definition join_opt {A} (o : option (option A)) : option A :=
    match o with Some r => r | None => None end.

  Fixpoint list_lines_at (depth : nat) (t : jtree) : option (list lline) :=
    match t with
    | Atom _ => Some []
    | Sched _ kids =>
        let '(order, r) := topo rq (map tid kids) in
        if tres_eqb r TOk
        then oconcat (map (fun j => join_opt (lookup_app (own_lines list_lines_at depth) kids j))
                          order)
        else None
    end.
End ListLines.

(* (line, printed id); None when list() raises *)
Definition list_model (rq : rmap) (t : jtree) : option (list (lline * nat)) :=
  match set_ids rq t with
  | None => None
  | Some (ids, _) =>
      match list_lines_at rq 0 t with
      | Some l => Some (map (fun x => (x, assoc_id ids (ljob x))) l)
      | None => None
      end
  end.
