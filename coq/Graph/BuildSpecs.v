(* C19: the executable statement evaluated on the implementation's observed outcome, and the proof
   that the code model's own outcome satisfies it. *)
From AJ Require Import Common.Util Graph.GSpecs Graph.Build Graph.BuildProofs.

Definition err_code (e : option error) : nat :=
  match e with None => 0 | Some KeyError => 1 end.

Definition opt_eqb (a b : option nat) : bool :=
  match a, b with
  | None, None => true
  | Some x, Some y => Nat.eqb x y
  | _, _ => false
  end.

(* [p]: the program; ids of jobs/schedulers are < n, ids of sequences < nq; the o_* are what was
   observed in the implementation after running p (o_err: 0 no exception, 1 KeyError, anything
   else another exception).  True iff that is what the documentation says: same exception, same
   sequences (as lists), same required sets and scheduler contents (as sets). *)
Definition c19_spec_b (p : list stmt) (n nq : nat)
  (o_req o_mem o_seqs : nat -> list nat) (o_ss : nat -> option nat) (o_err : nat) : bool :=
  let st := fst (exec_doc p) in
  Nat.eqb o_err (err_code (snd (exec_doc p)))
  && forallb (fun j => same_set (o_req j) (req st j)) (seqn n)
  && forallb (fun s => same_set (o_mem s) (members st s)) (seqn n)
  && forallb (fun q => list_eqb (o_seqs q) (seqs st q)) (seqn nq)
  && forallb (fun q => opt_eqb (o_ss q) (seq_sched st q)) (seqn nq).

Lemma same_set_seteq l1 l2 : same_set l1 l2 = true <-> seteq l1 l2.
Proof.
  unfold same_set. rewrite andb_true_iff, !subset_b_spec. unfold incl, seteq. split.
  - intros [H1 H2] x. split; auto.
  - intros H. split; intros x Hx; apply H; exact Hx.
Qed.

Lemma opt_eqb_refl o : opt_eqb o o = true.
Proof. destruct o; cbn; [apply Nat.eqb_refl|reflexivity]. Qed.

Lemma opt_eqb_eq a b : opt_eqb a b = true <-> a = b.
Proof.
  destruct a, b; cbn; try (split; congruence).
  rewrite Nat.eqb_eq. split; congruence.
Qed.

(* what the statement says, in Prop *)
Lemma c19_spec_b_spec p n nq o_req o_mem o_seqs o_ss o_err :
  c19_spec_b p n nq o_req o_mem o_seqs o_ss o_err = true <->
  o_err = err_code (snd (exec_doc p)) /\
  (forall j, j < n -> seteq (o_req j) (req (fst (exec_doc p)) j)) /\
  (forall s, s < n -> seteq (o_mem s) (members (fst (exec_doc p)) s)) /\
  (forall q, q < nq -> o_seqs q = seqs (fst (exec_doc p)) q) /\
  (forall q, q < nq -> o_ss q = seq_sched (fst (exec_doc p)) q).
Proof.
  unfold c19_spec_b. rewrite !andb_true_iff, Nat.eqb_eq, !forallb_forall.
  split.
  - intros [[[[H0 H1] H2] H3] H4]. split; [exact H0|]. split; [|split; [|split]].
    + intros j Hj. apply same_set_seteq. apply H1. apply In_seqn. exact Hj.
    + intros j Hj. apply same_set_seteq. apply H2. apply In_seqn. exact Hj.
    + intros q Hq. apply list_eqb_eq. apply H3. apply In_seqn. exact Hq.
    + intros q Hq. apply opt_eqb_eq. apply H4. apply In_seqn. exact Hq.
  - intros (H0 & H1 & H2 & H3 & H4). split; [split; [split; [split|]|]|].
    + exact H0.
    + intros j Hj. apply same_set_seteq. apply H1. apply In_seqn. exact Hj.
    + intros j Hj. apply same_set_seteq. apply H2. apply In_seqn. exact Hj.
    + intros q Hq. apply list_eqb_eq. apply H3. apply In_seqn. exact Hq.
    + intros q Hq. apply opt_eqb_eq. apply H4. apply In_seqn. exact Hq.
Qed.

(* the code model's own outcome satisfies the statement *)
Theorem c19_spec_model p n nq :
  let st := fst (exec_code p) in
  c19_spec_b p n nq (req st) (members st) (seqs st) (seq_sched st)
             (err_code (snd (exec_code p))) = true.
Proof.
  cbv zeta. destruct (C19_agree_main p) as [[E1 E2 E3 E4] He].
  apply c19_spec_b_spec. rewrite He. split; [reflexivity|]. split; [|split; [|split]]; intros; auto.
Qed.
