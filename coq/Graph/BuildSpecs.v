(* C19: the executable statement evaluated on the implementation's observed outcome, and the proof
   that the code model's own outcome satisfies it. *)
From AJ Require Import Common.Util Graph.GSpecs Graph.Build Graph.BuildProofs.

Definition err_code (e : option error) : nat :=
  match e with None => 0 | Some KeyError => 1 end.

Definition opt_eqb (a b : option nat) : bool :=
  match a, b with
  | None, None => true
  | Some x, Some y => Nat.eqb x y
  | _, _ => false
  end.

(* [p]: the program; ids of jobs/schedulers are < n, ids of sequences < nq; the o_* are what was
   observed in the implementation after running p (o_err: 0 no exception, 1 KeyError, anything
   else another exception).  True iff that is what the documentation says: same exception, same
   sequences (as lists), same required sets and scheduler contents (as sets). *)
Definition c19_spec_b (p : list stmt) (n nq : nat)
  (o_req o_mem o_seqs : nat -> list nat) (o_ss : nat -> option nat) (o_err : nat) : bool :=
  let st := fst (exec_doc p) in
  Nat.eqb o_err (err_code (snd (exec_doc p)))
  && forallb (fun j => same_set (o_req j) (req st j)) (seqn n)
  && forallb (fun s => same_set (o_mem s) (members st s)) (seqn n)
  && forallb (fun q => list_eqb (o_seqs q) (seqs st q)) (seqn nq)
  && forallb (fun q => opt_eqb (o_ss q) (seq_sched st q)) (seqn nq).
