(* Proofs about the graph surgery of Surgery.v (property C18). *)
From AJ Require Import Common.Util Graph.GModel Graph.Sanitize Graph.Topo Graph.Queries
  Graph.QueriesP Graph.Surgery.

(* ------------------------------------------------------------------ *)
(* bypass_and_remove: the requirement lists afterwards                  *)

Lemma add_req_spec rq a up d r :
  In r (add_req rq a up d) <-> In r (rq d) \/ (d = a /\ r = up /\ up <> a).
Proof.
  unfold add_req. destruct (Nat.eqb up a) eqn:E.
  - apply Nat.eqb_eq in E. tauto.
  - apply Nat.eqb_neq in E. unfold upd. destruct (Nat.eqb d a) eqn:E2.
    + apply Nat.eqb_eq in E2. subst d. rewrite In_addn. split.
      * intros [->|H]; auto.
      * intros [H|[_ [-> _]]]; auto.
    + apply Nat.eqb_neq in E2. tauto.
Qed.

Lemma relink_inner_spec up downs : forall rq d r,
  In r (fold_left (fun rq down => add_req rq down up) downs rq d) <->
  In r (rq d) \/ (In d downs /\ r = up /\ up <> d).
Proof.
  induction downs as [|a downs IH]; intros rq d r; cbn [fold_left].
  - simpl. tauto.
  - rewrite IH, add_req_spec. simpl. split.
    + intros [[H|[-> [-> H]]]|[H1 [-> H2]]]; auto.
    + intros [H|[[->|H1] [-> H2]]]; auto.
Qed.

Lemma relink_spec ups downs : forall rq d r,
  In r (relink ups downs rq d) <-> In r (rq d) \/ (In d downs /\ In r ups /\ r <> d).
Proof.
  unfold relink. induction ups as [|u ups IH]; intros rq d r; cbn [fold_left].
  - simpl. tauto.
  - rewrite IH, relink_inner_spec. simpl. split.
    + intros [[H|[H1 [-> H2]]]|[H1 [H2 H3]]]; auto.
    + intros [H|[H1 [[->|H2] H3]]]; auto.
Qed.

Lemma unlink_spec j downs : forall rq d r,
  In r (unlink j downs rq d) <-> In r (rq d) /\ (In d downs -> r <> j).
Proof.
  unfold unlink. induction downs as [|a downs IH]; intros rq d r; cbn [fold_left].
  - simpl. tauto.
  - rewrite IH. unfold upd. destruct (Nat.eqb d a) eqn:E.
    + apply Nat.eqb_eq in E. subst d. rewrite In_remv. simpl. tauto.
    + apply Nat.eqb_neq in E. simpl. split.
      * intros [H1 H2]. split; [exact H1|]. intros [H|H]; [congruence | auto].
      * intros [H1 H2]. auto.
Qed.

Lemma downs_of_spec ms rq j d : In d (downs_of ms rq j) <-> In d ms /\ In j (rq d).
Proof. unfold downs_of. rewrite filter_In, memb_In. tauto. Qed.

Theorem bypass_refuses ms rq j : bypass ms rq j = None <-> ~ In j ms.
Proof.
  unfold bypass. destruct (memb j ms) eqn:E.
  - apply memb_In in E. split; [discriminate | tauto].
  - apply memb_false in E. tauto.
Qed.

Lemma bypass_Some ms rq j ms' rq' : bypass ms rq j = Some (ms', rq') ->
  In j ms /\ ms' = remv j ms /\
  rq' = unlink j (downs_of ms rq j) (relink (rq j) (downs_of ms rq j) rq).
Proof.
  unfold bypass. destruct (memb j ms) eqn:E; [|discriminate].
  apply memb_In in E. intros H. inversion H. auto.
Qed.

(* exactly j is removed *)
Theorem bypass_members ms rq j ms' rq' : bypass ms rq j = Some (ms', rq') ->
  forall x, In x ms' <-> In x ms /\ x <> j.
Proof. intros H x. apply bypass_Some in H. destruct H as (_ & -> & _). apply In_remv. Qed.

(* the documented re-linking, and nothing else: a member d that required j gets j's
   requirements (itself excepted) and loses j; every other list is untouched *)
Theorem bypass_rq ms rq j ms' rq' : bypass ms rq j = Some (ms', rq') ->
  forall d r, In r (rq' d) <->
    (In r (rq d) \/ ((In d ms /\ In j (rq d)) /\ In r (rq j) /\ r <> d)) /\
    ((In d ms /\ In j (rq d)) -> r <> j).
Proof.
  intros H d r. apply bypass_Some in H. destruct H as (_ & _ & ->).
  rewrite unlink_spec, relink_spec, downs_of_spec. tauto.
Qed.

(* the set of downstreams is built and iterated internally, in an order that cannot be observed:
   the result does not depend on it (nor on the order of job.required) *)
Theorem bypass_order_independent ms rq j ms' rq' ups downs :
  bypass ms rq j = Some (ms', rq') ->
  (forall x, In x ups <-> In x (rq j)) -> (forall x, In x downs <-> In x (downs_of ms rq j)) ->
  forall d r, In r (unlink j downs (relink ups downs rq) d) <-> In r (rq' d).
Proof.
  intros H Hu Hd d r. rewrite (bypass_rq _ _ _ _ _ H).
  rewrite unlink_spec, relink_spec, !Hd, Hu, downs_of_spec. tauto.
Qed.

Corollary bypass_rq_other ms rq j ms' rq' d : bypass ms rq j = Some (ms', rq') ->
  ~ (In d ms /\ In j (rq d)) -> forall r, In r (rq' d) <-> In r (rq d).
Proof. intros H Hn r. rewrite (bypass_rq _ _ _ _ _ H). tauto. Qed.

(* ------------------------------------------------------------------ *)
(* bypass_and_remove: must-run-before is unchanged                      *)

(* no member other than j both requires j and is required by j (true of every acyclic graph);
   without it the link "d requires d" that would be needed is refused by requires() *)
Definition no2cycle (ms : list nat) (rq : rmap) (j : nat) : Prop :=
  forall d, In d ms -> d <> j -> In j (rq d) -> ~ In d (rq j).

Lemma acyclic_no2cycle ms rq j : In j ms -> acyclic rq ms -> no2cycle ms rq j.
Proof.
  intros Hj [rk Hrk] d Hd Hne H1 H2.
  pose proof (Hrk d j Hd H1 Hj). pose proof (Hrk j d Hj H2 Hd). lia.
Qed.

(* no new ordering appears: every link afterwards was a path before *)
Lemma bypass_link_sound ms rq j ms' rq' : bypass ms rq j = Some (ms', rq') ->
  forall a b, link rq' ms' a b -> reach rq ms a b.
Proof.
  intros H a b [L1 L2]. pose proof (bypass_Some _ _ _ _ _ H) as (Hj & _ & _).
  apply (bypass_members _ _ _ _ _ H) in L2. destruct L2 as [Hb Hbj].
  apply (bypass_rq _ _ _ _ _ H) in L1. destruct L1 as [[L1|[[Ha Haj] [Hr Hne]]] _].
  - apply reach_one. split; auto.
  - eapply reach_step; [split; [exact Haj | exact Hj]|]. apply reach_one. split; auto.
Qed.

Theorem bypass_reach_sound ms rq j ms' rq' : bypass ms rq j = Some (ms', rq') ->
  forall x y, reach rq' ms' x y -> reach rq ms x y.
Proof.
  intros H x y R. induction R as [a b L | a b c L R IH].
  - eapply bypass_link_sound; eauto.
  - eapply reach_trans; [eapply bypass_link_sound; eauto | exact IH].
Qed.

(* every path through j is re-linked *)
Theorem bypass_reach_complete ms rq j ms' rq' : bypass ms rq j = Some (ms', rq') ->
  no2cycle ms rq j ->
  forall x y, reach rq ms x y -> In x ms -> x <> j -> y <> j -> reach rq' ms' x y.
Proof.
  intros H N2.
  assert (Hlink : forall a b, In a ms -> b <> j -> link rq ms a b -> link rq' ms' a b).
  { intros a b Ha Hb [L1 L2]. split.
    - apply (bypass_rq _ _ _ _ _ H). tauto.
    - apply (bypass_members _ _ _ _ _ H). auto. }
  assert (Hjump : forall d u, In d ms -> d <> j -> In j (rq d) -> u <> j -> link rq ms j u ->
                              link rq' ms' d u).
  { intros d u Hd Hdj Hjd Hu [L1 L2]. split.
    - apply (bypass_rq _ _ _ _ _ H). split; [|auto]. right. split; [auto|]. split; [exact L1|].
      intros ->. exact (N2 d Hd Hdj Hjd L1).
    - apply (bypass_members _ _ _ _ _ H). auto. }
  assert (G : forall a y, reach rq ms a y -> y <> j ->
     (a <> j -> In a ms -> reach rq' ms' a y) /\
     (a = j -> forall d, In d ms -> d <> j -> In j (rq d) -> reach rq' ms' d y)).
  { intros a y R. induction R as [a b L | a b c L R IH]; intros Hy.
    - split.
      + intros Ha Hm. apply reach_one. apply Hlink; auto.
      + intros -> d Hd Hdj Hjd. apply reach_one. apply Hjump; auto.
    - destruct (IH Hy) as [IH1 IH2]. assert (Hb : In b ms) by apply L. split.
      + intros Ha Hm. destruct (Nat.eq_dec b j) as [->|Hbj].
        * apply (IH2 eq_refl a Hm Ha). apply L.
        * eapply reach_step; [apply Hlink; eauto | auto].
      + intros -> d Hd Hdj Hjd. destruct (Nat.eq_dec b j) as [->|Hbj].
        * apply (IH2 eq_refl d Hd Hdj Hjd).
        * eapply reach_step; [apply Hjump; eauto | auto]. }
  intros x y R Hx Hxj Hyj. destruct (G x y R Hyj) as [G1 _]. auto.
Qed.

Theorem bypass_reach ms rq j ms' rq' : bypass ms rq j = Some (ms', rq') ->
  no2cycle ms rq j ->
  forall x y, In x ms' -> In y ms' -> (reach rq' ms' x y <-> reach rq ms x y).
Proof.
  intros H N2 x y Hx Hy.
  apply (bypass_members _ _ _ _ _ H) in Hx. apply (bypass_members _ _ _ _ _ H) in Hy.
  split.
  - eapply bypass_reach_sound; eauto.
  - intros R. eapply bypass_reach_complete; eauto; tauto.
Qed.

Corollary bypass_reach_acyclic ms rq j ms' rq' : bypass ms rq j = Some (ms', rq') ->
  acyclic rq ms ->
  forall x y, In x ms' -> In y ms' -> (reach rq' ms' x y <-> reach rq ms x y).
Proof.
  intros H A. eapply bypass_reach; [exact H|]. apply acyclic_no2cycle; [|exact A].
  apply bypass_Some in H. tauto.
Qed.

(* the hypothesis cannot be dropped: in the 2-cycle 0 <-> 1, bypassing 1 loses "0 before 0" *)
Definition rq_2cycle : rmap := fun x => match x with 0 => [1] | 1 => [0] | _ => [] end.

Theorem bypass_reach_unconditional_refuted :
  exists ms rq j ms' rq' x y,
    bypass ms rq j = Some (ms', rq') /\ In x ms' /\ In y ms' /\
    reach rq ms x y /\ ~ reach rq' ms' x y.
Proof.
  exists [0; 1], rq_2cycle, 1.
  destruct (bypass [0; 1] rq_2cycle 1) as [[ms' rq']|] eqn:E; [|vm_compute in E; discriminate].
  exists ms', rq', 0, 0. split; [reflexivity|].
  assert (E0 : rq' 0 = []) by (vm_compute in E; inversion E; reflexivity).
  assert (Em : ms' = [0]) by (vm_compute in E; inversion E; reflexivity).
  subst ms'. split; [left; reflexivity|]. split; [left; reflexivity|]. split.
  - apply (reach_step _ _ 0 1 0); [|apply reach_one]; split; simpl; auto.
  - intros R. inversion R as [a b [L _] | a b c [L _] _]; subst; rewrite E0 in L; exact L.
Qed.

(* ------------------------------------------------------------------ *)
(* bypass_and_remove: closed and acyclic are preserved                  *)

Theorem bypass_closed ms rq j ms' rq' : bypass ms rq j = Some (ms', rq') ->
  closed rq ms -> closed rq' ms'.
Proof.
  intros H C d r Hd Hr. pose proof (bypass_Some _ _ _ _ _ H) as (Hj & _ & _).
  apply (bypass_members _ _ _ _ _ H) in Hd. destruct Hd as [Hd Hdj].
  apply (bypass_members _ _ _ _ _ H).
  apply (bypass_rq _ _ _ _ _ H) in Hr. destruct Hr as [[Hr|[[_ Hjd] [Hr _]]] Hn].
  - split; [exact (C d r Hd Hr)|]. intros E. subst r. apply Hn; auto.
  - split; [exact (C j r Hj Hr)|]. intros E. subst r. apply Hn; auto.
Qed.

Theorem bypass_acyclic ms rq j ms' rq' : bypass ms rq j = Some (ms', rq') ->
  acyclic rq ms -> acyclic rq' ms'.
Proof.
  intros H [rk Hrk]. exists rk. intros d r Hd Hr Hr'.
  pose proof (bypass_Some _ _ _ _ _ H) as (Hj & _ & _).
  apply (bypass_members _ _ _ _ _ H) in Hd. destruct Hd as [Hd Hdj].
  apply (bypass_members _ _ _ _ _ H) in Hr'. destruct Hr' as [Hr' Hrj].
  apply (bypass_rq _ _ _ _ _ H) in Hr. destruct Hr as [[Hr|[[_ Hjd] [Hr _]]] _].
  - apply (Hrk d r); auto.
  - pose proof (Hrk d j Hd Hjd Hj). pose proof (Hrk j r Hj Hr Hr'). lia.
Qed.

Theorem bypass_nodup ms rq j ms' rq' : bypass ms rq j = Some (ms', rq') -> NoDup ms -> NoDup ms'.
Proof. intros H ND. apply bypass_Some in H. destruct H as (_ & -> & _). apply NoDup_filter, ND. Qed.

(* ------------------------------------------------------------------ *)
(* sanitize at one level; keep_only                                     *)

Lemma san_fold_spec M l : forall (rq : rmap) x,
  fold_left (fun rq j => upd rq j (inter (rq j) M)) l rq x =
  if memb x l then inter (rq x) M else rq x.
Proof.
  induction l as [|a l IH]; intros rq x; cbn [fold_left]; [reflexivity|].
  rewrite IH, memb_cons. unfold upd. destruct (Nat.eqb x a) eqn:E; cbn [orb].
  - apply Nat.eqb_eq in E. subst a. destruct (memb x l); [apply inter_idem | reflexivity].
  - reflexivity.
Qed.

Theorem san_level_spec ms rq x :
  san_level ms rq x = if memb x ms then inter (rq x) ms else rq x.
Proof. apply san_fold_spec. Qed.

Lemma san_level_member ms rq x : In x ms -> san_level ms rq x = inter (rq x) ms.
Proof. intros H. rewrite san_level_spec. apply memb_In in H. rewrite H. reflexivity. Qed.

Lemma san_level_other ms rq x : ~ In x ms -> san_level ms rq x = rq x.
Proof. intros H. rewrite san_level_spec. apply memb_false in H. rewrite H. reflexivity. Qed.

Theorem san_level_closed ms rq : closed (san_level ms rq) ms.
Proof. intros j r Hj Hr. rewrite san_level_member in Hr by exact Hj. apply In_inter in Hr. tauto. Qed.

(* shrinking the members and the requirement lists keeps a graph acyclic *)
Lemma acyclic_sub rq ms rq' ms' : incl ms' ms ->
  (forall x, In x ms' -> incl (rq' x) (rq x)) -> acyclic rq ms -> acyclic rq' ms'.
Proof. intros Hm Hr [rk Hrk]. exists rk. intros j r Hj Hin Hr'. apply Hrk; auto. apply (Hr j); auto. Qed.

Lemma san_level_acyclic ms rq ms' : incl ms' ms -> acyclic rq ms -> acyclic (san_level ms' rq) ms'.
Proof.
  intros Hi. apply acyclic_sub; [exact Hi|]. intros x Hx r Hr.
  rewrite san_level_member in Hr by exact Hx. apply In_inter in Hr. tauto.
Qed.

(* kept: exactly the members named in remains *)
Theorem keep_only_members ms rq remains x :
  In x (fst (keep_only ms rq remains)) <-> In x ms /\ In x remains.
Proof. apply In_inter. Qed.

(* exactly the original requirements among kept jobs, none to dropped ones; other lists untouched *)
Theorem keep_only_rq ms rq remains x :
  let ms' := fst (keep_only ms rq remains) in
  snd (keep_only ms rq remains) x = if memb x ms' then inter (rq x) ms' else rq x.
Proof. apply san_level_spec. Qed.

Theorem keep_only_closed ms rq remains :
  closed (snd (keep_only ms rq remains)) (fst (keep_only ms rq remains)).
Proof. apply san_level_closed. Qed.

Theorem keep_only_acyclic ms rq remains : acyclic rq ms ->
  acyclic (snd (keep_only ms rq remains)) (fst (keep_only ms rq remains)).
Proof.
  apply san_level_acyclic. intros x Hx. apply In_inter in Hx. tauto.
Qed.

Theorem keep_only_nodup ms rq remains : NoDup ms -> NoDup (fst (keep_only ms rq remains)).
Proof. apply NoDup_filter. Qed.

(* ------------------------------------------------------------------ *)
(* keep_only_between                                                    *)

Definition opt_add (b : bool) (l acc : list nat) : list nat := if b then add_all l acc else acc.

Lemma In_opt_add b l acc x : In x (opt_add b l acc) <-> In x acc \/ (b = true /\ In x l).
Proof.
  unfold opt_add. destruct b.
  - rewrite In_add_all. tauto.
  - split; [auto|]. intros [H|[H _]]; [exact H | discriminate].
Qed.

Definition downwards (ms : list nat) (rq sc : rmap) (starts : list nat) : list nat :=
  match starts with [] => ms | _ => downstream ms rq sc true starts end.
Definition upwards (ms : list nat) (rq : rmap) (ends : list nat) : list nat :=
  match ends with [] => ms | _ => upstream rq ms ends end.

Lemma between_kept_eq ms rq sc starts ends ks ke :
  between_kept ms rq sc starts ends ks ke =
  opt_add ke ends (opt_add ks starts (inter (downwards ms rq sc starts) (upwards ms rq ends))).
Proof. reflexivity. Qed.

Lemma In_between_kept ms rq sc starts ends ks ke x :
  In x (between_kept ms rq sc starts ends ks ke) <->
  (In x (downwards ms rq sc starts) /\ In x (upwards ms rq ends))
  \/ (ks = true /\ In x starts) \/ (ke = true /\ In x ends).
Proof. rewrite between_kept_eq, !In_opt_add, In_inter. tauto. Qed.

Lemma downwards_spec ms rq sc starts x : incl starts ms ->
  (In x (downwards ms rq sc starts) <->
   In x ms /\ (starts = [] \/ exists s, In s starts /\ reach rq ms x s)).
Proof.
  intros Hs. destruct starts as [|s0 starts].
  - simpl. split; [auto | tauto].
  - unfold downwards. rewrite downstream_exact by exact Hs. split.
    + intros [H1 H2]. auto.
    + intros [H1 [H2|H2]]; [discriminate | auto].
Qed.

Lemma upwards_spec ms rq ends x :
  In x (upwards ms rq ends) <->
  In x ms /\ (ends = [] \/ exists e, In e ends /\ reach rq ms e x).
Proof.
  destruct ends as [|e0 ends].
  - simpl. split; [auto | tauto].
  - unfold upwards. rewrite upstream_exact. split.
    + intros [e [H1 H2]]. split; [eapply reach_target; eauto | eauto].
    + intros [_ [H|H]]; [discriminate | exact H].
Qed.

(* kept: the members downstream of a start and upstream of an end (an empty side is no
   constraint), plus the starts and the ends when asked for *)
Theorem between_exact ms rq sc starts ends ks ke x : incl starts ms ->
  (In x (fst (keep_only_between ms rq sc starts ends ks ke)) <->
   (In x ms /\ (starts = [] \/ exists s, In s starts /\ reach rq ms x s)
            /\ (ends = [] \/ exists e, In e ends /\ reach rq ms e x))
   \/ (ks = true /\ In x starts) \/ (ke = true /\ In x ends)).
Proof.
  intros Hs. cbn [keep_only_between fst].
  rewrite In_between_kept, downwards_spec, upwards_spec by exact Hs. tauto.
Qed.

Theorem between_rq ms rq sc starts ends ks ke x :
  let ms' := fst (keep_only_between ms rq sc starts ends ks ke) in
  snd (keep_only_between ms rq sc starts ends ks ke) x =
  if memb x ms' then inter (rq x) ms' else rq x.
Proof. apply san_level_spec. Qed.

Theorem between_closed ms rq sc starts ends ks ke :
  closed (snd (keep_only_between ms rq sc starts ends ks ke))
         (fst (keep_only_between ms rq sc starts ends ks ke)).
Proof. apply san_level_closed. Qed.

Lemma downwards_incl ms rq sc starts : incl (downwards ms rq sc starts) ms.
Proof.
  destruct starts as [|s0 starts]; [apply incl_refl|].
  intros x Hx. unfold downwards, downstream in Hx.
  destruct (closure_spec (backlinks ms rq sc) ms (s0 :: starts)) as (R & E & _ & _ & Hi & _).
  rewrite E in Hx. auto.
Qed.

Lemma between_incl ms rq sc starts ends ks ke :
  (ks = true -> incl starts ms) -> (ke = true -> incl ends ms) ->
  incl (between_kept ms rq sc starts ends ks ke) ms.
Proof.
  intros H1 H2 x Hx. apply In_between_kept in Hx.
  destruct Hx as [[Hx _]|[[Hk Hx]|[Hk Hx]]].
  - eapply downwards_incl; eauto.
  - apply H1; auto.
  - apply H2; auto.
Qed.

(* needs the added starts/ends to be members: a non-member pair requiring each other would be
   added as it is *)
Theorem between_acyclic ms rq sc starts ends ks ke :
  (ks = true -> incl starts ms) -> (ke = true -> incl ends ms) -> acyclic rq ms ->
  acyclic (snd (keep_only_between ms rq sc starts ends ks ke))
          (fst (keep_only_between ms rq sc starts ends ks ke)).
Proof. intros H1 H2. apply san_level_acyclic. apply between_incl; auto. Qed.

(* that hypothesis cannot be dropped: starts that are not members are added as they are, with the
   requirements they have among themselves *)
Definition rq_outside : rmap := fun x => match x with 1 => [2] | 2 => [1] | _ => [] end.

Theorem between_acyclic_nonmember_refuted :
  exists ms rq sc starts ends ks ke,
    NoDup ms /\ closed rq ms /\ acyclic rq ms /\
    ~ acyclic (snd (keep_only_between ms rq sc starts ends ks ke))
              (fst (keep_only_between ms rq sc starts ends ks ke)).
Proof.
  exists [0], rq_outside, (fun _ => []), [1; 2], [], true, true.
  split; [repeat constructor; intros []|]. split.
  { intros j r [<-|[]] []. }
  split.
  { exists (fun _ => 0). intros j r [<-|[]] []. }
  intros [rk H]. pose proof (H 1 2) as A. pose proof (H 2 1) as B.
  vm_compute in A, B.
  assert (A' : S (rk 2) <= rk 1) by (apply A; auto).
  assert (B' : S (rk 1) <= rk 2) by (apply B; auto).
  lia.
Qed.

Lemma opt_add_nodup b l acc : NoDup acc -> NoDup (opt_add b l acc).
Proof. intros H. unfold opt_add. destruct b; [apply add_all_nodup|]; exact H. Qed.

Theorem between_nodup ms rq sc starts ends ks ke : NoDup ms ->
  NoDup (fst (keep_only_between ms rq sc starts ends ks ke)).
Proof.
  intros ND. cbn [keep_only_between fst]. rewrite between_kept_eq.
  apply opt_add_nodup, opt_add_nodup. unfold inter. apply NoDup_filter.
  destruct starts as [|s0 starts]; [exact ND|]. apply closure_nodup.
Qed.

(* ------------------------------------------------------------------ *)
(* the tree versions agree with the flat ones on the members            *)

Lemma find_kid_tid i pool k : find_kid i pool = Some k -> tid k = i.
Proof.
  induction pool as [|a pool IH]; simpl; [discriminate|].
  destruct (Nat.eqb (tid a) i) eqn:E; [|exact IH].
  intros H. inversion H. subst. apply Nat.eqb_eq. exact E.
Qed.

Lemma pick_tid pool ids : map tid (pick pool ids) = ids.
Proof.
  unfold pick. rewrite map_map. rewrite <- (map_id ids) at 2. apply map_ext.
  intros i. destruct (find_kid i pool) as [k|] eqn:E; [eapply find_kid_tid; eauto | reflexivity].
Qed.

Lemma owner_top i kids k : In k kids -> owner (Sched i kids) (tid k) (map tid kids).
Proof.
  intros H. unfold owner. cbn [proc_order]. apply in_flat_map. exists k. split; [exact H|].
  left. reflexivity.
Qed.

Theorem resan_member i pool ms' rq j : tree_ok (Sched i (pick pool ms')) -> In j ms' ->
  resan i pool ms' rq j = inter (rq j) ms'.
Proof.
  intros OK Hj. unfold resan. rewrite sanitize_exact by exact OK. unfold spec_rq.
  rewrite <- (pick_tid pool ms') in Hj. apply in_map_iff in Hj. destruct Hj as [k [Hk Hin]].
  pose proof (owner_top i _ _ Hin) as Ho. rewrite Hk, pick_tid in Ho.
  rewrite (assoc_In _ _ _ OK Ho). reflexivity.
Qed.

Theorem resan_outside i pool ms' rq j :
  ~ In j (map fst (proc_order (Sched i (pick pool ms')))) -> resan i pool ms' rq j = rq j.
Proof.
  intros Hn. unfold resan. rewrite sanitize_flat. unfold san_flat.
  destruct (run_ow (proc_order (Sched i (pick pool ms'))) rq false) as [rq1 ch] eqn:E.
  cbn [fst]. revert rq ch rq1 E Hn.
  generalize (proc_order (Sched i (pick pool ms'))) false.
  intros ow. induction ow as [|[k ms] ow IH]; intros c0 rq ch rq1 E Hn; simpl in E.
  - inversion E. reflexivity.
  - unfold san_job in E. apply IH in E.
    + rewrite E. apply upd_other. intros ->. apply Hn. left. reflexivity.
    + intros H. apply Hn. right. exact H.
Qed.

Theorem keep_only_t_agrees i pool ms rq remains :
  tree_ok (Sched i (pick pool (inter ms remains))) ->
  fst (keep_only_t i pool ms rq remains) = fst (keep_only ms rq remains) /\
  forall j, In j (fst (keep_only ms rq remains)) ->
            snd (keep_only_t i pool ms rq remains) j = snd (keep_only ms rq remains) j.
Proof.
  intros OK. split; [reflexivity|]. intros j Hj. cbn [keep_only keep_only_t fst snd] in *.
  rewrite resan_member by assumption. rewrite san_level_member by assumption. reflexivity.
Qed.

Theorem keep_only_between_t_agrees i pool ms rq sc starts ends ks ke :
  tree_ok (Sched i (pick pool (between_kept ms rq sc starts ends ks ke))) ->
  fst (keep_only_between_t i pool ms rq sc starts ends ks ke)
    = fst (keep_only_between ms rq sc starts ends ks ke) /\
  forall j, In j (fst (keep_only_between ms rq sc starts ends ks ke)) ->
            snd (keep_only_between_t i pool ms rq sc starts ends ks ke) j
              = snd (keep_only_between ms rq sc starts ends ks ke) j.
Proof.
  intros OK. split; [reflexivity|]. intros j Hj.
  cbn [keep_only_between keep_only_between_t fst snd] in *.
  rewrite resan_member by assumption. rewrite san_level_member by assumption. reflexivity.
Qed.
