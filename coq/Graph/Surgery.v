(* Model G, part 3: graph surgery (property C18).  Executable definitions only; proofs are in
   SurgeryP.v.

   Mirrors asynciojobs/purescheduler.py: bypass_and_remove 479-508, keep_only 511-518,
   keep_only_between 521-559, and job.py requires/_add_one_requirement 453-458 (a job is never
   added to its own requirements).

   The state of one scheduler is the pair (members, requirement map).  keep_only and
   keep_only_between end with sanitize(), which in a Scheduler also descends into nested
   schedulers: the flat functions below describe the scheduler's own level, the [_t] versions run
   GModel.sanitize on the rebuilt tree; SurgeryP.v proves that they agree on the members. *)
From AJ Require Import Common.Util Graph.GModel Graph.Queries.

(* ------------------------------------------------------------------ *)
(* bypass_and_remove(job)                                               *)

(* down.requires(up), i.e. _add_one_requirement: refused when up is down *)
Definition add_req (rq : rmap) (down up : nat) : rmap :=
  if Nat.eqb up down then rq else upd rq down (addn up (rq down)).

(* lines 499-502 *)
Definition relink (ups downs : list nat) (rq : rmap) : rmap :=
  fold_left (fun rq up => fold_left (fun rq down => add_req rq down up) downs rq) ups rq.

(* lines 504-505 *)
Definition unlink (j : nat) (downs : list nat) (rq : rmap) : rmap :=
  fold_left (fun rq down => upd rq down (remv j (rq down))) downs rq.

Definition downs_of (ms : list nat) (rq : rmap) (j : nat) : list nat :=
  filter (fun d => memb j (rq d)) ms.

(* None = ValueError (job is not in the scheduler) *)
Definition bypass (ms : list nat) (rq : rmap) (j : nat) : option (list nat * rmap) :=
  if memb j ms then
    let ups := rq j in
    let downs := downs_of ms rq j in
    Some (remv j ms, unlink j downs (relink ups downs rq))
  else None.

(* ------------------------------------------------------------------ *)
(* sanitize() at the scheduler's own level, lines 271-277 without the recursion *)

Definition san_level (ms : list nat) (rq : rmap) : rmap :=
  fold_left (fun rq j => upd rq j (inter (rq j) ms)) ms rq.

(* keep_only(remains): self.jobs &= set(remains); self.sanitize() *)
Definition keep_only (ms : list nat) (rq : rmap) (remains : list nat) : list nat * rmap :=
  let ms' := inter ms remains in (ms', san_level ms' rq).

(* ------------------------------------------------------------------ *)
(* keep_only_between(starts, ends, keep_starts, keep_ends)              *)

(* lines 546-555: an empty (or absent) starts/ends means no constraint on that side;
   starts and ends are added as given, members or not *)
Definition between_kept (ms : list nat) (rq sc : rmap) (starts ends : list nat) (ks ke : bool)
  : list nat :=
  let downwards := match starts with [] => ms | _ => downstream ms rq sc true starts end in
  let upwards := match ends with [] => ms | _ => upstream rq ms ends end in
  let p0 := inter downwards upwards in
  let p1 := if ks then add_all starts p0 else p0 in
  if ke then add_all ends p1 else p1.

Definition keep_only_between (ms : list nat) (rq sc : rmap) (starts ends : list nat)
  (ks ke : bool) : list nat * rmap :=
  let ms' := between_kept ms rq sc starts ends ks ke in (ms', san_level ms' rq).

(* ------------------------------------------------------------------ *)
(* tree versions: the members are looked up in a pool of subtrees (the former members and, for
   keep_only_between, the trees of starts/ends that were not members) and the recursive
   sanitize of GModel is run on the rebuilt scheduler *)

Definition pick (pool : list jtree) (ids : list nat) : list jtree :=
  map (fun i => match find_kid i pool with Some k => k | None => Atom i end) ids.

Definition resan (i : nat) (pool : list jtree) (ms' : list nat) (rq : rmap) : rmap :=
  fst (sanitize (Sched i (pick pool ms')) rq).

Definition keep_only_t (i : nat) (pool : list jtree) (ms : list nat) (rq : rmap)
  (remains : list nat) : list nat * rmap :=
  let ms' := inter ms remains in (ms', resan i pool ms' rq).

Definition keep_only_between_t (i : nat) (pool : list jtree) (ms : list nat) (rq sc : rmap)
  (starts ends : list nat) (ks ke : bool) : list nat * rmap :=
  let ms' := between_kept ms rq sc starts ends ks ke in (ms', resan i pool ms' rq).
