(* C20: what the exported graph and the listing contain.  Proofs about Dot.v. *)
From Coq Require Import Permutation.
From AJ Require Import Common.Util Graph.GModel Graph.Sanitize Graph.Topo Graph.GSpecs Graph.Dot
  Graph.DotLex.

(* ------------------------------------------------------------------ *)
(* decimal numerals *)

Definition dval (c : N) : nat := N.to_nat c - 48.
Definition num_acc (acc : nat) (l : bytes) : nat := fold_left (fun a c => 10 * a + dval c) l acc.

Lemma num_acc_snoc acc l d : num_acc acc (l ++ [d]) = 10 * num_acc acc l + dval d.
Proof. unfold num_acc. rewrite fold_left_app. reflexivity. Qed.

Lemma dval_digit k : dval (N.of_nat (48 + k)) = k.
Proof. unfold dval. rewrite Nat2N.id. lia. Qed.

Lemma num_digits_fuel : forall fuel n, n < fuel -> num_acc 0 (digits_fuel fuel n) = n.
Proof.
  induction fuel as [|f IH]; intros n Hn; [lia|].
  cbn [digits_fuel]. destruct (Nat.ltb_spec n 10) as [Hlt|Hge].
  - unfold num_acc. cbn [fold_left]. rewrite dval_digit. lia.
  - rewrite num_acc_snoc, dval_digit.
    assert (Hd : n / 10 < n) by (apply Nat.div_lt; lia).
    rewrite IH by lia. pose proof (Nat.div_mod n 10 ltac:(lia)). lia.
Qed.

Lemma num_zeros k l : num_acc 0 (repeat 48%N k ++ l) = num_acc 0 l.
Proof. induction k as [|k IH]; [reflexivity|]. cbn [repeat app]. exact IH. Qed.

Lemma num_fmt w n : num_acc 0 (fmt w n) = n.
Proof. unfold fmt, pad. rewrite num_zeros. apply num_digits_fuel. lia. Qed.

Theorem fmt_inj w a b : fmt w a = fmt w b -> a = b.
Proof. intros E. rewrite <- (num_fmt w a), <- (num_fmt w b), E. reflexivity. Qed.

Lemma is_digit_of k : k < 10 -> is_digit (N.of_nat (48 + k)) = true.
Proof. intros H. do 10 (destruct k as [|k]; [reflexivity|]). lia. Qed.

Lemma digits_fuel_digit : forall fuel n, forallb is_digit (digits_fuel fuel n) = true.
Proof.
  induction fuel as [|f IH]; intros n; [reflexivity|].
  cbn [digits_fuel]. destruct (Nat.ltb_spec n 10) as [Hlt|Hge].
  - cbn [forallb]. rewrite is_digit_of by lia. reflexivity.
  - rewrite forallb_app, IH. cbn [forallb]. rewrite is_digit_of; [reflexivity|].
    apply Nat.mod_upper_bound. lia.
Qed.

Lemma digits_nonempty n : digits n <> [].
Proof.
  unfold digits. cbn [digits_fuel]. destruct (n <? 10); [discriminate|].
  intro E. apply app_eq_nil in E. destruct E; discriminate.
Qed.

Lemma fmt_digits w n : fmt w n <> [] /\ forallb is_digit (fmt w n) = true.
Proof.
  unfold fmt, pad. split.
  - intro E. apply app_eq_nil in E. destruct E as [_ E]. exact (digits_nonempty n E).
  - rewrite forallb_app. unfold digits. rewrite digits_fuel_digit, andb_true_r.
    induction (w - length (digits_fuel (S n) n)) as [|k IH]; [reflexivity|].
    cbn [repeat forallb]. rewrite IH. reflexivity.
Qed.

(* ------------------------------------------------------------------ *)
(* helpers *)

Lemma lookup_app_find {A} (f : jtree -> A) ks j :
  lookup_app f ks j = option_map f (find_kid j ks).
Proof.
  induction ks as [|k ks IH]; [reflexivity|].
  cbn [lookup_app find_kid]. destruct (Nat.eqb (tid k) j); [reflexivity|exact IH].
Qed.

Lemma find_kid_In j ks k : find_kid j ks = Some k -> In k ks /\ tid k = j.
Proof.
  induction ks as [|x ks IH]; [discriminate|].
  cbn [find_kid]. destruct (Nat.eqb_spec (tid x) j) as [E|E].
  - intros H. inversion H; subst. split; [left; reflexivity|reflexivity].
  - intros H. destruct (IH H). split; [right; assumption|assumption].
Qed.

Lemma find_kid_self ks k : NoDup (map tid ks) -> In k ks -> find_kid (tid k) ks = Some k.
Proof.
  induction ks as [|x ks IH]; intros ND Hin; [destruct Hin|].
  cbn [map] in ND. inversion ND as [|? ? Hn ND']; subst.
  cbn [find_kid]. destruct Hin as [->|Hin].
  - rewrite Nat.eqb_refl. reflexivity.
  - destruct (Nat.eqb_spec (tid x) (tid k)) as [E|E].
    + exfalso. apply Hn. rewrite E. apply in_map. exact Hin.
    + apply IH; auto.
Qed.

Lemma find_kid_some ks j : In j (map tid ks) -> exists k, find_kid j ks = Some k.
Proof.
  induction ks as [|x ks IH]; intros H; [destruct H|].
  cbn [find_kid]. destruct (Nat.eqb_spec (tid x) j) as [E|E]; [eauto|].
  destruct H as [H|H]; [congruence|]. auto.
Qed.

(* ------------------------------------------------------------------ *)
(* numbering: _set_sched_ids numbers the jobs 1, 2, 3 ... along the listing order *)

(* the order in which list() shows the jobs *)
Fixpoint walk (rq : rmap) (t : jtree) : list nat :=
  match t with
  | Atom _ => []
  | Sched _ kids =>
      flat_map (fun j => j :: match lookup_app (walk rq) kids j with Some l => l | None => [] end)
               (fst (topo rq (map tid kids)))
  end.

Fixpoint ids_loop (rec : jtree -> nat -> option (list (nat * nat) * nat)) (kids : list jtree)
  (ord : list nat) (i : nat) (acc : list (nat * nat)) : option (list (nat * nat) * nat) :=
  match ord with
  | [] => Some (acc, i)
  | j :: ord' =>
      match find_kid j kids with
      | None => None
      | Some (Atom _) => ids_loop rec kids ord' (S i) (acc ++ [(j, i)])
      | Some (Sched _ _ as k) =>
          match rec k (S i) with
          | None => None
          | Some (sub, i') => ids_loop rec kids ord' i' (acc ++ (j, i) :: sub)
          end
      end
  end.

Lemma set_ids_fuel_S f rq t start :
  set_ids_fuel (S f) rq t start =
  let '(order, r) := topo rq (map tid (kids_of t)) in
  if tres_eqb r TOk then ids_loop (set_ids_fuel f rq) (kids_of t) order start [] else None.
Proof.
  cbn [set_ids_fuel]. destruct (topo rq (map tid (kids_of t))) as [order r].
  destruct (tres_eqb r TOk); [|reflexivity].
  generalize (@nil (nat * nat)) at 2 3. generalize start.
  induction order as [|j ord IH]; intros i acc; [reflexivity|].
  cbn [ids_loop]. destruct (find_kid j (kids_of t)) as [[a|a ks]|]; try reflexivity.
  - apply IH.
  - destruct (set_ids_fuel f rq (Sched a ks) (S i)) as [[sub i']|]; [apply IH|reflexivity].
Qed.

Definition ids_ok (start : nat) (ids : list (nat * nat)) (nxt : nat) (w : list nat) : Prop :=
  map fst ids = w /\ map snd ids = seq start (length ids) /\ nxt = start + length ids.

Lemma set_ids_fuel_spec rq : forall fuel t start ids nxt,
  set_ids_fuel fuel rq t start = Some (ids, nxt) -> ids_ok start ids nxt (walk rq t).
Proof.
  induction fuel as [|f IH]; intros t start ids nxt H; [discriminate|].
  rewrite set_ids_fuel_S in H.
  destruct t as [a|a kids].
  - (* an atom has no kids: topo of [] *)
    cbn in H. inversion H; subst. repeat split; cbn; lia.
  - cbn [kids_of walk] in *. destruct (topo rq (map tid kids)) as [order r]. cbn [fst].
    destruct (tres_eqb r TOk); [|discriminate].
    assert (G : forall ord i acc res n,
      ids_loop (set_ids_fuel f rq) kids ord i acc = Some (res, n) ->
      exists more, res = acc ++ more /\
        ids_ok i more n
          (flat_map (fun j => j :: match lookup_app (walk rq) kids j with Some l => l | None => [] end)
                    ord)).
    { induction ord as [|j ord IHo]; intros i acc res n Hl.
      - cbn in Hl. inversion Hl; subst. exists []. rewrite app_nil_r. repeat split; cbn; lia.
      - cbn [ids_loop] in Hl. cbn [flat_map]. rewrite lookup_app_find.
        destruct (find_kid j kids) as [[b|b ks]|] eqn:Ef; [| |discriminate].
        + apply IHo in Hl. destruct Hl as (more & -> & H1 & H2 & H3).
          exists ((j, i) :: more). rewrite <- app_assoc. split; [reflexivity|].
          cbn [option_map walk app]. repeat split; cbn [map fst snd length seq]; try congruence; lia.
        + destruct (set_ids_fuel f rq (Sched b ks) (S i)) as [[sub i']|] eqn:Es; [|discriminate].
          apply IH in Es. destruct Es as (S1 & S2 & S3).
          apply IHo in Hl. destruct Hl as (more & -> & H1 & H2 & H3).
          exists ((j, i) :: sub ++ more). split; [rewrite <- app_assoc; reflexivity|].
          cbn [option_map]. repeat split.
          * cbn [map fst app]. rewrite map_app, S1, H1. reflexivity.
          * cbn [map snd length]. rewrite map_app, app_length, S2, H2. cbn [seq]. f_equal.
            rewrite seq_app. f_equal. f_equal. lia.
          * cbn [length]. rewrite app_length. lia. }
    apply G in H. destruct H as (more & E & Hok). cbn [app] in E. subst more. exact Hok.
Qed.

Lemma assoc_id_In ids j n : NoDup (map fst ids) -> In (j, n) ids -> assoc_id ids j = n.
Proof.
  induction ids as [|[k m] ids IH]; intros ND Hin; [destruct Hin|].
  cbn [map fst] in ND. inversion ND as [|? ? Hn ND']; subst.
  cbn [assoc_id]. destruct Hin as [E|Hin].
  - inversion E; subst. rewrite Nat.eqb_refl. reflexivity.
  - destruct (Nat.eqb_spec k j) as [->|Ne]; [|auto].
    exfalso. apply Hn. apply (in_map fst) in Hin. exact Hin.
Qed.

Lemma assoc_id_inj ids a b : NoDup (map fst ids) -> NoDup (map snd ids) ->
  In a (map fst ids) -> In b (map fst ids) -> assoc_id ids a = assoc_id ids b -> a = b.
Proof.
  intros N1 N2 Ha Hb E.
  apply in_map_iff in Ha. destruct Ha as ([a' n] & <- & Ha).
  apply in_map_iff in Hb. destruct Hb as ([b' m] & <- & Hb).
  cbn [fst] in *. rewrite (assoc_id_In _ _ _ N1 Ha), (assoc_id_In _ _ _ N1 Hb) in E. subst m.
  clear N1. induction ids as [|[k x] ids IH]; [destruct Ha|].
  cbn [map snd] in N2. inversion N2 as [|? ? Hn N2']; subst.
  destruct Ha as [Ea|Ha], Hb as [Eb|Hb].
  - congruence.
  - inversion Ea; subst. exfalso. apply Hn. apply (in_map snd) in Hb. exact Hb.
  - inversion Eb; subst. exfalso. apply Hn. apply (in_map snd) in Ha. exact Ha.
  - auto.
Qed.

(* ------------------------------------------------------------------ *)
(* the listing order visits every job below the root exactly once *)

Lemma flat_map_map {A B C} (f : A -> B) (g : B -> list C) l :
  flat_map g (map f l) = flat_map (fun x => g (f x)) l.
Proof. induction l as [|a l IH]; [reflexivity|]. cbn [map flat_map]. rewrite IH. reflexivity. Qed.

Lemma perm_flat_map_pw {A B} (f h : A -> list B) l :
  Forall (fun k => Permutation (f k) (h k)) l -> Permutation (flat_map f l) (flat_map h l).
Proof.
  induction 1 as [|k l Hk Hl IH]; [constructor|].
  cbn [flat_map]. apply Permutation_app; assumption.
Qed.

Lemma tree_ids_below k : tree_ids k = tid k :: below k.
Proof. destruct k; reflexivity. Qed.

Definition tree_wf (rq : rmap) (t : jtree) : Prop := all_levels_ok rq t /\ nodup_levels t.

Lemma tree_wf_kids rq i kids : tree_wf rq (Sched i kids) ->
  snd (topo rq (map tid kids)) = TOk /\ NoDup (map tid kids) /\ Forall (tree_wf rq) kids.
Proof.
  intros [H1 H2]. cbn [all_levels_ok nodup_levels] in *. destruct H1 as [Hok Hall].
  destruct H2 as [Hnd Hall2]. apply all_levels_Forall in Hall. apply nodup_levels_Forall in Hall2.
  repeat split; auto. rewrite Forall_forall in *. intros k Hk. split; auto.
Qed.

Lemma order_perm rq i kids : tree_wf rq (Sched i kids) ->
  Permutation (fst (topo rq (map tid kids))) (map tid kids).
Proof.
  intros H. destruct (tree_wf_kids _ _ _ H) as (Hok & Hnd & _).
  destruct (topo_complete rq (map tid kids) Hnd Hok) as [Hp _]. exact Hp.
Qed.

Lemma walk_perm rq t : tree_wf rq t -> Permutation (walk rq t) (below t).
Proof.
  induction t as [i|i kids IH] using jtree_ind2; intros Hwf; [constructor|].
  pose proof (order_perm _ _ _ Hwf) as Hp.
  destruct (tree_wf_kids _ _ _ Hwf) as (Hok & Hnd & Hkids).
  cbn [walk]. unfold below. cbn [kids_of].
  etransitivity; [apply Permutation_flat_map; exact Hp|].
  rewrite flat_map_map. apply perm_flat_map_pw.
  rewrite Forall_forall in *. intros k Hk.
  rewrite lookup_app_find, (find_kid_self kids k Hnd Hk). cbn [option_map].
  rewrite tree_ids_below. constructor. apply IH; auto.
Qed.

(* every job of the tree sits in one scheduler only *)
Definition unique_jobs (t : jtree) : Prop := NoDup (below t).

Lemma set_ids_numbers rq t ids nxt : tree_wf rq t -> unique_jobs t ->
  set_ids rq t = Some (ids, nxt) ->
  Permutation (map fst ids) (below t) /\ NoDup (map fst ids) /\
  map snd ids = seq 1 (length ids) /\ map fst ids = walk rq t.
Proof.
  intros Hwf Hu H. unfold set_ids in H. apply set_ids_fuel_spec in H.
  destruct H as (H1 & H2 & _). pose proof (walk_perm rq t Hwf) as Hp.
  rewrite <- H1 in Hp. repeat split; auto.
  apply (Permutation_NoDup (Permutation_sym Hp)). exact Hu.
Qed.

(* tree-wide unique ids *)
Theorem ids_distinct rq t ids nxt w a b : tree_wf rq t -> unique_jobs t ->
  set_ids rq t = Some (ids, nxt) -> In a (below t) -> In b (below t) ->
  fmt w (assoc_id ids a) = fmt w (assoc_id ids b) -> a = b.
Proof.
  intros Hwf Hu H Ha Hb E. apply fmt_inj in E.
  destruct (set_ids_numbers rq t ids nxt Hwf Hu H) as (Hp & Hnd & Hs & _).
  apply (assoc_id_inj ids a b); auto.
  - rewrite Hs. apply seq_NoDup.
  - apply (Permutation_in _ (Permutation_sym Hp)). exact Ha.
  - apply (Permutation_in _ (Permutation_sym Hp)). exact Hb.
Qed.

(* ------------------------------------------------------------------ *)
(* the nesting of nodes and clusters is the scheduler tree *)

Inductive ntree :=
| NAtom (id : bytes) (a : list attr)
| NSched (name : bytes) (a : list attr) (kids : list ntree).

(* the attributes given to a (sub)graph by its "graph [...]" statements *)
Definition graph_attrs (b : list stmt) : list attr :=
  flat_map (fun s => match s with SGraph a => a | _ => [] end) b.

Fixpoint shape_stmt (s : stmt) : list ntree :=
  match s with
  | SNode i a => [NAtom i a]
  | SSub n b => [NSched n (graph_attrs b) (flat_map shape_stmt b)]
  | _ => []
  end.
Definition shape (b : list stmt) : list ntree := flat_map shape_stmt b.

Fixpoint edges_stmt (s : stmt) : list stmt :=
  match s with
  | SEdge _ _ _ => [s]
  | SSub _ b => flat_map edges_stmt b
  | _ => []
  end.
Definition edges_of (b : list stmt) : list stmt := flat_map edges_stmt b.

(* the tree with the jobs of each scheduler put in topological order *)
Fixpoint tsort (rq : rmap) (t : jtree) : jtree :=
  match t with
  | Atom i => Atom i
  | Sched i kids =>
      Sched i (flat_map (fun j => match lookup_app (tsort rq) kids j with Some k => [k] | None => [] end)
                        (fst (topo rq (map tid kids))))
  end.

(* same tree up to the order of the jobs inside each scheduler *)
Inductive tperm : jtree -> jtree -> Prop :=
| tperm_atom i : tperm (Atom i) (Atom i)
| tperm_sched i ks ks1 ks2 :
    Forall2 tperm ks ks1 -> Permutation ks1 ks2 -> tperm (Sched i ks) (Sched i ks2).

Lemma tsort_tperm rq t : tree_wf rq t -> tperm t (tsort rq t).
Proof.
  induction t as [i|i kids IH] using jtree_ind2; intros Hwf; [constructor|].
  pose proof (order_perm _ _ _ Hwf) as Hp.
  destruct (tree_wf_kids _ _ _ Hwf) as (Hok & Hnd & Hkids).
  cbn [tsort]. apply tperm_sched with (ks1 := map (tsort rq) kids).
  - clear Hp Hnd Hok Hwf. induction kids as [|k kids IHk]; [constructor|].
    inversion IH; subst. inversion Hkids; subst. constructor; auto.
  - apply Permutation_sym.
    etransitivity; [apply Permutation_flat_map; exact Hp|].
    rewrite flat_map_map.
    assert (E : forall ks, incl ks kids ->
              flat_map (fun x => match lookup_app (tsort rq) kids (tid x) with
                                 | Some k => [k] | None => [] end) ks = map (tsort rq) ks).
    { induction ks as [|k ks IHk]; intros Hi; [reflexivity|].
      cbn [flat_map map]. rewrite lookup_app_find, (find_kid_self kids k Hnd (Hi k (or_introl eq_refl))).
      cbn [option_map app]. f_equal. apply IHk. intros x Hx. apply Hi. right. exact Hx. }
    rewrite E by apply incl_refl. apply Permutation_refl.
Qed.

(* ------------------------------------------------------------------ *)
(* monadic helpers *)

Lemma rconcat_map_Ok {A B} (f : A -> res (list B)) : forall l b,
  rconcat (map f l) = Ok b ->
  exists bs, Forall2 (fun a x => f a = Ok x) l bs /\ b = concat bs.
Proof.
  induction l as [|a l IH]; intros b H.
  - cbn in H. inversion H; subst. exists []. split; [constructor|reflexivity].
  - cbn [map rconcat] in H. destruct (f a) as [x|e] eqn:Ef; [|discriminate].
    destruct (rconcat (map f l)) as [b'|e] eqn:Er; [|discriminate].
    inversion H; subst. destruct (IH b' eq_refl) as (bs & HF & ->).
    exists (x :: bs). split; [constructor; auto|reflexivity].
Qed.

Lemma rmapM_Ok {A B} (f : A -> res B) : forall l bs,
  rmapM f l = Ok bs -> Forall2 (fun a x => f a = Ok x) l bs.
Proof.
  induction l as [|a l IH]; intros bs H.
  - cbn in H. inversion H; subst. constructor.
  - cbn [rmapM] in H. destruct (f a) as [x|e] eqn:Ef; [|discriminate].
    destruct (rmapM f l) as [b'|e] eqn:Er; [|discriminate].
    inversion H; subst. constructor; auto.
Qed.

Fixpoint atoms (t : jtree) : list nat :=
  match t with Atom i => [i] | Sched _ ks => flat_map atoms ks end.

(* the atomic job that may stand for [k] at the end of an edge *)
Definition rep (k : jtree) (x : nat) : Prop :=
  match k with Atom i => x = i | Sched _ _ => In x (atoms k) end.

Lemma rep_atoms k x : rep k x -> In x (atoms k).
Proof. destruct k; cbn; auto. Qed.

Section Structure.
  Variable rq : rmap.
  Variable inf : infos.
  Variable idf : nat -> bytes.

  Notation body := (body rq inf idf).
  Notation style_attrs := (style_attrs inf idf).
  Notation cluster := (cluster idf).

  Fixpoint nt_of (t : jtree) : ntree :=
    match t with
    | Atom i => NAtom (idf i) (style_attrs true i)
    | Sched i ks => NSched (cluster i) (style_attrs false i) (map nt_of ks)
    end.

  Lemma mid_entry_rep t : forall x, mid_entry rq t = Ok x -> rep t x.
  Proof.
    induction t as [i|i kids IH] using jtree_ind2; intros x H.
    - cbn in H. inversion H. reflexivity.
    - cbn [mid_entry] in H. destruct (middle (entries rq (map tid kids))) as [c|]; [|discriminate].
      rewrite lookup_app_find in H. destruct (find_kid c kids) as [k|] eqn:Ef; [|discriminate].
      cbn in H. destruct (find_kid_In _ _ _ Ef) as [Hin _].
      rewrite Forall_forall in IH. apply (IH k Hin) in H. apply rep_atoms in H.
      cbn [rep atoms]. apply in_flat_map. exists k. auto.
  Qed.

  Lemma mid_exit_rep t : forall x, mid_exit rq inf t = Ok x -> rep t x.
  Proof.
    induction t as [i|i kids IH] using jtree_ind2; intros x H.
    - cbn in H. inversion H. reflexivity.
    - cbn [mid_exit] in H.
      destruct (middle (exit_cands rq inf (map tid kids))) as [c|]; [|discriminate].
      rewrite lookup_app_find in H. destruct (find_kid c kids) as [k|] eqn:Ef; [|discriminate].
      cbn in H. destruct (find_kid_In _ _ _ Ef) as [Hin _].
      rewrite Forall_forall in IH. apply (IH k Hin) in H. apply rep_atoms in H.
      cbn [rep atoms]. apply in_flat_map. exists k. auto.
  Qed.

  Definition lhead_of (k : jtree) : list attr :=
    match k with Atom _ => [] | Sched j _ => [(k_lhead, VId (cluster j))] end.
  Definition ltail_of (k : jtree) : list attr :=
    match k with Atom _ => [] | Sched j _ => [(k_ltail, VId (cluster j))] end.

  (* the edge drawn for "k requires kr": between the two jobs, or, for a scheduler end, an atomic
     job inside that scheduler with lhead / ltail naming its cluster *)
  Definition edge_ok (p : jtree * jtree) (e : stmt) : Prop :=
    exists x y, e = SEdge (idf x) (idf y) (lhead_of (fst p) ++ ltail_of (snd p))
                /\ rep (snd p) x /\ rep (fst p) y.

  Lemma edge_stmt_ok kids k r e : edge_stmt rq inf idf kids k r = Ok e ->
    exists kr, find_kid r kids = Some kr /\ edge_ok (k, kr) e.
  Proof.
    unfold edge_stmt. destruct (find_kid r kids) as [kr|] eqn:Ef; [|discriminate].
    destruct (find_kid_In _ _ _ Ef) as [_ Hr].
    intros H. exists kr. split; [reflexivity|]. unfold edge_ok. cbn [fst snd].
    destruct k as [j|j ks], kr as [r'|r' ks']; cbn [tid] in Hr; subst r'.
    - inversion H; subst. exists r, j. cbn. auto.
    - destruct (mid_exit rq inf (Sched r ks')) as [a|] eqn:Ea; [|discriminate]. cbn [rbind] in H.
      inversion H; subst. exists a, j. split; [reflexivity|]. split; [|reflexivity].
      apply mid_exit_rep. exact Ea.
    - destruct (mid_entry rq (Sched j ks)) as [b|] eqn:Eb; [|discriminate]. cbn [rbind] in H.
      inversion H; subst. exists r, b. split; [reflexivity|]. split; [reflexivity|].
      apply mid_entry_rep. exact Eb.
    - destruct (mid_exit rq inf (Sched r ks')) as [a|] eqn:Ea; [|discriminate]. cbn [rbind] in H.
      destruct (mid_entry rq (Sched j ks)) as [b|] eqn:Eb; [|discriminate]. cbn [rbind] in H.
      inversion H; subst. exists a, b. split; [reflexivity|].
      split; [apply mid_exit_rep; exact Ea|apply mid_entry_rep; exact Eb].
  Qed.

  Lemma edge_ok_is_edge p e : edge_ok p e -> shape_stmt e = [] /\ edges_stmt e = [e] /\
    (match e with SGraph a => a | _ => [] end) = [].
  Proof. intros (x & y & -> & _). auto. Qed.

  (* requirements between two jobs of one scheduler, as (job, required job) *)
  Definition level_reqs (kids : list jtree) (k : jtree) : list (jtree * jtree) :=
    flat_map (fun r => match find_kid r kids with Some kr => [(k, kr)] | None => [] end)
             (rq (tid k)).

  (* all of them, in the order in which _dot_body meets them *)
  Fixpoint req_list (t : jtree) : list (jtree * jtree) :=
    match t with
    | Atom _ => []
    | Sched _ kids =>
        flat_map (fun j => match lookup_app (fun k => req_list k ++ level_reqs kids k) kids j with
                           | Some l => l | None => [] end)
                 (fst (topo rq (map tid kids)))
    end.

  Lemma edge_stmts_ok kids k es : edge_stmts rq inf idf kids k = Ok es ->
    Forall2 edge_ok (level_reqs kids k) es.
  Proof.
    unfold edge_stmts, level_reqs. intros H. apply rmapM_Ok in H.
    induction H as [|r e l es Hre Hl IH]; [constructor|].
    cbn [flat_map]. destruct (edge_stmt_ok _ _ _ _ Hre) as (kr & Ef & Hok). rewrite Ef.
    cbn [app]. constructor; auto.
  Qed.

  Lemma shape_app a b : shape (a ++ b) = shape a ++ shape b.
  Proof. apply flat_map_app. Qed.
  Lemma edges_app a b : edges_of (a ++ b) = edges_of a ++ edges_of b.
  Proof. apply flat_map_app. Qed.
  Lemma gattrs_app a b : graph_attrs (a ++ b) = graph_attrs a ++ graph_attrs b.
  Proof. apply flat_map_app. Qed.

  Lemma edges_only l es : Forall2 edge_ok l es ->
    shape es = [] /\ edges_of es = es /\ graph_attrs es = [].
  Proof.
    induction 1 as [|p e l es Hp Hl IH]; [auto|].
    destruct (edge_ok_is_edge _ _ Hp) as (E1 & E2 & E3). destruct IH as (I1 & I2 & I3).
    unfold shape, edges_of, graph_attrs in *. cbn [flat_map]. rewrite E1, E2, E3, I1, I2, I3. auto.
  Qed.

  (* what _dot_body produces for one scheduler *)
  Definition body_spec (t : jtree) (b : list stmt) : Prop :=
    shape b = map nt_of (kids_of (tsort rq t)) /\ graph_attrs b = [] /\
    Forall2 edge_ok (req_list t) (edges_of b).

  Theorem body_structure t : forall b, body t = Ok b -> body_spec t b.
  Proof.
    induction t as [i|i kids IH] using jtree_ind2; intros b H.
    - cbn in H. inversion H; subst. repeat split; constructor.
    - cbn [Dot.body] in H. unfold body_spec. cbn [tsort kids_of req_list].
      destruct (topo rq (map tid kids)) as [order r]. cbn [fst].
      destruct (tres_eqb r TOk); [|discriminate].
      revert b H. induction order as [|j ord IHo]; intros b H.
      + cbn in H. inversion H; subst. repeat split; constructor.
      + cbn [map rconcat] in H.
        destruct (job_stmts rq inf idf body kids j) as [pj|] eqn:Ej; [|discriminate].
        destruct (rconcat (map (job_stmts rq inf idf body kids) ord)) as [b'|] eqn:Er; [|discriminate].
        inversion H; subst b. clear H. destruct (IHo b' eq_refl) as (S1 & G1 & E1).
        unfold job_stmts in Ej. rewrite lookup_app_find in Ej.
        destruct (find_kid j kids) as [k|] eqn:Ef; [|discriminate]. cbn [option_map flat_res] in Ej.
        destruct (own_stmt inf idf body k) as [s|] eqn:Eo; [|discriminate].
        destruct (edge_stmts rq inf idf kids k) as [es|] eqn:Ee; [|discriminate].
        inversion Ej; subst pj. clear Ej.
        apply edge_stmts_ok in Ee. destruct (edges_only _ _ Ee) as (X1 & X2 & X3).
        destruct (find_kid_In _ _ _ Ef) as [Hin _].
        cbn [flat_map]. rewrite !lookup_app_find, Ef. cbn [option_map].
        change (s :: es) with ([s] ++ es). rewrite <- !app_assoc.
        rewrite !shape_app, !gattrs_app, !edges_app, X1, X2, X3, S1, G1. cbn [app].
        assert (Hs : shape [s] = [nt_of (tsort rq k)] /\ graph_attrs [s] = [] /\
                     Forall2 edge_ok (req_list k) (edges_of [s])).
        { destruct k as [a|a ks]; cbn [own_stmt] in Eo.
          - inversion Eo; subst. repeat split. constructor.
          - destruct (body (Sched a ks)) as [bk|] eqn:Eb; [|discriminate]. inversion Eo; subst.
            rewrite Forall_forall in IH. destruct (IH _ Hin bk Eb) as (K1 & K2 & K3).
            unfold shape, graph_attrs, edges_of in *.
            cbn [flat_map shape_stmt edges_stmt app header]. rewrite K1. unfold graph_attrs. cbn [flat_map app]. rewrite K2, !app_nil_r.
            repeat split.
            + exact K3. }
        destruct Hs as (Y1 & Y2 & Y3). rewrite Y1, Y2. cbn [app map].
        split; [reflexivity|]. split; [reflexivity|].
        apply Forall2_app; [assumption|apply Forall2_app; assumption].
  Qed.
End Structure.

(* ------------------------------------------------------------------ *)
(* the export is inside the DOT subset: every identifier and string can be lexed back *)

Definition id_digits (s : bytes) : Prop := s <> [] /\ forallb is_digit s = true.

Lemma digit_idchar c : is_digit c = true -> is_idchar c = true.
Proof. unfold is_idchar. intros ->. reflexivity. Qed.

Lemma digits_idchars s : forallb is_digit s = true -> forallb is_idchar s = true.
Proof.
  induction s as [|c s IH]; [reflexivity|]. cbn [forallb]. intros H.
  apply andb_true_iff in H. destruct H as [Hc Hs]. rewrite (digit_idchar c Hc), IH; auto.
Qed.

Lemma digits_no_bslash s : forallb is_digit s = true -> ~ In 92%N s.
Proof.
  intros H Hin. rewrite forallb_forall in H. specialize (H _ Hin). discriminate.
Qed.

Lemma id_digits_ok s : id_digits s -> id_ok s /\ not_kw s.
Proof.
  intros [Hne Hd]. split; [split; [exact Hne|apply digits_idchars; exact Hd]|].
  destruct s as [|c s]; [congruence|]. cbn [forallb] in Hd. apply andb_true_iff in Hd.
  destruct Hd as [Hc _]. unfold not_kw, kw_subgraph, kw_graph. cbn [bytes_eqb].
  unfold is_digit in Hc. apply andb_true_iff in Hc. destruct Hc as [_ Hc]. apply N.leb_le in Hc.
  split.
  - destruct (N.eqb_spec c 115); [lia|reflexivity].
  - destruct (N.eqb_spec c 103); [lia|reflexivity].
Qed.

Lemma not_in_app (x : N) a b : ~ In x a -> ~ In x b -> ~ In x (a ++ b).
Proof. intros Ha Hb H. apply in_app_iff in H. tauto. Qed.

Section Lexable.
  Variable rq : rmap.
  Variable inf : infos.
  Variable idf : nat -> bytes.
  Hypothesis Hidf : forall j, id_digits (idf j).
  Hypothesis Hlab : forall j l, jlabel (inf j) = Some l -> ~ In 92%N l.

  Lemma cluster_ok j : id_ok (cluster idf j).
  Proof.
    destruct (Hidf j) as [Hne Hd]. unfold cluster. split.
    - intro E. apply app_eq_nil in E. destruct E; discriminate.
    - rewrite forallb_app. rewrite (digits_idchars _ Hd). reflexivity.
  Qed.

  Lemma style_attrs_ok atomic j : Forall attr_ok (style_attrs inf idf atomic j).
  Proof.
    assert (K : forall s, s = k_style \/ s = k_label \/ s = k_shape \/ s = k_color \/ s = k_penwidth
                     -> id_ok s).
    { intros s [->|[->|[->|[->| ->]]]]; (split; [discriminate|reflexivity]). }
    assert (Hl : ~ In 92%N (graph_label inf idf j)).
    { unfold graph_label. apply not_in_app; [apply digits_no_bslash; apply Hidf|].
      apply not_in_app; [cbn; intuition discriminate|].
      unfold text_label. destruct (jlabel (inf j)) as [l|] eqn:E; [eapply Hlab; eauto|].
      cbn. intuition discriminate. }
    unfold style_attrs. apply Forall_app. split.
    - repeat constructor; cbn [fst snd]; try (apply K; tauto); try exact Hl.
      + destruct atomic, (jforever (inf j)); cbn; intuition discriminate.
      + cbn. intuition discriminate.
    - destruct (jcrit (inf j)); repeat constructor; cbn [fst snd]; try (apply K; tauto);
        cbn; intuition discriminate.
  Qed.

  Lemma edge_stmt_lex kids k r e : edge_stmt rq inf idf kids k r = Ok e -> stmt_ok e.
  Proof.
    intros H. apply edge_stmt_ok in H. destruct H as (kr & _ & x & y & -> & _).
    cbn [stmt_ok fst snd]. destruct (id_digits_ok _ (Hidf x)) as [I1 I2].
    destruct (id_digits_ok _ (Hidf y)) as [I3 _].
    split; [exact I2|]. split; [exact I1|]. split; [exact I3|].
    assert (Kh : id_ok k_lhead) by (split; [discriminate|reflexivity]).
    assert (Kt : id_ok k_ltail) by (split; [discriminate|reflexivity]).
    apply Forall_app. split.
    - destruct k; cbn [lhead_of]; [constructor|].
      constructor; [split; [exact Kh|apply cluster_ok]|constructor].
    - destruct kr; cbn [ltail_of]; [constructor|].
      constructor; [split; [exact Kt|apply cluster_ok]|constructor].
  Qed.

  Lemma header_ok a : Forall attr_ok a -> Forall stmt_ok (header a).
  Proof.
    intros Ha. unfold header. constructor; [|constructor; [exact Ha|constructor]].
    cbn [stmt_ok]. split; [split; reflexivity|]. split; (split; [discriminate|reflexivity]).
  Qed.

  Lemma stmt_ok_sub n b : id_ok n -> Forall stmt_ok b -> stmt_ok (SSub n b).
  Proof. intros Hn Hb. cbn [stmt_ok]. split; [exact Hn|]. apply stmt_ok_Forall. exact Hb. Qed.

  Lemma body_lex t : forall b, body rq inf idf t = Ok b -> Forall stmt_ok b.
  Proof.
    induction t as [i|i kids IH] using jtree_ind2; intros b H.
    - cbn in H. inversion H. constructor.
    - cbn [body] in H. destruct (topo rq (map tid kids)) as [order r].
      destruct (tres_eqb r TOk); [|discriminate].
      apply rconcat_map_Ok in H. destruct H as (bs & HF & ->).
      induction HF as [|j pj ord bs Hj HF IHF]; [constructor|].
      cbn [concat]. apply Forall_app. split; [|exact IHF].
      unfold job_stmts in Hj. rewrite lookup_app_find in Hj.
      destruct (find_kid j kids) as [k|] eqn:Ef; [|discriminate]. cbn [option_map flat_res] in Hj.
      destruct (own_stmt inf idf (body rq inf idf) k) as [s|] eqn:Eo; [|discriminate].
      destruct (edge_stmts rq inf idf kids k) as [es|] eqn:Ee; [|discriminate].
      inversion Hj; subst pj. constructor.
      + destruct (find_kid_In _ _ _ Ef) as [Hin _].
        destruct k as [a|a ks]; cbn [own_stmt] in Eo.
        * injection Eo as <-. cbn [stmt_ok]. destruct (id_digits_ok _ (Hidf a)) as [I1 I2].
          split; [exact I2|]. split; [exact I1|]. apply style_attrs_ok.
        * destruct (body rq inf idf (Sched a ks)) as [bk|] eqn:Eb; [|discriminate].
          injection Eo as <-. apply stmt_ok_sub; [apply cluster_ok|].
          change (Forall stmt_ok (header (style_attrs inf idf false a) ++ bk)).
          apply Forall_app. split.
          -- apply header_ok. apply style_attrs_ok.
          -- rewrite Forall_forall in IH. apply (IH _ Hin). exact Eb.
      + unfold edge_stmts in Ee. apply rmapM_Ok in Ee.
        clear -Ee Hidf. induction Ee as [|r e l es Hre Hl IHe]; constructor; auto.
        eapply edge_stmt_lex; eauto.
  Qed.
End Lexable.

Definition labels_ok (inf : infos) : Prop := forall j l, jlabel (inf j) = Some l -> ~ In 92%N l.

Lemma dot_ast_ok rq inf t g : labels_ok inf -> dot_ast rq inf t = Ok g -> graph_ok g.
Proof.
  intros Hlab H. unfold dot_ast in H. destruct (set_ids rq t) as [[ids nxt]|]; [|discriminate].
  set (idf := fun j => fmt (id_width (tree_size t - 1)) (assoc_id ids j)) in *.
  destruct (body rq inf idf t) as [b|] eqn:Eb; [|discriminate]. inversion H; subst g.
  assert (Hidf : forall j, id_digits (idf j)) by (intros j; apply fmt_digits).
  split; cbn [gname gbody].
  - split; [discriminate|reflexivity].
  - change (Forall stmt_ok (header [] ++ b)). apply Forall_app. split.
    + apply header_ok. constructor.
    + eapply body_lex; eauto.
Qed.

(* dot_format() is valid DOT (in the subset grammar) and reads back as the abstract graph *)
Theorem dot_roundtrip rq inf t g : labels_ok inf -> dot_ast rq inf t = Ok g ->
  dot_bytes rq inf t = Ok (render (print_graph g)) /\
  parse (render (print_graph g)) = Some g.
Proof.
  intros Hlab H. split.
  - unfold dot_bytes, dot_tokens. rewrite H. reflexivity.
  - apply parse_render_print. eapply dot_ast_ok; eauto.
Qed.

(* ------------------------------------------------------------------ *)
(* every requirement of the tree is met exactly once *)

(* requirements stay inside the scheduler of the job, at every level *)
Fixpoint closed_tree (rq : rmap) (t : jtree) : Prop :=
  match t with
  | Atom _ => True
  | Sched _ kids =>
      closed rq (map tid kids) /\
      (fix all (ks : list jtree) : Prop :=
         match ks with [] => True | k :: ks' => closed_tree rq k /\ all ks' end) kids
  end.

Lemma closed_tree_Forall rq ks :
  (fix all (ks : list jtree) : Prop :=
     match ks with [] => True | k :: ks' => closed_tree rq k /\ all ks' end) ks
  <-> Forall (closed_tree rq) ks.
Proof.
  induction ks as [|k ks IH]; split; intros H; auto.
  - destruct H as [H1 H2]. constructor; auto. apply IH. exact H2.
  - inversion H; subst. split; auto. apply IH. assumption.
Qed.

(* all (job, requirement) pairs of the jobs below the root *)
Definition all_reqs (rq : rmap) (t : jtree) : list (nat * nat) :=
  flat_map (fun j => map (fun r => (j, r)) (rq j)) (below t).

Definition ends (p : jtree * jtree) : nat * nat := (tid (fst p), tid (snd p)).

Lemma flat_map_flat_map {A B C} (f : B -> list C) (g : A -> list B) l :
  flat_map f (flat_map g l) = flat_map (fun x => flat_map f (g x)) l.
Proof.
  induction l as [|a l IH]; [reflexivity|]. cbn [flat_map]. rewrite flat_map_app, IH. reflexivity.
Qed.

Lemma level_reqs_ends rq kids k : (forall r, In r (rq (tid k)) -> In r (map tid kids)) ->
  map ends (level_reqs rq kids k) = map (fun r => (tid k, r)) (rq (tid k)).
Proof.
  unfold level_reqs. induction (rq (tid k)) as [|r l IH]; intros Hc; [reflexivity|].
  cbn [flat_map map]. destruct (find_kid_some kids r (Hc r (or_introl eq_refl))) as [kr Ef].
  rewrite Ef. destruct (find_kid_In _ _ _ Ef) as [_ Hr]. cbn [app map]. unfold ends at 1.
  cbn [fst snd]. rewrite Hr. f_equal. apply IH. intros x Hx. apply Hc. right. exact Hx.
Qed.

Lemma map_flat_map {A B C} (f : B -> C) (g : A -> list B) l :
  map f (flat_map g l) = flat_map (fun x => map f (g x)) l.
Proof.
  induction l as [|a l IH]; [reflexivity|]. cbn [flat_map]. rewrite map_app, IH. reflexivity.
Qed.

Theorem req_list_exact rq t : tree_wf rq t -> closed_tree rq t ->
  Permutation (map ends (req_list rq t)) (all_reqs rq t).
Proof.
  induction t as [i|i kids IH] using jtree_ind2; intros Hwf Hcl; [constructor|].
  pose proof (order_perm _ _ _ Hwf) as Hp.
  destruct (tree_wf_kids _ _ _ Hwf) as (Hok & Hnd & Hkids).
  cbn [closed_tree] in Hcl. destruct Hcl as [Hc Hcl]. apply closed_tree_Forall in Hcl.
  cbn [req_list]. unfold all_reqs, below. cbn [kids_of].
  rewrite flat_map_flat_map, map_flat_map.
  etransitivity; [apply Permutation_flat_map; exact Hp|].
  rewrite flat_map_map. apply perm_flat_map_pw.
  rewrite Forall_forall in *. intros k Hk.
  rewrite lookup_app_find, (find_kid_self kids k Hnd Hk). cbn [option_map].
  rewrite map_app, tree_ids_below. cbn [flat_map].
  rewrite level_reqs_ends.
  - etransitivity; [apply Permutation_app_comm|]. apply Permutation_app_head.
    apply (IH k Hk (Hkids k Hk) (Hcl k Hk)).
  - intros r Hr. apply (Hc (tid k) r); [apply in_map; exact Hk|exact Hr].
Qed.

(* ------------------------------------------------------------------ *)
(* list() *)

Definition is_end_line (x : lline) : bool := match lkind_of x with LEnd => true | _ => false end.
(* the lines that introduce a job (all but the "--end--" lines) *)
Definition heads (l : list lline) : list lline := filter (fun x => negb (is_end_line x)) l.

Lemma oconcat_map_Some {A B} (f : A -> option (list B)) : forall l b,
  oconcat (map f l) = Some b ->
  exists bs, Forall2 (fun a x => f a = Some x) l bs /\ b = concat bs.
Proof.
  induction l as [|a l IH]; intros b H.
  - cbn in H. inversion H; subst. exists []. split; [constructor|reflexivity].
  - cbn [map oconcat] in H. destruct (f a) as [x|] eqn:Ef; [|discriminate].
    destruct (oconcat (map f l)) as [b'|] eqn:Er; [|discriminate].
    inversion H; subst. destruct (IH b' eq_refl) as (bs & HF & ->).
    exists (x :: bs). split; [constructor; auto|reflexivity].
Qed.

Lemma heads_app a b : heads (a ++ b) = heads a ++ heads b.
Proof. apply filter_app. Qed.

(* the jobs appear in the listing order, each introduced by exactly one line *)
Lemma list_lines_walk rq t : forall d l,
  list_lines_at rq d t = Some l -> map ljob (heads l) = walk rq t.
Proof.
  induction t as [i|i kids IH] using jtree_ind2; intros d l H.
  - cbn in H. inversion H. reflexivity.
  - cbn [list_lines_at walk] in *. destruct (topo rq (map tid kids)) as [order r]. cbn [fst].
    destruct (tres_eqb r TOk); [|discriminate].
    apply oconcat_map_Some in H. destruct H as (bs & HF & ->).
    induction HF as [|j pj ord bs Hj HF IHF]; [reflexivity|].
    cbn [concat flat_map]. rewrite heads_app, map_app, IHF. f_equal.
    rewrite !lookup_app_find in *. destruct (find_kid j kids) as [k|] eqn:Ef; [|discriminate].
    cbn [option_map join_opt] in Hj. destruct (find_kid_In _ _ _ Ef) as [Hin Ht].
    destruct k as [a|a ks]; cbn [own_lines tid] in *.
    + inversion Hj; subst. reflexivity.
    + destruct (list_lines_at rq (S d) (Sched a ks)) as [lk|] eqn:El; [|discriminate].
      inversion Hj; subst. cbn [option_map].
      unfold heads. cbn [filter is_end_line lkind_of negb map ljob]. rewrite filter_app.
      cbn [filter is_end_line lkind_of negb]. rewrite map_app. cbn [map].
      rewrite app_nil_r. f_equal. rewrite Forall_forall in IH. eapply IH; eauto.
Qed.

Lemma assoc_id_map ids : NoDup (map fst ids) -> map (assoc_id ids) (map fst ids) = map snd ids.
Proof.
  intros ND. rewrite map_map. apply map_ext_in. intros [j n] Hin. cbn [fst snd].
  apply assoc_id_In; auto.
Qed.

Lemma filter_map_comm {A B} (f : A -> B) (p : B -> bool) l :
  filter p (map f l) = map f (filter (fun x => p (f x)) l).
Proof.
  induction l as [|a l IH]; [reflexivity|]. cbn [map filter]. destruct (p (f a)); cbn [map]; rewrite IH; reflexivity.
Qed.

Definition head_rows (L : list (lline * nat)) : list (lline * nat) :=
  filter (fun x => negb (is_end_line (fst x))) L.

(* list() shows every job exactly once, numbered 1, 2, 3 ... from the top *)
Theorem list_numbered rq t L : tree_wf rq t -> unique_jobs t -> list_model rq t = Some L ->
  map (fun x => ljob (fst x)) (head_rows L) = walk rq t /\
  Permutation (map (fun x => ljob (fst x)) (head_rows L)) (below t) /\
  NoDup (map (fun x => ljob (fst x)) (head_rows L)) /\
  map snd (head_rows L) = seq 1 (length (head_rows L)).
Proof.
  intros Hwf Hu H. unfold list_model in H.
  destruct (set_ids rq t) as [[ids nxt]|] eqn:Es; [|discriminate].
  destruct (list_lines_at rq 0 t) as [l|] eqn:El; [|discriminate]. inversion H; subst L. clear H.
  destruct (set_ids_numbers rq t ids nxt Hwf Hu Es) as (Hp & Hnd & Hs & Hw).
  pose proof (list_lines_walk rq t 0 l El) as Hl.
  unfold head_rows. rewrite filter_map_comm. cbn [fst]. fold (heads l).
  rewrite !map_map. cbn [fst snd].
  assert (E1 : map (fun x => ljob x) (heads l) = walk rq t) by exact Hl.
  split; [exact E1|]. split; [rewrite E1, <- Hw; exact Hp|]. split; [rewrite E1, <- Hw; exact Hnd|].
  rewrite map_length.
  assert (E2 : map (fun x => assoc_id ids (ljob x)) (heads l) = map (assoc_id ids) (map ljob (heads l)))
    by (rewrite map_map; reflexivity).
  rewrite E2, Hl, <- Hw, (assoc_id_map ids Hnd), Hs.
  f_equal. rewrite <- (map_length ljob (heads l)), Hl, <- Hw, map_length. reflexivity.
Qed.

(* ---- the numbering follows the requirements *)

Definition before (l : list nat) (x y : nat) : Prop := exists A B C, l = A ++ x :: B ++ y :: C.

Lemma before_ctx X Y l x y : before l x y -> before (X ++ l ++ Y) x y.
Proof.
  intros (A & B & C & ->). exists (X ++ A), B, (C ++ Y).
  rewrite <- !app_assoc. cbn [app]. rewrite <- !app_assoc. reflexivity.
Qed.

(* j and r are jobs of one scheduler of the tree and j requires r *)
Fixpoint sib_req (rq : rmap) (t : jtree) (j r : nat) : Prop :=
  match t with
  | Atom _ => False
  | Sched _ kids =>
      (In j (map tid kids) /\ In r (map tid kids) /\ In r (rq j)) \/
      (fix ex (ks : list jtree) : Prop :=
         match ks with [] => False | k :: ks' => sib_req rq k j r \/ ex ks' end) kids
  end.

Lemma sib_req_Exists rq ks j r :
  (fix ex (ks : list jtree) : Prop :=
     match ks with [] => False | k :: ks' => sib_req rq k j r \/ ex ks' end) ks
  <-> exists k, In k ks /\ sib_req rq k j r.
Proof.
  induction ks as [|k ks IH]; split.
  - intros [].
  - intros (k & [] & _).
  - intros [H|H]; [exists k; split; [left; reflexivity|exact H]|].
    apply IH in H. destruct H as (k' & Hin & H). exists k'. split; [right; exact Hin|exact H].
  - intros (k' & [->|Hin] & H); [left; exact H|]. right. apply IH. exists k'. auto.
Qed.

Lemma flat_map_split {A B} (g : A -> list B) X x Y :
  flat_map g (X ++ x :: Y) = flat_map g X ++ g x ++ flat_map g Y.
Proof. rewrite flat_map_app. reflexivity. Qed.

Lemma walk_before rq t : tree_wf rq t -> forall j r, sib_req rq t j r -> before (walk rq t) r j.
Proof.
  induction t as [i|i kids IH] using jtree_ind2; intros Hwf j r H; [destruct H|].
  pose proof (order_perm _ _ _ Hwf) as Hp.
  destruct (tree_wf_kids _ _ _ Hwf) as (Hok & Hnd & Hkids).
  cbn [sib_req] in H. cbn [walk].
  set (g := fun j0 => j0 :: match lookup_app (walk rq) kids j0 with Some l => l | None => [] end).
  destruct H as [(Hj & Hr & Hreq)|H].
  - destruct (topo_complete rq (map tid kids) Hnd Hok) as [_ Hord].
    apply (Permutation_in _ (Permutation_sym Hp)) in Hj.
    apply in_split in Hj. destruct Hj as (l1 & l2 & E).
    specialize (Hord l1 j l2 E r Hreq). apply in_split in Hord. destruct Hord as (A & B & ->).
    rewrite E. rewrite <- app_assoc. cbn [app].
    rewrite flat_map_split. cbn [flat_map]. rewrite flat_map_split.
    unfold g at 2 4. cbn [app].
    exists (flat_map g A),
           (match lookup_app (walk rq) kids r with Some l => l | None => [] end ++ flat_map g B),
           (match lookup_app (walk rq) kids j with Some l => l | None => [] end ++ flat_map g l2).
    rewrite <- !app_assoc. reflexivity.
  - apply sib_req_Exists in H. destruct H as (k & Hk & H).
    rewrite Forall_forall in IH, Hkids. specialize (IH k Hk (Hkids k Hk) j r H).
    assert (Hin : In (tid k) (fst (topo rq (map tid kids)))).
    { apply (Permutation_in _ (Permutation_sym Hp)). apply in_map. exact Hk. }
    apply in_split in Hin. destruct Hin as (X & Y & E). rewrite E, flat_map_split.
    unfold g at 2. rewrite lookup_app_find, (find_kid_self kids k Hnd Hk). cbn [option_map].
    change (tid k :: walk rq k) with ([tid k] ++ walk rq k). rewrite <- !app_assoc.
    rewrite app_assoc. apply before_ctx. exact IH.
Qed.

Lemma ids_position : forall (ids : list (nat * nat)) s A x C,
  map fst ids = A ++ x :: C -> map snd ids = seq s (length ids) -> In (x, s + length A) ids.
Proof.
  induction ids as [|[a n] ids IH]; intros s A x C H1 H2.
  - destruct A; discriminate.
  - cbn [map fst snd length seq] in *. inversion H2 as [[E2 E3]].
    destruct A as [|a' A]; cbn [app length] in *.
    + inversion H1; subst. left. f_equal. lia.
    + inversion H1 as [[E0 E1]]. right. replace (s + S (length A)) with (S s + length A) by lia.
      eapply IH; eauto.
Qed.

(* a requirement always has a smaller number than the job that requires it *)
Theorem ids_topological rq t ids nxt : tree_wf rq t -> unique_jobs t ->
  set_ids rq t = Some (ids, nxt) ->
  forall j r, sib_req rq t j r -> assoc_id ids r < assoc_id ids j.
Proof.
  intros Hwf Hu Es j r H.
  destruct (set_ids_numbers rq t ids nxt Hwf Hu Es) as (Hp & Hnd & Hs & Hw).
  destruct (walk_before rq t Hwf j r H) as (A & B & C & E). rewrite <- Hw in E.
  pose proof (ids_position ids 1 A r (B ++ j :: C) E Hs) as P1.
  assert (E' : map fst ids = (A ++ r :: B) ++ j :: C) by (rewrite E, <- app_assoc; reflexivity).
  pose proof (ids_position ids 1 (A ++ r :: B) j C E' Hs) as P2.
  rewrite (assoc_id_In _ _ _ Hnd P1), (assoc_id_In _ _ _ Hnd P2).
  rewrite app_length. cbn [length]. lia.
Qed.

(* ------------------------------------------------------------------ *)
(* styles *)

Fixpoint attr_get (k : bytes) (a : list attr) : option aval :=
  match a with
  | [] => None
  | (k', v) :: a' => if bytes_eqb k k' then Some v else attr_get k a'
  end.

Definition v_rounded_dashed := Eval compute in (v_rounded ++ 44%N :: v_dashed).

(* critical <-> red and thick, else thin; forever <-> dashed; atomic <-> rounded; the label is
   the id, a colon and the job's own label *)
Theorem style_spec inf idf atomic j :
  let a := style_attrs inf idf atomic j in
  attr_get k_penwidth a = Some (VStr (if jcrit (inf j) then v_two else v_half)) /\
  attr_get k_color a = (if jcrit (inf j) then Some (VStr v_red) else None) /\
  attr_get k_style a = Some (VStr (match atomic, jforever (inf j) with
                                   | true, true => v_rounded_dashed
                                   | true, false => v_rounded
                                   | false, true => v_dashed
                                   | false, false => []
                                   end)) /\
  attr_get k_shape a = Some (VStr v_box) /\
  attr_get k_label a = Some (VStr (idf j ++ v_colon ++ text_label inf j)).
Proof.
  unfold style_attrs, graph_label.
  destruct atomic, (jforever (inf j)), (jcrit (inf j)); repeat split; reflexivity.
Qed.

(* ------------------------------------------------------------------ *)
(* D7: an empty nested scheduler that is a requirement *)

Definition d7_tree : jtree := Sched 0 [Sched 1 []; Atom 2].
Definition d7_rq : rmap := tab_get_nat [[]; []; [1]].
Definition d7_inf : infos := fun _ => {| jlabel := None; jcrit := false; jforever := false |}.

Theorem d7_refuted :
  tree_wf d7_rq d7_tree /\ closed_tree d7_rq d7_tree /\ unique_jobs d7_tree /\ labels_ok d7_inf /\
  dot_ast d7_rq d7_inf d7_tree = Err ENoExit /\
  (* the listing is not affected *)
  (exists L, list_model d7_rq d7_tree = Some L).
Proof.
  split; [|split; [|split; [|split; [|split]]]].
  - split.
    + cbn [all_levels_ok d7_tree]. repeat split; vm_compute; reflexivity.
    + cbn [nodup_levels d7_tree]. repeat split; apply nodup_b_spec; reflexivity.
  - cbn [closed_tree d7_tree]. repeat split; intros j r Hj Hr; cbn in Hj.
    + destruct Hj as [<-|[<-|[]]]; cbn in Hr; [destruct Hr|destruct Hr as [<-|[]]; cbn; auto].
    + destruct Hj.
  - apply nodup_b_spec. reflexivity.
  - intros j l H. discriminate.
  - vm_compute. reflexivity.
  - eexists. vm_compute. reflexivity.
Qed.

(* ------------------------------------------------------------------ *)
(* dot_format() succeeds on every acyclic closed tree outside the D7 class *)

(* non-empty, and so is every scheduler nested in it *)
Fixpoint solid (t : jtree) : Prop :=
  match t with
  | Atom _ => True
  | Sched _ kids =>
      kids <> [] /\
      (fix all (ks : list jtree) : Prop :=
         match ks with [] => True | k :: ks' => solid k /\ all ks' end) kids
  end.

Lemma solid_Forall ks :
  (fix all (ks : list jtree) : Prop :=
     match ks with [] => True | k :: ks' => solid k /\ all ks' end) ks <-> Forall solid ks.
Proof.
  induction ks as [|k ks IH]; split; intros H; auto.
  - destruct H as [H1 H2]. constructor; auto. apply IH. exact H2.
  - inversion H; subst. split; auto. apply IH. assumption.
Qed.

(* every nested scheduler that has or is a requirement is solid *)
Fixpoint linked_solid (rq : rmap) (t : jtree) : Prop :=
  match t with
  | Atom _ => True
  | Sched _ kids =>
      (forall k, In k kids ->
         (rq (tid k) <> [] \/ exists k', In k' kids /\ In (tid k) (rq (tid k'))) -> solid k) /\
      (fix all (ks : list jtree) : Prop :=
         match ks with [] => True | k :: ks' => linked_solid rq k /\ all ks' end) kids
  end.

Lemma linked_solid_Forall rq ks :
  (fix all (ks : list jtree) : Prop :=
     match ks with [] => True | k :: ks' => linked_solid rq k /\ all ks' end) ks
  <-> Forall (linked_solid rq) ks.
Proof.
  induction ks as [|k ks IH]; split; intros H; auto.
  - destruct H as [H1 H2]. constructor; auto. apply IH. exact H2.
  - inversion H; subst. split; auto. apply IH. assumption.
Qed.

Lemma middle_In l : l <> [] -> exists c, middle l = Some c /\ In c l.
Proof.
  intros Hne. destruct l as [|a l]; [congruence|]. unfold middle.
  eexists. split; [reflexivity|]. apply nth_In.
  cbn [length]. rewrite Nat.sub_1_r. cbn [pred].
  destruct (length l) as [|n] eqn:E; [cbn; lia|].
  pose proof (Nat.lt_div2 (S n) ltac:(lia)). lia.
Qed.

Lemma entries_nonempty rq ms : ms <> [] -> NoDup ms -> snd (topo rq ms) = TOk ->
  entries rq ms <> [].
Proof.
  intros Hne Hnd Hok. destruct (topo_complete rq ms Hnd Hok) as [Hp Hord].
  destruct (fst (topo rq ms)) as [|j l2] eqn:E.
  - apply Permutation_nil in Hp. congruence.
  - assert (Hj : rq j = []).
    { destruct (rq j) as [|r l] eqn:Er; [reflexivity|].
      exfalso. apply (Hord [] j l2 eq_refl r). rewrite Er. left. reflexivity. }
    intro En. assert (Hin : In j (entries rq ms)).
    { apply filter_In. split; [apply (Permutation_in _ Hp); left; reflexivity|]. rewrite Hj. reflexivity. }
    rewrite En in Hin. destruct Hin.
Qed.

Lemma last_app_cons_gen {A} (a : list A) x l d : last (a ++ x :: l) d = last (x :: l) d.
Proof.
  induction a as [|y a IH]; [reflexivity|].
  change ((y :: a) ++ x :: l) with (y :: (a ++ x :: l)).
  destruct (a ++ x :: l) eqn:E; [destruct a; discriminate|]. rewrite <- IH. reflexivity.
Qed.

Lemma last_in_tail {A} (a : list A) k b d : In (last (a ++ k :: b) d) (k :: b).
Proof.
  rewrite last_app_cons_gen.
  revert k. induction b as [|x b IH]; intros k; [left; reflexivity|].
  right. change (last (k :: x :: b) d) with (last (x :: b) d). apply IH.
Qed.

Lemma exits_nonempty rq inf ms : ms <> [] -> NoDup ms -> snd (topo rq ms) = TOk ->
  exit_cands rq inf ms <> [].
Proof.
  intros Hne Hnd Hok. destruct (topo_complete rq ms Hnd Hok) as [Hp Hord].
  assert (Hno : NoDup (fst (topo rq ms))) by (apply (Permutation_NoDup (Permutation_sym Hp)); exact Hnd).
  destruct (@exists_last _ (fst (topo rq ms))) as (l1 & j & E).
  { intro En. rewrite En in Hp. apply Permutation_nil in Hp. congruence. }
  assert (Hjms : In j ms).
  { apply (Permutation_in _ Hp). rewrite E. apply in_app_iff. right. left. reflexivity. }
  assert (Hns : has_succ rq ms j = false).
  { unfold has_succ. apply not_true_iff_false. intro Hex. apply existsb_exists in Hex.
    destruct Hex as (k & Hk & Hm). apply memb_In in Hm.
    apply (Permutation_in _ (Permutation_sym Hp)) in Hk. apply in_split in Hk.
    destruct Hk as (a & b & Ek). specialize (Hord a k b Ek j Hm).
    rewrite Ek in Hno. apply NoDup_app_inv in Hno. destruct Hno as (_ & _ & Hd).
    apply (Hd j Hord).
    pose proof (last_in_tail a k b 0) as Hl. rewrite <- Ek, E, last_last in Hl. exact Hl. }
  assert (Hin : In j (exits rq inf false ms)).
  { apply filter_In. split; [exact Hjms|]. rewrite Hns. reflexivity. }
  unfold exit_cands. destruct (exits rq inf true ms) as [|x l]; [|discriminate].
  intro En. rewrite En in Hin. destruct Hin.
Qed.

Lemma solid_kids i kids : solid (Sched i kids) -> kids <> [] /\ Forall solid kids.
Proof. cbn [solid]. intros [H1 H2]. split; [exact H1|]. apply solid_Forall. exact H2. Qed.

Lemma map_nonempty {A B} (f : A -> B) l : l <> [] -> map f l <> [].
Proof. destruct l; [congruence|discriminate]. Qed.

Lemma mid_entry_total rq t : tree_wf rq t -> solid t -> exists x, mid_entry rq t = Ok x.
Proof.
  induction t as [i|i kids IH] using jtree_ind2; intros Hwf Hs; [eexists; reflexivity|].
  destruct (tree_wf_kids _ _ _ Hwf) as (Hok & Hnd & Hkids).
  destruct (solid_kids _ _ Hs) as [Hne Hsk].
  cbn [mid_entry].
  destruct (middle_In _ (entries_nonempty rq _ (map_nonempty tid _ Hne) Hnd Hok)) as (c & -> & Hc).
  apply filter_In in Hc. destruct Hc as [Hc _].
  destruct (find_kid_some kids c Hc) as [k Ef]. rewrite lookup_app_find, Ef. cbn [option_map flat_res].
  destruct (find_kid_In _ _ _ Ef) as [Hin _]. rewrite Forall_forall in *. apply IH; auto.
Qed.

Lemma exit_cands_incl rq inf ms c : In c (exit_cands rq inf ms) -> In c ms.
Proof.
  unfold exit_cands. destruct (exits rq inf true ms) as [|x l] eqn:E.
  - intros H. apply filter_In in H. tauto.
  - rewrite <- E. intros H. apply filter_In in H. tauto.
Qed.

Lemma mid_exit_total rq inf t : tree_wf rq t -> solid t -> exists x, mid_exit rq inf t = Ok x.
Proof.
  induction t as [i|i kids IH] using jtree_ind2; intros Hwf Hs; [eexists; reflexivity|].
  destruct (tree_wf_kids _ _ _ Hwf) as (Hok & Hnd & Hkids).
  destruct (solid_kids _ _ Hs) as [Hne Hsk].
  cbn [mid_exit].
  destruct (middle_In _ (exits_nonempty rq inf _ (map_nonempty tid _ Hne) Hnd Hok)) as (c & -> & Hc).
  apply exit_cands_incl in Hc.
  destruct (find_kid_some kids c Hc) as [k Ef]. rewrite lookup_app_find, Ef. cbn [option_map flat_res].
  destruct (find_kid_In _ _ _ Ef) as [Hin _]. rewrite Forall_forall in *. apply IH; auto.
Qed.

Lemma rmapM_total {A B} (f : A -> res B) l :
  (forall a, In a l -> exists b, f a = Ok b) -> exists bs, rmapM f l = Ok bs.
Proof.
  induction l as [|a l IH]; intros H; [eexists; reflexivity|].
  destruct (H a (or_introl eq_refl)) as [b Hb].
  destruct IH as [bs Hbs]; [intros x Hx; apply H; right; exact Hx|].
  cbn [rmapM]. rewrite Hb, Hbs. eexists. reflexivity.
Qed.

Lemma rconcat_total {A B} (f : A -> res (list B)) l :
  (forall a, In a l -> exists b, f a = Ok b) -> exists bs, rconcat (map f l) = Ok bs.
Proof.
  induction l as [|a l IH]; intros H; [eexists; reflexivity|].
  destruct (H a (or_introl eq_refl)) as [b Hb].
  destruct IH as [bs Hbs]; [intros x Hx; apply H; right; exact Hx|].
  cbn [map rconcat]. rewrite Hb, Hbs. eexists. reflexivity.
Qed.

Lemma body_total rq inf idf t : tree_wf rq t -> closed_tree rq t -> linked_solid rq t ->
  exists b, body rq inf idf t = Ok b.
Proof.
  induction t as [i|i kids IH] using jtree_ind2; intros Hwf Hcl Hls; [eexists; reflexivity|].
  pose proof (order_perm _ _ _ Hwf) as Hp.
  destruct (tree_wf_kids _ _ _ Hwf) as (Hok & Hnd & Hkids).
  cbn [closed_tree] in Hcl. destruct Hcl as [Hc Hcl]. apply closed_tree_Forall in Hcl.
  cbn [linked_solid] in Hls. destruct Hls as [Hl Hls]. apply linked_solid_Forall in Hls.
  cbn [body]. destruct (topo rq (map tid kids)) as [order r]. cbn [fst snd] in *. subst r.
  cbn [tres_eqb]. apply rconcat_total. intros j Hj.
  apply (Permutation_in _ Hp) in Hj. destruct (find_kid_some kids j Hj) as [k Ef].
  destruct (find_kid_In _ _ _ Ef) as [Hin Ht].
  rewrite Forall_forall in *.
  unfold job_stmts. rewrite lookup_app_find, Ef. cbn [option_map flat_res].
  assert (Ho : exists s, own_stmt inf idf (body rq inf idf) k = Ok s).
  { destruct k as [a|a ks]; [eexists; reflexivity|].
    cbn [own_stmt]. destruct (IH _ Hin (Hkids _ Hin) (Hcl _ Hin) (Hls _ Hin)) as [bk ->].
    eexists. reflexivity. }
  destruct Ho as [s ->].
  assert (He : exists es, edge_stmts rq inf idf kids k = Ok es).
  { unfold edge_stmts. apply rmapM_total. intros r Hr.
    assert (Hrm : In r (map tid kids)) by (apply (Hc (tid k) r); [apply in_map; exact Hin|exact Hr]).
    destruct (find_kid_some kids r Hrm) as [kr Efr]. destruct (find_kid_In _ _ _ Efr) as [Hinr Htr].
    unfold edge_stmt. rewrite Efr.
    assert (Sk : solid k).
    { apply Hl; auto. left. intro E. rewrite E in Hr. destruct Hr. }
    assert (Skr : solid kr).
    { apply Hl; auto. right. exists k. split; [exact Hin|]. rewrite Htr. exact Hr. }
    destruct (mid_entry_total rq k (Hkids _ Hin) Sk) as [b Eb].
    destruct (mid_exit_total rq inf kr (Hkids _ Hinr) Skr) as [a Ea].
    destruct k as [j0|j0 ks0], kr as [r0|r0 ks1]; try rewrite Ea; try rewrite Eb; cbn [rbind];
      eexists; reflexivity. }
  destruct He as [es ->]. eexists. reflexivity.
Qed.

Lemma tree_size_kid k kids i : In k kids -> tree_size k < tree_size (Sched i kids).
Proof.
  intros H. cbn [tree_size]. induction kids as [|x kids IH]; [destruct H|].
  cbn [fold_right]. destruct H as [->|H]; [lia|]. specialize (IH H). lia.
Qed.

Lemma set_ids_fuel_total rq : forall fuel t start, tree_size t <= fuel -> tree_wf rq t ->
  exists ids nxt, set_ids_fuel fuel rq t start = Some (ids, nxt).
Proof.
  induction fuel as [|f IH]; intros t start Hsz Hwf; [destruct t; cbn in Hsz; lia|].
  rewrite set_ids_fuel_S. destruct t as [a|a kids].
  - cbn. eexists. eexists. reflexivity.
  - pose proof (order_perm _ _ _ Hwf) as Hp.
    destruct (tree_wf_kids _ _ _ Hwf) as (Hok & Hnd & Hkids).
    cbn [kids_of]. destruct (topo rq (map tid kids)) as [order r]. cbn [fst snd] in *. subst r.
    cbn [tres_eqb].
    assert (G : forall ord, incl ord (map tid kids) -> forall i acc,
              exists ids nxt, ids_loop (set_ids_fuel f rq) kids ord i acc = Some (ids, nxt)).
    { induction ord as [|j ord IHo]; intros Hi i acc; [eexists; eexists; reflexivity|].
      cbn [ids_loop]. destruct (find_kid_some kids j (Hi j (or_introl eq_refl))) as [k Ef].
      rewrite Ef. destruct (find_kid_In _ _ _ Ef) as [Hin _].
      assert (Hi' : incl ord (map tid kids)) by (intros x Hx; apply Hi; right; exact Hx).
      destruct k as [b|b ks]; [apply IHo; exact Hi'|].
      rewrite Forall_forall in Hkids.
      destruct (IH (Sched b ks) (S i)) as (sub & i' & ->).
      - pose proof (tree_size_kid _ _ a Hin). lia.
      - apply Hkids. exact Hin.
      - apply IHo. exact Hi'. }
    apply G. intros x Hx. apply (Permutation_in _ Hp). exact Hx.
Qed.

(* the D7 class is the only obstacle *)
Theorem dot_total rq inf t : tree_wf rq t -> closed_tree rq t -> linked_solid rq t ->
  exists g, dot_ast rq inf t = Ok g.
Proof.
  intros Hwf Hcl Hls. unfold dot_ast, set_ids.
  destruct (set_ids_fuel_total rq (tree_size t) t 1 (le_n _) Hwf) as (ids & nxt & ->).
  destruct (body_total rq inf (fun j => fmt (id_width (tree_size t - 1)) (assoc_id ids j)) t Hwf Hcl Hls)
    as [b ->].
  eexists. reflexivity.
Qed.

(* ------------------------------------------------------------------ *)
(* summary statements *)

(* the abstract graph of dot_format(): header, then nodes / clusters nested as the (sorted) tree,
   and one edge per requirement; ids are the numbers of _set_sched_ids, zero-padded *)
Theorem dot_structure rq inf t g : dot_ast rq inf t = Ok g ->
  exists ids nxt b,
    set_ids rq t = Some (ids, nxt) /\
    let idf := fun j => fmt (id_width (tree_size t - 1)) (assoc_id ids j) in
    gname g = v_name /\ gbody g = header [] ++ b /\ body_spec rq inf idf t b.
Proof.
  intros H. unfold dot_ast in H. destruct (set_ids rq t) as [[ids nxt]|] eqn:Es; [|discriminate].
  destruct (body rq inf (fun j => fmt (id_width (tree_size t - 1)) (assoc_id ids j)) t) as [b|] eqn:Eb;
    [|discriminate].
  inversion H; subst g. exists ids, nxt, b. split; [reflexivity|]. cbn zeta. cbn [gname gbody].
  split; [reflexivity|]. split; [reflexivity|]. apply body_structure. exact Eb.
Qed.

(* acyclic + closed + outside the D7 class + no backslash in labels: dot_format() returns bytes
   that parse back to the abstract graph of the tree *)
Theorem dot_roundtrip_full rq inf t :
  tree_wf rq t -> closed_tree rq t -> linked_solid rq t -> labels_ok inf ->
  exists g, dot_ast rq inf t = Ok g /\
            dot_bytes rq inf t = Ok (render (print_graph g)) /\
            parse (render (print_graph g)) = Some g.
Proof.
  intros Hwf Hcl Hls Hlab. destruct (dot_total rq inf t Hwf Hcl Hls) as [g Hg].
  exists g. split; [exact Hg|]. apply dot_roundtrip; assumption.
Qed.
