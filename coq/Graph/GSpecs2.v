(* Executable statements of C17 and C18, evaluated by the checks on the *implementation's*
   outputs (search for a concrete failing input), and proved to hold of the model's outputs
   (and, where stated, to be equivalent to the Prop statement of the property). *)
From AJ Require Import Common.Util Graph.GModel Graph.Sanitize Graph.Topo Graph.GSpecs
  Graph.Queries Graph.Surgery Graph.QueriesP Graph.SurgeryP.

Definition closed_b (rq : rmap) (ms : list nat) : bool :=
  forallb (fun j => subset_b (rq j) ms) ms.

(* decides acyclicity of a closed duplicate-free scheduler (Topo.topo_exact) *)
Definition dag_b (rq : rmap) (ms : list nat) : bool :=
  nodup_b ms && closed_b rq ms && tres_eqb (snd (topo rq ms)) TOk.

(* ---------- C17 ---------- *)

(* predecessors(starts...) = out *)
Definition c17_pred_spec_b (ms : list nat) (rq : rmap) (starts out : list nat) : bool :=
  nodup_b out &&
  same_set out (filter (fun x => existsb (fun s => memb x (rq s)) starts) ms).

(* successors(starts...) = out, stated with [rq] only: the members that require a start *)
Definition c17_succ_spec_b (ms : list nat) (rq : rmap) (starts out : list nat) : bool :=
  negb (subset_b starts ms) ||
  (nodup_b out &&
   same_set out (filter (fun x => existsb (fun s => memb s (rq x)) starts) ms)).

(* after _backlinks(), _s_successors of every member is the converse of required on members *)
Definition c17_backlinks_spec_b (ms : list nat) (rq sc' : rmap) : bool :=
  forallb (fun x => same_set (sc' x) (filter (fun y => memb x (rq y)) ms)) ms.

(* predecessors_upstream(starts...) = out *)
Definition c17_up_spec_b (ms : list nat) (rq : rmap) (starts out : list nat) : bool :=
  nodup_b out && same_set out (upstream rq ms starts).

(* successors_downstream(starts...) = out, stated with [rq] only *)
Definition c17_down_spec_b (ms : list nat) (rq : rmap) (starts out : list nat) : bool :=
  negb (subset_b starts ms) ||
  (nodup_b out && same_set out (downstream ms rq (fun _ => []) true starts)).

(* entry_jobs() = out: the members that require no member (for a closed scheduler) *)
Definition c17_entry_spec_b (ms : list nat) (rq : rmap) (out : list nat) : bool :=
  negb (closed_b rq ms && nodup_b ms) ||
  (nodup_b out &&
   same_set out (filter (fun j => negb (existsb (fun r => memb r ms) (rq j))) ms)).

(* exit_jobs(discard_forever) = out: the members that no member requires *)
Definition c17_exit_spec_b (ms : list nat) (rq : rmap) (fv : nat -> bool) (discard : bool)
  (out : list nat) : bool :=
  negb (nodup_b ms) ||
  (nodup_b out &&
   same_set out (filter (fun j => negb (discard && fv j) &&
                                  negb (existsb (fun y => memb j (rq y)) ms)) ms)).

(* iterate_jobs(scan_schedulers) = out *)
Definition c17_iter_spec_b (t : jtree) (scan : bool) (out : list nat) : bool :=
  negb (nodup_b (tree_ids t)) ||
  (nodup_b out &&
   same_set out (if scan then tree_ids t else diff (tree_ids t) (sched_ids t))).

(* ---------- C18 ---------- *)

(* no member other than j both requires j and is required by j *)
Definition no2cycle_b (ms : list nat) (rq : rmap) (j : nat) : bool :=
  forallb (fun d => negb (memb d ms && memb j (rq d) && negb (Nat.eqb d j))) (rq j).

(* the documented re-linking of one requirement list *)
Definition relinked (ms : list nat) (rq : rmap) (j d : nat) : list nat :=
  if memb d ms && memb j (rq d)
  then remv j (rq d ++ remv d (rq j))
  else rq d.

(* bypass_and_remove(j): state (ms, rq) before, (ms', rq') after, ids 0..n-1 *)
Definition c18_bypass_spec_b (n : nat) (ms : list nat) (rq : rmap) (j : nat)
  (ms' : list nat) (rq' : rmap) : bool :=
  negb (memb j ms) ||
  (same_set ms' (remv j ms)
   && forallb (fun d => same_set (rq' d) (relinked ms rq j d)) (seqn n)
   && (negb (no2cycle_b ms rq j) ||
       forallb (fun x => same_set (upstream rq' ms' [x]) (remv j (upstream rq ms [x]))) ms')
   && (negb (closed_b rq ms) || closed_b rq' ms')
   && (negb (dag_b rq ms) || dag_b rq' ms')).

Definition kept_req_b (ms : list nat) (rq : rmap) (ms' : list nat) (rq' : rmap) : bool :=
  forallb (fun x => same_set (rq' x) (inter (rq x) ms')) ms'.

(* keep_only(remains) *)
Definition c18_keep_only_spec_b (ms : list nat) (rq : rmap) (remains : list nat)
  (ms' : list nat) (rq' : rmap) : bool :=
  same_set ms' (inter ms remains)
  && kept_req_b ms rq ms' rq'
  && closed_b rq' ms'
  && (negb (dag_b rq ms) || dag_b rq' ms').

(* the documented kept set, stated with [rq] only *)
Definition between_doc (ms : list nat) (rq : rmap) (starts ends : list nat) (ks ke : bool)
  : list nat :=
  filter (fun x => (is_nil starts || memb x (downstream ms rq (fun _ => []) true starts))
                   && (is_nil ends || memb x (upstream rq ms ends))) ms
  ++ (if ks then starts else []) ++ (if ke then ends else []).

(* keep_only_between(starts, ends, keep_starts, keep_ends); starts and ends are members *)
Definition c18_between_spec_b (ms : list nat) (rq : rmap) (starts ends : list nat)
  (ks ke : bool) (ms' : list nat) (rq' : rmap) : bool :=
  negb (subset_b starts ms && subset_b ends ms) ||
  (same_set ms' (between_doc ms rq starts ends ks ke)
   && kept_req_b ms rq ms' rq'
   && closed_b rq' ms'
   && (negb (dag_b rq ms) || dag_b rq' ms')).

(* ====================================================================== *)
(* reflection lemmas                                                       *)

Lemma same_set_iff a b : same_set a b = true <-> forall x, In x a <-> In x b.
Proof.
  unfold same_set. rewrite andb_true_iff, !subset_b_spec. unfold incl. split.
  - intros [H1 H2] x. split; auto.
  - intros H. split; intros x; apply H.
Qed.

Lemma set_spec_iff out l :
  nodup_b out && same_set out l = true <-> NoDup out /\ forall x, In x out <-> In x l.
Proof. rewrite andb_true_iff, nodup_b_spec, same_set_iff. tauto. Qed.

Lemma closed_b_spec rq ms : closed_b rq ms = true <-> closed rq ms.
Proof.
  unfold closed_b, closed. rewrite forallb_forall. split.
  - intros H j r Hj Hr. specialize (H j Hj). apply subset_b_spec in H. auto.
  - intros H j Hj. apply subset_b_spec. intros r Hr. eauto.
Qed.

Lemma tres_eqb_ok r : tres_eqb r TOk = true <-> r = TOk.
Proof. destruct r; simpl; split; intros; congruence. Qed.

Lemma dag_b_spec rq ms : dag_b rq ms = true <-> NoDup ms /\ closed rq ms /\ acyclic rq ms.
Proof.
  unfold dag_b. rewrite !andb_true_iff, nodup_b_spec, closed_b_spec, tres_eqb_ok. split.
  - intros [[H1 H2] H3]. repeat split; auto. apply topo_exact; auto.
  - intros (H1 & H2 & H3). repeat split; auto. apply topo_exact; auto.
Qed.

Lemma or_pre (pre body : bool) : pre = true -> (negb pre || body = true <-> body = true).
Proof. intros ->. simpl. tauto. Qed.

(* ====================================================================== *)
(* C17: each boolean decides the statement, and the model's answer satisfies it *)

Lemma In_filter_ex (g : nat -> nat -> bool) starts ms x :
  In x (filter (fun x => existsb (g x) starts) ms) <-> In x ms /\ exists s, In s starts /\ g x s = true.
Proof. rewrite filter_In, existsb_exists. tauto. Qed.

Theorem c17_pred_spec_iff ms rq starts out :
  c17_pred_spec_b ms rq starts out = true <->
  NoDup out /\ forall x, In x out <-> In x ms /\ exists s, In s starts /\ In x (rq s).
Proof.
  unfold c17_pred_spec_b. rewrite set_spec_iff. apply and_iff_compat_l.
  split; intros H x; rewrite (H x), In_filter_ex; split;
    intros [H1 [s [H2 H3]]]; (split; [exact H1|]); exists s; (split; [exact H2|]);
    apply memb_In; exact H3.
Qed.

Theorem c17_pred_spec_model ms rq starts :
  c17_pred_spec_b ms rq starts (predecessors ms rq starts) = true.
Proof.
  apply c17_pred_spec_iff. split; [apply nbrs_nodup|]. intros x. apply predecessors_exact.
Qed.

Theorem c17_succ_spec_iff ms rq starts out : incl starts ms ->
  (c17_succ_spec_b ms rq starts out = true <->
   NoDup out /\ forall x, In x out <-> In x ms /\ exists s, In s starts /\ In s (rq x)).
Proof.
  intros Hs. unfold c17_succ_spec_b. rewrite or_pre by (apply subset_b_spec; exact Hs).
  rewrite set_spec_iff. apply and_iff_compat_l.
  split; intros H x; rewrite (H x), In_filter_ex; split;
    intros [H1 [s [H2 H3]]]; (split; [exact H1|]); exists s; (split; [exact H2|]);
    apply memb_In; exact H3.
Qed.

Theorem c17_succ_spec_model ms rq sc starts :
  c17_succ_spec_b ms rq starts (fst (successors ms rq sc true starts)) = true.
Proof.
  destruct (subset_b starts ms) eqn:E.
  - apply subset_b_spec in E. apply c17_succ_spec_iff; [exact E|]. split.
    + apply nbrs_nodup.
    + intros x. apply successors_exact. exact E.
  - unfold c17_succ_spec_b. rewrite E. reflexivity.
Qed.

Theorem c17_backlinks_spec_iff ms rq sc' :
  c17_backlinks_spec_b ms rq sc' = true <->
  forall x, In x ms -> forall y, In y (sc' x) <-> In y ms /\ In x (rq y).
Proof.
  unfold c17_backlinks_spec_b. rewrite forallb_forall.
  split; intros H x Hx; specialize (H x Hx).
  - intros y. rewrite same_set_iff in H. rewrite (H y), filter_In, memb_In. tauto.
  - apply same_set_iff. intros y. rewrite (H y), filter_In, memb_In. tauto.
Qed.

Theorem c17_backlinks_spec_model ms rq sc :
  c17_backlinks_spec_b ms rq (backlinks ms rq sc) = true.
Proof. apply c17_backlinks_spec_iff. intros x Hx y. apply backlinks_member. exact Hx. Qed.

Theorem c17_up_spec_iff ms rq starts out :
  c17_up_spec_b ms rq starts out = true <->
  NoDup out /\ forall x, In x out <-> exists s, In s starts /\ reach rq ms s x.
Proof.
  unfold c17_up_spec_b. rewrite set_spec_iff. apply and_iff_compat_l.
  split; intros H x; rewrite (H x), upstream_exact; tauto.
Qed.

Theorem c17_up_spec_model ms rq starts :
  c17_up_spec_b ms rq starts (upstream rq ms starts) = true.
Proof.
  apply c17_up_spec_iff. split; [apply closure_nodup|]. intros x. apply upstream_exact.
Qed.

Theorem c17_down_spec_iff ms rq starts out : incl starts ms ->
  (c17_down_spec_b ms rq starts out = true <->
   NoDup out /\ forall x, In x out <-> In x ms /\ exists s, In s starts /\ reach rq ms x s).
Proof.
  intros Hs. unfold c17_down_spec_b. rewrite or_pre by (apply subset_b_spec; exact Hs).
  rewrite set_spec_iff. apply and_iff_compat_l.
  split; intros H x; rewrite (H x), downstream_exact by exact Hs; tauto.
Qed.

Theorem c17_down_spec_model ms rq sc starts :
  c17_down_spec_b ms rq starts (downstream ms rq sc true starts) = true.
Proof.
  destruct (subset_b starts ms) eqn:E.
  - apply subset_b_spec in E. apply c17_down_spec_iff; [exact E|]. split.
    + apply closure_nodup.
    + intros x. apply downstream_exact. exact E.
  - unfold c17_down_spec_b. rewrite E. reflexivity.
Qed.

Lemma no_member_b_spec ms l :
  negb (existsb (fun r => memb r ms) l) = true <-> forall r, In r ms -> ~ In r l.
Proof.
  rewrite negb_true_iff, <- not_true_iff_false, existsb_exists. split.
  - intros H r Hr Hl. apply H. exists r. split; [exact Hl | apply memb_In; exact Hr].
  - intros H [r [Hl Hr]]. apply memb_In in Hr. exact (H r Hr Hl).
Qed.

Theorem c17_entry_spec_iff ms rq out : closed rq ms -> NoDup ms ->
  (c17_entry_spec_b ms rq out = true <->
   NoDup out /\ forall x, In x out <-> In x ms /\ forall r, In r ms -> ~ In r (rq x)).
Proof.
  intros C ND. unfold c17_entry_spec_b.
  rewrite or_pre by (apply andb_true_iff; split; [apply closed_b_spec | apply nodup_b_spec]; assumption).
  rewrite set_spec_iff. apply and_iff_compat_l.
  split; intros H x; rewrite (H x), filter_In, no_member_b_spec; tauto.
Qed.

Theorem c17_entry_spec_model ms rq : c17_entry_spec_b ms rq (entry_jobs ms rq) = true.
Proof.
  destruct (closed_b rq ms && nodup_b ms) eqn:E.
  - apply andb_true_iff in E. destruct E as [E1 E2].
    apply closed_b_spec in E1. apply nodup_b_spec in E2.
    apply c17_entry_spec_iff; auto. split; [apply entry_nodup; exact E2|].
    intros x. apply entry_exact. exact E1.
  - unfold c17_entry_spec_b. rewrite E. reflexivity.
Qed.

Lemma not_required_b_spec ms (rq : rmap) j :
  negb (existsb (fun y => memb j (rq y)) ms) = true <-> forall y, In y ms -> ~ In j (rq y).
Proof.
  rewrite negb_true_iff, <- not_true_iff_false, existsb_exists. split.
  - intros H y Hy Hj. apply H. exists y. split; [exact Hy | apply memb_In; exact Hj].
  - intros H [y [Hy Hj]]. apply memb_In in Hj. exact (H y Hy Hj).
Qed.

Lemma discard_b_spec (discard fvx : bool) :
  negb (discard && fvx) = true <-> (discard = true -> fvx = false).
Proof.
  destruct discard, fvx; simpl; split; intros H; auto; try discriminate;
    try (specialize (H eq_refl); discriminate).
Qed.

Theorem c17_exit_spec_iff ms rq fv discard out : NoDup ms ->
  (c17_exit_spec_b ms rq fv discard out = true <->
   NoDup out /\ forall x, In x out <->
     In x ms /\ (discard = true -> fv x = false) /\ forall y, In y ms -> ~ In x (rq y)).
Proof.
  intros ND. unfold c17_exit_spec_b. rewrite or_pre by (apply nodup_b_spec; exact ND).
  rewrite set_spec_iff. apply and_iff_compat_l.
  split; intros H x; rewrite (H x), filter_In, andb_true_iff, discard_b_spec, not_required_b_spec;
    tauto.
Qed.

Theorem c17_exit_spec_model ms rq sc fv discard :
  c17_exit_spec_b ms rq fv discard (exit_jobs ms rq sc fv discard true) = true.
Proof.
  destruct (nodup_b ms) eqn:E.
  - apply nodup_b_spec in E. apply c17_exit_spec_iff; [exact E|]. split.
    + apply exit_nodup. exact E.
    + intros x. apply exit_exact.
  - unfold c17_exit_spec_b. rewrite E. reflexivity.
Qed.

Theorem c17_iter_spec_iff t scan out : NoDup (tree_ids t) ->
  (c17_iter_spec_b t scan out = true <->
   NoDup out /\ forall x, In x out <->
     In x (tree_ids t) /\ (scan = false -> ~ In x (sched_ids t))).
Proof.
  intros ND. unfold c17_iter_spec_b. rewrite or_pre by (apply nodup_b_spec; exact ND).
  rewrite set_spec_iff. apply and_iff_compat_l. destruct scan.
  - split; intros H x; rewrite (H x); split; try tauto; intros H1; (split; [exact H1 | discriminate]).
  - split; intros H x; rewrite (H x), In_diff; tauto.
Qed.

Theorem c17_iter_spec_model t scan : c17_iter_spec_b t scan (iter_jobs scan t) = true.
Proof.
  destruct (nodup_b (tree_ids t)) eqn:E.
  - apply nodup_b_spec in E. apply c17_iter_spec_iff; [exact E|].
    destruct (iter_exact t E) as (N1 & N2 & H1 & H2). destruct scan.
    + split; [exact N1|]. intros x. rewrite H1. split; [|tauto]. intros H. split; [exact H | discriminate].
    + split; [exact N2|]. intros x. rewrite H2. tauto.
  - unfold c17_iter_spec_b. rewrite E. reflexivity.
Qed.

(* ====================================================================== *)
(* C18: the model's result satisfies each boolean                          *)

Lemma relinked_spec ms rq j d r :
  In r (relinked ms rq j d) <->
  (In r (rq d) \/ ((In d ms /\ In j (rq d)) /\ In r (rq j) /\ r <> d)) /\
  ((In d ms /\ In j (rq d)) -> r <> j).
Proof.
  unfold relinked. destruct (memb d ms && memb j (rq d)) eqn:E.
  - apply andb_true_iff in E. destruct E as [E1 E2]. apply memb_In in E1. apply memb_In in E2.
    rewrite In_remv, in_app_iff, In_remv. tauto.
  - assert (N : ~ (In d ms /\ In j (rq d))).
    { intros [H1 H2]. apply memb_In in H1. apply memb_In in H2. rewrite H1, H2 in E. discriminate. }
    tauto.
Qed.

Lemma no2cycle_b_spec ms rq j : no2cycle_b ms rq j = true <-> no2cycle ms rq j.
Proof.
  unfold no2cycle_b, no2cycle. rewrite forallb_forall. split.
  - intros H d Hd Hne Hj Hin. specialize (H d Hin).
    apply memb_In in Hd. apply memb_In in Hj. apply Nat.eqb_neq in Hne.
    rewrite Hd, Hj, Hne in H. discriminate.
  - intros H d Hin. apply negb_true_iff. apply not_true_iff_false. intros E.
    rewrite !andb_true_iff, negb_true_iff, !memb_In, Nat.eqb_neq in E.
    destruct E as [[E1 E2] E3]. exact (H d E1 E3 E2 Hin).
Qed.

Ltac band := apply andb_true_iff; split.

Lemma imp_b (a b : bool) : (a = true -> b = true) -> negb a || b = true.
Proof. destruct a; simpl; auto. Qed.

Lemma preserved_dag rq ms rq' ms' :
  (NoDup ms -> NoDup ms') -> closed rq' ms' -> (acyclic rq ms -> acyclic rq' ms') ->
  negb (dag_b rq ms) || dag_b rq' ms' = true.
Proof.
  intros H1 H2 H3. apply imp_b. rewrite !dag_b_spec. intros (A & B & C). auto.
Qed.

Theorem c18_bypass_spec_model n ms rq j :
  match bypass ms rq j with
  | Some (ms', rq') => c18_bypass_spec_b n ms rq j ms' rq' = true
  | None => True
  end.
Proof.
  destruct (bypass ms rq j) as [[ms' rq']|] eqn:E; [|exact I].
  pose proof (bypass_Some _ _ _ _ _ E) as (Hj & Em & _).
  unfold c18_bypass_spec_b. apply memb_In in Hj. rewrite Hj. cbn [negb orb].
  band; [band; [band; [band|]|]|].
  - apply same_set_eq. exact Em.
  - apply forallb_forall. intros d _. apply same_set_iff. intros r.
    rewrite relinked_spec. apply (bypass_rq _ _ _ _ _ E).
  - apply imp_b. intros N2. apply no2cycle_b_spec in N2.
    apply forallb_forall. intros x Hx. apply same_set_iff. intros y.
    rewrite In_remv, !upstream_exact. split.
    + intros [s [[<-|[]] R]]. pose proof (reach_target _ _ _ _ R) as Hy.
      split.
      * exists x. split; [left; reflexivity|]. apply (bypass_reach _ _ _ _ _ E N2 x y Hx Hy). exact R.
      * apply (bypass_members _ _ _ _ _ E) in Hy. tauto.
    + intros [[s [[<-|[]] R]] Hne]. exists x. split; [left; reflexivity|].
      apply (bypass_reach _ _ _ _ _ E N2 x y Hx); [|exact R].
      apply (bypass_members _ _ _ _ _ E). split; [eapply reach_target; eauto | exact Hne].
  - apply imp_b. rewrite !closed_b_spec. apply (bypass_closed _ _ _ _ _ E).
  - apply imp_b. rewrite !dag_b_spec. intros (A & B & C). split; [|split].
    + eapply bypass_nodup; eauto.
    + eapply bypass_closed; eauto.
    + eapply bypass_acyclic; eauto.
Qed.

Lemma kept_req_model ms rq ms' : kept_req_b ms rq ms' (san_level ms' rq) = true.
Proof.
  unfold kept_req_b. apply forallb_forall. intros x Hx. apply same_set_eq.
  apply san_level_member. exact Hx.
Qed.

Theorem c18_keep_only_spec_model ms rq remains :
  let '(ms', rq') := keep_only ms rq remains in
  c18_keep_only_spec_b ms rq remains ms' rq' = true.
Proof.
  cbn [keep_only]. unfold c18_keep_only_spec_b.
  band; [band; [band|]|].
  - apply same_set_refl.
  - apply kept_req_model.
  - apply closed_b_spec. apply san_level_closed.
  - apply preserved_dag.
    + apply (keep_only_nodup ms rq remains).
    + apply san_level_closed.
    + apply (keep_only_acyclic ms rq remains).
Qed.

Lemma between_doc_spec ms rq sc starts ends ks ke x : incl starts ms ->
  (In x (between_doc ms rq starts ends ks ke) <->
   In x (between_kept ms rq sc starts ends ks ke)).
Proof.
  intros Hs. rewrite In_between_kept. unfold between_doc.
  rewrite !in_app_iff, filter_In, andb_true_iff, !orb_true_iff, !is_nil_spec, !memb_In.
  rewrite downwards_spec, upwards_spec by exact Hs.
  rewrite downstream_exact, upstream_exact by exact Hs.
  assert (Hk : forall (b : bool) l, In x (if b then l else []) <-> b = true /\ In x l).
  { intros b l. destruct b; simpl; split; try tauto. intros [H _]. discriminate. }
  rewrite !Hk. tauto.
Qed.

Theorem c18_between_spec_model ms rq sc starts ends ks ke :
  let '(ms', rq') := keep_only_between ms rq sc starts ends ks ke in
  c18_between_spec_b ms rq starts ends ks ke ms' rq' = true.
Proof.
  cbn [keep_only_between]. unfold c18_between_spec_b.
  destruct (subset_b starts ms && subset_b ends ms) eqn:E; [|reflexivity]. cbn [negb orb].
  apply andb_true_iff in E. destruct E as [E1 E2].
  apply subset_b_spec in E1. apply subset_b_spec in E2.
  band; [band; [band|]|].
  - apply same_set_iff. intros x. symmetry. apply between_doc_spec. exact E1.
  - apply kept_req_model.
  - apply closed_b_spec. apply san_level_closed.
  - apply preserved_dag.
    + apply (between_nodup ms rq sc starts ends ks ke).
    + apply san_level_closed.
    + apply (between_acyclic ms rq sc starts ends ks ke); auto.
Qed.
