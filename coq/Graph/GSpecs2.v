(* Executable statements of C17 and C18, evaluated by the checks on the *implementation's*
   outputs (search for a concrete failing input), and proved to hold of the model's outputs
   (and, where stated, to be equivalent to the Prop statement of the property). *)
From AJ Require Import Common.Util Graph.GModel Graph.Sanitize Graph.Topo Graph.GSpecs
  Graph.Queries Graph.Surgery.

Definition closed_b (rq : rmap) (ms : list nat) : bool :=
  forallb (fun j => subset_b (rq j) ms) ms.

(* decides acyclicity of a closed duplicate-free scheduler (Topo.topo_exact) *)
Definition dag_b (rq : rmap) (ms : list nat) : bool :=
  nodup_b ms && closed_b rq ms && tres_eqb (snd (topo rq ms)) TOk.

(* ---------- C17 ---------- *)

(* predecessors(starts...) = out *)
Definition c17_pred_spec_b (ms : list nat) (rq : rmap) (starts out : list nat) : bool :=
  nodup_b out &&
  same_set out (filter (fun x => existsb (fun s => memb x (rq s)) starts) ms).

(* successors(starts...) = out, stated with [rq] only: the members that require a start *)
Definition c17_succ_spec_b (ms : list nat) (rq : rmap) (starts out : list nat) : bool :=
  negb (subset_b starts ms) ||
  (nodup_b out &&
   same_set out (filter (fun x => existsb (fun s => memb s (rq x)) starts) ms)).

(* after _backlinks(), _s_successors of every member is the converse of required on members *)
Definition c17_backlinks_spec_b (ms : list nat) (rq sc' : rmap) : bool :=
  forallb (fun x => same_set (sc' x) (filter (fun y => memb x (rq y)) ms)) ms.

(* predecessors_upstream(starts...) = out *)
Definition c17_up_spec_b (ms : list nat) (rq : rmap) (starts out : list nat) : bool :=
  nodup_b out && same_set out (upstream rq ms starts).

(* successors_downstream(starts...) = out, stated with [rq] only *)
Definition c17_down_spec_b (ms : list nat) (rq : rmap) (starts out : list nat) : bool :=
  negb (subset_b starts ms) ||
  (nodup_b out && same_set out (downstream ms rq (fun _ => []) true starts)).

(* entry_jobs() = out: the members that require no member (for a closed scheduler) *)
Definition c17_entry_spec_b (ms : list nat) (rq : rmap) (out : list nat) : bool :=
  negb (closed_b rq ms && nodup_b ms) ||
  (nodup_b out &&
   same_set out (filter (fun j => negb (existsb (fun r => memb r ms) (rq j))) ms)).

(* exit_jobs(discard_forever) = out: the members that no member requires *)
Definition c17_exit_spec_b (ms : list nat) (rq : rmap) (fv : nat -> bool) (discard : bool)
  (out : list nat) : bool :=
  negb (nodup_b ms) ||
  (nodup_b out &&
   same_set out (filter (fun j => negb (discard && fv j) &&
                                  negb (existsb (fun y => memb j (rq y)) ms)) ms)).

(* iterate_jobs(scan_schedulers) = out *)
Definition c17_iter_spec_b (t : jtree) (scan : bool) (out : list nat) : bool :=
  negb (nodup_b (tree_ids t)) ||
  (nodup_b out &&
   same_set out (if scan then tree_ids t else diff (tree_ids t) (sched_ids t))).

(* ---------- C18 ---------- *)

(* no member other than j both requires j and is required by j *)
Definition no2cycle_b (ms : list nat) (rq : rmap) (j : nat) : bool :=
  forallb (fun d => negb (memb d ms && memb j (rq d) && negb (Nat.eqb d j))) (rq j).

(* the documented re-linking of one requirement list *)
Definition relinked (ms : list nat) (rq : rmap) (j d : nat) : list nat :=
  if memb d ms && memb j (rq d)
  then remv j (rq d ++ remv d (rq j))
  else rq d.

(* bypass_and_remove(j): state (ms, rq) before, (ms', rq') after, ids 0..n-1 *)
Definition c18_bypass_spec_b (n : nat) (ms : list nat) (rq : rmap) (j : nat)
  (ms' : list nat) (rq' : rmap) : bool :=
  negb (memb j ms) ||
  (same_set ms' (remv j ms)
   && forallb (fun d => same_set (rq' d) (relinked ms rq j d)) (seqn n)
   && (negb (no2cycle_b ms rq j) ||
       forallb (fun x => same_set (upstream rq' ms' [x]) (remv j (upstream rq ms [x]))) ms')
   && (negb (closed_b rq ms) || closed_b rq' ms')
   && (negb (dag_b rq ms) || dag_b rq' ms')).

Definition kept_req_b (ms : list nat) (rq : rmap) (ms' : list nat) (rq' : rmap) : bool :=
  forallb (fun x => same_set (rq' x) (inter (rq x) ms')) ms'.

(* keep_only(remains) *)
Definition c18_keep_only_spec_b (ms : list nat) (rq : rmap) (remains : list nat)
  (ms' : list nat) (rq' : rmap) : bool :=
  same_set ms' (inter ms remains)
  && kept_req_b ms rq ms' rq'
  && closed_b rq' ms'
  && (negb (dag_b rq ms) || dag_b rq' ms').

(* the documented kept set, stated with [rq] only *)
Definition between_doc (ms : list nat) (rq : rmap) (starts ends : list nat) (ks ke : bool)
  : list nat :=
  filter (fun x => (is_nil starts || memb x (downstream ms rq (fun _ => []) true starts))
                   && (is_nil ends || memb x (upstream rq ms ends))) ms
  ++ (if ks then starts else []) ++ (if ke then ends else []).

(* keep_only_between(starts, ends, keep_starts, keep_ends); starts and ends are members *)
Definition c18_between_spec_b (ms : list nat) (rq : rmap) (starts ends : list nat)
  (ks ke : bool) (ms' : list nat) (rq' : rmap) : bool :=
  negb (subset_b starts ms && subset_b ends ms) ||
  (same_set ms' (between_doc ms rq starts ends ks ke)
   && kept_req_b ms rq ms' rq'
   && closed_b rq' ms'
   && (negb (dag_b rq ms) || dag_b rq' ms')).
