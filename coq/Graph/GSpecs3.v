(* Executable statements of the G properties C19 and C20 (construction API, DOT export),
   evaluated by the checks on the implementation's outputs and proved of the model's outputs.
   The C19 part lives in BuildSpecs.v, the C20 part in DotSpecs.v. *)
From AJ Require Export Graph.BuildSpecs Graph.DotSpecs.
