(* C19: proofs about the construction model of Build.v.
   1. one call of requires() computes the flat description (list equality);
   2. every statement: code and documentation reach equivalent states (sets as sets);
   3. the documentation respects state equivalence, hence whole programs agree;
   4. invariants of reachable states: no self requirement, no duplicates;
   5. set-level characterisations (what requires adds / removes, when remove fails, the chain of
      a sequence, independence of the iteration order of set arguments). *)
From AJ Require Import Common.Util Graph.Build.
From Coq Require Import Permutation.

(* ---------- induction principle for nested arguments ---------- *)
Section arg_ind2.
  Variable P : arg -> Prop.
  Hypothesis HN : P ANone.
  Hypothesis HJ : forall j, P (AJob j).
  Hypothesis HQ : forall q, P (ASeq q).
  Hypothesis HL : forall l, Forall P l -> P (AList l).
  Hypothesis HT : forall l, Forall P l -> P (ATuple l).
  Hypothesis HS : forall l, Forall P l -> P (ASet l).
  Fixpoint arg_ind2 (a : arg) : P a :=
    match a with
    | ANone => HN
    | AJob j => HJ j
    | ASeq q => HQ q
    | AList l => HL l ((fix f (ks : list arg) : Forall P ks :=
                          match ks with
                          | [] => Forall_nil P
                          | k :: ks' => Forall_cons k (arg_ind2 k) (f ks')
                          end) l)
    | ATuple l => HT l ((fix f (ks : list arg) : Forall P ks :=
                          match ks with
                          | [] => Forall_nil P
                          | k :: ks' => Forall_cons k (arg_ind2 k) (f ks')
                          end) l)
    | ASet l => HS l ((fix f (ks : list arg) : Forall P ks :=
                          match ks with
                          | [] => Forall_nil P
                          | k :: ks' => Forall_cons k (arg_ind2 k) (f ks')
                          end) l)
    end.
End arg_ind2.

(* ---------- sets as lists ---------- *)

Lemma In_union x s new : In x (union s new) <-> In x s \/ In x new.
Proof.
  unfold union. revert s. induction new as [|a new IH]; intros s; simpl; [tauto|].
  rewrite IH, In_addn. intuition (subst; auto).
Qed.

Lemma NoDup_union s new : NoDup s -> NoDup (union s new).
Proof.
  unfold union. revert s. induction new as [|a new IH]; intros s H; simpl; [exact H|].
  apply IH. apply NoDup_addn. exact H.
Qed.

Lemma NoDup_remv x l : NoDup l -> NoDup (remv x l).
Proof. unfold remv. apply NoDup_filter. Qed.

Lemma union_app s l1 l2 : union s (l1 ++ l2) = union (union s l1) l2.
Proof. unfold union. apply fold_left_app. Qed.

Lemma remv_app x l1 l2 : remv x (l1 ++ l2) = remv x l1 ++ remv x l2.
Proof. unfold remv. apply filter_app. Qed.

Lemma union_nil s : union s [] = s.
Proof. reflexivity. Qed.

Lemma seteq_refl l : seteq l l.
Proof. intros x. tauto. Qed.

Lemma seteq_sym l1 l2 : seteq l1 l2 -> seteq l2 l1.
Proof. intros H x. symmetry. apply H. Qed.

Lemma seteq_trans l1 l2 l3 : seteq l1 l2 -> seteq l2 l3 -> seteq l1 l3.
Proof. intros H1 H2 x. rewrite (H1 x). apply H2. Qed.

Lemma seteq_of_eq l1 l2 : l1 = l2 -> seteq l1 l2.
Proof. intros ->. apply seteq_refl. Qed.

Lemma memb_seteq x l1 l2 : seteq l1 l2 -> memb x l1 = memb x l2.
Proof.
  intros H. destruct (memb x l2) eqn:E.
  - apply memb_In. apply H. apply memb_In. exact E.
  - apply memb_false. intro Hin. apply H in Hin. apply memb_In in Hin. congruence.
Qed.

Lemma seteq_remv x l1 l2 : seteq l1 l2 -> seteq (remv x l1) (remv x l2).
Proof. intros H y. rewrite !In_remv, (H y). tauto. Qed.

Lemma seteq_union s1 s2 l1 l2 : seteq s1 s2 -> seteq l1 l2 -> seteq (union s1 l1) (union s2 l2).
Proof. intros H1 H2 y. rewrite !In_union, (H1 y), (H2 y). tauto. Qed.

(* ---------- the flat description of one requires() call ---------- *)

Lemma doc_add_app self n1 n2 r : doc_add self (n1 ++ n2) r = doc_add self n2 (doc_add self n1 r).
Proof. unfold doc_add. rewrite remv_app, union_app. reflexivity. Qed.

Lemma doc_add_nil self r : doc_add self [] r = r.
Proof. reflexivity. Qed.

Lemma In_doc_add self ns r x : In x (doc_add self ns r) <-> In x r \/ (In x ns /\ x <> self).
Proof. unfold doc_add. rewrite In_union, In_remv. tauto. Qed.

Lemma doc_remove_app n1 n2 r :
  doc_remove (n1 ++ n2) r =
  match doc_remove n1 r with
  | (r1, None) => doc_remove n2 r1
  | (r1, Some e) => (r1, Some e)
  end.
Proof.
  revert r. induction n1 as [|a n1 IH]; intros r; simpl; [reflexivity|].
  destruct (memb a r); [apply IH | reflexivity].
Qed.

Lemma doc_req_nil self rm r : doc_req self rm [] r = (r, None).
Proof. destruct rm; reflexivity. Qed.

Lemma doc_req_app self rm n1 n2 r :
  doc_req self rm (n1 ++ n2) r =
  match doc_req self rm n1 r with
  | (r1, None) => doc_req self rm n2 r1
  | (r1, Some e) => (r1, Some e)
  end.
Proof.
  destruct rm; cbn [doc_req]; [apply doc_remove_app|]. rewrite doc_add_app. reflexivity.
Qed.

Lemma add_one_doc self x r : add_one_requirement self x r = doc_add self [x] r.
Proof.
  unfold add_one_requirement, doc_add, remv. cbn [filter]. rewrite (Nat.eqb_sym x self).
  destruct (Nat.eqb self x); reflexivity.
Qed.

Lemma set_remove_doc x r : set_remove x r = doc_remove [x] r.
Proof. unfold set_remove. cbn [doc_remove]. destruct (memb x r); reflexivity. Qed.

Lemma iter_err_names (A : Type) (f : A -> list nat -> list nat * option error)
  (h : A -> list nat) self rm l :
  Forall (fun a => forall r, f a r = doc_req self rm (h a) r) l ->
  forall r, iter_err f l r = doc_req self rm (flat_map h l) r.
Proof.
  induction 1 as [|a l Ha _ IH]; intros r; cbn [iter_err flat_map].
  - symmetry. apply doc_req_nil.
  - rewrite Ha, doc_req_app. destruct (doc_req self rm (h a) r) as [r1 [e|]]; [reflexivity|apply IH].
Qed.

Lemma req_leaf_doc self (rm : bool) x r :
  (if rm then set_remove x r else (add_one_requirement self x r, @None error)) = doc_req self rm [x] r.
Proof.
  destruct rm; cbn [doc_req]; [apply set_remove_doc | rewrite add_one_doc; reflexivity].
Qed.

(* the recursion of AbstractJob.requires is the flat description *)
Lemma req_one_code_names sq self rm a :
  forall r, req_one_code sq self rm a r = doc_req self rm (names sq a) r.
Proof.
  induction a as [|j|q|l IH|l IH|l IH] using arg_ind2; intros r; cbn [req_one_code names].
  - symmetry. apply doc_req_nil.
  - apply req_leaf_doc.
  - destruct (last_opt (sq q)) as [x|]; [apply req_leaf_doc | symmetry; apply doc_req_nil].
  - apply iter_err_names. exact IH.
  - apply iter_err_names. exact IH.
  - apply iter_err_names. exact IH.
Qed.

Lemma requires_code_names sq self rm args r :
  requires_code sq self rm args r = doc_req self rm (names_list sq args) r.
Proof.
  unfold requires_code, names_list. apply iter_err_names. apply Forall_forall.
  intros a _. apply req_one_code_names.
Qed.

Lemma job_requires_code_doc st j args rm :
  job_requires_code st j args rm = doc_requires st j (names_list (seqs st) args) rm.
Proof. unfold job_requires_code, doc_requires. rewrite requires_code_names. reflexivity. Qed.

Lemma names_list_one sq a : names_list sq [a] = names sq a.
Proof. unfold names_list. cbn [flat_map]. apply app_nil_r. Qed.

(* ---------- _flatten ---------- *)

Lemma flatten_code_flat sq items : flatten_code sq items = flat sq items.
Proof.
  unfold flatten_code.
  set (F := fun (result : list nat) (it : item) =>
              match it with SNone => result | SJob j => result ++ [j] | SSeq q => result ++ sq q end).
  assert (H : forall acc, fold_left F items acc = acc ++ flat sq items).
  { induction items as [|a items IH]; intros acc; cbn [fold_left flat flat_map].
    - symmetry. apply app_nil_r.
    - fold (flat sq items). rewrite IH. destruct a; cbn [F app]; rewrite <- ?app_assoc; reflexivity. }
  apply (H []).
Qed.

Lemma flat_SJob sq l : flat sq (map SJob l) = l.
Proof. induction l as [|x l IH]; [reflexivity|]. cbn. f_equal. exact IH. Qed.

(* ---------- the zip chain ---------- *)

Lemma chain_code_cons2 sq x z t rq :
  chain_code sq (x :: z :: t) rq = chain_code sq (z :: t) (upd rq z (add_one_requirement z x (rq z))).
Proof. reflexivity. Qed.

Lemma preds_cons2 y x z t :
  preds y (x :: z :: t) = if Nat.eqb z y then x :: preds y (z :: t) else preds y (z :: t).
Proof. reflexivity. Qed.

Lemma chain_code_doc sq l : forall rq y, chain_code sq l rq y = doc_chain l rq y.
Proof.
  induction l as [|x t IH]; intros rq y; [reflexivity|].
  destruct t as [|z t']; [reflexivity|].
  rewrite chain_code_cons2, IH. unfold doc_chain. rewrite preds_cons2. unfold upd.
  rewrite (Nat.eqb_sym z y). destruct (Nat.eqb_spec y z) as [->|N]; [|reflexivity].
  rewrite add_one_doc. change (x :: preds z (z :: t')) with ([x] ++ preds z (z :: t')).
  rewrite doc_add_app. reflexivity.
Qed.

(* ---------- state equivalence ---------- *)

Lemma st_equiv_refl st : st_equiv st st.
Proof. split; intros; try reflexivity; apply seteq_refl. Qed.

Lemma st_equiv_trans a b c : st_equiv a b -> st_equiv b c -> st_equiv a c.
Proof.
  intros [A1 A2 A3 A4] [B1 B2 B3 B4]. split; intros.
  - eapply seteq_trans; [apply A1|apply B1].
  - eapply seteq_trans; [apply A2|apply B2].
  - rewrite A3. apply B3.
  - rewrite A4. apply B4.
Qed.

Lemma st_equiv_sym a b : st_equiv a b -> st_equiv b a.
Proof.
  intros [A1 A2 A3 A4]. split; intros; auto using seteq_sym.
Qed.

Lemma out_equiv_trans o1 o2 o3 : out_equiv o1 o2 -> out_equiv o2 o3 -> out_equiv o1 o3.
Proof.
  intros [A1 A2] [B1 B2]. split; [eapply st_equiv_trans; eassumption | congruence].
Qed.

Lemma out_equiv_refl o : out_equiv o o.
Proof. split; [apply st_equiv_refl | reflexivity]. Qed.

Lemma seteq_upd f g k v w :
  (forall j, seteq (f j) (g j)) -> seteq v w -> forall j, seteq (upd f k v j) (upd g k w j).
Proof. intros Hf Hv j. unfold upd. destruct (Nat.eqb j k); auto. Qed.

Lemma eq_upd (A : Type) (f g : nat -> A) k v w :
  (forall j, f j = g j) -> v = w -> forall j, upd f k v j = upd g k w j.
Proof. intros Hf Hv j. unfold upd. destruct (Nat.eqb j k); auto. Qed.

Lemma upd_upd (A : Type) (f : nat -> A) k v w x : upd (upd f k v) k w x = upd f k w x.
Proof. unfold upd. destruct (Nat.eqb x k); reflexivity. Qed.

Lemma doc_remove_seteq ns : forall r r', seteq r r' ->
  seteq (fst (doc_remove ns r)) (fst (doc_remove ns r')) /\
  snd (doc_remove ns r) = snd (doc_remove ns r').
Proof.
  induction ns as [|a ns IH]; intros r r' H; cbn [doc_remove]; [split; [exact H|reflexivity]|].
  rewrite (memb_seteq a _ _ H). destruct (memb a r').
  - apply IH. apply seteq_remv. exact H.
  - split; [exact H|reflexivity].
Qed.

Lemma doc_add_seteq self ns ns' r r' :
  seteq ns ns' -> seteq r r' -> seteq (doc_add self ns r) (doc_add self ns' r').
Proof. intros Hn H. unfold doc_add. apply seteq_union; [exact H|]. apply seteq_remv. exact Hn. Qed.

Lemma doc_req_seteq self rm ns r r' : seteq r r' ->
  seteq (fst (doc_req self rm ns r)) (fst (doc_req self rm ns r')) /\
  snd (doc_req self rm ns r) = snd (doc_req self rm ns r').
Proof.
  intros H. destruct rm; cbn [doc_req]; [apply doc_remove_seteq; exact H|].
  split; [|reflexivity]. cbn [fst]. apply doc_add_seteq; [apply seteq_refl|exact H].
Qed.

Lemma doc_requires_equiv a b j ns rm :
  st_equiv a b -> out_equiv (doc_requires a j ns rm) (doc_requires b j ns rm).
Proof.
  intros [E1 E2 E3 E4]. unfold doc_requires.
  destruct (doc_req_seteq j rm ns _ _ (E1 j)) as [H1 H2].
  destruct (doc_req j rm ns (req a j)) as [r e], (doc_req j rm ns (req b j)) as [r' e'].
  cbn [fst snd] in *. split; [|exact H2]. cbn [fst]. split; cbn; auto.
  apply seteq_upd; assumption.
Qed.

Lemma doc_register_equiv a b sched l l' :
  st_equiv a b -> seteq l l' -> st_equiv (doc_register a sched l) (doc_register b sched l').
Proof.
  intros E Hl. destruct sched as [s|]; cbn [doc_register]; [|exact E].
  destruct E as [E1 E2 E3 E4]. split; cbn; auto.
  apply seteq_upd; [exact E2|]. apply seteq_union; [apply E2|exact Hl].
Qed.

Lemma sched_update_code_doc st s items :
  st_equiv (sched_update_code st s items) (doc_register st (Some s) (flat (seqs st) items)).
Proof.
  unfold sched_update_code, doc_register. rewrite flatten_code_flat.
  split; cbn; intros; try reflexivity; try apply seteq_refl.
  apply seteq_upd; [intros; apply seteq_refl|]. intros x. rewrite !In_union. cbn [In]. tauto.
Qed.

Lemma sched_update_SJob a b s l :
  st_equiv a b -> st_equiv (sched_update_code a s (map SJob l)) (doc_register b (Some s) l).
Proof.
  intros E. eapply st_equiv_trans; [apply sched_update_code_doc|]. rewrite flat_SJob.
  apply doc_register_equiv; [exact E|apply seteq_refl].
Qed.

Lemma opt_sched_add_doc a b sched j :
  st_equiv a b -> st_equiv (opt_sched_add a sched j) (doc_register b sched [j]).
Proof.
  intros E. destruct sched as [s|]; cbn [opt_sched_add doc_register]; [|exact E].
  unfold sched_add_code. apply (sched_update_SJob a b s [j] E).
Qed.

(* ---------- the documentation only looks at the contents of sequences ---------- *)

Lemma flat_map_Forall_ext (A : Type) (f g : A -> list nat) l :
  Forall (fun a => f a = g a) l -> flat_map f l = flat_map g l.
Proof. induction 1 as [|a l Ha _ IH]; cbn; [reflexivity|]. rewrite Ha, IH. reflexivity. Qed.

Lemma names_ext sq sq' : (forall q, sq q = sq' q) -> forall a, names sq a = names sq' a.
Proof.
  intros H a. induction a as [|j|q|l IH|l IH|l IH] using arg_ind2; cbn [names];
    try reflexivity; try (apply flat_map_Forall_ext; exact IH).
  rewrite H. reflexivity.
Qed.

Lemma names_list_ext sq sq' : (forall q, sq q = sq' q) ->
  forall l, names_list sq l = names_list sq' l.
Proof.
  intros H l. unfold names_list. apply flat_map_Forall_ext. apply Forall_forall.
  intros a _. apply names_ext. exact H.
Qed.

Lemma flat_ext sq sq' : (forall q, sq q = sq' q) -> forall l, flat sq l = flat sq' l.
Proof.
  intros H l. unfold flat. apply flat_map_Forall_ext. apply Forall_forall.
  intros [|j|q] _; auto.
Qed.

(* ---------- every statement: the code does what the documentation says ---------- *)

Lemma job_init_code_doc st j required scheduler :
  out_equiv (job_init_code st j required scheduler)
            (doc_register (set_req st (upd (req st) j (doc_add j (names (seqs st) required) [])))
                          scheduler [j], None).
Proof.
  unfold job_init_code. rewrite job_requires_code_doc. unfold doc_requires. cbn [doc_req].
  split; [|reflexivity]. cbn [fst]. apply opt_sched_add_doc.
  cbn [set_req req seqs members seq_sched]. rewrite names_list_one, upd_same.
  split; cbn; intros; try reflexivity; try apply seteq_refl.
  rewrite upd_upd. apply seteq_refl.
Qed.

Theorem step_agree st s : out_equiv (step_code st s) (step_doc st s).
Proof.
  destruct s as [j required scheduler|q items required scheduler|s items required scheduler
                |j args rm|q items|q args|s it|s items|s j]; cbn [step_code step_doc].
  - (* NewJob *) apply job_init_code_doc.
  - (* NewSeq *)
    rewrite flatten_code_flat. set (l := flat (seqs st) items).
    cbn [set_seqs set_req req seqs members seq_sched].
    assert (Hbase : forall rqc rqd,
               (forall y, seteq (rqc y) (rqd y)) ->
               out_equiv
                 (let st4 := mkState rqc (members st) (upd (seqs st) q l)
                                      (upd (seq_sched st) q scheduler) in
                  match scheduler with
                  | None => (st4, None)
                  | Some s => (sched_update_code st4 s (map SJob l), None)
                  end)
                 (doc_register (mkState rqd (members st) (upd (seqs st) q l)
                                        (upd (seq_sched st) q scheduler)) scheduler l, None)).
    { intros rqc rqd Hrq.
      assert (E : st_equiv (mkState rqc (members st) (upd (seqs st) q l) (upd (seq_sched st) q scheduler))
                           (mkState rqd (members st) (upd (seqs st) q l) (upd (seq_sched st) q scheduler))).
      { split; cbn; intros; try reflexivity; try apply seteq_refl. apply Hrq. }
      destruct scheduler as [s|]; cbn zeta; (split; [|reflexivity]); cbn [fst].
      - apply sched_update_SJob. exact E.
      - exact E. }
    destruct l as [|first t] eqn:El.
    + cbn [set_seq_sched req members seqs seq_sched]. apply Hbase.
      intros y. apply seteq_of_eq. apply chain_code_doc.
    + rewrite job_requires_code_doc. unfold doc_requires. cbn [doc_req set_req req seqs members seq_sched].
      cbn [set_seq_sched req members seqs seq_sched]. apply Hbase.
      intros y. rewrite names_list_one. apply seteq_of_eq. apply eq_upd.
      * intros k. apply chain_code_doc.
      * rewrite chain_code_doc. reflexivity.
  - (* NewSched *)
    eapply out_equiv_trans; [apply job_init_code_doc|].
    cbn [set_members set_req req seqs members seq_sched]. rewrite flatten_code_flat.
    apply out_equiv_refl.
  - (* Requires *) rewrite job_requires_code_doc. apply out_equiv_refl.
  - (* SeqAppend *)
    destruct items as [|it items'].
    + (* append() *)
      cbn [flat flat_map]. rewrite !app_nil_r. split; [|reflexivity]. cbn [fst].
      destruct (seq_sched st q) as [s|]; cbn [doc_register]; split; cbn; intros;
        try reflexivity; try apply seteq_refl.
      * unfold doc_chain. apply seteq_of_eq. unfold opt_last. destruct (last_opt (seqs st q)); reflexivity.
      * unfold upd. destruct (Nat.eqb s0 s) eqn:E; [|apply seteq_refl].
        apply Nat.eqb_eq in E. subst. apply seteq_refl.
      * unfold upd. destruct (Nat.eqb_spec q0 q) as [->|]; reflexivity.
      * unfold doc_chain. apply seteq_of_eq. unfold opt_last. destruct (last_opt (seqs st q)); reflexivity.
      * unfold upd. destruct (Nat.eqb_spec q0 q) as [->|]; reflexivity.
    + rewrite flatten_code_flat. set (new := flat (seqs st) (it :: items')).
      destruct new as [|first t] eqn:En.
      * (* nothing but None and empty sequences *)
        rewrite !app_nil_r. split; [|reflexivity]. cbn [fst].
        destruct (seq_sched st q) as [s|]; cbn [doc_register]; split; cbn; intros;
          try reflexivity; try apply seteq_refl.
        -- unfold doc_chain. apply seteq_of_eq. unfold opt_last. destruct (last_opt (seqs st q)); reflexivity.
        -- unfold upd. destruct (Nat.eqb s0 s) eqn:E; [|apply seteq_refl].
           apply Nat.eqb_eq in E. subst. apply seteq_refl.
        -- unfold upd. destruct (Nat.eqb_spec q0 q) as [->|]; reflexivity.
        -- unfold doc_chain. apply seteq_of_eq. unfold opt_last. destruct (last_opt (seqs st q)); reflexivity.
        -- unfold upd. destruct (Nat.eqb_spec q0 q) as [->|]; reflexivity.
      * cbn [set_req req seqs members seq_sched].
        assert (Hbase : forall rqc,
                   (forall y, seteq (rqc y) (doc_chain (opt_last (seqs st q) ++ first :: t) (req st) y)) ->
                   out_equiv
                     (let st3 := mkState rqc (members st)
                                         (upd (seqs st) q (seqs st q ++ first :: t)) (seq_sched st) in
                      match seq_sched st q with
                      | None => (st3, None)
                      | Some s => (sched_update_code st3 s (map SJob (first :: t)), None)
                      end)
                     (doc_register (mkState (doc_chain (opt_last (seqs st q) ++ first :: t) (req st))
                                            (members st) (upd (seqs st) q (seqs st q ++ first :: t))
                                            (seq_sched st))
                                   (seq_sched st q) (first :: t), None)).
        { intros rqc Hrq.
          match goal with |- out_equiv _ (doc_register ?B _ _, _) =>
            assert (E : st_equiv (mkState rqc (members st) (upd (seqs st) q (seqs st q ++ first :: t))
                                          (seq_sched st)) B) end.
          { split; cbn; intros; try reflexivity; try apply seteq_refl. apply Hrq. }
          destruct (seq_sched st q) as [s|]; cbn zeta; (split; [|reflexivity]); cbn [fst].
          - apply sched_update_SJob. exact E.
          - exact E. }
        unfold opt_last in *. destruct (last_opt (seqs st q)) as [lastj|] eqn:Elast.
        -- rewrite job_requires_code_doc. unfold doc_requires.
           cbn [doc_req set_req set_seqs req seqs members seq_sched].
           unfold set_seqs, set_req. cbn [req seqs members seq_sched]. apply Hbase.
           intros y x. unfold upd. unfold doc_chain.
           cbn [app]. rewrite preds_cons2. rewrite (Nat.eqb_sym first y).
           destruct (Nat.eqb_spec y first) as [->|N].
           ++ rewrite chain_code_doc. unfold doc_chain. cbn [names_list flat_map names app].
              rewrite !In_doc_add. cbn [In]. intuition.
           ++ rewrite chain_code_doc. unfold doc_chain. reflexivity.
        -- unfold set_seqs, set_req. cbn [req seqs members seq_sched]. apply Hbase.
           intros y. cbn [app]. apply seteq_of_eq. apply chain_code_doc.
  - (* SeqRequires *)
    destruct (seqs st q) as [|first t]; [apply out_equiv_refl|].
    rewrite job_requires_code_doc. apply out_equiv_refl.
  - (* Add *) split; [|reflexivity]. apply sched_update_code_doc.
  - (* Update *) split; [|reflexivity]. apply sched_update_code_doc.
  - (* Remove *)
    unfold set_remove. destruct (memb j (members st s)) eqn:E; [apply out_equiv_refl|].
    split; [|reflexivity]. cbn [fst]. split; cbn; intros; try reflexivity; try apply seteq_refl.
    unfold upd. destruct (Nat.eqb_spec s0 s) as [->|]; apply seteq_refl.
Qed.

(* ---------- the documentation respects state equivalence ---------- *)

Lemma doc_chain_seteq l rq rq' :
  (forall j, seteq (rq j) (rq' j)) -> forall y, seteq (doc_chain l rq y) (doc_chain l rq' y).
Proof. intros H y. unfold doc_chain. apply doc_add_seteq; [apply seteq_refl|apply H]. Qed.

Theorem step_doc_proper st st' s :
  st_equiv st st' -> out_equiv (step_doc st s) (step_doc st' s).
Proof.
  intros E. pose proof E as [E1 E2 E3 E4].
  assert (Hn : forall a, names (seqs st') a = names (seqs st) a)
    by (intros; symmetry; apply names_ext; exact E3).
  assert (Hnl : forall l, names_list (seqs st') l = names_list (seqs st) l)
    by (intros; symmetry; apply names_list_ext; exact E3).
  assert (Hf : forall l, flat (seqs st') l = flat (seqs st) l)
    by (intros; symmetry; apply flat_ext; exact E3).
  destruct s as [j required scheduler|q items required scheduler|s items required scheduler
                |j args rm|q items|q args|s it|s items|s j]; cbn [step_doc].
  - (* NewJob *)
    rewrite Hn. split; [|reflexivity]. cbn [fst]. apply doc_register_equiv; [|apply seteq_refl].
    split; cbn; auto. apply seteq_upd; [exact E1|apply seteq_refl].
  - (* NewSeq *)
    rewrite Hf. set (l := flat (seqs st) items).
    split; [|reflexivity]. cbn [fst]. apply doc_register_equiv; [|apply seteq_refl].
    assert (Hsq : forall k, upd (seqs st) q l k = upd (seqs st') q l k)
      by (apply eq_upd; [exact E3|reflexivity]).
    split; cbn [req members seqs seq_sched]; auto.
    + destruct l as [|first t].
      * apply doc_chain_seteq. exact E1.
      * apply seteq_upd; [apply doc_chain_seteq; exact E1|].
        rewrite (names_ext _ _ Hsq). apply doc_add_seteq; [apply seteq_refl|].
        apply doc_chain_seteq. exact E1.
    + apply eq_upd; [exact E4|reflexivity].
  - (* NewSched *)
    rewrite Hn, Hf. split; [|reflexivity]. cbn [fst]. apply doc_register_equiv; [|apply seteq_refl].
    split; cbn; auto.
    + apply seteq_upd; [exact E1|apply seteq_refl].
    + apply seteq_upd; [exact E2|apply seteq_refl].
  - (* Requires *) rewrite Hnl. apply doc_requires_equiv. exact E.
  - (* SeqAppend *)
    rewrite Hf, <- (E3 q), <- (E4 q). split; [|reflexivity]. cbn [fst].
    apply doc_register_equiv; [|apply seteq_refl].
    split; cbn [req members seqs seq_sched]; auto.
    + apply doc_chain_seteq. exact E1.
    + apply eq_upd; [exact E3|reflexivity].
  - (* SeqRequires *)
    rewrite <- (E3 q). destruct (seqs st q) as [|first t]; [split; [exact E|reflexivity]|].
    rewrite Hnl. apply doc_requires_equiv. exact E.
  - (* Add *)
    rewrite Hf. split; [|reflexivity]. cbn [fst]. apply doc_register_equiv; [exact E|apply seteq_refl].
  - (* Update *)
    rewrite Hf. split; [|reflexivity]. cbn [fst]. apply doc_register_equiv; [exact E|apply seteq_refl].
  - (* Remove *)
    rewrite <- (memb_seteq j _ _ (E2 s)). destruct (memb j (members st s)).
    + split; [|reflexivity]. cbn [fst]. split; cbn; auto.
      apply seteq_upd; [exact E2|]. apply seteq_remv. apply E2.
    + split; [exact E|reflexivity].
Qed.

(* ---------- whole programs ---------- *)

Theorem exec_agree p : forall st st', st_equiv st st' ->
  out_equiv (exec step_code p st) (exec step_doc p st').
Proof.
  induction p as [|s p IH]; intros st st' E; cbn [exec].
  - split; [exact E|reflexivity].
  - pose proof (out_equiv_trans _ _ _ (step_agree st s) (step_doc_proper st st' s E)) as [H1 H2].
    destruct (step_code st s) as [st1 e1], (step_doc st' s) as [st1' e1']. cbn [fst snd] in *.
    subst e1'. destruct e1 as [e|].
    + split; [exact H1|reflexivity].
    + apply IH. exact H1.
Qed.

Theorem C19_agree_main p : out_equiv (exec_code p) (exec_doc p).
Proof. apply exec_agree. apply st_equiv_refl. Qed.

(* ---------- invariants of reachable states ---------- *)

(* a well-formed requirement set of job j: no duplicates, not j itself *)
Definition good (j : nat) (r : list nat) : Prop := NoDup r /\ ~ In j r.

Record inv (st : state) : Prop := mk_inv {
  inv_req : forall j, good j (req st j);
  inv_members : forall s, NoDup (members st s)
}.

Lemma good_nil j : good j [].
Proof. split; [constructor|intros []]. Qed.

Lemma good_doc_add j ns r : good j r -> good j (doc_add j ns r).
Proof.
  intros [H1 H2]. split.
  - unfold doc_add. apply NoDup_union. exact H1.
  - rewrite In_doc_add. tauto.
Qed.

Lemma In_doc_remove ns : forall r x, In x (fst (doc_remove ns r)) -> In x r.
Proof.
  induction ns as [|a ns IH]; intros r x; cbn [doc_remove]; [auto|].
  destruct (memb a r); [|auto]. intros H. apply IH in H. apply In_remv in H. tauto.
Qed.

Lemma NoDup_doc_remove ns : forall r, NoDup r -> NoDup (fst (doc_remove ns r)).
Proof.
  induction ns as [|a ns IH]; intros r H; cbn [doc_remove]; [exact H|].
  destruct (memb a r); [|exact H]. apply IH. apply NoDup_remv. exact H.
Qed.

Lemma good_doc_req j rm ns r : good j r -> good j (fst (doc_req j rm ns r)).
Proof.
  intros H. destruct rm; cbn [doc_req fst]; [|apply good_doc_add; exact H].
  destruct H as [H1 H2]. split; [apply NoDup_doc_remove; exact H1|].
  intro Hin. apply In_doc_remove in Hin. auto.
Qed.

Lemma good_upd f k v : (forall j, good j (f j)) -> good k v -> forall j, good j (upd f k v j).
Proof.
  intros Hf Hv j. unfold upd. destruct (Nat.eqb_spec j k) as [->|]; auto.
Qed.

Lemma NoDup_upd (f : nat -> list nat) k v :
  (forall j, NoDup (f j)) -> NoDup v -> forall j, NoDup (upd f k v j).
Proof. intros Hf Hv j. unfold upd. destruct (Nat.eqb j k); auto. Qed.

Lemma good_chain_code sq l rq : (forall j, good j (rq j)) -> forall j, good j (chain_code sq l rq j).
Proof. intros H j. rewrite chain_code_doc. unfold doc_chain. apply good_doc_add. apply H. Qed.

Lemma inv_job_requires st j args rm : inv st -> inv (fst (job_requires_code st j args rm)).
Proof.
  intros [I1 I2]. rewrite job_requires_code_doc. unfold doc_requires.
  pose proof (good_doc_req j rm (names_list (seqs st) args) (req st j) (I1 j)) as G.
  destruct (doc_req j rm (names_list (seqs st) args) (req st j)) as [r e]. cbn [fst] in *.
  split; cbn; [|exact I2]. apply good_upd; assumption.
Qed.

Lemma job_requires_add_ok st j args : snd (job_requires_code st j args false) = None.
Proof.
  rewrite job_requires_code_doc. unfold doc_requires. cbn [doc_req]. reflexivity.
Qed.

Lemma inv_sched_update st s items : inv st -> inv (sched_update_code st s items).
Proof.
  intros [I1 I2]. unfold sched_update_code. split; cbn; [exact I1|].
  apply NoDup_upd; [exact I2|]. apply NoDup_union. apply I2.
Qed.

Lemma inv_job_init st j required scheduler :
  inv st -> inv (fst (job_init_code st j required scheduler)).
Proof.
  intros [I1 I2]. unfold job_init_code.
  set (st0 := set_req st (upd (req st) j [])).
  assert (I0 : inv st0).
  { split; cbn; [|exact I2]. apply good_upd; [exact I1|apply good_nil]. }
  pose proof (inv_job_requires st0 j [required] false I0) as I.
  pose proof (job_requires_add_ok st0 j [required]) as Hok.
  destruct (job_requires_code st0 j [required] false) as [st1 e]. cbn [fst snd] in *. subst e.
  cbn [fst]. destruct scheduler as [s|]; cbn [opt_sched_add]; [|exact I].
  apply inv_sched_update. exact I.
Qed.

Theorem step_code_inv st s : inv st -> inv (fst (step_code st s)).
Proof.
  intros I. pose proof I as [I1 I2].
  destruct s as [j required scheduler|q items required scheduler|s items required scheduler
                |j args rm|q items|q args|s it|s items|s j]; cbn [step_code].
  - apply inv_job_init. exact I.
  - (* NewSeq *)
    set (jobs := flatten_code (seqs st) items).
    set (st2 := set_req (set_seqs st (upd (seqs st) q jobs)) _).
    assert (I2' : inv st2).
    { split; cbn [req members set_req set_seqs seqs seq_sched]; [|exact I2]. apply good_chain_code. exact I1. }
    assert (H3 : forall o, o = match jobs with
                               | [] => (st2, None)
                               | first :: _ => job_requires_code st2 first [required] false
                               end -> inv (fst o) /\ snd o = None).
    { intros o ->. destruct jobs as [|first t]; [split; [exact I2'|reflexivity]|].
      split; [apply inv_job_requires; exact I2'|apply job_requires_add_ok]. }
    specialize (H3 _ eq_refl).
    destruct (match jobs with [] => (st2, None) | first :: _ => _ end) as [st3 e].
    cbn [fst snd] in H3. destruct H3 as [I3 ->].
    assert (I4 : inv (set_seq_sched st3 (upd (seq_sched st3) q scheduler))).
    { destruct I3 as [A B]. split; cbn; assumption. }
    destruct scheduler as [s|]; cbn [fst]; [apply inv_sched_update|]; exact I4.
  - (* NewSched *)
    apply inv_job_init. split; cbn; [exact I1|].
    apply NoDup_upd; [exact I2|]. apply NoDup_union. constructor.
  - apply inv_job_requires. exact I.
  - (* SeqAppend *)
    destruct items as [|it items']; [exact I|].
    set (new_jobs := flatten_code (seqs st) (it :: items')).
    destruct new_jobs as [|first t] eqn:En; [exact I|].
    set (st1 := set_req st _).
    assert (I1' : inv st1).
    { split; cbn [req members set_req set_seqs seqs seq_sched]; [|exact I2]. apply good_chain_code. exact I1. }
    assert (H3 : forall o, o = match last_opt (seqs st1 q) with
                               | None => (st1, None)
                               | Some lastj => job_requires_code st1 first [AJob lastj] false
                               end -> inv (fst o) /\ snd o = None).
    { intros o ->. destruct (last_opt (seqs st1 q)) as [lastj|]; [|split; [exact I1'|reflexivity]].
      split; [apply inv_job_requires; exact I1'|apply job_requires_add_ok]. }
    specialize (H3 _ eq_refl).
    destruct (match last_opt (seqs st1 q) with None => (st1, None) | Some lastj => _ end) as [st2 e].
    cbn [fst snd] in H3. destruct H3 as [I3 ->].
    assert (I4 : inv (set_seqs st2 (upd (seqs st2) q (seqs st2 q ++ first :: t)))).
    { destruct I3 as [A B]. split; cbn; assumption. }
    match goal with |- inv (fst (match ?x with None => _ | Some s => _ end)) => destruct x as [s|] end;
      cbn [fst]; [apply inv_sched_update|]; exact I4.
  - (* SeqRequires *)
    destruct (seqs st q) as [|first t]; [exact I|]. apply inv_job_requires. exact I.
  - apply inv_sched_update. exact I.
  - apply inv_sched_update. exact I.
  - (* Remove *)
    unfold set_remove. destruct (memb j (members st s)); cbn [fst]; split; cbn; try exact I1.
    + apply NoDup_upd; [exact I2|]. apply NoDup_remv. apply I2.
    + apply NoDup_upd; [exact I2|]. apply I2.
Qed.

Theorem exec_code_inv p : forall st, inv st -> inv (fst (exec step_code p st)).
Proof.
  induction p as [|s p IH]; intros st I; cbn [exec]; [exact I|].
  pose proof (step_code_inv st s I) as I'.
  destruct (step_code st s) as [st1 [e|]]; cbn [fst] in *; [exact I'|apply IH; exact I'].
Qed.

Lemma inv_empty : inv empty_state.
Proof. split; cbn; intros; [apply good_nil|constructor]. Qed.

Theorem C19_no_self_main p j : ~ In j (req (fst (exec_code p)) j).
Proof. apply (exec_code_inv p empty_state inv_empty). Qed.

Theorem C19_nodup_main p :
  (forall j, NoDup (req (fst (exec_code p)) j)) /\ (forall s, NoDup (members (fst (exec_code p)) s)).
Proof.
  pose proof (exec_code_inv p empty_state inv_empty) as [I1 I2]. split; [|exact I2].
  intros j. apply I1.
Qed.

(* ---------- explicit form of the agreement ---------- *)

Theorem C19_agree_explicit p :
  snd (exec_code p) = snd (exec_doc p) /\
  (forall q, seqs (fst (exec_code p)) q = seqs (fst (exec_doc p)) q) /\
  (forall q, seq_sched (fst (exec_code p)) q = seq_sched (fst (exec_doc p)) q) /\
  (forall j x, In x (req (fst (exec_code p)) j) <-> In x (req (fst (exec_doc p)) j)) /\
  (forall s x, In x (members (fst (exec_code p)) s) <-> In x (members (fst (exec_doc p)) s)).
Proof.
  destruct (C19_agree_main p) as [[E1 E2 E3 E4] He]. repeat split; auto; try apply E1; try apply E2.
Qed.

(* ---------- what requires() adds and removes ---------- *)

Lemma doc_remove_ok ns : forall r,
  snd (doc_remove ns r) = None <-> NoDup ns /\ incl ns r.
Proof.
  induction ns as [|a ns IH]; intros r; cbn [doc_remove].
  - split; [|reflexivity]. intros _. split; [constructor|intros x []].
  - destruct (memb a r) eqn:E.
    + rewrite IH. apply memb_In in E. split.
      * intros [N I]. split.
        -- constructor; [|exact N]. intro Hin. apply I in Hin. apply In_remv in Hin. tauto.
        -- intros x [->|Hx]; [exact E|]. apply I in Hx. apply In_remv in Hx. tauto.
      * intros [N I]. inversion N as [|? ? Hna N']; subst. split; [exact N'|].
        intros x Hx. apply In_remv. split; [apply I; right; exact Hx|].
        intros ->. contradiction.
    + cbn [snd]. split; [discriminate|]. intros [_ I]. exfalso.
      apply memb_false in E. apply E. apply I. left. reflexivity.
Qed.

Lemma doc_remove_In ns : forall r, snd (doc_remove ns r) = None ->
  forall x, In x (fst (doc_remove ns r)) <-> In x r /\ ~ In x ns.
Proof.
  induction ns as [|a ns IH]; intros r; cbn [doc_remove].
  - intros _ x. cbn. tauto.
  - destruct (memb a r); [|discriminate]. intros H x. rewrite (IH _ H), In_remv. cbn [In].
    split; [intros [[H1 H2] H3]|intros [H1 H2]].
    + split; [exact H1|]. intros [->|H4]; [apply H2; reflexivity|contradiction].
    + split; [split; [exact H1|]|]; [intros ->; apply H2; left; reflexivity|].
      intro H4. apply H2. right. exact H4.
Qed.

(* j.requires( *args): every named job but j itself is added, nothing else changes, no exception *)
Theorem requires_add_spec st j args :
  let o := step_code st (Requires j args false) in
  snd o = None /\
  (forall x, In x (req (fst o) j) <->
             In x (req st j) \/ (In x (names_list (seqs st) args) /\ x <> j)) /\
  (forall k, k <> j -> req (fst o) k = req st k) /\
  members (fst o) = members st /\ seqs (fst o) = seqs st /\ seq_sched (fst o) = seq_sched st.
Proof.
  cbv zeta. cbn [step_code]. rewrite job_requires_code_doc. unfold doc_requires. cbn [doc_req fst snd].
  cbn [set_req req members seqs seq_sched]. split; [reflexivity|]. split; [|split; [|repeat split]].
  - intros x. rewrite upd_same, In_doc_add. tauto.
  - intros k Hk. apply upd_other. exact Hk.
Qed.

(* j.requires( *args, remove=True): succeeds iff the named jobs are pairwise distinct and all
   present; then exactly they are removed.  In every case nothing is added, nothing else changes
   (what was removed before the KeyError stays removed). *)
Theorem requires_remove_spec st j args :
  let o := step_code st (Requires j args true) in
  let ns := names_list (seqs st) args in
  (snd o = None <-> NoDup ns /\ incl ns (req st j)) /\
  (snd o = None -> forall x, In x (req (fst o) j) <-> In x (req st j) /\ ~ In x ns) /\
  (forall x, In x (req (fst o) j) -> In x (req st j)) /\
  (forall k, k <> j -> req (fst o) k = req st k) /\
  members (fst o) = members st /\ seqs (fst o) = seqs st /\ seq_sched (fst o) = seq_sched st.
Proof.
  cbv zeta. cbn [step_code]. rewrite job_requires_code_doc. unfold doc_requires. cbn [doc_req].
  set (ns := names_list (seqs st) args).
  pose proof (doc_remove_ok ns (req st j)) as Hok.
  pose proof (doc_remove_In ns (req st j)) as Hin.
  pose proof (In_doc_remove ns (req st j)) as Hsub.
  destruct (doc_remove ns (req st j)) as [r e]. cbn [fst snd set_req req members seqs seq_sched] in *.
  rewrite upd_same. split; [exact Hok|]. split; [exact Hin|]. split; [exact Hsub|].
  split; [|repeat split]. intros k Hk. apply upd_other. exact Hk.
Qed.

(* ---------- the chain of a sequence ---------- *)

Lemma consecutive_cons2 x y a z t :
  consecutive x y (a :: z :: t) <-> (a = x /\ z = y) \/ consecutive x y (z :: t).
Proof.
  unfold consecutive. split.
  - intros [l1 [l2 E]]. destruct l1 as [|b l1]; cbn [app] in E; inversion E; subst.
    + left. split; reflexivity.
    + right. exists l1, l2. assumption.
  - intros [[-> ->]|[l1 [l2 E]]].
    + exists [], t. reflexivity.
    + exists (a :: l1), l2. rewrite E. reflexivity.
Qed.

Lemma In_preds x y l : In x (preds y l) <-> consecutive x y l.
Proof.
  induction l as [|a t IH].
  - cbn. split; [intros []|]. intros [l1 [l2 E]]. destruct l1; discriminate.
  - destruct t as [|z t'].
    + cbn. split; [intros []|]. intros [l1 [l2 E]]. destruct l1 as [|b l1]; [discriminate|].
      destruct l1; discriminate.
    + rewrite preds_cons2, consecutive_cons2. destruct (Nat.eqb_spec z y) as [->|N].
      * cbn [In]. rewrite IH. intuition.
      * rewrite IH. intuition.
Qed.

Lemma req_doc_register st sched l : req (doc_register st sched l) = req st.
Proof. destruct sched; reflexivity. Qed.

Lemma seqs_doc_register st sched l : seqs (doc_register st sched l) = seqs st.
Proof. destruct sched; reflexivity. Qed.

Lemma In_members_doc_register st sched l s x :
  In x (members (doc_register st sched l) s) <->
  In x (members st s) \/ (sched = Some s /\ In x l).
Proof.
  destruct sched as [s'|]; cbn [doc_register members set_members].
  - unfold upd. destruct (Nat.eqb_spec s s') as [->|N].
    + rewrite In_union. intuition.
    + split; [tauto|]. intros [H|[H _]]; [exact H|]. congruence.
  - split; [tauto|]. intros [H|[H _]]; [exact H|discriminate].
Qed.

(* Sequence( *items, required=.., scheduler=..): the sequence is the flattened list; y acquires
   x exactly when x is an immediate predecessor of y in it, or y is the first job and required=
   names x; never itself; all the jobs are registered. *)
Theorem newseq_spec st q items required scheduler :
  let o := step_code st (NewSeq q items required scheduler) in
  let l := flat (seqs st) items in
  snd o = None /\
  seqs (fst o) q = l /\
  (forall k, k <> q -> seqs (fst o) k = seqs st k) /\
  (forall x y, In x (req (fst o) y) <->
     In x (req st y) \/
     (x <> y /\ (consecutive x y l \/
                 (hd_error l = Some y /\ In x (names (upd (seqs st) q l) required))))) /\
  (forall s x, In x (members (fst o) s) <->
               In x (members st s) \/ (scheduler = Some s /\ In x l)).
Proof.
  cbv zeta. destruct (step_agree st (NewSeq q items required scheduler)) as [[E1 E2 E3 E4] He].
  rewrite He. split; [reflexivity|].
  split; [rewrite E3; cbn [step_doc fst]; rewrite seqs_doc_register; cbn [seqs]; apply upd_same|].
  split; [intros k Hk; rewrite E3; cbn [step_doc fst]; rewrite seqs_doc_register; cbn [seqs];
          apply upd_other; exact Hk|].
  split.
  - intros x y. rewrite (E1 y x). cbn [step_doc fst]. rewrite req_doc_register. cbn [req].
    set (l := flat (seqs st) items).
    assert (Hc : In x (doc_chain l (req st) y) <-> In x (req st y) \/ (x <> y /\ consecutive x y l)).
    { unfold doc_chain. rewrite In_doc_add, In_preds. tauto. }
    destruct l as [|first t] eqn:El.
    + rewrite Hc. cbn [hd_error]. split; [tauto|]. intros [H|[H1 [H2|[H2 _]]]]; [tauto|tauto|discriminate].
    + unfold upd at 1. cbn [hd_error]. destruct (Nat.eqb_spec y first) as [->|N].
      * rewrite In_doc_add, Hc. split; [|intros [H|[H1 [H2|[_ H2]]]]; tauto].
        intros [[H|H]|H]; [tauto|tauto|]. right. split; [tauto|]. right. split; [reflexivity|tauto].
      * rewrite Hc. split; [tauto|]. intros [H|[H1 [H2|[H2 _]]]]; [tauto|tauto|]. congruence.
  - intros s x. rewrite (E2 s x). cbn [step_doc fst]. rewrite In_members_doc_register. cbn [members].
    reflexivity.
Qed.

(* every consecutive pair of the flattened list is a requirement edge *)
Corollary newseq_chain st q items required scheduler x y :
  consecutive x y (flat (seqs st) items) -> x <> y ->
  In x (req (fst (step_code st (NewSeq q items required scheduler))) y).
Proof.
  intros Hc Hne. destruct (newseq_spec st q items required scheduler) as (_ & _ & _ & H & _).
  apply H. right. split; [exact Hne|]. left. exact Hc.
Qed.

(* q.append( *items): the new jobs come behind, chained to each other and to the former last job;
   they are registered in the sequence's scheduler *)
Theorem append_spec st q items :
  let o := step_code st (SeqAppend q items) in
  let new := flat (seqs st) items in
  snd o = None /\
  seqs (fst o) q = seqs st q ++ new /\
  (forall k, k <> q -> seqs (fst o) k = seqs st k) /\
  (forall x y, In x (req (fst o) y) <->
     In x (req st y) \/ (x <> y /\ consecutive x y (opt_last (seqs st q) ++ new))) /\
  (forall s x, In x (members (fst o) s) <->
               In x (members st s) \/ (seq_sched st q = Some s /\ In x new)).
Proof.
  cbv zeta. destruct (step_agree st (SeqAppend q items)) as [[E1 E2 E3 E4] He].
  rewrite He. split; [reflexivity|].
  split; [rewrite E3; cbn [step_doc fst]; rewrite seqs_doc_register; cbn [seqs]; apply upd_same|].
  split; [intros k Hk; rewrite E3; cbn [step_doc fst]; rewrite seqs_doc_register; cbn [seqs];
          apply upd_other; exact Hk|].
  split.
  - intros x y. rewrite (E1 y x). cbn [step_doc fst]. rewrite req_doc_register. cbn [req].
    unfold doc_chain. rewrite In_doc_add, In_preds. tauto.
  - intros s x. rewrite (E2 s x). cbn [step_doc fst]. rewrite In_members_doc_register. cbn [members].
    reflexivity.
Qed.

(* a sequence used as a requirement stands for its last job; an empty one for nothing *)
Theorem names_seq sq q :
  names sq (ASeq q) = match sq q with [] => [] | _ :: _ => [last (sq q) 0] end.
Proof.
  cbn [names]. generalize (sq q) as l. induction l as [|a t IH]; [reflexivity|].
  destruct t as [|b t']; [reflexivity|]. cbn [last_opt]. cbn [last_opt] in IH. rewrite IH. reflexivity.
Qed.

(* s.update(items), s.add(item): exactly the flattened jobs join *)
Theorem update_spec st s items :
  let o := step_code st (Update s items) in
  snd o = None /\
  (forall s' x, In x (members (fst o) s') <->
                In x (members st s') \/ (s' = s /\ In x (flat (seqs st) items))) /\
  req (fst o) = req st /\ seqs (fst o) = seqs st.
Proof.
  cbv zeta. cbn [step_code fst snd]. split; [reflexivity|]. split; [|split; reflexivity].
  intros s' x. destruct (sched_update_code_doc st s items) as [_ E2 _ _]. rewrite (E2 s' x).
  rewrite In_members_doc_register. split; intros [H|[H1 H2]]; auto; right; split; congruence.
Qed.

(* s.remove(j): KeyError iff j is not a member *)
Theorem remove_spec st s j :
  let o := step_code st (Remove s j) in
  (snd o = None <-> In j (members st s)) /\
  (snd o = None -> forall x, In x (members (fst o) s) <-> In x (members st s) /\ x <> j) /\
  (snd o <> None -> forall x, In x (members (fst o) s) <-> In x (members st s)) /\
  (forall s', s' <> s -> members (fst o) s' = members st s') /\
  req (fst o) = req st /\ seqs (fst o) = seqs st.
Proof.
  cbv zeta. cbn [step_code]. unfold set_remove. destruct (memb j (members st s)) eqn:E;
    cbn [fst snd set_members members req seqs].
  - apply memb_In in E. split; [tauto|]. split; [|split; [congruence|split; [|split; reflexivity]]].
    + intros _ x. rewrite upd_same, In_remv. tauto.
    + intros s' Hs. apply upd_other. exact Hs.
  - apply memb_false in E. split; [split; [discriminate|tauto]|].
    split; [discriminate|]. split; [|split; [|split; reflexivity]].
    + intros _ x. rewrite upd_same. tauto.
    + intros s' Hs. apply upd_other. exact Hs.
Qed.

(* ---------- the iteration order of set arguments does not matter ---------- *)

(* a and a' are the same argument up to the order in which the elements of its sets (at any
   depth) are listed *)
Inductive arg_perm : arg -> arg -> Prop :=
| ap_refl a : arg_perm a a
| ap_trans a b c : arg_perm a b -> arg_perm b c -> arg_perm a c
| ap_set l l' : Permutation l l' -> arg_perm (ASet l) (ASet l')
| ap_in_list l1 a a' l2 : arg_perm a a' -> arg_perm (AList (l1 ++ a :: l2)) (AList (l1 ++ a' :: l2))
| ap_in_tuple l1 a a' l2 : arg_perm a a' -> arg_perm (ATuple (l1 ++ a :: l2)) (ATuple (l1 ++ a' :: l2))
| ap_in_set l1 a a' l2 : arg_perm a a' -> arg_perm (ASet (l1 ++ a :: l2)) (ASet (l1 ++ a' :: l2)).

(* the same for statements; the positional arguments of requires( *args) behave as a list *)
Inductive stmt_perm : stmt -> stmt -> Prop :=
| sp_refl s : stmt_perm s s
| sp_newjob j a a' sc : arg_perm a a' -> stmt_perm (NewJob j a sc) (NewJob j a' sc)
| sp_newseq q its a a' sc : arg_perm a a' -> stmt_perm (NewSeq q its a sc) (NewSeq q its a' sc)
| sp_newsched s its a a' sc : arg_perm a a' -> stmt_perm (NewSched s its a sc) (NewSched s its a' sc)
| sp_requires j l l' rm : arg_perm (AList l) (AList l') -> stmt_perm (Requires j l rm) (Requires j l' rm)
| sp_seqrequires q l l' : arg_perm (AList l) (AList l') -> stmt_perm (SeqRequires q l) (SeqRequires q l').

(* same exception; when there is none, equivalent states *)
Definition weak_equiv (o1 o2 : state * option error) : Prop :=
  snd o1 = snd o2 /\ (snd o1 = None -> st_equiv (fst o1) (fst o2)).

Lemma flat_map_ctx_perm (f : arg -> list nat) l1 a a' l2 :
  Permutation (f a) (f a') ->
  Permutation (flat_map f (l1 ++ a :: l2)) (flat_map f (l1 ++ a' :: l2)).
Proof.
  intros H. rewrite !flat_map_app. cbn [flat_map]. apply Permutation_app_head.
  apply Permutation_app_tail. exact H.
Qed.

Lemma names_perm sq a a' : arg_perm a a' -> Permutation (names sq a) (names sq a').
Proof.
  induction 1 as [a|a b c _ IH1 _ IH2|l l' Hp|l1 a a' l2 _ IH|l1 a a' l2 _ IH|l1 a a' l2 _ IH].
  - apply Permutation_refl.
  - eapply perm_trans; eassumption.
  - cbn [names]. apply Permutation_flat_map. exact Hp.
  - cbn [names]. apply flat_map_ctx_perm. exact IH.
  - cbn [names]. apply flat_map_ctx_perm. exact IH.
  - cbn [names]. apply flat_map_ctx_perm. exact IH.
Qed.

Lemma perm_seteq l l' : Permutation l l' -> seteq l l'.
Proof.
  intros H x. split; apply Permutation_in; [exact H|apply Permutation_sym; exact H].
Qed.

Lemma error_eq (e e' : option error) : (e = None <-> e' = None) -> e = e'.
Proof. destruct e as [[]|], e' as [[]|]; intros [H1 H2]; try reflexivity;
  [discriminate (H2 eq_refl)|discriminate (H1 eq_refl)]. Qed.

Lemma doc_req_perm self rm ns ns' r r' : Permutation ns ns' -> seteq r r' ->
  snd (doc_req self rm ns r) = snd (doc_req self rm ns' r') /\
  (snd (doc_req self rm ns r) = None ->
   seteq (fst (doc_req self rm ns r)) (fst (doc_req self rm ns' r'))).
Proof.
  intros Hp Hr. destruct rm; cbn [doc_req fst snd].
  - assert (Hok : snd (doc_remove ns r) = None <-> snd (doc_remove ns' r') = None).
    { rewrite !doc_remove_ok. split; intros [N I]; split.
      - eapply Permutation_NoDup; eassumption.
      - intros x Hx. apply Hr. apply I. eapply Permutation_in; [apply Permutation_sym|]; eassumption.
      - eapply Permutation_NoDup; [apply Permutation_sym|]; eassumption.
      - intros x Hx. apply Hr. apply I. eapply Permutation_in; eassumption. }
    split; [apply error_eq; exact Hok|].
    intros H x. rewrite (doc_remove_In _ _ H), (doc_remove_In _ _ (proj1 Hok H)).
    rewrite (Hr x), (perm_seteq _ _ Hp x). tauto.
  - split; [reflexivity|]. intros _. apply doc_add_seteq; [apply perm_seteq; exact Hp|exact Hr].
Qed.

Lemma weak_of_out o o' : out_equiv o o' -> weak_equiv o o'.
Proof. intros [H1 H2]. split; [exact H2|intros _; exact H1]. Qed.

Lemma weak_out_trans o1 o2 o3 : weak_equiv o1 o2 -> out_equiv o2 o3 -> weak_equiv o1 o3.
Proof.
  intros [A1 A2] [B1 B2]. split; [congruence|]. intros H. eapply st_equiv_trans; [apply A2; exact H|exact B1].
Qed.

Lemma doc_requires_perm st j ns ns' rm : Permutation ns ns' ->
  weak_equiv (doc_requires st j ns rm) (doc_requires st j ns' rm).
Proof.
  intros Hp. unfold doc_requires.
  destruct (doc_req_perm j rm ns ns' (req st j) (req st j) Hp (seteq_refl _)) as [H1 H2].
  destruct (doc_req j rm ns (req st j)) as [r e], (doc_req j rm ns' (req st j)) as [r' e'].
  cbn [fst snd] in *. split; [exact H1|]. intros He.
  split; cbn; intros; try reflexivity; try apply seteq_refl.
  apply seteq_upd; [intros; apply seteq_refl|apply H2; exact He].
Qed.

Lemma names_list_perm sq l l' : arg_perm (AList l) (AList l') ->
  Permutation (names_list sq l) (names_list sq l').
Proof. intros H. apply (names_perm sq _ _ H). Qed.

Lemma step_doc_perm_same st s s' : stmt_perm s s' -> weak_equiv (step_doc st s) (step_doc st s').
Proof.
  intros H. destruct H as [s|j a a' sc Ha|q its a a' sc Ha|s its a a' sc Ha|j l l' rm Hl|q l l' Hl];
    cbn [step_doc].
  - apply weak_of_out. apply out_equiv_refl.
  - split; [reflexivity|]. intros _. cbn [fst]. apply doc_register_equiv; [|apply seteq_refl].
    split; cbn; intros; try reflexivity; try apply seteq_refl.
    apply seteq_upd; [intros; apply seteq_refl|].
    apply doc_add_seteq; [apply perm_seteq; apply names_perm; exact Ha|apply seteq_refl].
  - split; [reflexivity|]. intros _. cbn [fst]. apply doc_register_equiv; [|apply seteq_refl].
    split; cbn [req members seqs seq_sched]; intros; try reflexivity; try apply seteq_refl.
    destruct (flat (seqs st) its) as [|first t]; [apply seteq_refl|].
    apply seteq_upd; [intros; apply seteq_refl|].
    apply doc_add_seteq; [apply perm_seteq; apply names_perm; exact Ha|apply seteq_refl].
  - split; [reflexivity|]. intros _. cbn [fst]. apply doc_register_equiv; [|apply seteq_refl].
    split; cbn; intros; try reflexivity; try apply seteq_refl.
    apply seteq_upd; [intros; apply seteq_refl|].
    apply doc_add_seteq; [apply perm_seteq; apply names_perm; exact Ha|apply seteq_refl].
  - apply doc_requires_perm. apply names_list_perm. exact Hl.
  - destruct (seqs st q) as [|first t]; [apply weak_of_out; apply out_equiv_refl|].
    apply doc_requires_perm. apply names_list_perm. exact Hl.
Qed.

Lemma exec_doc_perm p p' : Forall2 stmt_perm p p' -> forall st st', st_equiv st st' ->
  weak_equiv (exec step_doc p st) (exec step_doc p' st').
Proof.
  induction 1 as [|s s' p p' Hs _ IH]; intros st st' E; cbn [exec].
  - split; [reflexivity|intros _; exact E].
  - pose proof (weak_out_trans _ _ _ (step_doc_perm_same st s s' Hs) (step_doc_proper st st' s' E))
      as [H1 H2].
    destruct (step_doc st s) as [st1 e1], (step_doc st' s') as [st1' e1']. cbn [fst snd] in *.
    subst e1'. destruct e1 as [e|].
    + split; [reflexivity|discriminate].
    + apply IH. apply H2. reflexivity.
Qed.

(* listing the elements of the set arguments of a program in another order changes neither
   whether (and where) it raises, nor, when it does not raise, any required set, scheduler or
   sequence *)
Theorem C19_set_order_main p p' : Forall2 stmt_perm p p' ->
  snd (exec_code p) = snd (exec_code p') /\
  (snd (exec_code p) = None -> st_equiv (fst (exec_code p)) (fst (exec_code p'))).
Proof.
  intros H. destruct (exec_doc_perm p p' H empty_state empty_state (st_equiv_refl _)) as [D1 D2].
  destruct (C19_agree_main p) as [A1 A2]. destruct (C19_agree_main p') as [B1 B2].
  fold (exec_doc p) in D1, D2. fold (exec_doc p') in D1, D2.
  split; [congruence|]. intros Hn.
  eapply st_equiv_trans; [exact A1|]. eapply st_equiv_trans; [apply D2; congruence|].
  apply st_equiv_sym. exact B1.
Qed.

(* the partial effect of a failing remove may depend on the order: with required = {1, 2},
   removing the set {1, 3} listed as [1; 3] leaves {2}, listed as [3; 1] leaves {1, 2} *)
Example set_order_partial_effect :
  let pre := [NewJob 1 ANone None; NewJob 2 ANone None; NewJob 0 (AList [AJob 1; AJob 2]) None] in
  let p := pre ++ [Requires 0 [ASet [AJob 1; AJob 3]] true] in
  let p' := pre ++ [Requires 0 [ASet [AJob 3; AJob 1]] true] in
  snd (exec_code p) = Some KeyError /\ snd (exec_code p') = Some KeyError /\
  req (fst (exec_code p)) 0 = [2] /\ req (fst (exec_code p')) 0 = [1; 2].
Proof. vm_compute. repeat split. Qed.

(* ---------- constructors of jobs and nested schedulers ---------- *)

Lemma job_init_spec st j required scheduler :
  let o := job_init_code st j required scheduler in
  snd o = None /\
  (forall x, In x (req (fst o) j) <-> In x (names (seqs st) required) /\ x <> j) /\
  (forall k x, k <> j -> In x (req (fst o) k) <-> In x (req st k)) /\
  (forall s x, In x (members (fst o) s) <->
               In x (members st s) \/ (scheduler = Some s /\ x = j)) /\
  (forall q, seqs (fst o) q = seqs st q).
Proof.
  cbv zeta. destruct (job_init_code_doc st j required scheduler) as [[E1 E2 E3 E4] He].
  cbn [fst snd] in *. split; [exact He|]. split; [|split; [|split]].
  - intros x. rewrite (E1 j x), req_doc_register. cbn [req set_req].
    rewrite upd_same, In_doc_add. cbn [In]. tauto.
  - intros k x Hk. rewrite (E1 k x), req_doc_register. cbn [req set_req].
    rewrite upd_other by exact Hk. tauto.
  - intros s x. rewrite (E2 s x), In_members_doc_register. cbn [members set_req In].
    split; intros [H|[H1 H2]]; auto; right; split; auto. destruct H2 as [H2|[]]. auto.
  - intros q. rewrite E3, seqs_doc_register. reflexivity.
Qed.

(* HJob(required=.., scheduler=..): the new job requires exactly what required= names (never
   itself) and is registered in scheduler= *)
Theorem newjob_spec st j required scheduler :
  let o := step_code st (NewJob j required scheduler) in
  snd o = None /\
  (forall x, In x (req (fst o) j) <-> In x (names (seqs st) required) /\ x <> j) /\
  (forall k x, k <> j -> In x (req (fst o) k) <-> In x (req st k)) /\
  (forall s x, In x (members (fst o) s) <->
               In x (members st s) \/ (scheduler = Some s /\ x = j)) /\
  (forall q, seqs (fst o) q = seqs st q).
Proof. exact (job_init_spec st j required scheduler). Qed.

(* Scheduler( *items, required=.., scheduler=..): contains exactly the flattened items, and is
   itself a job with requirements that can be registered in another scheduler *)
Theorem newsched_spec st s items required scheduler :
  let o := step_code st (NewSched s items required scheduler) in
  snd o = None /\
  (forall x, In x (req (fst o) s) <-> In x (names (seqs st) required) /\ x <> s) /\
  (forall k x, k <> s -> In x (req (fst o) k) <-> In x (req st k)) /\
  (forall x, In x (members (fst o) s) <->
             In x (flat (seqs st) items) \/ (scheduler = Some s /\ x = s)) /\
  (forall s' x, s' <> s -> In x (members (fst o) s') <->
                In x (members st s') \/ (scheduler = Some s' /\ x = s)) /\
  (forall q, seqs (fst o) q = seqs st q).
Proof.
  cbv zeta. cbn [step_code].
  set (st1 := set_members st (upd (members st) s (union [] (flatten_code (seqs st) items)))).
  destruct (job_init_spec st1 s required scheduler) as (H0 & H1 & H2 & H3 & H4).
  split; [exact H0|]. split; [exact H1|]. split; [exact H2|]. split; [|split; [|exact H4]].
  - intros x. rewrite (H3 s x). unfold st1. cbn [members set_members].
    rewrite upd_same, In_union, flatten_code_flat. cbn [In]. tauto.
  - intros s' x Hs. rewrite (H3 s' x). unfold st1. cbn [members set_members].
    rewrite upd_other by exact Hs. tauto.
Qed.
