(* C19: proofs about the construction model of Build.v. *)
From AJ Require Import Common.Util Graph.Build.
