(* Proofs about topological_order() and check_cycles() (property C15). *)
From Coq Require Import Permutation.
From AJ Require Import Common.Util Graph.GModel Graph.Sanitize.

(* ---------- vocabulary ---------- *)

Definition closed (rq : rmap) (ms : list nat) : Prop :=
  forall j r, In j ms -> In r (rq j) -> In r ms.

(* every element comes after all its requirements *)
Definition ordered (rq : rmap) (l : list nat) : Prop :=
  forall l1 j l2, l = l1 ++ j :: l2 -> forall r, In r (rq j) -> In r l1.

Definition acyclic (rq : rmap) (ms : list nat) : Prop :=
  exists rk : nat -> nat, forall j r, In j ms -> In r (rq j) -> In r ms -> rk r < rk j.

(* an explicit cycle: a non-empty path of members, each requiring the next, back to the start *)
Fixpoint is_path (rq : rmap) (ms : list nat) (a : nat) (p : list nat) (b : nat) : Prop :=
  match p with
  | [] => In a ms /\ In b (rq a)
  | c :: p' => In a ms /\ In c (rq a) /\ is_path rq ms c p' b
  end.

Definition has_cycle (rq : rmap) (ms : list nat) : Prop :=
  exists a p, is_path rq ms a p a /\ In a ms.

(* ---------- one pass ---------- *)

Lemma ordered_nil rq : ordered rq [].
Proof. intros l1 j l2 E. destruct l1; discriminate. Qed.

Lemma ordered_snoc rq l j :
  ordered rq l -> (forall r, In r (rq j) -> In r l) -> ordered rq (l ++ [j]).
Proof.
  intros Ho Hj l1 k l2 E r Hr.
  destruct l2 as [|x l2].
  - apply app_inj_tail in E. destruct E as [-> ->]. auto.
  - destruct (@exists_last _ (x :: l2) ltac:(discriminate)) as (l2' & z & E2).
    rewrite E2 in E. change (l1 ++ k :: l2' ++ [z]) with (l1 ++ (k :: l2') ++ [z]) in E.
    rewrite app_assoc in E. apply app_inj_tail in E. destruct E as [E _].
    eapply Ho; eauto.
Qed.

Lemma forallb_memb_spec l marked :
  forallb (fun r => memb r marked) l = true <-> forall r, In r l -> In r marked.
Proof.
  rewrite forallb_forall. split; intros H r Hr; apply memb_In; auto.
Qed.

(* what a pass does *)
Lemma topo_pass_spec rq : forall ms marked yielded,
  exists new,
    topo_pass rq ms marked yielded = (marked ++ new, yielded ++ new) /\
    (forall j, In j new -> In j ms /\ ~ In j marked) /\
    (NoDup ms -> NoDup new) /\
    (ordered rq marked -> ordered rq (marked ++ new)) /\
    (new = [] -> forall j, In j ms -> ~ In j marked -> exists r, In r (rq j) /\ ~ In r marked).
Proof.
  induction ms as [|j ms IH]; intros marked yielded.
  - exists []. cbn [topo_pass]. rewrite !app_nil_r.
    split; [reflexivity|]. split; [intros j []|]. split; [constructor|]. split; [auto|].
    intros _ j [].
  - cbn [topo_pass]. destruct (memb j marked) eqn:Em.
    + apply memb_In in Em.
      destruct (IH marked yielded) as (new & E & Hin & Hnd & Hord & Hstuck).
      exists new. split; [exact E|]. split; [|split; [|split]].
      * intros k Hk. apply Hin in Hk. simpl. tauto.
      * intros ND. inversion ND; auto.
      * exact Hord.
      * intros En k [->|Hk] Hnk; [contradiction|]. auto.
    + apply memb_false in Em.
      destruct (forallb (fun r => memb r marked) (rq j)) eqn:Ef.
      * rewrite forallb_memb_spec in Ef.
        destruct (IH (marked ++ [j]) (yielded ++ [j])) as (new & E & Hin & Hnd & Hord & Hstuck).
        exists (j :: new). rewrite E. rewrite <- !app_assoc. cbn [app].
        split; [reflexivity|]. split; [|split; [|split]].
        -- intros k [->|Hk]; [simpl; auto|]. apply Hin in Hk. destruct Hk as [Hk1 Hk2].
           split; [simpl; auto|]. intro Hm. apply Hk2. apply in_app_iff. auto.
        -- intros ND. inversion ND as [|? ? Hj ND']; subst. constructor; auto.
           intro Hjn. apply Hin in Hjn. apply (proj2 Hjn). apply in_app_iff. simpl. auto.
        -- intros Ho. change (marked ++ j :: new) with (marked ++ [j] ++ new).
           rewrite app_assoc. apply Hord. apply ordered_snoc; auto.
        -- discriminate.
      * destruct (IH marked yielded) as (new & E & Hin & Hnd & Hord & Hstuck).
        exists new. split; [exact E|]. split; [|split; [|split]].
        -- intros k Hk. apply Hin in Hk. simpl. tauto.
        -- intros ND. inversion ND; auto.
        -- exact Hord.
        -- intros En k [->|Hk] Hnk; [|auto].
           apply not_true_iff_false in Ef. rewrite forallb_memb_spec in Ef.
           destruct (existsb (fun r => negb (memb r marked)) (rq k)) eqn:Ex.
           ++ apply existsb_exists in Ex. destruct Ex as [r [Hr Hm]].
              exists r. split; auto. apply memb_false. apply negb_true_iff. exact Hm.
           ++ exfalso. apply Ef. intros r Hr.
              rewrite <- not_true_iff_false, existsb_exists in Ex.
              apply memb_In. destruct (memb r marked) eqn:E'; auto.
              exfalso. apply Ex. exists r. rewrite E'. auto.
Qed.

(* ---------- the loop ---------- *)

Record loop_inv (rq : rmap) (ms marked : list nat) : Prop := {
  li_nodup : NoDup marked;
  li_incl : incl marked ms;
  li_ord : ordered rq marked
}.

Lemma loop_inv_nil rq ms : loop_inv rq ms [].
Proof. split; [constructor | intros x [] | apply ordered_nil]. Qed.

Lemma pass_keeps_inv rq ms marked new y :
  NoDup ms -> loop_inv rq ms marked ->
  topo_pass rq ms marked [] = (marked ++ new, y) ->
  (forall j, In j new -> In j ms /\ ~ In j marked) -> NoDup new ->
  (ordered rq marked -> ordered rq (marked ++ new)) ->
  loop_inv rq ms (marked ++ new).
Proof.
  intros NDms [I1 I2 I3] _ Hin Hnd Hord. split.
  - apply NoDup_app_intro; auto. intros x Hx Hn. apply Hin in Hn. tauto.
  - intros x Hx. apply in_app_iff in Hx. destruct Hx as [Hx|Hx]; auto. apply Hin in Hx. tauto.
  - auto.
Qed.

(* main lemma: with enough fuel the loop never runs dry, and its result is characterised *)
Lemma topo_loop_spec rq ms : NoDup ms ->
  forall fuel marked,
    loop_inv rq ms marked ->
    S (length ms) <= fuel + length marked ->
    let '(out, r) := topo_loop fuel rq ms marked in
    loop_inv rq ms out /\
    (exists new, out = marked ++ new) /\
    match r with
    | TOk => length ms <= length out
    | TCycle => length out < length ms /\
                forall j, In j ms -> ~ In j out -> exists r, In r (rq j) /\ ~ In r out
    | TFuel => False
    end.
Proof.
  intros NDms. induction fuel as [|f IH]; intros marked Inv Hf.
  - exfalso. destruct Inv as [I1 I2 _].
    pose proof (NoDup_incl_length I1 I2). simpl in Hf. lia.
  - cbn [topo_loop].
    destruct (topo_pass_spec rq ms marked []) as (new & E & Hin & Hnd & Hord & Hstuck).
    rewrite E. cbn [app].
    assert (Inv' : loop_inv rq ms (marked ++ new)).
    { eapply pass_keeps_inv; eauto. }
    destruct (Nat.leb_spec (length ms) (length (marked ++ new))) as [Hle|Hlt].
    + split; [exact Inv'|]. split; [eauto|exact Hle].
    + destruct new as [|n new'].
      * rewrite app_nil_r in *. split; [exact Inv'|]. split; [exists []; rewrite app_nil_r; reflexivity|].
        split; [exact Hlt|]. apply Hstuck. reflexivity.
      * specialize (IH (marked ++ n :: new') Inv').
        assert (Hf' : S (length ms) <= f + length (marked ++ n :: new')).
        { rewrite app_length. simpl. simpl in Hf. lia. }
        specialize (IH Hf').
        destruct (topo_loop f rq ms (marked ++ n :: new')) as [out r].
        destruct IH as (J1 & [new2 J2] & J3). split; [exact J1|]. split; [|exact J3].
        exists ((n :: new') ++ new2). rewrite J2, app_assoc. reflexivity.
Qed.

Lemma topo_spec rq ms : NoDup ms ->
  let '(out, r) := topo rq ms in
  loop_inv rq ms out /\
  match r with
  | TOk => length ms <= length out
  | TCycle => length out < length ms /\
              forall j, In j ms -> ~ In j out -> exists r, In r (rq j) /\ ~ In r out
  | TFuel => False
  end.
Proof.
  intros ND. unfold topo.
  pose proof (topo_loop_spec rq ms ND (S (length ms)) [] (loop_inv_nil rq ms)) as H.
  specialize (H ltac:(simpl; lia)).
  destruct (topo_loop (S (length ms)) rq ms []) as [out r].
  destruct H as (H1 & _ & H3). auto.
Qed.

(* ---------- theorems ---------- *)

(* the generator never runs out of fuel: the model's loop bound is not an artefact *)
Theorem topo_fuel_enough rq ms : NoDup ms -> snd (topo rq ms) <> TFuel.
Proof.
  intros ND. pose proof (topo_spec rq ms ND) as H.
  destruct (topo rq ms) as [out r]. destruct H as [_ H]. cbn [snd].
  intro E; subst. exact H.
Qed.

(* whatever was yielded is duplicate-free, made of members, and correctly ordered --
   also when the generator ends up raising *)
Theorem topo_prefix_valid rq ms : NoDup ms ->
  let out := fst (topo rq ms) in NoDup out /\ incl out ms /\ ordered rq out.
Proof.
  intros ND. pose proof (topo_spec rq ms ND) as H.
  destruct (topo rq ms) as [out r]. destruct H as [[I1 I2 I3] _]. cbn [fst]. auto.
Qed.

(* success: every member exactly once, each after all of its requirements *)
Theorem topo_complete rq ms : NoDup ms -> snd (topo rq ms) = TOk ->
  let out := fst (topo rq ms) in Permutation out ms /\ ordered rq out.
Proof.
  intros ND. pose proof (topo_spec rq ms ND) as H.
  destruct (topo rq ms) as [out r]. cbn [fst snd]. intros ->.
  destruct H as [[I1 I2 I3] Hlen]. split; [|exact I3].
  apply NoDup_Permutation_bis; auto.
Qed.

Lemma ordered_index rq l : NoDup l -> ordered rq l ->
  forall j r, In j l -> In r (rq j) -> index_of r l < index_of j l.
Proof.
  intros ND Ho j r Hj Hr.
  destruct (in_split _ _ Hj) as (l1 & l2 & ->).
  assert (Hr1 : In r l1) by (eapply Ho; eauto).
  assert (Hj1 : ~ In j l1).
  { apply NoDup_remove_2 in ND. intro. apply ND. apply in_app_iff. auto. }
  clear Ho ND Hj. induction l1 as [|a l1 IH]; [destruct Hr1|].
  cbn [app index_of].
  destruct (Nat.eqb_spec j a) as [->|Nj]; [exfalso; apply Hj1; simpl; auto|].
  destruct (Nat.eqb_spec r a) as [->|Nr]; [lia|].
  apply -> Nat.succ_lt_mono. apply IH.
  - destruct Hr1 as [E|H]; [congruence|exact H].
  - intro. apply Hj1. simpl. auto.
Qed.

Lemma all_marked_of_rank rq ms marked (rk : nat -> nat) :
  closed rq ms ->
  (forall j r, In j ms -> In r (rq j) -> In r ms -> rk r < rk j) ->
  (forall j, In j ms -> ~ In j marked -> exists r, In r (rq j) /\ ~ In r marked) ->
  forall n j, rk j < n -> In j ms -> In j marked.
Proof.
  intros Hc Hrk Hstuck. induction n as [|n IH]; intros j Hn Hj; [lia|].
  destruct (memb j marked) eqn:E; [apply memb_In; exact E|].
  apply memb_false in E.
  destruct (Hstuck j Hj E) as (r & Hr & Hnr).
  exfalso. apply Hnr. apply IH.
  - specialize (Hrk j r Hj Hr (Hc j r Hj Hr)). lia.
  - eapply Hc; eauto.
Qed.

(* exactness: the generator succeeds iff the graph is acyclic *)
Theorem topo_exact rq ms : NoDup ms -> closed rq ms ->
  (snd (topo rq ms) = TOk <-> acyclic rq ms).
Proof.
  intros ND Hc. split.
  - intros Hok. destruct (topo_complete rq ms ND Hok) as [Hp Ho].
    destruct (topo_prefix_valid rq ms ND) as (Hnd & _ & _).
    exists (fun j => index_of j (fst (topo rq ms))).
    intros j r Hj Hr _. apply (ordered_index rq); auto.
    eapply Permutation_in; [apply Permutation_sym; exact Hp|exact Hj].
  - intros [rk Hrk]. pose proof (topo_spec rq ms ND) as H.
    destruct (topo rq ms) as [out r]. cbn [snd]. destruct H as [[I1 I2 I3] H].
    destruct r; [reflexivity| |contradiction].
    exfalso. destruct H as [Hlt Hstuck].
    assert (Hall : incl ms out).
    { intros j Hj. eapply (all_marked_of_rank rq ms out rk Hc Hrk Hstuck (S (rk j))); auto. }
    pose proof (NoDup_incl_length ND Hall). lia.
Qed.

(* and when it is not, the generator raises (TCycle): it neither loops nor ends normally *)
Theorem topo_raises rq ms : NoDup ms -> closed rq ms -> ~ acyclic rq ms ->
  snd (topo rq ms) = TCycle.
Proof.
  intros ND Hc Hn.
  pose proof (topo_exact rq ms ND Hc) as Hex.
  pose proof (topo_fuel_enough rq ms ND) as Hf.
  destruct (snd (topo rq ms)); [exfalso; apply Hn; apply Hex; reflexivity|reflexivity|congruence].
Qed.

(* an explicit cycle is incompatible with a rank function *)
Lemma path_rank rq ms (rk : nat -> nat) :
  closed rq ms ->
  (forall j r, In j ms -> In r (rq j) -> In r ms -> rk r < rk j) ->
  forall p a b, is_path rq ms a p b -> rk b < rk a /\ In b ms.
Proof.
  intros Hc Hrk. induction p as [|c p IH]; intros a b; cbn [is_path].
  - intros [Ha Hb]. split; [apply Hrk; [exact Ha|exact Hb|exact (Hc a b Ha Hb)]|exact (Hc a b Ha Hb)].
  - intros (Ha & Hcq & Hp). destruct (IH c b Hp) as [H1 H2]. split; [|exact H2].
    assert (rk c < rk a) by (apply Hrk; [exact Ha|exact Hcq|exact (Hc a c Ha Hcq)]). lia.
Qed.

Theorem cycle_not_acyclic rq ms : closed rq ms -> has_cycle rq ms -> ~ acyclic rq ms.
Proof.
  intros Hc (a & p & Hp & Ha) [rk Hrk].
  destruct (path_rank rq ms rk Hc Hrk p a a Hp) as [H _]. lia.
Qed.

Corollary cycle_detected rq ms : NoDup ms -> closed rq ms -> has_cycle rq ms ->
  snd (topo rq ms) = TCycle.
Proof.
  intros ND Hc Hcy. apply topo_raises; auto. apply cycle_not_acyclic; auto.
Qed.

(* ---------- nested version ---------- *)

Fixpoint all_levels_ok (rq : rmap) (t : jtree) : Prop :=
  match t with
  | Atom _ => True
  | Sched _ kids =>
      snd (topo rq (map tid kids)) = TOk /\
      (fix all (ks : list jtree) : Prop :=
         match ks with [] => True | k :: ks' => all_levels_ok rq k /\ all ks' end) kids
  end.

Lemma all_levels_Forall rq ks :
  (fix all (ks : list jtree) : Prop :=
     match ks with [] => True | k :: ks' => all_levels_ok rq k /\ all ks' end) ks
  <-> Forall (all_levels_ok rq) ks.
Proof.
  induction ks as [|k ks IH]; split; intros H; auto.
  - destruct H as [H1 H2]. constructor; auto. apply IH. exact H2.
  - inversion H; subst. split; auto. apply IH. assumption.
Qed.

(* every scheduler node has duplicate-free members *)
Fixpoint nodup_levels (t : jtree) : Prop :=
  match t with
  | Atom _ => True
  | Sched _ kids =>
      NoDup (map tid kids) /\
      (fix all (ks : list jtree) : Prop :=
         match ks with [] => True | k :: ks' => nodup_levels k /\ all ks' end) kids
  end.

Lemma nodup_levels_Forall ks :
  (fix all (ks : list jtree) : Prop :=
     match ks with [] => True | k :: ks' => nodup_levels k /\ all ks' end) ks
  <-> Forall nodup_levels ks.
Proof.
  induction ks as [|k ks IH]; split; intros H; auto.
  - destruct H as [H1 H2]. constructor; auto. apply IH. exact H2.
  - inversion H; subst. split; auto. apply IH. assumption.
Qed.

(* Scheduler.check_cycles is True iff every level of the tree passes *)
Theorem check_cycles_nested rq t : nodup_levels t ->
  (check_cycles rq t = true <-> all_levels_ok rq t).
Proof.
  induction t as [i|i kids IH] using jtree_ind2; intros ND.
  - simpl. tauto.
  - cbn [check_cycles all_levels_ok nodup_levels] in *.
    destruct ND as [ND1 ND2]. rewrite nodup_levels_Forall in ND2.
    rewrite all_levels_Forall.
    pose proof (topo_complete rq (map tid kids) ND1) as Hc.
    destruct (topo rq (map tid kids)) as [order r] eqn:Et. cbn [fst snd] in *.
    rewrite andb_true_iff, forallb_forall.
    split.
    + intros [H1 H2]. destruct r; try discriminate. split; [reflexivity|].
      destruct (Hc eq_refl) as [Hp _].
      rewrite Forall_forall in *. intros k Hk.
      apply IH; auto. specialize (H1 k Hk).
      assert (Hm : memb (tid k) order = true).
      { apply memb_In. eapply Permutation_in; [apply Permutation_sym; exact Hp|].
        apply in_map. exact Hk. }
      rewrite Hm in H1. exact H1.
    + intros [H1 H2]. subst r. split; [|reflexivity].
      rewrite Forall_forall in *. intros k Hk.
      destruct (memb (tid k) order); [|reflexivity]. apply IH; auto.
Qed.
