(* Model G, part 1: scheduler trees, requirement maps, sanitize(), topological_order(),
   check_cycles(), _set_sched_ids().  Executable definitions only; proofs are elsewhere.

   Sets of the implementation are lists here, in the iteration order that the implementation
   showed; every theorem quantifies over all such lists.

   Mirrors asynciojobs/purescheduler.py (sanitize 239-285, check_cycles 288-312,
   topological_order 315-370, _set_sched_ids 1101-1123) and scheduler.py (check_cycles,
   _set_sched_id). *)
From AJ Require Export Common.Util.

Set Implicit Arguments.

Inductive jtree : Type :=
| Atom (i : nat)
| Sched (i : nat) (kids : list jtree).

Definition tid (t : jtree) : nat := match t with Atom i => i | Sched i _ => i end.
Definition is_sched (t : jtree) : bool := match t with Atom _ => false | Sched _ _ => true end.
Definition kids_of (t : jtree) : list jtree := match t with Atom _ => [] | Sched _ k => k end.

(* job id -> the iteration order of job.required *)
Definition rmap := nat -> list nat.

(* ------------------------------------------------------------------ *)
(* sanitize()                                                          *)

(* one iteration of the loop body, lines 272-277 *)
Definition san_job (ms : list nat) (rq : rmap) (j : nat) : rmap * bool :=
  let r := rq j in
  let r' := inter r ms in
  (upd rq j r', negb (Nat.eqb (length r) (length r'))).

(* the for-loop of sanitize, lines 271-284, parameterised by the recursive call *)
Section SanLoop.
  Variable rec : jtree -> rmap -> rmap * bool.
  Variable ms : list nat.
  Fixpoint san_loop (ks : list jtree) (rq : rmap) (changes : bool) : rmap * bool :=
    match ks with
    | [] => (rq, changes)
    | k :: ks' =>
        let '(rq1, c1) := san_job ms rq (tid k) in
        let changes1 := changes || c1 in
        match k with
        | Atom _ => san_loop ks' rq1 changes1
        | Sched _ _ =>
            let '(rq2, fine) := rec k rq1 in
            san_loop ks' rq2 (negb fine || changes1)
        end
    end.
End SanLoop.

(* returns the new requirement map and Python's return value (True = "was fine") *)
Fixpoint sanitize (t : jtree) (rq : rmap) : rmap * bool :=
  match t with
  | Atom _ => (rq, true)
  | Sched _ kids =>
      let '(rq', changes) := san_loop sanitize (map tid kids) kids rq false in
      (rq', negb changes)
  end.

(* ------------------------------------------------------------------ *)
(* topological_order()                                                 *)

Inductive tres := TOk | TCycle | TFuel.

Definition tres_eqb (a b : tres) : bool :=
  match a, b with TOk, TOk | TCycle, TCycle | TFuel, TFuel => true | _, _ => false end.

(* one pass of the for-loop, lines 340-355: marks are consulted as they are updated *)
Fixpoint topo_pass (rq : rmap) (ms : list nat) (marked : list nat) (yielded : list nat)
  : list nat * list nat :=
  match ms with
  | [] => (marked, yielded)
  | j :: ms' =>
      if memb j marked then topo_pass rq ms' marked yielded
      else if forallb (fun r => memb r marked) (rq j)
           then topo_pass rq ms' (marked ++ [j]) (yielded ++ [j])
           else topo_pass rq ms' marked yielded
  end.

(* the while-loop, lines 336-364; fuel is proved sufficient in Topo.v *)
Fixpoint topo_loop (fuel : nat) (rq : rmap) (ms : list nat) (marked : list nat)
  : list nat * tres :=
  match fuel with
  | 0 => (marked, TFuel)
  | S f =>
      let '(marked', new) := topo_pass rq ms marked [] in
      if length ms <=? length marked' then (marked', TOk)
      else match new with
           | [] => (marked', TCycle)
           | _ => topo_loop f rq ms marked'
           end
  end.

(* the sequence of yielded jobs (marks are appended in yield order, so the two coincide)
   and how the generator ends *)
Definition topo (rq : rmap) (ms : list nat) : list nat * tres :=
  topo_loop (S (length ms)) rq ms [].

(* PureScheduler.check_cycles: own level only *)
Definition check_cycles_pure (rq : rmap) (t : jtree) : bool :=
  tres_eqb (snd (topo rq (map tid (kids_of t)))) TOk.

(* find the subtree with a given id among kids *)
Fixpoint find_kid (i : nat) (ks : list jtree) : option jtree :=
  match ks with
  | [] => None
  | k :: ks' => if Nat.eqb (tid k) i then Some k else find_kid i ks'
  end.

(* Scheduler.check_cycles: iterates the generator, recursing into yielded nested schedulers;
   an exception of the generator, or a nested False, gives False *)
Fixpoint check_cycles (rq : rmap) (t : jtree) : bool :=
  match t with
  | Atom _ => true
  | Sched _ kids =>
      let '(order, r) := topo rq (map tid kids) in
      forallb (fun k => if memb (tid k) order then check_cycles rq k else true) kids
      && tres_eqb r TOk
  end.

(* ------------------------------------------------------------------ *)
(* _set_sched_ids(): numbering along the topological order, nested schedulers inline.
   Returns the association list (job, number) in numbering order and the next number;
   None when a topological_order() involved raises. *)

Fixpoint set_ids_fuel (fuel : nat) (rq : rmap) (t : jtree) (start : nat)
  : option (list (nat * nat) * nat) :=
  match fuel with
  | 0 => None
  | S f =>
      let kids := kids_of t in
      let '(order, r) := topo rq (map tid kids) in
      if tres_eqb r TOk then
        (fix loop (ord : list nat) (i : nat) (acc : list (nat * nat)) :=
           match ord with
           | [] => Some (acc, i)
           | j :: ord' =>
               match find_kid j kids with
               | None => None
               | Some (Atom _) => loop ord' (S i) (acc ++ [(j, i)])
               | Some (Sched _ _ as k) =>
                   match set_ids_fuel f rq k (S i) with
                   | None => None
                   | Some (sub, i') => loop ord' i' (acc ++ (j, i) :: sub)
                   end
               end
           end) order start []
      else None
  end.

Fixpoint tree_size (t : jtree) : nat :=
  match t with
  | Atom _ => 1
  | Sched _ kids => S (fold_right (fun k n => tree_size k + n) 0 kids)
  end.

Definition set_ids (rq : rmap) (t : jtree) : option (list (nat * nat) * nat) :=
  set_ids_fuel (tree_size t) rq t 1.

(* all job ids below a scheduler (the scheduler itself excluded), any depth *)
Fixpoint tree_ids (t : jtree) : list nat :=
  match t with
  | Atom i => [i]
  | Sched i kids => i :: flat_map tree_ids kids
  end.

Definition below (t : jtree) : list nat := flat_map tree_ids (kids_of t).
