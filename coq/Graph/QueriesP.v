(* Proofs about the queries of Queries.v (property C17). *)
From Coq Require Import Permutation.
From AJ Require Import Common.Util Graph.GModel Graph.Sanitize Graph.Topo Graph.Queries.

(* ------------------------------------------------------------------ *)
(* _neighbours                                                          *)

Lemma nb_inner_spec ms l : forall acc,
  (forall x, In x (nb_inner ms l acc) <-> In x acc \/ (In x l /\ In x ms)) /\
  (NoDup acc -> NoDup (nb_inner ms l acc)).
Proof.
  unfold nb_inner. induction l as [|a l IH]; intros acc; cbn [fold_left].
  - split; [intros x; simpl; tauto | auto].
  - destruct (memb a ms) eqn:E.
    + destruct (IH (addn a acc)) as [H1 H2]. apply memb_In in E. split.
      * intros x. rewrite H1, In_addn. simpl. split.
        -- intros [[->|H]|[H H']]; auto.
        -- intros [H|[[->|H] H']]; auto.
      * intros ND. apply H2. apply NoDup_addn. exact ND.
    + destruct (IH acc) as [H1 H2]. apply memb_false in E. split; [|exact H2].
      intros x. rewrite H1. simpl. split.
      * intros [H|[H H']]; auto.
      * intros [H|[[->|H] H']]; auto. contradiction.
Qed.

Lemma nbrs_fold (f : rmap) ms starts : forall acc,
  (forall x, In x (fold_left (fun acc s => nb_inner ms (f s) acc) starts acc) <->
     In x acc \/ (In x ms /\ exists s, In s starts /\ In x (f s))) /\
  (NoDup acc -> NoDup (fold_left (fun acc s => nb_inner ms (f s) acc) starts acc)).
Proof.
  induction starts as [|a starts IH]; intros acc; cbn [fold_left].
  - split; [|auto]. intros x. split; [auto|]. intros [H|[_ [s [[] _]]]]. exact H.
  - destruct (IH (nb_inner ms (f a) acc)) as [H1 H2].
    destruct (nb_inner_spec ms (f a) acc) as [G1 G2]. split.
    + intros x. rewrite H1, G1. split.
      * intros [[H|[H H']]|[H [s [Hs Hx]]]]; auto.
        -- right. split; [exact H'|]. exists a. simpl. auto.
        -- right. split; [exact H|]. exists s. simpl. auto.
      * intros [H|[H [s [[->|Hs] Hx]]]]; auto.
        right. split; [exact H|]. exists s. auto.
    + intros ND. apply H2, G2, ND.
Qed.

Theorem nbrs_spec f ms starts x :
  In x (nbrs f ms starts) <-> In x ms /\ exists s, In s starts /\ In x (f s).
Proof.
  unfold nbrs. destruct (nbrs_fold f ms starts []) as [H _]. rewrite H. simpl. tauto.
Qed.

Theorem nbrs_nodup f ms starts : NoDup (nbrs f ms starts).
Proof.
  unfold nbrs. destruct (nbrs_fold f ms starts []) as [_ H]. apply H. constructor.
Qed.

Lemma nbrs_one f ms s x : In x (nbrs f ms [s]) <-> link f ms s x.
Proof.
  rewrite nbrs_spec. unfold link. split.
  - intros [H [s' [[<-|[]] Hx]]]. auto.
  - intros [H1 H2]. split; [exact H2|]. exists s. simpl. auto.
Qed.

(* predecessors: exactly the members directly required by one of the starts *)
Theorem predecessors_exact ms rq starts x :
  In x (predecessors ms rq starts) <-> In x ms /\ exists s, In s starts /\ In x (rq s).
Proof. apply nbrs_spec. Qed.

(* ------------------------------------------------------------------ *)
(* _backlinks                                                           *)

Lemma bl_reset_spec ms : forall sc x,
  bl_reset ms sc x = if memb x ms then [] else sc x.
Proof.
  unfold bl_reset. induction ms as [|a ms IH]; intros sc x; cbn [fold_left].
  - reflexivity.
  - rewrite IH, memb_cons. unfold upd.
    destruct (Nat.eqb x a) eqn:E; cbn [orb]; destruct (memb x ms); reflexivity.
Qed.

Lemma bl_job_spec j reqs : forall sc x y,
  In y (bl_job j reqs sc x) <-> In y (sc x) \/ (y = j /\ In x reqs).
Proof.
  unfold bl_job. induction reqs as [|r reqs IH]; intros sc x y; cbn [fold_left].
  - simpl. tauto.
  - rewrite IH. unfold upd at 1. destruct (Nat.eqb x r) eqn:E.
    + apply Nat.eqb_eq in E. subst r. rewrite In_addn. simpl. tauto.
    + apply Nat.eqb_neq in E. simpl. split.
      * intros [H|[H1 H2]]; auto.
      * intros [H|[H1 [H2|H2]]]; auto. congruence.
Qed.

Lemma bl_fold_spec (rq : rmap) ms : forall sc x y,
  In y (fold_left (fun sc j => bl_job j (rq j) sc) ms sc x) <->
  In y (sc x) \/ (In y ms /\ In x (rq y)).
Proof.
  induction ms as [|a ms IH]; intros sc x y; cbn [fold_left].
  - simpl. tauto.
  - rewrite IH, bl_job_spec. simpl. split.
    + intros [[H|[-> H]]|[H1 H2]]; auto.
    + intros [H|[[->|H1] H2]]; auto.
Qed.

(* whatever _s_successors held before, afterwards the successors of a member are exactly the
   members that require it; a non-member keeps its stale links and gains the members that
   require it *)
Theorem backlinks_spec ms rq sc x y :
  In y (backlinks ms rq sc x) <->
  (In y ms /\ In x (rq y)) \/ (~ In x ms /\ In y (sc x)).
Proof.
  unfold backlinks. rewrite bl_fold_spec, bl_reset_spec.
  destruct (memb x ms) eqn:E.
  - apply memb_In in E. simpl. tauto.
  - apply memb_false in E. tauto.
Qed.

Theorem backlinks_member ms rq sc x y : In x ms ->
  (In y (backlinks ms rq sc x) <-> In y ms /\ In x (rq y)).
Proof. intros Hx. rewrite backlinks_spec. tauto. Qed.

(* successors: exactly the members that directly require one of the starts *)
Theorem successors_exact ms rq sc starts x : incl starts ms ->
  (In x (fst (successors ms rq sc true starts)) <->
   In x ms /\ exists s, In s starts /\ In s (rq x)).
Proof.
  intros Hs. unfold successors. cbn [fst]. rewrite nbrs_spec. split.
  - intros [Hx [s [H1 H2]]]. split; [exact Hx|]. exists s. split; [exact H1|].
    apply backlinks_member in H2; [tauto | auto].
  - intros [Hx [s [H1 H2]]]. split; [exact Hx|]. exists s. split; [exact H1|].
    apply backlinks_member; auto.
Qed.

(* ------------------------------------------------------------------ *)
(* reachability                                                         *)

Lemma reach_trans f ms a b c : reach f ms a b -> reach f ms b c -> reach f ms a c.
Proof.
  intros H. induction H as [a b L | a b d L H IH]; intros H2.
  - eapply reach_step; eauto.
  - eapply reach_step; [exact L|]. apply IH. exact H2.
Qed.

Lemma reach_snoc f ms a b c : reach f ms a b -> link f ms b c -> reach f ms a c.
Proof. intros H L. eapply reach_trans; [exact H|]. apply reach_one. exact L. Qed.

Lemma reach_target f ms a b : reach f ms a b -> In b ms.
Proof. intros H. induction H as [a b [_ L] | a b c _ _ IH]; auto. Qed.

(* the last link of a path *)
Lemma reach_last f ms a c : reach f ms a c ->
  link f ms a c \/ exists b, reach f ms a b /\ link f ms b c.
Proof.
  intros H. induction H as [a b L | a b c L H IH]; [auto|]. right.
  destruct IH as [L2 | [b' [H1 L2]]].
  - exists b. split; [apply reach_one; exact L | exact L2].
  - exists b'. split; [eapply reach_step; eauto | exact L2].
Qed.

(* ------------------------------------------------------------------ *)
(* _neighbours_closure                                                  *)

Lemma add_all_nodup l : forall acc, NoDup acc -> NoDup (add_all l acc).
Proof.
  unfold add_all. induction l as [|a l IH]; intros acc ND; cbn [fold_left]; [exact ND|].
  apply IH. apply NoDup_addn. exact ND.
Qed.

Lemma add_all_spec l : forall acc, exists new,
  add_all l acc = acc ++ new /\ (forall x, In x new <-> In x l /\ ~ In x acc).
Proof.
  unfold add_all. induction l as [|a l IH]; intros acc; cbn [fold_left].
  - exists []. rewrite app_nil_r. split; [reflexivity|]. simpl. tauto.
  - destruct (memb a acc) eqn:E.
    + assert (Ea : addn a acc = acc) by (unfold addn; rewrite E; reflexivity). rewrite Ea.
      apply memb_In in E. destruct (IH acc) as (new & E1 & H1). exists new. split; [exact E1|].
      intros x. rewrite H1. simpl. split.
      * intros [H H']. auto.
      * intros [[->|H] H']; [contradiction | auto].
    + assert (Ea : addn a acc = acc ++ [a]) by (unfold addn; rewrite E; reflexivity). rewrite Ea.
      apply memb_false in E. destruct (IH (acc ++ [a])) as (new & E1 & H1).
      exists (a :: new). split.
      * rewrite E1, <- app_assoc. reflexivity.
      * intros x. simpl. rewrite H1, in_app_iff. simpl. split.
        -- intros [<-|[H H']]; [auto|]. split; [auto|]. intro. apply H'. auto.
        -- intros [[->|H] H']; [auto|]. destruct (Nat.eq_dec a x) as [->|Hn]; [auto|].
           right. split; [exact H|]. intros [H2|[H2|[]]]; auto.
Qed.

Lemma In_add_all l acc x : In x (add_all l acc) <-> In x acc \/ In x l.
Proof.
  destruct (add_all_spec l acc) as (new & E & H). rewrite E, in_app_iff, H.
  destruct (in_dec Nat.eq_dec x acc); tauto.
Qed.

Lemma round_gen_nodup (f : rmap) ms l : forall acc, NoDup acc ->
  NoDup (fold_left (fun acc s => add_all (nbrs f ms [s]) acc) l acc).
Proof.
  induction l as [|a l IH]; intros acc ND; cbn [fold_left]; [exact ND|].
  apply IH. apply add_all_nodup. exact ND.
Qed.

Lemma round_gen_spec (f : rmap) ms l : forall acc, exists new,
  fold_left (fun acc s => add_all (nbrs f ms [s]) acc) l acc = acc ++ new /\
  (forall x, In x new <-> (exists s, In s l /\ link f ms s x) /\ ~ In x acc).
Proof.
  induction l as [|a l IH]; intros acc; cbn [fold_left].
  - exists []. rewrite app_nil_r. split; [reflexivity|]. simpl.
    intros x. split; [intros []|]. intros [[s [[] _]] _].
  - destruct (add_all_spec (nbrs f ms [a]) acc) as (n1 & E1 & H1).
    rewrite E1. destruct (IH (acc ++ n1)) as (n2 & E2 & H2).
    exists (n1 ++ n2). split; [rewrite E2, app_assoc; reflexivity|].
    intros x. rewrite in_app_iff, H1, H2, nbrs_one, in_app_iff. split.
    + intros [[L Hn]|[[s [Hs L]] Hn]].
      * split; [|exact Hn]. exists a. simpl. auto.
      * split; [|tauto]. exists s. simpl. auto.
    + intros [[s [[<-|Hs] L]] Hn]; [auto|].
      destruct (in_dec Nat.eq_dec x n1) as [Hi|Hi].
      * left. apply H1 in Hi. rewrite nbrs_one in Hi. exact Hi.
      * right. split; [exists s; auto | tauto].
Qed.

(* what one round does: it appends the not yet present neighbours of the elements *)
Lemma clos_round_spec f ms cl : exists new,
  clos_round f ms cl = cl ++ new /\
  (forall x, In x new <-> (exists s, In s cl /\ link f ms s x) /\ ~ In x cl).
Proof. apply round_gen_spec. Qed.

Lemma clos_round_nodup f ms cl : NoDup cl -> NoDup (clos_round f ms cl).
Proof. apply round_gen_nodup. Qed.

Definition stable (f : rmap) (ms : list nat) (cl : list nat) : Prop :=
  forall s x, In s cl -> link f ms s x -> In x cl.

Lemma clos_round_stable f ms cl : stable f ms cl -> clos_round f ms cl = cl.
Proof.
  intros St. destruct (clos_round_spec f ms cl) as (new & E & H). rewrite E.
  destruct new as [|x new]; [apply app_nil_r|]. exfalso.
  destruct (H x) as [H1 _]. destruct (H1 (or_introl eq_refl)) as [[s [Hs L]] Hn].
  apply Hn. eapply St; eauto.
Qed.

Lemma clos_loop_spec f ms : forall fuel cl,
  NoDup cl -> incl cl ms -> length ms < fuel + length cl ->
  exists R, clos_loop fuel f ms cl = (R, true) /\ NoDup R /\ incl cl R /\ incl R ms /\
    stable f ms R /\
    (forall x, In x R -> In x cl \/ exists s, In s cl /\ reach f ms s x).
Proof.
  induction fuel as [|k IH]; intros cl ND Hi Hlen.
  - exfalso. pose proof (NoDup_incl_length ND Hi). simpl in Hlen. lia.
  - cbn [clos_loop]. destruct (clos_round_spec f ms cl) as (new & E & Hnew).
    pose proof (clos_round_nodup f ms cl ND) as ND'.
    rewrite E in *. rewrite app_length.
    destruct (Nat.eqb (length cl + length new) (length cl)) eqn:Q.
    + apply Nat.eqb_eq in Q. assert (new = []) as -> by (destruct new; simpl in Q; [reflexivity|lia]).
      rewrite app_nil_r. exists cl. repeat split; auto using incl_refl.
      intros s x Hs L. destruct (in_dec Nat.eq_dec x cl) as [H|H]; [exact H|].
      exfalso. apply (Hnew x). split; [eauto | exact H].
    + apply Nat.eqb_neq in Q.
      assert (Hi' : incl (cl ++ new) ms).
      { intros x Hx. apply in_app_iff in Hx. destruct Hx as [Hx|Hx]; [auto|].
        apply Hnew in Hx. destruct Hx as [[s [_ [_ L]]] _]. exact L. }
      destruct (IH (cl ++ new) ND' Hi') as (R & E2 & A1 & A2 & A3 & A4 & A5).
      { rewrite app_length. lia. }
      exists R. split; [exact E2|]. split; [exact A1|]. split.
      { intros x Hx. apply A2, in_app_iff. auto. }
      split; [exact A3|]. split; [exact A4|].
      intros x Hx. destruct (A5 x Hx) as [H|[s [Hs Hr]]].
      * apply in_app_iff in H. destruct H as [H|H]; [auto|]. right.
        apply Hnew in H. destruct H as [[s [Hs L]] _]. exists s. split; [exact Hs|].
        apply reach_one. exact L.
      * right. apply in_app_iff in Hs. destruct Hs as [Hs|Hs]; [eauto|].
        apply Hnew in Hs. destruct Hs as [[s0 [Hs0 L]] _]. exists s0. split; [exact Hs0|].
        eapply reach_step; eauto.
Qed.

Lemma closure_spec f ms starts :
  exists R, closure f ms starts = (R, true) /\ NoDup R /\ incl (nbrs f ms starts) R /\
    incl R ms /\ stable f ms R /\
    (forall x, In x R -> exists s, In s starts /\ reach f ms s x).
Proof.
  unfold closure.
  destruct (clos_loop_spec f ms (S (length ms)) (nbrs f ms starts)) as (R & E & A1 & A2 & A3 & A4 & A5).
  - apply nbrs_nodup.
  - intros x Hx. apply nbrs_spec in Hx. tauto.
  - lia.
  - exists R. repeat split; auto.
    intros x Hx. destruct (A5 x Hx) as [H|[s' [Hs' Hr]]].
    + apply nbrs_spec in H. destruct H as [Hm [s [Hs Hf]]]. exists s. split; [exact Hs|].
      apply reach_one. split; auto.
    + apply nbrs_spec in Hs'. destruct Hs' as [Hm [s [Hs Hf]]]. exists s. split; [exact Hs|].
      eapply reach_step; [split; eauto | exact Hr].
Qed.

(* the loop bound S (length ms) is never reached: the while-loop always ends by itself *)
Theorem closure_fuel f ms starts : snd (closure f ms starts) = true.
Proof. destruct (closure_spec f ms starts) as (R & E & _). rewrite E. reflexivity. Qed.

(* one more round would add nothing *)
Theorem closure_stable f ms starts :
  clos_round f ms (fst (closure f ms starts)) = fst (closure f ms starts).
Proof.
  destruct (closure_spec f ms starts) as (R & E & _ & _ & _ & St & _). rewrite E. cbn [fst].
  apply clos_round_stable. exact St.
Qed.

Theorem closure_nodup f ms starts : NoDup (fst (closure f ms starts)).
Proof. destruct (closure_spec f ms starts) as (R & E & ND & _). rewrite E. exact ND. Qed.

(* the closure is exactly the set of jobs reachable by a non-empty path from one of the starts *)
Theorem closure_exact f ms starts x :
  In x (fst (closure f ms starts)) <-> exists s, In s starts /\ reach f ms s x.
Proof.
  destruct (closure_spec f ms starts) as (R & E & _ & Hn & _ & St & Hs). rewrite E. cbn [fst].
  split; [apply Hs|]. intros [s [Hin Hr]].
  assert (G : forall a b, reach f ms a b -> In a starts \/ In a R -> In b R).
  { intros a b H. induction H as [a b L | a b c L H IH]; intros Ha.
    - destruct Ha as [Ha|Ha]; [|eapply St; eauto].
      apply Hn. apply nbrs_spec. destruct L as [L1 L2]. eauto.
    - apply IH. right. destruct Ha as [Ha|Ha]; [|eapply St; eauto].
      apply Hn. apply nbrs_spec. destruct L as [L1 L2]. eauto. }
  eapply G; eauto.
Qed.

Theorem upstream_exact rq ms starts x :
  In x (upstream rq ms starts) <-> exists s, In s starts /\ reach rq ms s x.
Proof. apply closure_exact. Qed.

(* ---- the converse relation ---- *)

Lemma link_backlinks ms rq sc a b : In a ms ->
  (link (backlinks ms rq sc) ms a b <-> In b ms /\ link rq ms b a).
Proof.
  intros Ha. unfold link. rewrite backlinks_member by exact Ha. tauto.
Qed.

Lemma reach_backlinks_1 ms rq sc s x : In s ms ->
  reach (backlinks ms rq sc) ms s x -> reach rq ms x s /\ In x ms.
Proof.
  intros Hs H. induction H as [a b L | a b c L H IH].
  - apply link_backlinks in L; [|exact Hs]. destruct L as [Hb L]. split; [apply reach_one|]; auto.
  - apply link_backlinks in L; [|exact Hs]. destruct L as [Hb L].
    destruct (IH Hb) as [Hr Hc]. split; [|exact Hc]. eapply reach_snoc; eauto.
Qed.

Lemma reach_backlinks_2 ms rq sc x s : In x ms ->
  reach rq ms x s -> reach (backlinks ms rq sc) ms s x.
Proof.
  intros Hx H. induction H as [a b L | a b c L H IH].
  - apply reach_one. apply link_backlinks; [apply L | auto].
  - assert (Hb : In b ms) by apply L.
    eapply reach_snoc; [apply IH; exact Hb|]. apply link_backlinks; auto.
Qed.

(* successors_downstream: exactly the members from which a start is reachable *)
Theorem downstream_exact ms rq sc starts x : incl starts ms ->
  (In x (downstream ms rq sc true starts) <->
   In x ms /\ exists s, In s starts /\ reach rq ms x s).
Proof.
  intros Hs. unfold downstream. rewrite closure_exact. split.
  - intros [s [H1 H2]]. apply reach_backlinks_1 in H2; [|auto]. destruct H2 as [H2 H3]. eauto.
  - intros [Hx [s [H1 H2]]]. exists s. split; [exact H1|]. apply reach_backlinks_2; auto.
Qed.

(* ------------------------------------------------------------------ *)
(* entry_jobs, exit_jobs                                                *)

Lemma is_nil_spec l : is_nil l = true <-> l = [].
Proof. destruct l; simpl; split; intros; congruence. Qed.

Theorem entry_spec ms rq x : In x (entry_jobs ms rq) <-> In x ms /\ rq x = [].
Proof. unfold entry_jobs. rewrite filter_In, is_nil_spec. tauto. Qed.

(* for a closed scheduler: exactly the members that require no member *)
Theorem entry_exact ms rq x : closed rq ms ->
  (In x (entry_jobs ms rq) <-> In x ms /\ forall r, In r ms -> ~ In r (rq x)).
Proof.
  intros C. rewrite entry_spec. split.
  - intros [H E]. split; [exact H|]. rewrite E. auto.
  - intros [H N]. split; [exact H|]. destruct (rq x) as [|r l] eqn:E; [reflexivity|].
    exfalso. apply (N r); [|left; reflexivity]. apply (C x r H). rewrite E. left. reflexivity.
Qed.

Lemma nil_iff_no_elt (l : list nat) : l = [] <-> forall y, ~ In y l.
Proof.
  split; [intros -> y []|]. intros H. destruct l as [|a l]; [reflexivity|].
  exfalso. apply (H a). left. reflexivity.
Qed.

(* exactly the members that no member requires, forever ones left out unless asked for *)
Theorem exit_exact ms rq sc fv discard x :
  In x (exit_jobs ms rq sc fv discard true) <->
  In x ms /\ (discard = true -> fv x = false) /\ forall y, In y ms -> ~ In x (rq y).
Proof.
  unfold exit_jobs. rewrite filter_In, andb_true_iff, negb_true_iff, is_nil_spec, nil_iff_no_elt.
  split.
  - intros [Hx [Hd Hn]]. split; [exact Hx|]. split.
    + intros ->. simpl in Hd. exact Hd.
    + intros y Hy Hr. apply (Hn y). apply backlinks_member; auto.
  - intros [Hx [Hd Hn]]. split; [exact Hx|]. split.
    + destruct discard; [simpl; auto | reflexivity].
    + intros y Hy. apply backlinks_member in Hy; [|exact Hx]. destruct Hy. eapply Hn; eauto.
Qed.

Theorem entry_nodup ms rq : NoDup ms -> NoDup (entry_jobs ms rq).
Proof. apply NoDup_filter. Qed.

Theorem exit_nodup ms rq sc fv discard cb : NoDup ms -> NoDup (exit_jobs ms rq sc fv discard cb).
Proof. apply NoDup_filter. Qed.

(* ------------------------------------------------------------------ *)
(* iterate_jobs                                                         *)

Lemma flat_map_ext_Forall (A B : Type) (g h : A -> list B) l :
  Forall (fun a => g a = h a) l -> flat_map g l = flat_map h l.
Proof. induction 1 as [|a l E _ IH]; simpl; [reflexivity|]. rewrite E, IH. reflexivity. Qed.

(* schedulers included on request: the traversal is the list of all jobs of the tree *)
Theorem iter_scan_all t : iter_jobs true t = tree_ids t.
Proof.
  induction t as [i|i kids IH] using jtree_ind2; [reflexivity|].
  cbn [iter_jobs tree_ids app]. f_equal. apply flat_map_ext_Forall. exact IH.
Qed.

Lemma perm_flat_map_split (A : Type) (g a s : A -> list nat) l :
  Forall (fun k => Permutation (g k) (a k ++ s k)) l ->
  Permutation (flat_map g l) (flat_map a l ++ flat_map s l).
Proof.
  induction 1 as [|k l P _ IH]; simpl; [constructor|].
  eapply Permutation_trans; [apply Permutation_app; [exact P | exact IH]|].
  rewrite <- !app_assoc. apply Permutation_app_head.
  rewrite !app_assoc. apply Permutation_app_tail. apply Permutation_app_comm.
Qed.

(* every job of the tree is either visited by the atoms-only traversal or is a scheduler *)
Theorem iter_partition t : Permutation (tree_ids t) (iter_jobs false t ++ sched_ids t).
Proof.
  induction t as [i|i kids IH] using jtree_ind2; [simpl; constructor; constructor|].
  cbn [iter_jobs tree_ids sched_ids app].
  apply Permutation_cons_app. apply perm_flat_map_split. exact IH.
Qed.

Theorem iter_exact t : NoDup (tree_ids t) ->
  NoDup (iter_jobs true t) /\ NoDup (iter_jobs false t) /\
  (forall x, In x (iter_jobs true t) <-> In x (tree_ids t)) /\
  (forall x, In x (iter_jobs false t) <-> In x (tree_ids t) /\ ~ In x (sched_ids t)).
Proof.
  intros ND. rewrite iter_scan_all.
  pose proof (iter_partition t) as P.
  pose proof (Permutation_NoDup P ND) as ND2.
  apply NoDup_app_inv in ND2. destruct ND2 as (N1 & N2 & N3).
  split; [exact ND|]. split; [exact N1|]. split; [tauto|].
  intros x. split.
  - intros H. split; [|apply N3; exact H].
    eapply Permutation_in; [apply Permutation_sym; exact P|]. apply in_app_iff. auto.
  - intros [H Hn]. apply (Permutation_in _ P) in H. apply in_app_iff in H. tauto.
Qed.
