(* Executable statements of the G properties, evaluated by the checks on the *implementation's*
   outputs (search for a concrete failing input), and proved to hold of the model's outputs. *)
From AJ Require Import Common.Util Graph.GModel Graph.Sanitize Graph.Topo.
From Coq Require Import Permutation.

Definition subset_b (l1 l2 : list nat) : bool := forallb (fun x => memb x l2) l1.
Definition same_set (l1 l2 : list nat) : bool := subset_b l1 l2 && subset_b l2 l1.

Lemma subset_b_spec l1 l2 : subset_b l1 l2 = true <-> incl l1 l2.
Proof.
  unfold subset_b. rewrite forallb_forall. split; intros H x Hx; apply memb_In; auto.
Qed.

Lemma same_set_refl l : same_set l l = true.
Proof. unfold same_set. rewrite andb_diag. apply subset_b_spec. apply incl_refl. Qed.

Lemma same_set_eq l1 l2 : l1 = l2 -> same_set l1 l2 = true.
Proof. intros ->. apply same_set_refl. Qed.

(* ---------- C16 ---------- *)
(* [rq] before, [rq'] after, [ret] the value returned, ids 0..n-1 *)
Definition c16_spec_b (t : jtree) (n : nat) (rq rq' : rmap) (ret : bool) : bool :=
  forallb (fun j => same_set (rq' j) (spec_rq (proc_order t) rq j)) (seqn n)
  && Bool.eqb ret (forallb (fun j => same_set (rq' j) (rq j)) (seqn n)).

Lemma same_set_filter_self (f : nat -> bool) l :
  same_set (filter f l) l = true -> filter f l = l.
Proof.
  unfold same_set. rewrite andb_true_iff. intros [_ H]. apply subset_b_spec in H.
  induction l as [|a l IH]; simpl in *; [reflexivity|].
  destruct (f a) eqn:E.
  - f_equal. apply IH. intros x Hx. specialize (H x (or_intror Hx)).
    destruct H as [->|H]; [|exact H]. apply filter_In. auto.
  - exfalso. specialize (H a (or_introl eq_refl)). apply filter_In in H. destruct H; congruence.
Qed.

Theorem c16_spec_model t n rq : tree_ok t ->
  (forall j ms, owner t j ms -> j < n) ->
  let '(rq', ret) := sanitize t rq in c16_spec_b t n rq rq' ret = true.
Proof.
  intros ND Hlt_all. pose proof (sanitize_exact t rq ND) as Hex.
  pose proof (sanitize_truthful t rq ND) as Htr.
  destruct (sanitize t rq) as [rq' ret]. cbn [fst snd] in *.
  unfold c16_spec_b. apply andb_true_iff. split.
  - apply forallb_forall. intros j _. apply same_set_eq. apply Hex.
  - apply eqb_true_iff. destruct ret.
    + symmetry. apply forallb_forall. intros j _. apply same_set_eq. apply Htr. reflexivity.
    + symmetry. apply not_true_iff_false. intro H. rewrite forallb_forall in H.
      assert (Hall : forall j, rq' j = rq j).
      { intros j. rewrite Hex. unfold spec_rq.
        destruct (assoc j (proc_order t)) as [ms|] eqn:E; [|reflexivity].
        destruct (Nat.ltb_spec j n) as [Hlt|Hge].
        - assert (Hj : In j (seqn n)) by (apply In_seqn; exact Hlt).
          specialize (H j Hj). rewrite Hex in H. unfold spec_rq in H. rewrite E in H.
          apply same_set_filter_self in H. exact H.
        - exfalso. apply assoc_Some_In in E. apply Hlt_all in E. lia. }
      apply Htr in Hall. discriminate.
Qed.

(* ---------- C15 ---------- *)
Fixpoint nodup_b (l : list nat) : bool :=
  match l with [] => true | x :: l' => negb (memb x l') && nodup_b l' end.

Lemma nodup_b_spec l : nodup_b l = true <-> NoDup l.
Proof.
  induction l as [|x l IH]; simpl; [split; [constructor|reflexivity]|].
  rewrite andb_true_iff, negb_true_iff, memb_false, IH. split.
  - intros [H1 H2]. constructor; auto.
  - intros H. inversion H; auto.
Qed.

Fixpoint ordered_b (rq : rmap) (seen l : list nat) : bool :=
  match l with
  | [] => true
  | j :: l' => forallb (fun r => memb r seen) (rq j) && ordered_b rq (seen ++ [j]) l'
  end.

Lemma ordered_b_spec rq l : forall seen,
  ordered_b rq seen l = true <->
  (forall l1 j l2, l = l1 ++ j :: l2 -> forall r, In r (rq j) -> In r (seen ++ l1)).
Proof.
  induction l as [|a l IH]; intros seen; cbn [ordered_b].
  - split; [|reflexivity]. intros _ l1 j l2 E. destruct l1; discriminate.
  - rewrite andb_true_iff, forallb_memb_spec, IH. split.
    + intros [H1 H2] l1 j l2 E r Hr. destruct l1 as [|b l1]; cbn [app] in E; inversion E; subst.
      * rewrite app_nil_r. auto.
      * specialize (H2 l1 j l2 eq_refl r Hr). rewrite <- app_assoc in H2. exact H2.
    + intros H. split.
      * intros r Hr. specialize (H [] a l eq_refl r Hr). rewrite app_nil_r in H. exact H.
      * intros l1 j l2 E r Hr. specialize (H (a :: l1) j l2 ltac:(rewrite E; reflexivity) r Hr).
        rewrite <- app_assoc. exact H.
Qed.

Lemma ordered_b_ordered rq l : ordered_b rq [] l = true <-> ordered rq l.
Proof. rewrite ordered_b_spec. unfold ordered. cbn [app]. tauto. Qed.

(* [raised]: did the generator raise; [yielded]: what it yielded before *)
Definition c15_spec_b (rq : rmap) (ms : list nat) (raised : bool) (yielded : list nat) : bool :=
  nodup_b yielded && subset_b yielded ms && ordered_b rq [] yielded
  && (raised || Nat.eqb (length yielded) (length ms))
  && Bool.eqb raised (negb (tres_eqb (snd (topo rq ms)) TOk)).

Theorem c15_spec_model rq ms : NoDup ms ->
  let '(out, r) := topo rq ms in
  c15_spec_b rq ms (negb (tres_eqb r TOk)) out = true.
Proof.
  intros ND. pose proof (topo_prefix_valid rq ms ND) as Hv.
  pose proof (topo_complete rq ms ND) as Hc.
  unfold c15_spec_b.
  destruct (topo rq ms) as [out r]. cbn [fst snd] in *. destruct Hv as (H1 & H2 & H3).
  repeat (apply andb_true_iff; split).
  - apply nodup_b_spec. exact H1.
  - apply subset_b_spec. exact H2.
  - apply ordered_b_ordered. exact H3.
  - destruct r; cbn; auto. destruct (Hc eq_refl) as [Hp _].
    apply Nat.eqb_eq. apply Permutation_length. exact Hp.
  - apply eqb_true_iff. reflexivity.
Qed.
