(* Model G, construction API (property C19): programs over job / sequence / scheduler variables,
   interpreted twice.

   [exec_code] mirrors the Python:
     asynciojobs/sequence.py       Sequence.__init__, _flatten, append, requires
     asynciojobs/job.py            AbstractJob.__init__ (105-134), _add_one_requirement, requires (460-517)
     asynciojobs/purescheduler.py  PureScheduler.__init__ (118-123), update, add, remove
     asynciojobs/scheduler.py      Scheduler.__init__ (PureScheduler.__init__, then AbstractJob.__init__)
   [exec_doc] is the documented meaning, written without the recursion: flatten the argument to the
   list of jobs it names, add them all but oneself / remove them one after the other; a sequence is
   its flattened list, each job requires its predecessor, the first one gets required=, every job
   involved is registered.

   Objects are plain numbers.  Jobs and schedulers share one namespace (a nested Scheduler is a
   job: it has requirements and may be registered in another scheduler); sequences have their own.
   Python sets are duplicate-free lists; the order of a list is the model's business only, every
   comparison with the implementation is made on sets.  A set *argument* (ASet) is the list of its
   elements in the order in which the implementation iterates over it; the theorems hold for every
   such list.  Definitions only; the proofs are in BuildProofs.v. *)
From AJ Require Import Common.Util.

(* ------------------------------------------------------------------ syntax *)

(* what Sequence(...), append(...), Scheduler(...), update(...), add(.) accept: a Schedulable or
   None ("each must be a Schedulable object", None tolerated as a placeholder) *)
Inductive item : Type :=
| SNone
| SJob (j : nat)
| SSeq (q : nat).

(* what required= and requires(...) accept: any nesting of lists, tuples and sets *)
Inductive arg : Type :=
| ANone
| AJob (j : nat)
| ASeq (q : nat)
| AList (l : list arg)
| ATuple (l : list arg)
| ASet (l : list arg).

Inductive stmt : Type :=
| NewJob (j : nat) (required : arg) (scheduler : option nat)
| NewSeq (q : nat) (items : list item) (required : arg) (scheduler : option nat)
| NewSched (s : nat) (items : list item) (required : arg) (scheduler : option nat)
| Requires (j : nat) (args : list arg) (remove : bool)       (* j.requires( *args, remove=..) *)
| SeqAppend (q : nat) (items : list item)                     (* q.append( *items) *)
| SeqRequires (q : nat) (args : list arg)                     (* q.requires( *args) *)
| Add (s : nat) (it : item)                                   (* s.add(it) *)
| Update (s : nat) (items : list item)                        (* s.update(items) *)
| Remove (s : nat) (j : nat).                                 (* s.remove(j) *)

Inductive error : Type := KeyError.

Record state : Type := mkState {
  req : nat -> list nat;            (* job.required *)
  members : nat -> list nat;        (* scheduler.jobs *)
  seqs : nat -> list nat;           (* sequence.jobs, in order *)
  seq_sched : nat -> option nat     (* sequence.scheduler *)
}.

Definition empty_state : state :=
  mkState (fun _ => []) (fun _ => []) (fun _ => []) (fun _ => None).

Definition set_req (st : state) (f : nat -> list nat) : state :=
  mkState f (members st) (seqs st) (seq_sched st).
Definition set_members (st : state) (f : nat -> list nat) : state :=
  mkState (req st) f (seqs st) (seq_sched st).
Definition set_seqs (st : state) (f : nat -> list nat) : state :=
  mkState (req st) (members st) f (seq_sched st).
Definition set_seq_sched (st : state) (f : nat -> option nat) : state :=
  mkState (req st) (members st) (seqs st) f.

(* ------------------------------------------------------------------ Python's set and list *)

(* set.add is [addn]; set.update *)
Definition union (s new : list nat) : list nat := fold_left (fun s x => addn x s) new s.

(* set.remove: KeyError when absent *)
Definition set_remove (x : nat) (s : list nat) : list nat * option error :=
  if memb x s then (remv x s, None) else (s, Some KeyError).

(* l[-1] when l is not empty *)
Fixpoint last_opt (l : list nat) : option nat :=
  match l with
  | [] => None
  | x :: t => match t with [] => Some x | _ :: _ => last_opt t end
  end.

(* ================================================================== the code *)

(* job.py, _add_one_requirement: "if job is not self: self.required.add(job)" *)
Definition add_one_requirement (self x : nat) (r : list nat) : list nat :=
  if Nat.eqb x self then r else addn x r.

(* a for-loop whose body may raise: the exception leaves the loop, what was done stays done *)
Section IterErr.
  Variable A : Type.
  Variable f : A -> list nat -> list nat * option error.
  Fixpoint iter_err (l : list A) (r : list nat) : list nat * option error :=
    match l with
    | [] => (r, None)
    | a :: t =>
        match f a r with
        | (r1, None) => iter_err t r1
        | (r1, Some e) => (r1, Some e)
        end
    end.
End IterErr.
Arguments iter_err {A} f l r.

(* job.py 496-515: the body of "for requirement in requirements", on self.required *)
Fixpoint req_one_code (sq : nat -> list nat) (self : nat) (rm : bool) (a : arg) (r : list nat)
  {struct a} : list nat * option error :=
  match a with
  | ANone => (r, None)                                            (* continue *)
  | AJob x =>
      if rm then set_remove x r else (add_one_requirement self x r, None)
  | ASeq q =>
      match last_opt (sq q) with
      | None => (r, None)                                         (* if requirement.jobs: *)
      | Some x =>                                                 (* requirement.jobs[-1] *)
          if rm then set_remove x r else (add_one_requirement self x r, None)
      end
  | AList l => iter_err (req_one_code sq self rm) l r              (* self.requires(req, remove=remove) *)
  | ATuple l => iter_err (req_one_code sq self rm) l r
  | ASet l => iter_err (req_one_code sq self rm) l r
  end.

(* AbstractJob.requires( *requirements, remove) *)
Definition requires_code (sq : nat -> list nat) (self : nat) (rm : bool) (args : list arg)
  (r : list nat) : list nat * option error :=
  iter_err (req_one_code sq self rm) args r.

Definition job_requires_code (st : state) (j : nat) (args : list arg) (rm : bool)
  : state * option error :=
  let '(r, e) := requires_code (seqs st) j rm args (req st j) in
  (set_req st (upd (req st) j r), e).

(* Sequence._flatten: the result list grows from left to right; a sequence contributes a copy of
   its current jobs *)
Definition flatten_code (sq : nat -> list nat) (items : list item) : list nat :=
  fold_left (fun result it =>
               match it with
               | SNone => result
               | SJob j => result ++ [j]
               | SSeq q => result ++ sq q
               end) items [].

(* "for job1, job2 in zip(jobs, jobs[1:]): job2.requires(job1)" *)
Fixpoint chain_code (sq : nat -> list nat) (l : list nat) (rq : nat -> list nat)
  : nat -> list nat :=
  match l with
  | [] => rq
  | job1 :: t =>
      match t with
      | [] => rq
      | job2 :: _ =>
          chain_code sq t (upd rq job2 (fst (requires_code sq job2 false [AJob job1] (rq job2))))
      end
  end.

(* PureScheduler.update: "jobs = BestSet(_flatten(jobs)); self.jobs.update(jobs)" *)
Definition sched_update_code (st : state) (s : nat) (items : list item) : state :=
  let jobs := union [] (flatten_code (seqs st) items) in
  set_members st (upd (members st) s (union (members st s) jobs)).

(* PureScheduler.add: "self.update([job])" *)
Definition sched_add_code (st : state) (s : nat) (it : item) : state :=
  sched_update_code st s [it].

Definition opt_sched_add (st : state) (scheduler : option nat) (j : nat) : state :=
  match scheduler with None => st | Some s => sched_add_code st s (SJob j) end.

(* AbstractJob.__init__: "self.required = BestSet(); self.requires(required);
   if scheduler is not None: scheduler.add(self)" *)
Definition job_init_code (st : state) (j : nat) (required : arg) (scheduler : option nat)
  : state * option error :=
  let st0 := set_req st (upd (req st) j []) in
  let '(st1, e) := job_requires_code st0 j [required] false in
  match e with
  | Some _ => (st1, e)
  | None => (opt_sched_add st1 scheduler j, None)
  end.

Definition step_code (st : state) (s : stmt) : state * option error :=
  match s with
  | NewJob j required scheduler => job_init_code st j required scheduler
  | NewSeq q items required scheduler =>
      let jobs := flatten_code (seqs st) items in
      let st1 := set_seqs st (upd (seqs st) q jobs) in                  (* self.jobs = ... *)
      let st2 := set_req st1 (chain_code (seqs st1) jobs (req st1)) in
      let '(st3, e) :=
        match jobs with
        | [] => (st2, None)
        | first :: _ => job_requires_code st2 first [required] false    (* self.jobs[0].requires(required) *)
        end in
      match e with
      | Some _ => (st3, e)
      | None =>
          let st4 := set_seq_sched st3 (upd (seq_sched st3) q scheduler) in
          match scheduler with
          | None => (st4, None)
          | Some s => (sched_update_code st4 s (map SJob jobs), None)   (* scheduler.update(self.jobs) *)
          end
      end
  | NewSched s items required scheduler =>
      (* PureScheduler.__init__ then AbstractJob.__init__ *)
      let st1 := set_members st (upd (members st) s (union [] (flatten_code (seqs st) items))) in
      job_init_code st1 s required scheduler
  | Requires j args rm => job_requires_code st j args rm
  | SeqAppend q items =>
      match items with
      | [] => (st, None)                                               (* if not sequences_or_jobs *)
      | _ :: _ =>
          let new_jobs := flatten_code (seqs st) items in
          match new_jobs with
          | [] => (st, None)                                           (* if not new_jobs *)
          | first :: _ =>
              let st1 := set_req st (chain_code (seqs st) new_jobs (req st)) in
              let '(st2, e) :=
                match last_opt (seqs st1 q) with
                | None => (st1, None)                                  (* if self.jobs: *)
                | Some lastj => job_requires_code st1 first [AJob lastj] false
                end in
              match e with
              | Some _ => (st2, e)
              | None =>
                  let st3 := set_seqs st2 (upd (seqs st2) q (seqs st2 q ++ new_jobs)) in
                  match seq_sched st3 q with
                  | None => (st3, None)
                  | Some s => (sched_update_code st3 s (map SJob new_jobs), None)
                  end
              end
          end
      end
  | SeqRequires q args =>
      match seqs st q with
      | [] => (st, None)
      | first :: _ => job_requires_code st first args false
      end
  | Add s it => (sched_add_code st s it, None)
  | Update s items => (sched_update_code st s items, None)
  | Remove s j =>
      let '(ms, e) := set_remove j (members st s) in
      (set_members st (upd (members st) s ms), e)
  end.

(* a program stops at the first exception; the state reached stays *)
Section Exec.
  Variable step : state -> stmt -> state * option error.
  Fixpoint exec (p : list stmt) (st : state) : state * option error :=
    match p with
    | [] => (st, None)
    | s :: p' =>
        match step st s with
        | (st1, None) => exec p' st1
        | (st1, Some e) => (st1, Some e)
        end
    end.
End Exec.

Definition exec_code (p : list stmt) : state * option error := exec step_code p empty_state.

(* ================================================================== the documentation *)

(* the jobs an argument names: None names nothing, a sequence stands for its last job (an empty
   one for nothing), a collection names what its elements name *)
Fixpoint names (sq : nat -> list nat) (a : arg) : list nat :=
  match a with
  | ANone => []
  | AJob x => [x]
  | ASeq q => match last_opt (sq q) with None => [] | Some x => [x] end
  | AList l => flat_map (names sq) l
  | ATuple l => flat_map (names sq) l
  | ASet l => flat_map (names sq) l
  end.

Definition names_list (sq : nat -> list nat) (args : list arg) : list nat :=
  flat_map (names sq) args.

(* add every named job but oneself *)
Definition doc_add (self : nat) (ns r : list nat) : list nat := union r (remv self ns).

(* remove the named jobs one after the other; KeyError at the first one that is not there *)
Fixpoint doc_remove (ns r : list nat) : list nat * option error :=
  match ns with
  | [] => (r, None)
  | x :: t => if memb x r then doc_remove t (remv x r) else (r, Some KeyError)
  end.

Definition doc_req (self : nat) (rm : bool) (ns r : list nat) : list nat * option error :=
  if rm then doc_remove ns r else (doc_add self ns r, None).

Definition doc_requires (st : state) (j : nat) (ns : list nat) (rm : bool) : state * option error :=
  let '(r, e) := doc_req j rm ns (req st j) in
  (set_req st (upd (req st) j r), e).

(* the flattened order of a list of items *)
Definition flat (sq : nat -> list nat) (items : list item) : list nat :=
  flat_map (fun it => match it with SNone => [] | SJob j => [j] | SSeq q => sq q end) items.

(* the immediate predecessors of y in l *)
Fixpoint preds (y : nat) (l : list nat) : list nat :=
  match l with
  | [] => []
  | x :: t =>
      match t with
      | [] => []
      | z :: _ => if Nat.eqb z y then x :: preds y t else preds y t
      end
  end.

(* every job requires its predecessors in l (never itself) *)
Definition doc_chain (l : list nat) (rq : nat -> list nat) : nat -> list nat :=
  fun y => doc_add y (preds y l) (rq y).

Definition doc_register (st : state) (scheduler : option nat) (l : list nat) : state :=
  match scheduler with
  | None => st
  | Some s => set_members st (upd (members st) s (union (members st s) l))
  end.

Definition opt_last (l : list nat) : list nat :=
  match last_opt l with None => [] | Some x => [x] end.

Definition step_doc (st : state) (s : stmt) : state * option error :=
  match s with
  | NewJob j required scheduler =>
      let st1 := set_req st (upd (req st) j (doc_add j (names (seqs st) required) [])) in
      (doc_register st1 scheduler [j], None)
  | NewSeq q items required scheduler =>
      let l := flat (seqs st) items in
      let sq' := upd (seqs st) q l in
      let rq1 := doc_chain l (req st) in
      let rq2 := match l with
                 | [] => rq1
                 | first :: _ => upd rq1 first (doc_add first (names sq' required) (rq1 first))
                 end in
      (doc_register (mkState rq2 (members st) sq' (upd (seq_sched st) q scheduler)) scheduler l,
       None)
  | NewSched s items required scheduler =>
      let st1 := mkState (upd (req st) s (doc_add s (names (seqs st) required) []))
                         (upd (members st) s (union [] (flat (seqs st) items)))
                         (seqs st) (seq_sched st) in
      (doc_register st1 scheduler [s], None)
  | Requires j args rm => doc_requires st j (names_list (seqs st) args) rm
  | SeqAppend q items =>
      let new := flat (seqs st) items in
      let old := seqs st q in
      (* the new flattened order from the old last job on *)
      let link := opt_last old ++ new in
      let st1 := mkState (doc_chain link (req st)) (members st)
                         (upd (seqs st) q (old ++ new)) (seq_sched st) in
      (doc_register st1 (seq_sched st q) new, None)
  | SeqRequires q args =>
      match seqs st q with
      | [] => (st, None)
      | first :: _ => doc_requires st first (names_list (seqs st) args) false
      end
  | Add s it => (doc_register st (Some s) (flat (seqs st) [it]), None)
  | Update s items => (doc_register st (Some s) (flat (seqs st) items), None)
  | Remove s j =>
      if memb j (members st s)
      then (set_members st (upd (members st) s (remv j (members st s))), None)
      else (st, Some KeyError)
  end.

Definition exec_doc (p : list stmt) : state * option error := exec step_doc p empty_state.

(* ================================================================== agreement *)

Definition seteq (l1 l2 : list nat) : Prop := forall x, In x l1 <-> In x l2.

(* same sequence contents and sequence schedulers; required sets and member sets equal as sets *)
Record st_equiv (a b : state) : Prop := mk_st_equiv {
  eqv_req : forall j, seteq (req a j) (req b j);
  eqv_members : forall s, seteq (members a s) (members b s);
  eqv_seqs : forall q, seqs a q = seqs b q;
  eqv_seq_sched : forall q, seq_sched a q = seq_sched b q
}.

Definition out_equiv (o1 o2 : state * option error) : Prop :=
  st_equiv (fst o1) (fst o2) /\ snd o1 = snd o2.

(* consecutive elements of a list *)
Definition consecutive (x y : nat) (l : list nat) : Prop :=
  exists l1 l2, l = l1 ++ x :: y :: l2.
