(* C19 (construction API): placeholder, see Build.v *)
From AJ Require Import Common.Util Graph.GModel.
