(* Model G, part 2: neighbour, reachability and traversal queries (property C17).
   Executable definitions only; proofs are in QueriesP.v.

   Mirrors asynciojobs/purescheduler.py: entry_jobs 373-386, exit_jobs 388-413, _neighbours
   416-429, predecessors 431-435, successors 437-443, _neighbours_closure 446-460,
   predecessors_upstream 462-467, successors_downstream 469-476, _backlinks 652-661,
   iterate_jobs 1274-1286; job.py _iterate_jobs 186-187; scheduler.py _iterate_jobs 209-214.

   A set is the list of its elements in the iteration order that the implementation showed.
   [rq j] is job.required, [sc j] is job._s_successors (an attribute that is only as fresh as the
   last _backlinks() call: it is an input here, never assumed to be the converse of [rq]). *)
From AJ Require Import Common.Util Graph.GModel.

(* ------------------------------------------------------------------ *)
(* _neighbours(attname, *starts)                                        *)

(* the inner for-loop, lines 423-428: non-members are skipped, no duplicates *)
Definition nb_inner (ms : list nat) (l : list nat) (acc : list nat) : list nat :=
  fold_left (fun acc n => if memb n ms then addn n acc else acc) l acc.

(* [f] is the attribute read: [rq] for "required", [sc] for "_s_successors" *)
Definition nbrs (f : rmap) (ms : list nat) (starts : list nat) : list nat :=
  fold_left (fun acc s => nb_inner ms (f s) acc) starts [].

Definition predecessors (ms : list nat) (rq : rmap) (starts : list nat) : list nat :=
  nbrs rq ms starts.

(* ------------------------------------------------------------------ *)
(* _backlinks()                                                         *)

Definition bl_reset (ms : list nat) (sc : rmap) : rmap :=
  fold_left (fun sc j => upd sc j []) ms sc.

Definition bl_job (j : nat) (reqs : list nat) (sc : rmap) : rmap :=
  fold_left (fun sc r => upd sc r (addn j (sc r))) reqs sc.

Definition backlinks (ms : list nat) (rq : rmap) (sc : rmap) : rmap :=
  fold_left (fun sc j => bl_job j (rq j) sc) ms (bl_reset ms sc).

(* successors(starts..., compute_backlinks): returns the answer and the new _s_successors *)
Definition successors (ms : list nat) (rq sc : rmap) (cb : bool) (starts : list nat)
  : list nat * rmap :=
  let sc' := if cb then backlinks ms rq sc else sc in (nbrs sc' ms starts, sc').

(* ------------------------------------------------------------------ *)
(* _neighbours_closure(attname, *starts)                                *)

Definition add_all (l : list nat) (acc : list nat) : list nat :=
  fold_left (fun acc n => addn n acc) l acc.

(* one execution of the for-loop over closure.copy(), lines 453-457 *)
Definition clos_round (f : rmap) (ms : list nat) (cl : list nat) : list nat :=
  fold_left (fun acc s => add_all (nbrs f ms [s]) acc) cl cl.

(* the while-loop; [changes] is the number of additions, i.e. the growth in length.
   The boolean is false iff the fuel ran out (proved impossible in QueriesP.v). *)
Fixpoint clos_loop (fuel : nat) (f : rmap) (ms : list nat) (cl : list nat) : list nat * bool :=
  match fuel with
  | 0 => (cl, false)
  | S k =>
      let cl' := clos_round f ms cl in
      if Nat.eqb (length cl') (length cl) then (cl', true) else clos_loop k f ms cl'
  end.

Definition closure (f : rmap) (ms : list nat) (starts : list nat) : list nat * bool :=
  clos_loop (S (length ms)) f ms (nbrs f ms starts).

Definition upstream (rq : rmap) (ms : list nat) (starts : list nat) : list nat :=
  fst (closure rq ms starts).

Definition downstream (ms : list nat) (rq sc : rmap) (cb : bool) (starts : list nat) : list nat :=
  fst (closure (if cb then backlinks ms rq sc else sc) ms starts).

(* ------------------------------------------------------------------ *)
(* entry_jobs(), exit_jobs()                                            *)

Definition is_nil (l : list nat) : bool := match l with [] => true | _ => false end.

Definition entry_jobs (ms : list nat) (rq : rmap) : list nat :=
  filter (fun j => is_nil (rq j)) ms.

(* [fv j] is job.forever *)
Definition exit_jobs (ms : list nat) (rq sc : rmap) (fv : nat -> bool) (discard cb : bool)
  : list nat :=
  let sc' := if cb then backlinks ms rq sc else sc in
  filter (fun j => negb (discard && fv j) && is_nil (sc' j)) ms.

(* ------------------------------------------------------------------ *)
(* iterate_jobs(scan_schedulers)                                        *)

Fixpoint iter_jobs (scan : bool) (t : jtree) : list nat :=
  match t with
  | Atom i => [i]
  | Sched i kids => (if scan then [i] else []) ++ flat_map (iter_jobs scan) kids
  end.

(* ids of the schedulers of a tree, the root included *)
Fixpoint sched_ids (t : jtree) : list nat :=
  match t with
  | Atom _ => []
  | Sched i kids => i :: flat_map sched_ids kids
  end.

(* ------------------------------------------------------------------ *)
(* reachability: a non-empty path of links, each of which ends in a member.
   With [f := rq], [reach rq ms a b] reads "a requires ... requires b". *)

Definition link (f : rmap) (ms : list nat) (a b : nat) : Prop := In b (f a) /\ In b ms.

Inductive reach (f : rmap) (ms : list nat) : nat -> nat -> Prop :=
| reach_one a b : link f ms a b -> reach f ms a b
| reach_step a b c : link f ms a b -> reach f ms b c -> reach f ms a c.
