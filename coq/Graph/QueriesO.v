(* The closure loop under arbitrary internal iteration orders.

   _neighbours_closure iterates over closure.copy() and over the set returned by _neighbours;
   both are Python sets whose iteration order is not observable from outside and changes as
   elements are added.  Queries.closure fixes one order (insertion order).  Here the loop is
   parameterised by two oracles that reorder those sets arbitrarily, differently in every round,
   and the same theorems are proved for every pair of oracles: termination within the same
   bound, and exactly the reachable set.  Queries.closure is the instance with identity oracles. *)
From Coq Require Import Permutation.
From AJ Require Import Common.Util Graph.GModel Graph.Queries Graph.QueriesP.

Section Oracle.
  (* order of closure.copy() in the round that has k rounds of fuel left *)
  Variable ordc : nat -> list nat -> list nat.
  (* order of a set returned by _neighbours *)
  Variable ordn : list nat -> list nat.

  Definition clos_round_o (f : rmap) (ms : list nat) (k : nat) (cl : list nat) : list nat :=
    fold_left (fun acc s => add_all (ordn (nbrs f ms [s])) acc) (ordc k cl) cl.

  Fixpoint clos_loop_o (fuel : nat) (f : rmap) (ms : list nat) (cl : list nat)
    : list nat * bool :=
    match fuel with
    | 0 => (cl, false)
    | S k =>
        let cl' := clos_round_o f ms k cl in
        if Nat.eqb (length cl') (length cl) then (cl', true) else clos_loop_o k f ms cl'
    end.

  Definition closure_o (f : rmap) (ms : list nat) (starts : list nat) : list nat * bool :=
    clos_loop_o (S (length ms)) f ms (ordn (nbrs f ms starts)).

  Hypothesis ordc_perm : forall k l, Permutation (ordc k l) l.
  Hypothesis ordn_perm : forall l, Permutation (ordn l) l.

  Lemma In_ordc k l x : In x (ordc k l) <-> In x l.
  Proof.
    split; apply Permutation_in; [apply ordc_perm | apply Permutation_sym, ordc_perm].
  Qed.

  Lemma In_ordn l x : In x (ordn l) <-> In x l.
  Proof.
    split; apply Permutation_in; [apply ordn_perm | apply Permutation_sym, ordn_perm].
  Qed.

  Lemma round_g_nodup (g : nat -> list nat) l : forall acc, NoDup acc ->
    NoDup (fold_left (fun acc s => add_all (g s) acc) l acc).
  Proof.
    induction l as [|a l IH]; intros acc ND; cbn [fold_left]; [exact ND|].
    apply IH. apply add_all_nodup. exact ND.
  Qed.

  Lemma round_g_spec (g : nat -> list nat) l : forall acc, exists new,
    fold_left (fun acc s => add_all (g s) acc) l acc = acc ++ new /\
    (forall x, In x new <-> (exists s, In s l /\ In x (g s)) /\ ~ In x acc).
  Proof.
    induction l as [|a l IH]; intros acc; cbn [fold_left].
    - exists []. rewrite app_nil_r. split; [reflexivity|]. simpl.
      intros x. split; [intros []|]. intros [[s [[] _]] _].
    - destruct (add_all_spec (g a) acc) as (n1 & E1 & H1).
      rewrite E1. destruct (IH (acc ++ n1)) as (n2 & E2 & H2).
      exists (n1 ++ n2). split; [rewrite E2, app_assoc; reflexivity|].
      intros x. rewrite in_app_iff, H1, H2, in_app_iff. split.
      + intros [[L Hn]|[[s [Hs L]] Hn]].
        * split; [|exact Hn]. exists a. simpl. auto.
        * split; [|tauto]. exists s. simpl. auto.
      + intros [[s [[<-|Hs] L]] Hn]; [auto|].
        destruct (in_dec Nat.eq_dec x n1) as [Hi|Hi].
        * left. apply H1 in Hi. exact Hi.
        * right. split; [exists s; auto | tauto].
  Qed.

  Lemma clos_round_o_spec f ms k cl : exists new,
    clos_round_o f ms k cl = cl ++ new /\
    (forall x, In x new <-> (exists s, In s cl /\ link f ms s x) /\ ~ In x cl).
  Proof.
    unfold clos_round_o.
    destruct (round_g_spec (fun s => ordn (nbrs f ms [s])) (ordc k cl) cl) as (new & E & H).
    exists new. split; [exact E|]. intros x. rewrite H. split.
    - intros [[s [Hs Hx]] Hn]. split; [|exact Hn]. exists s.
      rewrite In_ordc in Hs. rewrite In_ordn, nbrs_one in Hx. auto.
    - intros [[s [Hs Hx]] Hn]. split; [|exact Hn]. exists s.
      rewrite In_ordc, In_ordn, nbrs_one. auto.
  Qed.

  Lemma clos_loop_o_spec f ms : forall fuel cl,
    NoDup cl -> incl cl ms -> length ms < fuel + length cl ->
    exists R, clos_loop_o fuel f ms cl = (R, true) /\ NoDup R /\ incl cl R /\ incl R ms /\
      stable f ms R /\
      (forall x, In x R -> In x cl \/ exists s, In s cl /\ reach f ms s x).
  Proof.
    induction fuel as [|k IH]; intros cl ND Hi Hlen.
    - exfalso. pose proof (NoDup_incl_length ND Hi). simpl in Hlen. lia.
    - cbn [clos_loop_o]. destruct (clos_round_o_spec f ms k cl) as (new & E & Hnew).
      assert (ND' : NoDup (clos_round_o f ms k cl)) by (apply round_g_nodup; exact ND).
      rewrite E in *. rewrite app_length.
      destruct (Nat.eqb (length cl + length new) (length cl)) eqn:Q.
      + apply Nat.eqb_eq in Q.
        assert (new = []) as -> by (destruct new; simpl in Q; [reflexivity|lia]).
        rewrite app_nil_r. exists cl. repeat split; auto using incl_refl.
        intros s x Hs L. destruct (in_dec Nat.eq_dec x cl) as [H|H]; [exact H|].
        exfalso. apply (Hnew x). split; [eauto | exact H].
      + apply Nat.eqb_neq in Q.
        assert (Hi' : incl (cl ++ new) ms).
        { intros x Hx. apply in_app_iff in Hx. destruct Hx as [Hx|Hx]; [auto|].
          apply Hnew in Hx. destruct Hx as [[s [_ [_ L]]] _]. exact L. }
        destruct (IH (cl ++ new) ND' Hi') as (R & E2 & A1 & A2 & A3 & A4 & A5).
        { rewrite app_length. lia. }
        exists R. split; [exact E2|]. split; [exact A1|]. split.
        { intros x Hx. apply A2, in_app_iff. auto. }
        split; [exact A3|]. split; [exact A4|].
        intros x Hx. destruct (A5 x Hx) as [H|[s [Hs Hr]]].
        * apply in_app_iff in H. destruct H as [H|H]; [auto|]. right.
          apply Hnew in H. destruct H as [[s [Hs L]] _]. exists s. split; [exact Hs|].
          apply reach_one. exact L.
        * right. apply in_app_iff in Hs. destruct Hs as [Hs|Hs]; [eauto|].
          apply Hnew in Hs. destruct Hs as [[s0 [Hs0 L]] _]. exists s0. split; [exact Hs0|].
          eapply reach_step; eauto.
  Qed.

  (* whatever the internal orders: the loop ends within the bound, yields no duplicates and
     exactly the jobs reachable from a start *)
  Theorem closure_o_exact f ms starts :
    snd (closure_o f ms starts) = true /\ NoDup (fst (closure_o f ms starts)) /\
    forall x, In x (fst (closure_o f ms starts)) <-> exists s, In s starts /\ reach f ms s x.
  Proof.
    unfold closure_o.
    destruct (clos_loop_o_spec f ms (S (length ms)) (ordn (nbrs f ms starts)))
      as (R & E & A1 & A2 & A3 & A4 & A5).
    - eapply Permutation_NoDup; [apply Permutation_sym, ordn_perm | apply nbrs_nodup].
    - intros x Hx. apply In_ordn, nbrs_spec in Hx. tauto.
    - lia.
    - rewrite E. cbn [fst snd]. split; [reflexivity|]. split; [exact A1|]. intros x. split.
      + intros Hx. destruct (A5 x Hx) as [H|[s' [Hs' Hr]]].
        * apply In_ordn, nbrs_spec in H. destruct H as [Hm [s [Hs Hf]]]. exists s.
          split; [exact Hs|]. apply reach_one. split; auto.
        * apply In_ordn, nbrs_spec in Hs'. destruct Hs' as [Hm [s [Hs Hf]]]. exists s.
          split; [exact Hs|]. eapply reach_step; [split; eauto | exact Hr].
      + intros [s [Hin Hr]].
        assert (G : forall a b, reach f ms a b -> In a starts \/ In a R -> In b R).
        { intros a b H. induction H as [a b L | a b c L H IH]; intros Ha.
          - destruct Ha as [Ha|Ha]; [|eapply A4; eauto].
            apply A2. apply In_ordn, nbrs_spec. destruct L as [L1 L2]. eauto.
          - apply IH. right. destruct Ha as [Ha|Ha]; [|eapply A4; eauto].
            apply A2. apply In_ordn, nbrs_spec. destruct L as [L1 L2]. eauto. }
        eapply G; eauto.
  Qed.

  (* hence the same set as the fixed-order model *)
  Theorem closure_o_same f ms starts :
    Permutation (fst (closure_o f ms starts)) (fst (closure f ms starts)).
  Proof.
    destruct (closure_o_exact f ms starts) as (_ & ND & H).
    apply NoDup_Permutation; [exact ND | apply closure_nodup|].
    intros x. rewrite H, closure_exact. tauto.
  Qed.
End Oracle.

(* Queries.closure is the instance with identity oracles *)
Lemma clos_loop_o_id f ms : forall fuel cl,
  clos_loop_o (fun _ l => l) (fun l => l) fuel f ms cl = clos_loop fuel f ms cl.
Proof.
  induction fuel as [|k IH]; intros cl; cbn [clos_loop_o clos_loop]; [reflexivity|].
  change (clos_round_o (fun _ l0 => l0) (fun l1 => l1) f ms k cl) with (clos_round f ms cl).
  destruct (Nat.eqb (length (clos_round f ms cl)) (length cl)); [reflexivity | apply IH].
Qed.

Theorem closure_o_id f ms starts :
  closure_o (fun _ l => l) (fun l => l) f ms starts = closure f ms starts.
Proof. apply clos_loop_o_id. Qed.
