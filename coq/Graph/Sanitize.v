(* Proofs about sanitize() (property C16). *)
From AJ Require Import Common.Util Graph.GModel.



(* ---------- induction principle for trees ---------- *)
Section jtree_ind2.
  Variable P : jtree -> Prop.
  Hypothesis HA : forall i, P (Atom i).
  Hypothesis HS : forall i kids, Forall P kids -> P (Sched i kids).
  Fixpoint jtree_ind2 (t : jtree) : P t :=
    match t with
    | Atom i => HA i
    | Sched i kids =>
        HS i kids ((fix f (ks : list jtree) : Forall P ks :=
                 match ks with
                 | [] => Forall_nil P
                 | k :: ks' => Forall_cons k (jtree_ind2 k) (f ks')
                 end) kids)
    end.
End jtree_ind2.

(* ---------- a flat description of what sanitize does ---------- *)

(* the (job, members of its scheduler) pairs, in the order in which sanitize processes them *)
Fixpoint proc_order (t : jtree) : list (nat * list nat) :=
  match t with
  | Atom _ => []
  | Sched _ kids =>
      flat_map (fun k => (tid k, map tid kids) :: proc_order k) kids
  end.

Fixpoint run_ow (ow : list (nat * list nat)) (rq : rmap) (ch : bool) : rmap * bool :=
  match ow with
  | [] => (rq, ch)
  | (j, ms) :: ow' =>
      let '(rq1, c1) := san_job ms rq j in run_ow ow' rq1 (ch || c1)
  end.

Lemma run_ow_ch ow : forall rq ch,
  run_ow ow rq ch = (fst (run_ow ow rq false), ch || snd (run_ow ow rq false)).
Proof.
  induction ow as [|[j ms] ow IH]; intros rq ch; simpl.
  - rewrite orb_false_r. reflexivity.
  - unfold san_job; cbn [orb].
    match goal with |- run_ow ow ?r (ch || ?c) = _ => rewrite (IH r (ch || c)), (IH r c) end.
    cbn [fst snd]. rewrite orb_assoc. reflexivity.
Qed.

Lemma run_ow_app ow1 ow2 : forall rq ch,
  run_ow (ow1 ++ ow2) rq ch =
  let '(rq1, ch1) := run_ow ow1 rq ch in run_ow ow2 rq1 ch1.
Proof.
  induction ow1 as [|[j ms] ow1 IH]; intros rq ch; simpl; [reflexivity|].
  unfold san_job. apply IH.
Qed.

Definition san_flat (t : jtree) (rq : rmap) : rmap * bool :=
  let '(rq', ch) := run_ow (proc_order t) rq false in (rq', negb ch).

Lemma san_loop_flat ms (ks : list jtree) :
  Forall (fun k => forall rq, sanitize k rq = san_flat k rq) ks ->
  forall rq ch,
    san_loop sanitize ms ks rq ch =
    run_ow (flat_map (fun k => (tid k, ms) :: proc_order k) ks) rq ch.
Proof.
  induction 1 as [|k ks Hk Hks IH]; intros rq ch; [reflexivity|].
  cbn [san_loop flat_map app run_ow].
  destruct (san_job ms rq (tid k)) as [rq1 c1] eqn:E1.
  destruct k as [i|i kk].
  - cbn [proc_order app]. apply IH.
  - rewrite Hk. unfold san_flat.
    rewrite run_ow_app.
    rewrite (run_ow_ch (proc_order (Sched i kk)) rq1 (ch || c1)).
    destruct (run_ow (proc_order (Sched i kk)) rq1 false) as [rq2 c2] eqn:E2.
    cbn [fst snd]. rewrite negb_involutive.
    rewrite IH. f_equal. apply orb_comm.
Qed.

Theorem sanitize_flat t : forall rq, sanitize t rq = san_flat t rq.
Proof.
  induction t as [i|i kids IH] using jtree_ind2; intros rq; [reflexivity|].
  cbn [sanitize]. rewrite (san_loop_flat _ _ IH). reflexivity.
Qed.

(* ---------- what the flat description computes, when each job is processed once ---------- *)

Fixpoint assoc (j : nat) (ow : list (nat * list nat)) : option (list nat) :=
  match ow with
  | [] => None
  | (k, ms) :: ow' => if Nat.eqb j k then Some ms else assoc j ow'
  end.

Definition spec_rq (ow : list (nat * list nat)) (rq : rmap) : rmap :=
  fun j => match assoc j ow with Some ms => inter (rq j) ms | None => rq j end.

Definition changed_at (rq : rmap) (p : nat * list nat) : bool :=
  negb (Nat.eqb (length (rq (fst p))) (length (inter (rq (fst p)) (snd p)))).

Lemma assoc_None j ow : ~ In j (map fst ow) -> assoc j ow = None.
Proof.
  induction ow as [|[k ms] ow IH]; simpl; intros H; [reflexivity|].
  destruct (Nat.eqb_spec j k) as [->|N]; [exfalso; auto|]. apply IH. tauto.
Qed.

Lemma existsb_ext_in' (A : Type) (f g : A -> bool) l :
  (forall x, In x l -> f x = g x) -> existsb f l = existsb g l.
Proof.
  induction l as [|a l IH]; simpl; intros H; [reflexivity|].
  rewrite H by auto. rewrite IH; auto.
Qed.

Lemma run_ow_spec ow : NoDup (map fst ow) -> forall rq,
  (forall j, fst (run_ow ow rq false) j = spec_rq ow rq j) /\ snd (run_ow ow rq false) = existsb (changed_at rq) ow.
Proof.
  induction ow as [|[k ms] ow IH]; intros ND rq.
  - split; reflexivity.
  - inversion ND as [|? ? Hk ND']; subst.
    cbn [run_ow]. unfold san_job. cbn [orb].
    rewrite run_ow_ch. cbn [fst snd].
    destruct (IH ND' (upd rq k (inter (rq k) ms))) as [I1 I2].
    split.
    + intros j. rewrite I1. unfold spec_rq. cbn [assoc].
      destruct (Nat.eqb_spec j k) as [->|N].
      * rewrite (assoc_None _ _ Hk). apply upd_same.
      * rewrite upd_other by exact N. reflexivity.
    + rewrite I2. cbn [existsb]. unfold changed_at at 2. cbn [fst snd]. f_equal.
      apply existsb_ext_in'. intros [a b] Hin. unfold changed_at. cbn [fst snd].
      rewrite upd_other; [reflexivity|].
      intro E; subst. apply Hk. apply (in_map fst) in Hin. exact Hin.
Qed.

(* ---------- the theorems behind C16 ---------- *)

(* every job appears at one place of the tree *)
Definition tree_ok (t : jtree) : Prop := NoDup (map fst (proc_order t)).

Lemma filter_length_le' (A : Type) (f : A -> bool) l : length (filter f l) <= length l.
Proof. induction l as [|a l IH]; simpl; [lia|]. destruct (f a); simpl; lia. Qed.

Lemma filter_length_eq (A : Type) (f : A -> bool) l :
  length (filter f l) = length l -> filter f l = l.
Proof.
  induction l as [|a l IH]; simpl; [reflexivity|].
  destruct (f a); simpl; intros H.
  - f_equal. apply IH. lia.
  - pose proof (filter_length_le' _ f l). lia.
Qed.

Lemma changed_at_false rq p :
  changed_at rq p = false <-> inter (rq (fst p)) (snd p) = rq (fst p).
Proof.
  unfold changed_at. rewrite negb_false_iff, Nat.eqb_eq. split.
  - intros H. apply filter_length_eq. symmetry. exact H.
  - intros ->. reflexivity.
Qed.

Lemma assoc_In j ms ow : NoDup (map fst ow) -> In (j, ms) ow -> assoc j ow = Some ms.
Proof.
  induction ow as [|[k m] ow IH]; simpl; intros ND HH; [contradiction|].
  destruct HH as [E|H]; inversion ND; subst.
  - inversion E; subst. rewrite Nat.eqb_refl. reflexivity.
  - destruct (Nat.eqb_spec j k) as [->|N].
    + exfalso. apply (in_map fst) in H. auto.
    + auto.
Qed.

Lemma assoc_Some_In j ms ow : assoc j ow = Some ms -> In (j, ms) ow.
Proof.
  induction ow as [|[k m] ow IH]; simpl; [discriminate|].
  destruct (Nat.eqb_spec j k) as [->|N]; intros H.
  - inversion H; subst. auto.
  - auto.
Qed.

(* [owner t j ms]: j is a direct member of a scheduler of the tree whose member list is ms *)
Definition owner (t : jtree) (j : nat) (ms : list nat) : Prop := In (j, ms) (proc_order t).

(* exact description of the result: requirements are intersected with the members of the
   job's own scheduler, and nothing else changes *)
Theorem sanitize_exact t rq : tree_ok t ->
  forall j, fst (sanitize t rq) j = spec_rq (proc_order t) rq j.
Proof.
  intros ND j. rewrite sanitize_flat. unfold san_flat.
  destruct (run_ow_spec _ ND rq) as [H1 _].
  destruct (run_ow (proc_order t) rq false) as [rq' ch]. apply H1.
Qed.

Theorem sanitize_closed t rq j ms r : tree_ok t -> owner t j ms ->
  In r (fst (sanitize t rq) j) -> In r ms.
Proof.
  intros ND Ho. rewrite sanitize_exact by exact ND. unfold spec_rq.
  rewrite (assoc_In _ _ _ ND Ho). rewrite In_inter. tauto.
Qed.

Theorem sanitize_minimal t rq j ms r : tree_ok t -> owner t j ms ->
  In r (rq j) -> In r ms -> In r (fst (sanitize t rq) j).
Proof.
  intros ND Ho H1 H2. rewrite sanitize_exact by exact ND. unfold spec_rq.
  rewrite (assoc_In _ _ _ ND Ho). rewrite In_inter. tauto.
Qed.

Theorem sanitize_only_removes t rq j r : tree_ok t ->
  In r (fst (sanitize t rq) j) -> In r (rq j).
Proof.
  intros ND. rewrite sanitize_exact by exact ND. unfold spec_rq.
  destruct (assoc j (proc_order t)); [rewrite In_inter; tauto | auto].
Qed.

(* the return value is True iff no requirement list changed anywhere *)
Theorem sanitize_truthful t rq : tree_ok t ->
  snd (sanitize t rq) = true <-> (forall j, fst (sanitize t rq) j = rq j).
Proof.
  intros ND. split.
  - intros H j. rewrite sanitize_exact by exact ND.
    rewrite sanitize_flat in H. unfold san_flat in H.
    destruct (run_ow_spec _ ND rq) as [_ H2].
    destruct (run_ow (proc_order t) rq false) as [rq' ch]. cbn [snd] in *.
    apply negb_true_iff in H. subst ch.
    unfold spec_rq. destruct (assoc j (proc_order t)) as [ms|] eqn:E; [|reflexivity].
    apply assoc_Some_In in E.
    symmetry in H2. rewrite <- not_true_iff_false, existsb_exists in H2.
    apply (changed_at_false rq (j, ms)).
    destruct (changed_at rq (j, ms)) eqn:C; [|reflexivity].
    exfalso. apply H2. exists (j, ms). auto.
  - intros H. rewrite sanitize_flat. unfold san_flat.
    destruct (run_ow_spec _ ND rq) as [_ H2].
    pose proof (sanitize_exact _ rq ND) as Hex.
    destruct (run_ow (proc_order t) rq false) as [rq' ch]. cbn [snd] in *.
    apply negb_true_iff. rewrite H2.
    rewrite <- not_true_iff_false, existsb_exists. intros [[j ms] [Hin C]].
    assert (C' : changed_at rq (j, ms) = false).
    { apply changed_at_false. cbn [fst snd].
      rewrite <- (H j) at 2. rewrite Hex. unfold spec_rq.
      rewrite (assoc_In _ _ _ ND Hin). reflexivity. }
    congruence.
Qed.

Lemma inter_idem l ms : inter (inter l ms) ms = inter l ms.
Proof.
  unfold inter. induction l as [|a l IH]; simpl; [reflexivity|].
  destruct (memb a ms) eqn:E; simpl; [rewrite E; f_equal|]; exact IH.
Qed.

(* a second call changes nothing and returns True *)
Theorem sanitize_idempotent t rq : tree_ok t ->
  let rq1 := fst (sanitize t rq) in
  snd (sanitize t rq1) = true /\ forall j, fst (sanitize t rq1) j = rq1 j.
Proof.
  intros ND rq1.
  assert (H : forall j, fst (sanitize t rq1) j = rq1 j).
  { intros j. rewrite sanitize_exact by exact ND. unfold rq1.
    unfold spec_rq at 1. destruct (assoc j (proc_order t)) as [ms|] eqn:E; [|reflexivity].
    rewrite sanitize_exact by exact ND. unfold spec_rq. rewrite E. apply inter_idem. }
  split; [|exact H]. apply sanitize_truthful; assumption.
Qed.
