(* C09 in closed form, stated with the executable solver solveF (no hypothesis about S and E left). *)
From AJ Require Import Common.Util Run.RModel Run.RFacts Run.RSchedDef Run.RSched Run.RSchedF Run.RSolveF.

Definition SofF (c : cfg) : nat -> N := tab (fst (solveF c)).
Definition EofF (c : cfg) : nat -> N := tab (snd (solveF c)).
Definition no_tie_ok (c : cfg) : bool := no_tieFb c (fst (solveF c)) (snd (solveF c)).
Definition slackF_ok (c : cfg) : bool := slackFb c (fst (solveF c)) (snd (solveF c)).

Theorem runs_on_computed_scheduleF c h s : wf c = true -> plainF c = true ->
  no_tie_ok c = true -> slackF_ok c = true -> Reach 3 c h s -> calm c (EofF c) s ->
  (forall x, x < njobs c -> x <> 0 -> on_scheduleF c (SofF c) (EofF c) s x) /\
  (forall n f, n < njobs c -> j_sched (jc c n) = true -> In f (members c n) -> fvr c f = true ->
     (MF c (SofF c) (EofF c) n < now s)%N ->
     st (Jb s f) <> Running /\ st (Jb s f) <> Idle /\ st (Jb s f) <> Created).
Proof.
  intros W P T L R C.
  assert (HS : is_scheduleF c (SofF c) (EofF c)) by exact (solveF_is_schedule c W P).
  assert (HT : no_tieF c (SofF c) (EofF c)) by exact (no_tieFb_sound c _ _ T).
  assert (HL : slackF c (SofF c) (EofF c)) by exact (slackFb_sound c _ _ L).
  split.
  - exact (runs_on_scheduleF c (SofF c) (EofF c) h s W P HS HT HL R C).
  - intros n f Hn Hs Hf Hv Hlt.
    destruct (forever_jobs_cut_off c (SofF c) (EofF c) h s W P HS HT HL R C n f Hn Hs Hf Hv) as [H _].
    destruct (H Hlt) as (A & B & D & _). repeat split; assumption.
Qed.
Print Assumptions runs_on_computed_scheduleF.
