(* Monitors: the executable form of the R properties.

   [mon chk c s h] replays the *effects* of the events of h from state s, ignoring every guard, and
   evaluates the boolean check [chk] on each (state before, event) pair.  It is total, so it can
   be run on any recorded implementation history, accepted by the model or not; it returns the
   index of the first event at which the check fails.  For histories that the model accepts the
   check provably never fails (mon_sound): that is the property theorem. *)
From AJ Require Import Common.Util Run.RModel Run.RFacts.

Fixpoint mon (chk : cfg -> state -> event -> bool) (c : cfg) (s : state) (h : list event) (i : nat)
  : option nat :=
  match h with
  | [] => None
  | e :: h' =>
      if chk c s e then mon chk c (fst (reaction c s e)) h' (S i) else Some i
  end.

Definition mon_ok (chk : cfg -> state -> event -> bool) (c : cfg) (h : list event) : bool :=
  match mon chk c init h 0 with None => true | Some _ => false end.

Lemma mon_sound_from chk lvl c :
  (forall h0 s e s', Reach lvl c h0 s -> step lvl c s e = Some s' -> chk c s e = true) ->
  forall h h0 s s2 i, Reach lvl c h0 s -> run lvl c s h = Some s2 -> mon chk c s h i = None.
Proof.
  intros Hchk. induction h as [|e h IH]; intros h0 s s2 i Hr Hrun; [reflexivity|].
  cbn [run] in Hrun. destruct (step lvl c s e) as [s1|] eqn:Es; [|discriminate].
  cbn [mon]. rewrite (Hchk h0 s e s1 Hr Es).
  destruct (step_inv _ _ _ _ _ Es) as [-> _].
  eapply IH; [eapply reach_snoc; eauto|exact Hrun].
Qed.

Theorem mon_sound chk lvl c h :
  (forall h0 s e s', Reach lvl c h0 s -> step lvl c s e = Some s' -> chk c s e = true) ->
  accept lvl c h = true -> mon_ok chk c h = true.
Proof.
  intros Hchk Ha. unfold accept in Ha. destruct (run lvl c init h) as [s2|] eqn:E; [|discriminate].
  unfold mon_ok. rewrite (mon_sound_from chk lvl c Hchk h [] init s2 0); [reflexivity| |exact E].
  reflexivity.
Qed.
