(* First invariant bundle of model R (level 0): pending tasks are members, members of a run that
   has not begun are idle, a job that is not idle has all its requirements done, finished jobs
   never change again. *)
From AJ Require Import Common.Util Run.RModel Run.RFacts Run.RFacts2.

Record Inv1 (c : cfg) (s : state) : Prop := {
  i_pend : pend_ok c s;
  i_idle : forall n x, In x (members c n) -> ph (Rn s n) = PIdle -> st (Jb s x) = Idle;
  i_l1 : forall n, n <> 0 -> (st (Jb s n) = Idle \/ st (Jb s n) = Created) -> ph (Rn s n) = PIdle;
  i_gate : forall x, st (Jb s x) <> Idle -> all_done s (reqs c x) = true
}.

Lemma Inv1_init c : Inv1 c init.
Proof.
  split.
  - intros n y H. destruct H.
  - reflexivity.
  - reflexivity.
  - intros x H. exfalso. apply H. reflexivity.
Qed.

(* the job created by the beginning of its parent's run was idle *)
Lemma create_begin_idle c s x : Inv1 c s ->
  In x (members c (parent c x)) ->
  (if rootb (parent c x) then ph (Rn s 0) = PIdle else st (Jb s (parent c x)) = Created) ->
  st (Jb s x) = Idle.
Proof.
  intros I Hm Hb. apply (i_idle c s I (parent c x) x Hm).
  destruct (rootb (parent c x)) eqn:Er.
  - apply rootb_true in Er. rewrite Er. exact Hb.
  - apply rootb_false in Er. apply (i_l1 c s I _ Er). right. exact Hb.
Qed.

Lemma cancel_j_st a : st (cancel_j a) = st a.
Proof. unfold cancel_j. destruct (finished (st a)); reflexivity. Qed.

Lemma cancel_j_finished a : finished (st a) = true -> cancel_j a = a.
Proof. unfold cancel_j. intros ->. reflexivity. Qed.

(* a finished job (returned, raised, or cancelled) never changes again *)
Lemma finished_stable lvl c s e s' x : wf c = true -> Inv1 c s -> step lvl c s e = Some s' ->
  finished (st (Jb s x)) = true -> Jb s' x = Jb s x.
Proof.
  intros W I Hs Hf.
  destruct (J_effect lvl c s e s' W (i_pend c s I) Hs x)
    as [H|H1 H2|HS H1 H2 H3 H4|H1 H2 H3 H4 H5 H6 H7|H1 H2 H3 H4 H5 H6|HS H1 H2 H3 H4 H5|HS H1 H2 H3 H4 H5|HS H1 H2 H3 H4 H5|HS H1 H2 H3 H4 H5 H6|HS H1 H2|HS H1 H2 H3];
    try (rewrite H1 in Hf; discriminate).
  - exact H.
  - rewrite H1. apply cancel_j_finished. exact Hf.
  - rewrite (create_begin_idle c s x I H3 H4) in Hf. discriminate.
  - destruct H1 as [H1|[H1 _]]; rewrite H1 in Hf; discriminate.
Qed.

Lemma done_finished a : is_done a = true -> finished a = true.
Proof. destruct a; cbn; auto. Qed.

Lemma all_done_stable lvl c s e s' l : wf c = true -> Inv1 c s -> step lvl c s e = Some s' ->
  all_done s l = true -> all_done s' l = true.
Proof.
  intros W I Hs. unfold all_done. rewrite !forallb_forall. intros H r Hr.
  rewrite (finished_stable lvl c s e s' r W I Hs); auto. apply done_finished. auto.
Qed.

Lemma Inv1_step lvl c s e s' : wf c = true -> Inv1 c s -> step lvl c s e = Some s' -> Inv1 c s'.
Proof.
  intros W I Hs.
  pose proof (J_effect lvl c s e s' W (i_pend c s I) Hs) as HJ.
  pose proof (R_effect lvl c s e s' W (i_pend c s I) Hs) as HR.
  split.
  - (* pend_ok *)
    intros n y Hy. destruct (HR n) as [Hq _|_ B1 B2 B3 B4 _ _ _ _ _ _|_ A1 A2 A3 _ A4 _ _ _ _].
    + destruct Hq as (_ & Hq & _). rewrite Hq in Hy. apply (i_pend c s I). exact Hy.
    + apply B4. exact Hy.
    + destruct (A4 y Hy) as [H|H]; [apply (i_pend c s I); exact H|exact H].
  - (* idle *)
    intros n x Hm Hph.
    assert (Hph0 : ph (Rn s n) = PIdle).
    { destruct (HR n) as [Hq _|_ B1 B2 B3 B4 _ _ _ _ _ _|_ A1 A2 A3 _ A4 _ _ _ _].
      - destruct Hq as (Hq & _). rewrite <- Hq. exact Hph.
      - destruct B3 as [B3|B3]; rewrite B3 in Hph; discriminate.
      - contradiction. }
    pose proof (i_idle c s I n x Hm Hph0) as Hx.
    pose proof (proj1 (In_members c n x) Hm) as (_ & Hpar & _).
    destruct (HJ x)
      as [H|H1 H2|HS H1 H2 H3 H4|H1 H2 H3 H4 H5 H6 H7|H1 H2 H3 H4 H5 H6|HS H1 H2 H3 H4 H5|HS H1 H2 H3 H4 H5|HS H1 H2 H3 H4 H5|HS H1 H2 H3 H4 H5 H6|HS H1 H2|HS H1 H2 H3];
      try (rewrite H1 in Hx; discriminate).
    + rewrite H. exact Hx.
    + rewrite H1, cancel_j_st. exact Hx.
    + rewrite Hpar in H5. rewrite H5 in Hph0. discriminate.
    + rewrite Hpar in H5. rewrite H5 in Hph. discriminate.
    + destruct H1 as [H1|[H1 _]]; rewrite H1 in Hx; discriminate.
  - (* l1 *)
    intros n Hn0 Hst.
    assert (Hst0 : st (Jb s n) = Idle \/ st (Jb s n) = Created).
    { destruct (HJ n)
        as [H|H1 H2|HS H1 H2 H3 H4|H1 H2 H3 H4 H5 H6 H7|H1 H2 H3 H4 H5 H6|HS H1 H2 H3 H4 H5|HS H1 H2 H3 H4 H5|HS H1 H2 H3 H4 H5|HS H1 H2 H3 H4 H5 H6|HS H1 H2|HS H1 H2 H3].
      - rewrite H in Hst. exact Hst.
      - rewrite H1, cancel_j_st in Hst. exact Hst.
      - rewrite H4 in Hst. cbn in Hst. destruct Hst; discriminate.
      - left. exact H1.
      - left. apply (create_begin_idle c s n I H3 H4).
      - rewrite H3 in Hst. destruct Hst; discriminate.
      - rewrite H5 in Hst. cbn in Hst. destruct Hst; discriminate.
      - destruct (st (Jb s' n)); cbn in H3; try discriminate; destruct Hst; discriminate.
      - rewrite H4 in Hst. destruct Hst; discriminate.
      - rewrite H2 in Hst. cbn in Hst. destruct Hst; discriminate.
      - rewrite H3 in Hst. cbn in Hst. destruct Hst; discriminate. }
    pose proof (i_l1 c s I n Hn0 Hst0) as Hph0.
    destruct (HR n) as [Hq _|_ B1 B2 B3 B4 _ _ _ _ _ _|_ A1 A2 A3 _ A4 _ _ _ _].
    + destruct Hq as (Hq & _). rewrite Hq. exact Hph0.
    + exfalso. apply rootb_false in Hn0. specialize (B2 Hn0).
      destruct B2 as [[B2 _]|[B2 _]]; destruct Hst as [Hst|Hst]; rewrite Hst in B2; discriminate.
    + exfalso. specialize (A1 Hn0). destruct Hst0 as [H|H]; rewrite H in A1; discriminate.
  - (* gate *)
    intros x Hx.
    destruct (HJ x)
      as [H|H1 H2|HS H1 H2 H3 H4|H1 H2 H3 H4 H5 H6 H7|H1 H2 H3 H4 H5 H6|HS H1 H2 H3 H4 H5|HS H1 H2 H3 H4 H5|HS H1 H2 H3 H4 H5|HS H1 H2 H3 H4 H5 H6|HS H1 H2|HS H1 H2 H3].
    + rewrite H in Hx. apply (all_done_stable lvl c s e s' _ W I Hs). apply (i_gate c s I). exact Hx.
    + rewrite H1, cancel_j_st in Hx.
      apply (all_done_stable lvl c s e s' _ W I Hs). apply (i_gate c s I). exact Hx.
    + apply (all_done_stable lvl c s e s' _ W I Hs). apply (i_gate c s I). rewrite H1. discriminate.
    + apply (all_done_stable lvl c s e s' _ W I Hs). exact H3.
    + rewrite H2. reflexivity.
    + apply (all_done_stable lvl c s e s' _ W I Hs). apply (i_gate c s I). rewrite H1. discriminate.
    + apply (all_done_stable lvl c s e s' _ W I Hs). apply (i_gate c s I). rewrite H1. discriminate.
    + apply (all_done_stable lvl c s e s' _ W I Hs). apply (i_gate c s I). rewrite H1. discriminate.
    + apply (all_done_stable lvl c s e s' _ W I Hs). apply (i_gate c s I). rewrite H1. discriminate.
    + apply (all_done_stable lvl c s e s' _ W I Hs). apply (i_gate c s I).
      destruct H1 as [H1|[H1 _]]; rewrite H1; discriminate.
    + apply (all_done_stable lvl c s e s' _ W I Hs). apply (i_gate c s I). rewrite H1. discriminate.
Qed.

Theorem Inv1_reach lvl c h s : wf c = true -> Reach lvl c h s -> Inv1 c s.
Proof.
  intros W Hr. revert h s Hr. apply reach_ind.
  - apply Inv1_init.
  - intros h s e s' _ I Hs. eapply Inv1_step; eauto.
Qed.

(* ------------------------------------------------------------------ link between the status of a
   nested scheduler as a job and the phase of its run *)

Lemma actor_dec e n : {actor e n} + {~ actor e n}.
Proof. destruct e; cbn [actor]; try (right; tauto); apply Nat.eq_dec. Qed.

Lemma subject_dec e n : {subject e n} + {~ subject e n}.
Proof. destruct e; cbn [subject]; try (right; tauto); apply Nat.eq_dec. Qed.

(* for a scheduler, being the subject of an accepted event means acting, or vanishing before start *)
Lemma subject_sched lvl c s e s' n : step lvl c s e = Some s' -> subject e n ->
  j_sched (jc c n) = true -> actor e n \/ e = EGone n.
Proof.
  intros Hs Hsub Hsch. apply step_inv in Hs. destruct Hs as [_ Hg].
  destruct e as [k o|k w d o|k w o|k o|j|j oc|j|j|j|j|j|j|j|j|t|t|jv sv]; cbn [subject actor] in *;
    try tauto; subst; try (right; reflexivity);
    split_guards Hg;
    match goal with G : atomic_id _ _ = true |- _ =>
      destruct (atomic_id_spec _ _ G) as (A1 & _); congruence end.
Qed.

Record Inv3 (c : cfg) (s : state) : Prop := {
  k_idle : forall n, n <> 0 -> j_sched (jc c n) = true -> ph (Rn s n) = PIdle -> ran (Jb s n) = false;
  k_over : forall n, n <> 0 -> j_sched (jc c n) = true -> ph (Rn s n) = POver ->
                     finished (st (Jb s n)) = true /\ ran (Jb s n) = true;
  k_act : forall n, n <> 0 -> j_sched (jc c n) = true -> ph (Rn s n) <> PIdle -> ph (Rn s n) <> POver ->
                    st (Jb s n) = Running
}.

Lemma Inv3_init c : Inv3 c init.
Proof.
  split; intros n Hn Hs; cbn.
  - reflexivity.
  - discriminate.
  - intros H. contradiction.
Qed.

(* the three clauses at one scheduler, as one statement *)
Definition lk (s : state) (n : nat) : Prop :=
  (ph (Rn s n) = PIdle -> ran (Jb s n) = false) /\
  (ph (Rn s n) = POver -> finished (st (Jb s n)) = true /\ ran (Jb s n) = true) /\
  (ph (Rn s n) <> PIdle -> ph (Rn s n) <> POver -> st (Jb s n) = Running).

Lemma lk_of_post s n : run_post s n -> lk s n.
Proof.
  intros [(A & B & C)|(A & B & C)]; repeat split; intros; try contradiction; try congruence; auto.
Qed.

Lemma lk_same s s' n : ph (Rn s' n) = ph (Rn s n) -> st (Jb s' n) = st (Jb s n) ->
  ran (Jb s' n) = ran (Jb s n) -> lk s n -> lk s' n.
Proof. unfold lk. intros -> -> ->. tauto. Qed.

(* a job that is idle or merely created belongs to a run that has not begun *)
Lemma lk_unstarted s n : lk s n -> (st (Jb s n) = Idle \/ st (Jb s n) = Created) ->
  ph (Rn s n) = PIdle.
Proof.
  intros (A & B & C) Hst.
  destruct (ph (Rn s n)) eqn:E; try reflexivity;
    try (assert (H : st (Jb s n) = Running) by (apply C; discriminate);
         destruct Hst as [H'|H']; rewrite H' in H; discriminate).
  destruct (B eq_refl) as [F _]. destruct Hst as [H'|H']; rewrite H' in F; discriminate.
Qed.

Lemma Inv3_lk c s n : Inv3 c s -> n <> 0 -> j_sched (jc c n) = true -> lk s n.
Proof. intros I Hn Hs. repeat split; intros; [eapply k_idle|eapply k_over|eapply k_over|eapply k_act]; eauto. Qed.

Lemma lk_step lvl c s e s' n : wf c = true -> Inv1 c s -> step lvl c s e = Some s' ->
  n <> 0 -> j_sched (jc c n) = true -> lk s n -> lk s' n.
Proof.
  intros W I1 Hs Hn Hsch L.
  pose proof (R_effect lvl c s e s' W (i_pend c s I1) Hs n) as HR.
  destruct HR as [Hq Hqa|Hact B1 B2 B3 B4 _ _ _ _ _ _|Hact A1 A2 A3 Apost A4 A5 A6 A7 A8].
  2:{ apply lk_of_post. apply B2. apply rootb_false. exact Hn. }
  2:{ apply lk_of_post. apply Apost. exact Hn. }
  destruct Hq as (Hph & _).
  destruct (actor_dec e n) as [Ha|Hna].
  { destruct (Hqa Ha) as [E1 E2]. eapply lk_same; eauto. }
  destruct (subject_dec e n) as [Hsub|Hnsub].
  { destruct (subject_sched lvl c s e s' n Hs Hsub Hsch) as [Ha|Ee]; [contradiction|]. subst e.
    (* the nested scheduler was cancelled before it began *)
    pose proof Hs as Hs'. apply step_inv in Hs'. destruct Hs' as [-> Hg]. split_guards Hg.
    cbn [reaction fst] in *. unfold eff_gone in *.
    destruct (st (Jb s n)) eqn:Est; try discriminate.
    assert (Hidle : ph (Rn s n) = PIdle) by (apply lk_unstarted; [exact L|right; exact Est]).
    cbn [Rn setJ] in Hph.
    unfold lk. cbn [Rn Jb setJ]. rewrite upd_same. cbn [st ran]. rewrite Hidle.
    repeat split; intros; try discriminate; try contradiction; auto. }
  destruct (J_effect lvl c s e s' W (i_pend c s I1) Hs n)
    as [H|H1 H2|HS H1 H2 H3 H4|H1 H2 H3 H4 H5 H6 H7|H1 H2 H3 H4 H5 H6|HS H1 H2 H3 H4 H5|HS H1 H2 H3 H4 H5|HS H1 H2 H3 H4 H5|HS H1 H2 H3 H4 H5 H6|HS H1 H2|HS H1 H2 H3];
    try contradiction.
  - eapply lk_same; eauto; rewrite H; reflexivity.
  - eapply lk_same; eauto; rewrite H1; unfold cancel_j; destruct (finished (st (Jb s n))); reflexivity.
  - assert (Hidle : ph (Rn s n) = PIdle) by (apply lk_unstarted; [exact L|left; exact H1]).
    unfold lk. rewrite Hph, Hidle, H2. cbn [st ran].
    repeat split; intros; try discriminate; try contradiction; auto.
  - assert (Hi : st (Jb s n) = Idle) by (apply (create_begin_idle c s n I1 H3 H4)).
    assert (Hidle : ph (Rn s n) = PIdle) by (apply lk_unstarted; [exact L|left; exact Hi]).
    unfold lk. rewrite Hph, Hidle, H1. cbn [st ran].
    repeat split; intros; try discriminate; try contradiction; auto.
Qed.

Lemma Inv3_step lvl c s e s' : wf c = true -> Inv1 c s -> Inv3 c s -> step lvl c s e = Some s' -> Inv3 c s'.
Proof.
  intros W I1 I3 Hs.
  assert (HL : forall n, n <> 0 -> j_sched (jc c n) = true -> lk s' n).
  { intros n Hn Hsch. eapply (lk_step lvl c s e s' n); eauto. apply (Inv3_lk c); auto. }
  split; intros n Hn Hsch; destruct (HL n Hn Hsch) as (A & B & C); auto.
Qed.

Record Inv13 (c : cfg) (s : state) : Prop := { i13_1 : Inv1 c s; i13_3 : Inv3 c s }.

Theorem Inv13_reach lvl c h s : wf c = true -> Reach lvl c h s -> Inv13 c s.
Proof.
  intros W Hr. revert h s Hr. apply reach_ind.
  - split; [apply Inv1_init|apply Inv3_init].
  - intros h s e s' _ [I1 I3] Hs. split; [eapply Inv1_step; eauto|eapply Inv3_step; eauto].
Qed.
