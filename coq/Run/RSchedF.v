(* Forever jobs (C09) in closed form.

   A scheduler's run ends as soon as its last non-forever job has finished: at that instant M every
   forever job still running is cancelled; until then forever jobs start under the same rules as
   any job.  This file extends the schedule theorems of RSched.v (timeouts that are not reached,
   shutdown handlers that take time) to trees with forever jobs:

   * [plainF]: like [plainH], but an atomic job may be [forever], a forever job may never end
     ([j_dur = None]), NO job requires a forever job (a forever job never releases anything), and
     every scheduler that has jobs has at least one non-forever job (in the model a run whose jobs
     are all forever ends when the first of them ends, or never: excluded).  Schedulers other than
     the root are not forever.
   * [is_scheduleF]: S as before; for a scheduler n, M n = the latest of S n and the ends of its
     NON-forever jobs; a forever job f of n with S f + dur f < M n completes normally; otherwise it
     is "cut": cancelled at M n, its cancellation handler ends at E f = M n + j_cdur f.  The run of
     n tidies until M n + tidy_len n (the longest cancellation handler of its cut jobs), then runs
     the shutdown handlers of ALL its atomic jobs -- the cancelled ones included: in the model the
     broadcast goes to every job -- and ends at E n = M n + tidy_len n + shut_len n.
   * [no_tieF]: no forever job becomes ready exactly at M n (S f < M n), none would end exactly at
     M n (S f + dur f <> M n).  At such ties the order of the callbacks of one instant decides
     (created-then-cancelled, or finished-then-reported versus cancelled), so they are excluded.
   * [on_scheduleF]: [on_schedule] for the jobs that are not cut; a cut job is Running from S f to
     M, Cancelling from M to E f, Cancelled afterwards.

   The proof follows RSched.v; what is new: cancel flags are no longer always clear (a cut job
   carries one between the exit wake of its scheduler and its own reaction, in one instant), the
   tidy phase is a real phase that can last, and two more statuses. *)
From AJ Require Import Common.Util Run.RModel Run.RFacts Run.RFacts2 Run.RInv Run.RInv2 Run.RInv3 Run.RInv4
  Run.RInv5 Run.RProps1 Run.RProps3 Run.RWin Run.RProps4 Run.RShut1 Run.RShut2 Run.RTime Run.RInvP Run.RExc
  Run.RProgA Run.RFlat Run.RSchedDef Run.RSched.
From AJ Require Run.RTerm.

(* ------------------------------------------------------------------ definitions *)

Definition fvr (c : cfg) (x : nat) : bool := j_forever (jc c x).

(* the non-forever jobs of scheduler n, and the end of its main loop *)
Definition nfmembers (c : cfg) (n : nat) : list nat := filter (fun m => negb (fvr c m)) (members c n).
Definition MF (c : cfg) (S E : nat -> N) (n : nat) : N := maxl (S n) (map E (nfmembers c n)).

(* the forever job f ends by itself strictly before the main loop of its scheduler does *)
Definition completes (c : cfg) (S E : nat -> N) (f : nat) : bool :=
  match j_dur (jc c f) with Some d => N.ltb (S f + d) (MF c S E (parent c f)) | None => false end.

(* f is cut: a forever atomic job still running when the main loop of its scheduler ends *)
Definition cut (c : cfg) (S E : nat -> N) (f : nat) : bool :=
  negb (j_sched (jc c f)) && fvr c f && negb (Nat.eqb f 0) && negb (completes c S E f).

Definition cdurN (c : cfg) (S E : nat -> N) (f : nat) : N := if cut c S E f then j_cdur (jc c f) else 0%N.
Definition tidy_len (c : cfg) (S E : nat -> N) (n : nat) : N := maxl 0%N (map (cdurN c S E) (members c n)).
(* the beginning of the shutdown phase *)
Definition MT (c : cfg) (S E : nat -> N) (n : nat) : N := (MF c S E n + tidy_len c S E n)%N.

Definition plainF_job (c : cfg) (x : nat) : bool :=
  forallb (fun r => negb (fvr c r)) (reqs c x)
  && if j_sched (jc c x)
     then Nat.eqb (j_window (jc c x)) 0 && (Nat.eqb x 0 || negb (j_forever (jc c x)))
          && match members c x with [] => true | _ => existsb (fun m => negb (fvr c m)) (members c x) end
     else (j_forever (jc c x) || match j_dur (jc c x) with Some _ => true | None => false end)
          && match j_sdur (jc c x) with Some _ => true | None => false end.
Definition plainF (c : cfg) : bool := forallb (plainF_job c) (all_ids c).

Definition is_scheduleF (c : cfg) (S E : nat -> N) : Prop :=
  S 0 = 0%N /\
  forall x, x < njobs c ->
    (x <> 0 -> S x = maxl (S (parent c x)) (map E (reqs c x))) /\
    (j_sched (jc c x) = false ->
       E x = if cut c S E x then (MF c S E (parent c x) + j_cdur (jc c x))%N else (S x + durN c x)%N) /\
    (j_sched (jc c x) = true -> E x = (MF c S E x + tidy_len c S E x + shut_len c x)%N).

Definition no_tieF (c : cfg) (S E : nat -> N) : Prop :=
  forall f, f < njobs c -> f <> 0 -> j_sched (jc c f) = false -> fvr c f = true ->
    (S f < MF c S E (parent c f))%N /\
    (forall d, j_dur (jc c f) = Some d -> (S f + d)%N <> MF c S E (parent c f)).

(* the main loop of a timed scheduler ends strictly before its expiry *)
Definition slackF (c : cfg) (S E : nat -> N) : Prop :=
  forall n T, n < njobs c -> j_sched (jc c n) = true -> j_timeout (jc c n) = Some T ->
    (MF c S E n < S n + T)%N.

Definition on_scheduleF (c : cfg) (S E : nat -> N) (s : state) (x : nat) : Prop :=
  if cut c S E x then
    let M := MF c S E (parent c x) in
    match st (Jb s x) with
    | Idle | Created => (now s <= S x)%N
    | Running => (S x <= now s)%N /\ (now s <= M)%N /\ tend (Jb s x) = optN_add (S x) (j_dur (jc c x))
    | Cancelling => (M <= now s)%N /\ (now s <= E x)%N /\ tend (Jb s x) = Some (E x)
    | Cancelled => (E x <= now s)%N
    | DoneRet _ | DoneExc _ => False
    end
  else on_schedule c S E s x.

(* boolean versions over tables *)
Definition is_scheduleFb (c : cfg) (lS lE : list N) : bool :=
  let S := tab lS in let E := tab lE in
  N.eqb (S 0) 0
  && forallb (fun x =>
       (Nat.eqb x 0 || N.eqb (S x) (maxl (S (parent c x)) (map E (reqs c x))))
       && (if j_sched (jc c x)
           then N.eqb (E x) (MF c S E x + tidy_len c S E x + shut_len c x)
           else N.eqb (E x) (if cut c S E x then MF c S E (parent c x) + j_cdur (jc c x) else S x + durN c x)))
     (all_ids c).
Definition no_tieFb (c : cfg) (lS lE : list N) : bool :=
  let S := tab lS in let E := tab lE in
  forallb (fun f => Nat.eqb f 0 || j_sched (jc c f) || negb (fvr c f) ||
                    (N.ltb (S f) (MF c S E (parent c f))
                     && match j_dur (jc c f) with
                        | Some d => negb (N.eqb (S f + d) (MF c S E (parent c f)))
                        | None => true
                        end)) (all_ids c).
Definition slackFb (c : cfg) (lS lE : list N) : bool :=
  forallb (fun n => negb (j_sched (jc c n)) ||
                    match j_timeout (jc c n) with
                    | Some T => N.ltb (MF c (tab lS) (tab lE) n) (tab lS n + T)
                    | None => true
                    end) (all_ids c).

Lemma is_scheduleFb_sound c lS lE : is_scheduleFb c lS lE = true -> is_scheduleF c (tab lS) (tab lE).
Proof.
  unfold is_scheduleFb. cbn zeta. rewrite andb_true_iff, forallb_forall. intros [H0 H].
  split; [apply N.eqb_eq; exact H0|].
  intros x Hx. specialize (H x (proj2 (In_all_ids c x) Hx)). apply andb_true_iff in H. destruct H as [H1 H2].
  split; [|split].
  - intros Hx0. apply orb_true_iff in H1. destruct H1 as [H1|H1].
    + apply Nat.eqb_eq in H1. contradiction.
    + apply N.eqb_eq. exact H1.
  - intros Ha. rewrite Ha in H2. apply N.eqb_eq. exact H2.
  - intros Ha. rewrite Ha in H2. apply N.eqb_eq. exact H2.
Qed.

Lemma no_tieFb_sound c lS lE : no_tieFb c lS lE = true -> no_tieF c (tab lS) (tab lE).
Proof.
  unfold no_tieFb. cbn zeta. rewrite forallb_forall. intros H f Hf H0 Ha Hv.
  specialize (H f (proj2 (In_all_ids c f) Hf)). apply Nat.eqb_neq in H0. rewrite H0, Ha, Hv in H.
  cbn [orb negb] in H. apply andb_true_iff in H. destruct H as [H1 H2]. apply N.ltb_lt in H1.
  split; [exact H1|]. intros d Hd. rewrite Hd in H2. apply negb_true_iff in H2. apply N.eqb_neq in H2. exact H2.
Qed.

Lemma slackFb_sound c lS lE : slackFb c lS lE = true -> slackF c (tab lS) (tab lE).
Proof.
  unfold slackFb. rewrite forallb_forall. intros H n T Hn Hs Ht.
  specialize (H n (proj2 (In_all_ids c n) Hn)). rewrite Hs, Ht in H. cbn [negb orb] in H.
  apply N.ltb_lt. exact H.
Qed.

(* ------------------------------------------------------------------ the schedule equations *)

Lemma In_nfmembers c n m : In m (nfmembers c n) <-> In m (members c n) /\ fvr c m = false.
Proof. unfold nfmembers. rewrite filter_In, negb_true_iff. tauto. Qed.

Lemma cut_spec c S E f : cut c S E f = true ->
  j_sched (jc c f) = false /\ fvr c f = true /\ f <> 0 /\ completes c S E f = false.
Proof.
  unfold cut. rewrite !andb_true_iff, !negb_true_iff, Nat.eqb_neq. tauto.
Qed.

Section Schedule.
  Variables (c : cfg) (Sb Ef : nat -> N).
  Hypothesis HS : is_scheduleF c Sb Ef.
  Hypothesis NT : no_tieF c Sb Ef.

  Lemma Sb_root : Sb 0 = 0%N.
  Proof. destruct HS as [H _]. exact H. Qed.

  Lemma Sb_eq x : x < njobs c -> x <> 0 -> Sb x = maxl (Sb (parent c x)) (map Ef (reqs c x)).
  Proof. intros Hx H0. destruct HS as [_ H]. destruct (H x Hx) as (A & _). auto. Qed.

  Lemma Ef_plain x : x < njobs c -> j_sched (jc c x) = false -> cut c Sb Ef x = false ->
    Ef x = (Sb x + durN c x)%N.
  Proof. intros Hx Ha Hc. destruct HS as [_ H]. destruct (H x Hx) as (_ & A & _). rewrite (A Ha), Hc. reflexivity. Qed.

  Lemma Ef_cut x : x < njobs c -> cut c Sb Ef x = true ->
    Ef x = (MF c Sb Ef (parent c x) + j_cdur (jc c x))%N.
  Proof.
    intros Hx Hc. destruct (cut_spec _ _ _ _ Hc) as (Ha & _).
    destruct HS as [_ H]. destruct (H x Hx) as (_ & A & _). rewrite (A Ha), Hc. reflexivity.
  Qed.

  Lemma Ef_sched x : x < njobs c -> j_sched (jc c x) = true ->
    Ef x = (MT c Sb Ef x + shut_len c x)%N.
  Proof. intros Hx Ha. destruct HS as [_ H]. destruct (H x Hx) as (_ & _ & A). unfold MT. auto. Qed.

  Lemma Sb_ge_parent x : x < njobs c -> x <> 0 -> (Sb (parent c x) <= Sb x)%N.
  Proof. intros Hx H0. rewrite (Sb_eq x Hx H0). apply maxl_ge_base. Qed.

  Lemma Sb_ge_req x r : x < njobs c -> x <> 0 -> In r (reqs c x) -> (Ef r <= Sb x)%N.
  Proof. intros Hx H0 Hr. rewrite (Sb_eq x Hx H0). apply maxl_ge_in. apply in_map. exact Hr. Qed.

  Lemma Sb_le x b : x < njobs c -> x <> 0 -> (Sb (parent c x) <= b)%N ->
    (forall r, In r (reqs c x) -> (Ef r <= b)%N) -> (Sb x <= b)%N.
  Proof.
    intros Hx H0 Hp Hr. rewrite (Sb_eq x Hx H0). apply maxl_le; [exact Hp|].
    intros y Hy. apply in_map_iff in Hy. destruct Hy as (r & <- & Hin). apply Hr. exact Hin.
  Qed.

  Lemma MF_ge_Sb x : (Sb x <= MF c Sb Ef x)%N.
  Proof. apply maxl_ge_base. Qed.

  Lemma MF_ge_member x m : In m (members c x) -> fvr c m = false -> (Ef m <= MF c Sb Ef x)%N.
  Proof. intros Hm Hv. apply maxl_ge_in. apply in_map. apply In_nfmembers. auto. Qed.

  Lemma MF_le x b : (Sb x <= b)%N -> (forall m, In m (members c x) -> fvr c m = false -> (Ef m <= b)%N) ->
    (MF c Sb Ef x <= b)%N.
  Proof.
    intros Hb Hm. apply maxl_le; [exact Hb|].
    intros y Hy. apply in_map_iff in Hy. destruct Hy as (m & <- & Hin). apply In_nfmembers in Hin.
    apply Hm; tauto.
  Qed.

  Lemma MT_ge_MF x : (MF c Sb Ef x <= MT c Sb Ef x)%N.
  Proof. unfold MT. lia. Qed.

  Lemma MT_le_Ef x : x < njobs c -> j_sched (jc c x) = true -> (MT c Sb Ef x <= Ef x)%N.
  Proof. intros Hx Hs. rewrite (Ef_sched x Hx Hs). lia. Qed.

  Lemma cdurN_le_tidy n f : In f (members c n) -> (cdurN c Sb Ef f <= tidy_len c Sb Ef n)%N.
  Proof. intros Hf. apply maxl_ge_in. apply in_map. exact Hf. Qed.

  (* a cut job starts strictly before the end of the main loop, and would end strictly after it *)
  Lemma cut_before x : x < njobs c -> cut c Sb Ef x = true -> (Sb x < MF c Sb Ef (parent c x))%N.
  Proof. intros Hx Hc. destruct (cut_spec _ _ _ _ Hc) as (Ha & Hv & H0 & _). apply (NT x Hx H0 Ha Hv). Qed.

  Lemma cut_after x d : x < njobs c -> cut c Sb Ef x = true -> j_dur (jc c x) = Some d ->
    (MF c Sb Ef (parent c x) < Sb x + d)%N.
  Proof.
    intros Hx Hc Hd. destruct (cut_spec _ _ _ _ Hc) as (Ha & Hv & H0 & Hn).
    destruct (NT x Hx H0 Ha Hv) as [_ H]. specialize (H d Hd).
    unfold completes in Hn. rewrite Hd in Hn. apply N.ltb_ge in Hn. lia.
  Qed.

  Lemma Ef_ge_Sb x : x < njobs c -> (Sb x <= Ef x)%N.
  Proof.
    intros Hx. destruct (j_sched (jc c x)) eqn:Es.
    - pose proof (MT_le_Ef x Hx Es). pose proof (MT_ge_MF x). pose proof (MF_ge_Sb x). lia.
    - destruct (cut c Sb Ef x) eqn:Ec.
      + rewrite (Ef_cut x Hx Ec). pose proof (cut_before x Hx Ec). lia.
      + rewrite (Ef_plain x Hx Es Ec). lia.
  Qed.

  Lemma Ef_ge_member x m : x < njobs c -> j_sched (jc c x) = true -> In m (members c x) -> fvr c m = false ->
    (Ef m <= Ef x)%N.
  Proof.
    intros Hx Hs Hm Hv. pose proof (MT_le_Ef x Hx Hs). pose proof (MT_ge_MF x). pose proof (MF_ge_member x m Hm Hv). lia.
  Qed.
End Schedule.

(* ------------------------------------------------------------------ plain trees with forever jobs *)

Section Plain.
  Variable c : cfg.
  Hypothesis W : wf c = true.
  Hypothesis P : plainF c = true.

  Lemma plain_job_of x : x < njobs c -> plainF_job c x = true.
  Proof. intros Hx. unfold plainF in P. rewrite forallb_forall in P. apply P. apply In_all_ids. exact Hx. Qed.

  Lemma reqs_not_forever x r : x < njobs c -> In r (reqs c x) -> fvr c r = false.
  Proof.
    intros Hx Hr. pose proof (plain_job_of x Hx) as H. unfold plainF_job in H.
    apply andb_true_iff in H. destruct H as [H _]. rewrite forallb_forall in H.
    apply negb_true_iff. apply H. exact Hr.
  Qed.

  Lemma plain_sched n : n < njobs c -> j_sched (jc c n) = true ->
    j_window (jc c n) = 0 /\ (n <> 0 -> fvr c n = false) /\
    (members c n <> [] -> exists m, In m (members c n) /\ fvr c m = false).
  Proof.
    intros Hn Hs. pose proof (plain_job_of n Hn) as H. unfold plainF_job in H. rewrite Hs in H.
    rewrite !andb_true_iff in H. destruct H as [_ [[H1 H2] H3]].
    apply Nat.eqb_eq in H1. split; [exact H1|]. split.
    - intros H0. apply orb_true_iff in H2. destruct H2 as [H2|H2].
      + apply Nat.eqb_eq in H2. contradiction.
      + apply negb_true_iff in H2. exact H2.
    - intros Hne. destruct (members c n) as [|m0 ms] eqn:Em; [contradiction|].
      apply existsb_exists in H3. destruct H3 as (m & Hm & Hv). exists m. split; [exact Hm|].
      apply negb_true_iff. exact Hv.
  Qed.

  Lemma plain_atomic x : x < njobs c -> j_sched (jc c x) = false ->
    (fvr c x = true \/ exists d, j_dur (jc c x) = Some d) /\ (exists d, j_sdur (jc c x) = Some d).
  Proof.
    intros Hx Hs. pose proof (plain_job_of x Hx) as H. unfold plainF_job in H. rewrite Hs in H.
    rewrite !andb_true_iff in H. destruct H as [_ [H1 H2]].
    split.
    - apply orb_true_iff in H1. destruct H1 as [H1|H1]; [left; exact H1|right].
      destruct (j_dur (jc c x)) as [d|]; [exists d; reflexivity|discriminate].
    - destruct (j_sdur (jc c x)) as [d|]; [exists d; reflexivity|discriminate].
  Qed.

  Lemma forever_atomic x : x < njobs c -> x <> 0 -> fvr c x = true -> j_sched (jc c x) = false.
  Proof.
    intros Hx H0 Hv. destruct (j_sched (jc c x)) eqn:Es; [|reflexivity].
    destruct (plain_sched x Hx Es) as (_ & H & _). rewrite (H H0) in Hv. discriminate.
  Qed.

  (* the body of an atomic job that is not cut has a duration *)
  Lemma uncut_dur Sb Ef x : x < njobs c -> x <> 0 -> j_sched (jc c x) = false -> cut c Sb Ef x = false ->
    exists d, j_dur (jc c x) = Some d.
  Proof.
    intros Hx H0 Ha Hc. destruct (plain_atomic x Hx Ha) as [[Hv|Hd] _]; [|exact Hd].
    unfold cut in Hc. rewrite Ha, Hv in Hc. apply Nat.eqb_neq in H0. rewrite H0 in Hc. cbn in Hc.
    apply negb_false_iff in Hc. unfold completes in Hc. destruct (j_dur (jc c x)) as [d|]; [exists d; reflexivity|discriminate].
  Qed.

  Lemma nonforever_incl l1 l2 : NoDup l1 -> (forall x, In x l1 -> In x l2) -> nonforever c l1 <= nonforever c l2.
  Proof.
    intros Hn Hi. unfold nonforever. apply NoDup_incl_length; [apply NoDup_filter; exact Hn|].
    intros x Hx. apply filter_In in Hx. apply filter_In. split; [apply Hi; tauto|tauto].
  Qed.

  (* a scheduler on its way out through the exit "success" has seen all its non-forever jobs *)
  Lemma succ_all_seen s n : Inv1 c s -> Inv5 c s -> ph_succ (ph (Rn s n)) ->
    forall x, In x (members c n) -> fvr c x = false -> In x (seen (Rn s n)) /\ is_done (st (Jb s x)) = true.
  Proof.
    intros I1 I5 Hp.
    assert (Hc : ph_counts (ph (Rn s n))).
    { unfold ph_counts, ph_nocrit. destruct Hp as [H|H]; rewrite H; auto. }
    pose proof (b_succ c s I5 n Hp) as H1. pose proof (b_count c s I5 n Hc) as H2.
    assert (Hsub : forall x, In x (seen (Rn s n)) -> In x (members c n)).
    { intros x Hx. apply (b_seen_done c s I5 n x Hx). }
    set (nf := fun j : nat => negb (j_forever (jc c j))).
    assert (Hincl : incl (filter nf (members c n)) (filter nf (seen (Rn s n)))).
    { apply NoDup_length_incl.
      - apply NoDup_filter. apply (b_seen_nd c s I5).
      - unfold nfinite, nonforever in *. fold nf in H1, H2. lia.
      - intros x Hx. apply filter_In in Hx. apply filter_In. split; [apply Hsub; tauto|tauto]. }
    intros x Hx Hv. assert (Hs : In x (seen (Rn s n))).
    { assert (H : In x (filter nf (members c n))) by (apply filter_In; split; [exact Hx|unfold nf; fold (fvr c x); rewrite Hv; reflexivity]).
      apply Hincl in H. apply filter_In in H. tauto. }
    split; [exact Hs|]. apply (b_seen_done c s I5 n x Hs).
  Qed.

  (* ... and what it is still waiting for are forever jobs *)
  Lemma succ_pend_forever s n x : Inv1 c s -> Inv5 c s -> ph_succ (ph (Rn s n)) -> In x (pend (Rn s n)) ->
    fvr c x = true.
  Proof.
    intros I1 I5 Hp Hx. destruct (fvr c x) eqn:Hv; [reflexivity|exfalso].
    apply (b_disj c s I5 n x Hx). apply (succ_all_seen s n I1 I5 Hp x); [apply (i_pend c s I1 n x Hx)|exact Hv].
  Qed.
End Plain.

(* ------------------------------------------------------------------ the invariant *)

(* the inline shutdown phase of n, begun at M *)
Definition shutF (c : cfg) (M : N) (s : state) (n : nat) : Prop :=
  (M <= now s)%N /\ (now s <= M + shut_len c n)%N /\
  (sp (Sd s n) = SdWait -> sdl (Sd s n) = optN_add M (j_sdto (jc c n))) /\
  (sp (Sd s n) = SdTidy -> late c M s n) /\
  (forall x, In x (members c n) -> j_sched (jc c x) = false -> hd_ok c M s n x).

Record SchF (c : cfg) (Sb Ef : nat -> N) (s : state) : Prop := {
  f_job : forall x, x < njobs c -> x <> 0 -> on_scheduleF c Sb Ef s x;
  (* a cancel request is pending only on a cut job, between the exit wake of its scheduler and its
     own reaction *)
  f_cp : forall x, cp (Jb s x) = true ->
           cut c Sb Ef x = true /\ st (Jb s x) = Running /\ ph (Rn s (parent c x)) = PTidy WSuccess;
  f_rc : forall n, rcanc (Rn s n) = false;
  f_ph : forall n, okph (ph (Rn s n));
  f_root_idle : ph (Rn s 0) = PIdle -> idle_all s /\ now s = 0%N;
  f_root_over : ph (Rn s 0) = POver -> (Ef 0%nat <= now s)%N;
  f_over_done : forall n x, ph (Rn s n) = POver -> In x (members c n) -> fvr c x = false ->
                            is_done (st (Jb s x)) = true;
  f_over_did : forall n, ph (Rn s n) = POver -> did (Sd s n) = true \/ members c n = [];
  f_hr : forall n, j_sched (jc c n) = true -> hs (Hd s n) <> HRunning;
  f_did : forall n, did (Sd s n) = true -> ph (Rn s n) <> PIdle;
  f_nce : forall x, crit_exc c s x = false;
  f_expi : forall n, ph (Rn s n) = PMain -> expi (Rn s n) = optN_add (Sb n) (j_timeout (jc c n));
  f_mainM : forall n, n < njobs c -> j_sched (jc c n) = true -> ph (Rn s n) = PMain ->
            (now s <= MF c Sb Ef n)%N;
  f_tidy : forall n, ph (Rn s n) = PTidy WSuccess ->
           (MF c Sb Ef n <= now s)%N /\ (now s <= MT c Sb Ef n)%N;
  f_shut : forall n, ph (Rn s n) = PShut WSuccess -> shutF c (MT c Sb Ef n) s n
}.

Lemma SchF_init c Sb Ef : Sb 0 = 0%N -> SchF c Sb Ef init.
Proof.
  intros H0. split; cbn; try reflexivity; try discriminate; try (intros; discriminate).
  - intros x _ _. unfold on_scheduleF, on_schedule. cbn. destruct (cut c Sb Ef x); cbn; lia.
  - intros n. left. reflexivity.
  - intros _. split; [apply idle_all_init|reflexivity].
  - intros x. unfold crit_exc. cbn. apply andb_false_r.
Qed.

(* ------------------------------------------------------------------ facts of a state on schedule *)

Section State.
  Variables (c : cfg) (Sb Ef : nat -> N) (s : state).
  Hypothesis W : wf c = true.
  Hypothesis P : plainF c = true.
  Hypothesis HS : is_scheduleF c Sb Ef.
  Hypothesis NT : no_tieF c Sb Ef.
  Hypothesis SD : Std c s.
  Hypothesis SC : SchF c Sb Ef s.

  Let IE := sd_E c s SD.
  Let ID := ie_d c s IE.
  Let I8 := ie_8 c s IE.
  Let IC := id_c c s ID.
  Let I1 := ic_1 c s IC.
  Let I3 := ic_3 c s IC.
  Let I4 := ic_4 c s IC.
  Let I5 := ic_5 c s IC.
  Let I6 := ic_6 c s IC.
  Let I7 := id_7 c s ID.
  Let I2 := sd_2 c s SD.
  Let IT := sd_T c s SD.
  Let IT3 := sd_T3 c s SD.
  Let IP := sd_P c s SD.
  Let IQ := sd_Q c s SD.

  (* a job that is not cut is where on_schedule says *)
  Lemma uncut_job x : x < njobs c -> x <> 0 -> cut c Sb Ef x = false -> on_schedule c Sb Ef s x.
  Proof. intros Hx H0 Hc. pose proof (f_job c Sb Ef s SC x Hx H0) as H. unfold on_scheduleF in H. rewrite Hc in H. exact H. Qed.

  Lemma sched_uncut x : j_sched (jc c x) = true -> cut c Sb Ef x = false.
  Proof. intros H. unfold cut. rewrite H. reflexivity. Qed.

  Lemma nf_uncut x : fvr c x = false -> cut c Sb Ef x = false.
  Proof. intros H. unfold cut. rewrite H. apply andb_false_iff. left. apply andb_false_iff. left. apply andb_false_r. Qed.

  Lemma cancel_is_cut x : x < njobs c -> x <> 0 -> st (Jb s x) = Cancelling \/ st (Jb s x) = Cancelled ->
    cut c Sb Ef x = true.
  Proof.
    intros Hx H0 Hst. destruct (cut c Sb Ef x) eqn:Ec; [reflexivity|exfalso].
    pose proof (uncut_job x Hx H0 Ec) as H. unfold on_schedule in H. destruct Hst as [E|E]; rewrite E in H; exact H.
  Qed.

  Lemma cut_not_done x : x < njobs c -> x <> 0 -> cut c Sb Ef x = true -> is_done (st (Jb s x)) = false.
  Proof.
    intros Hx H0 Hc. pose proof (f_job c Sb Ef s SC x Hx H0) as H. unfold on_scheduleF in H. rewrite Hc in H.
    cbn zeta in H. destruct (st (Jb s x)); try reflexivity; contradiction.
  Qed.

  Lemma st_cases x : x < njobs c -> x <> 0 ->
    st (Jb s x) = Idle \/ st (Jb s x) = Created \/ st (Jb s x) = Running \/ is_done (st (Jb s x)) = true \/
    (cut c Sb Ef x = true /\ (st (Jb s x) = Cancelling \/ st (Jb s x) = Cancelled)).
  Proof.
    intros Hx H0. destruct (st (Jb s x)) eqn:E; auto;
      right; right; right; right; (split; [apply (cancel_is_cut x Hx H0); rewrite E; auto|auto]).
  Qed.

  (* a pending cancel request: only on atomic jobs *)
  Lemma cp_atomic x : cp (Jb s x) = true -> j_sched (jc c x) = false.
  Proof. intros H. destruct (f_cp c Sb Ef s SC x H) as (Hc & _). apply (cut_spec _ _ _ _ Hc). Qed.

  Lemma sched_no_cp x : j_sched (jc c x) = true -> cp (Jb s x) = false.
  Proof. intros Hs. destruct (cp (Jb s x)) eqn:E; [|reflexivity]. rewrite (cp_atomic x E) in Hs. discriminate. Qed.

  Lemma not_running_no_cp x : st (Jb s x) <> Running -> cp (Jb s x) = false.
  Proof. intros Hn. destruct (cp (Jb s x)) eqn:E; [|reflexivity]. destruct (f_cp c Sb Ef s SC x E) as (_ & H & _). contradiction. Qed.

  (* a nested scheduler that is done as a job has a run that is over *)
  Lemma done_over n : n <> 0 -> j_sched (jc c n) = true -> is_done (st (Jb s n)) = true -> ph (Rn s n) = POver.
  Proof. apply (RSched.done_over c s SD). Qed.

  Lemma sched_st_cases n : n < njobs c -> n <> 0 -> j_sched (jc c n) = true ->
    st (Jb s n) = Idle \/ st (Jb s n) = Created \/ st (Jb s n) = Running \/ is_done (st (Jb s n)) = true.
  Proof.
    intros Hn H0 Hs. destruct (st_cases n Hn H0) as [A|[A|[A|[A|[A _]]]]]; auto.
    rewrite (sched_uncut n Hs) in A. discriminate.
  Qed.

  Lemma idle_unstarted n : n < njobs c -> n <> 0 -> j_sched (jc c n) = true -> ph (Rn s n) = PIdle ->
    st (Jb s n) = Idle \/ st (Jb s n) = Created.
  Proof.
    intros Hn H0 Hs Hp. pose proof (k_idle c s I3 n H0 Hs Hp) as Hran.
    destruct (sched_st_cases n Hn H0 Hs) as [A|[A|[A|A]]]; auto; exfalso.
    - rewrite (i_ran1 c s I2 n) in Hran; [discriminate|auto].
    - rewrite (i_ran1 c s I2 n) in Hran; [discriminate|auto].
  Qed.

  Lemma running_main_or_exit n : n <> 0 -> j_sched (jc c n) = true -> st (Jb s n) = Running ->
    ph (Rn s n) = PMain \/ ph (Rn s n) = PTidy WSuccess \/ ph (Rn s n) = PShut WSuccess.
  Proof.
    intros H0 Hs Hst. destruct (f_ph c Sb Ef s SC n) as [E|[E|[E|[E|E]]]]; auto; exfalso.
    - pose proof (k_idle c s I3 n H0 Hs E) as Hran. rewrite (i_ran1 c s I2 n) in Hran; [discriminate|auto].
    - destruct (k_over c s I3 n H0 Hs E) as [Hf _]. rewrite Hst in Hf. discriminate.
  Qed.

  Lemma begun_Sb n : n < njobs c -> j_sched (jc c n) = true -> ph (Rn s n) <> PIdle -> (Sb n <= now s)%N.
  Proof.
    intros Hn Hs Hp. destruct (Nat.eq_dec n 0) as [->|H0]; [rewrite (Sb_root c Sb Ef HS); lia|].
    pose proof (uncut_job n Hn H0 (sched_uncut n Hs)) as H. unfold on_schedule in H.
    pose proof (Ef_ge_Sb c Sb Ef HS NT n Hn) as Hle.
    destruct (st (Jb s n)) eqn:Est; try lia; try contradiction;
      exfalso; apply Hp; apply (i_l1 c s I1 n H0); rewrite Est; auto.
  Qed.

  Lemma idle_Sb n : n < njobs c -> j_sched (jc c n) = true -> ph (Rn s n) = PIdle -> (now s <= Sb n)%N.
  Proof.
    intros Hn Hs Hp. destruct (Nat.eq_dec n 0) as [->|H0].
    - destruct (f_root_idle c Sb Ef s SC Hp) as [_ E]. rewrite E. lia.
    - pose proof (uncut_job n Hn H0 (sched_uncut n Hs)) as H. unfold on_schedule in H.
      destruct (idle_unstarted n Hn H0 Hs Hp) as [E|E]; rewrite E in H; exact H.
  Qed.

  Lemma over_Ef n : n < njobs c -> j_sched (jc c n) = true -> ph (Rn s n) = POver -> (Ef n <= now s)%N.
  Proof.
    intros Hn Hs Hp. destruct (Nat.eq_dec n 0) as [->|H0]; [apply (f_root_over c Sb Ef s SC Hp)|].
    pose proof (uncut_job n Hn H0 (sched_uncut n Hs)) as H. unfold on_schedule in H.
    destruct (k_over c s I3 n H0 Hs Hp) as [Hf _].
    destruct (st (Jb s n)); try discriminate; try exact H; contradiction.
  Qed.

  Lemma done_Ef x : x < njobs c -> x <> 0 -> is_done (st (Jb s x)) = true -> (Ef x <= now s)%N.
  Proof.
    intros Hx H0 Hd. destruct (cut c Sb Ef x) eqn:Ec.
    - rewrite (cut_not_done x Hx H0 Ec) in Hd. discriminate.
    - pose proof (uncut_job x Hx H0 Ec) as H. unfold on_schedule in H.
      destruct (st (Jb s x)); try discriminate; exact H.
  Qed.

  Lemma finished_Ef x : x < njobs c -> x <> 0 -> finished (st (Jb s x)) = true -> (Ef x <= now s)%N.
  Proof.
    intros Hx H0 Hf. destruct (st (Jb s x)) eqn:E; try discriminate;
      try (apply (done_Ef x Hx H0); rewrite E; reflexivity).
    pose proof (cancel_is_cut x Hx H0 (or_intror E)) as Hc.
    pose proof (f_job c Sb Ef s SC x Hx H0) as H. unfold on_scheduleF in H. rewrite Hc, E in H. exact H.
  Qed.

  (* the non-forever members of a scheduler that has left its main loop are done *)
  Lemma exit_members_done n x : ph (Rn s n) = PTidy WSuccess \/ ph (Rn s n) = PShut WSuccess \/ ph (Rn s n) = POver ->
    In x (members c n) -> fvr c x = false -> is_done (st (Jb s x)) = true.
  Proof.
    intros [E|[E|E]] Hx Hv.
    - apply (succ_all_seen c s n I1 I5); [left; exact E|exact Hx|exact Hv].
    - apply (succ_all_seen c s n I1 I5); [right; exact E|exact Hx|exact Hv].
    - apply (f_over_done c Sb Ef s SC n x E Hx Hv).
  Qed.

  (* ... hence its main loop is over *)
  Lemma exit_MF n : n < njobs c -> j_sched (jc c n) = true ->
    ph (Rn s n) = PTidy WSuccess \/ ph (Rn s n) = PShut WSuccess \/ ph (Rn s n) = POver ->
    (MF c Sb Ef n <= now s)%N.
  Proof.
    intros Hn Hs Hex. apply MF_le.
    - apply (begun_Sb n Hn Hs). destruct Hex as [H|[H|H]]; rewrite H; discriminate.
    - intros m Hm Hv. pose proof (proj1 (In_members c n m) Hm) as (Hml & _ & Hm0).
      apply (done_Ef m Hml Hm0). apply (exit_members_done n m Hex Hm Hv).
  Qed.

  (* a forever job of a scheduler that has left its main loop has started *)
  Lemma exit_forever_started n x : n < njobs c -> j_sched (jc c n) = true ->
    ph (Rn s n) = PTidy WSuccess \/ ph (Rn s n) = PShut WSuccess \/ ph (Rn s n) = POver ->
    In x (members c n) -> fvr c x = true -> st (Jb s x) <> Idle /\ st (Jb s x) <> Created.
  Proof.
    intros Hn Hs Hex Hx Hv. pose proof (proj1 (In_members c n x) Hx) as (Hxl & Hxp & Hx0).
    pose proof (exit_MF n Hn Hs Hex) as HM.
    pose proof (forever_atomic c P x Hxl Hx0 Hv) as Ha.
    destruct (NT x Hxl Hx0 Ha Hv) as [Hlt _]. rewrite Hxp in Hlt.
    pose proof (f_job c Sb Ef s SC x Hxl Hx0) as H. unfold on_scheduleF, on_schedule in H.
    split; intro E; rewrite E in H; destruct (cut c Sb Ef x); cbn zeta in H; lia.
  Qed.

  (* a nested scheduler that has a handler task is over *)
  Lemma handler_over x : x <> 0 -> j_sched (jc c x) = true -> hs (Hd s x) <> HNone -> ph (Rn s x) = POver.
  Proof.
    intros H0 Hs Hh.
    assert (Hx : x < njobs c) by (apply (t_validh c s IT3); exact Hh).
    destruct (handler_quiet c s x W ID I8 H0 Hx Hh) as (Hd & _ & _).
    assert (Hm : In x (members c (parent c x))) by (apply In_members; auto).
    destruct (plain_sched c P x Hx Hs) as (_ & Hv & _).
    apply (done_over x H0 Hs). apply (exit_members_done (parent c x) x); [|exact Hm|apply Hv; exact H0].
    destruct (k_phase c s I8 _ Hd) as [Hi|[Ho|(Hp & _)]].
    - unfold sd_inline in Hi. destruct (f_ph c Sb Ef s SC (parent c x)) as [E|[E|[E|[E|E]]]];
        rewrite E in Hi; try discriminate. auto.
    - auto.
    - exfalso. apply (f_did c Sb Ef s SC _ Hd). exact Hp.
  Qed.

  (* ---------- quiescent states ---------- *)
  Hypothesis Hq : quiescent c s = true.

  Lemma quiet_not_created x : x < njobs c -> x <> 0 -> st (Jb s x) <> Created.
  Proof.
    intros Hx H0 E. pose proof (quiescent_job c s x Hq Hx) as He. unfold job_enabled in He. cbn zeta in He.
    rewrite E in He. apply orb_false_iff in He. destruct He as [_ He].
    destruct (wf_parent c x W Hx H0) as [Hpl Hps].
    destruct (plain_sched c P (parent c x)) as (Hw & _); [lia|exact Hps|].
    unfold slot_free in He. cbn zeta in He. rewrite Hw in He. discriminate.
  Qed.

  Lemma quiet_no_cp x : x < njobs c -> cp (Jb s x) = false.
  Proof.
    intros Hx. destruct (cp (Jb s x)) eqn:E; [exfalso|reflexivity].
    destruct (f_cp c Sb Ef s SC x E) as (Hc & Hst & _). destruct (cut_spec _ _ _ _ Hc) as (Ha & _).
    pose proof (quiescent_job c s x Hq Hx) as He. unfold job_enabled in He. cbn zeta in He.
    rewrite Hst, Ha, E in He. discriminate.
  Qed.

  Lemma quiet_unfin n z : did (Sd s n) = true -> In z (members c n) -> hfin s z = false ->
    j_sched (jc c z) = false /\ hs (Hd s z) = HRunning /\ hcp (Hd s z) = false /\
    opt_le_now s (hend (Hd s z)) = false.
  Proof.
    intros Hdid Hz Hzf.
    pose proof (proj1 (In_members c n z) Hz) as (Hzl & Hzp & Hz0).
    pose proof (k_some c s I8 n z Hz Hdid) as Hnn.
    pose proof (quiescent_handler c s z Hq Hzl) as Hen. unfold handler_enabled in Hen. cbn zeta in Hen.
    unfold hfin in Hzf. destruct (hs (Hd s z)) eqn:Ehz; try discriminate.
    - exfalso. apply Hnn. reflexivity.
    - destruct (j_sched (jc c z)) eqn:Ezs.
      + exfalso. apply (f_hr c Sb Ef s SC z Ezs Ehz).
      + apply orb_false_iff in Hen. destruct Hen as [A B]. auto.
  Qed.

  Lemma quiet_shut n : n < njobs c -> j_sched (jc c n) = true -> ph (Rn s n) = PShut WSuccess ->
    sp (Sd s n) = SdWait /\ opt_le_now s (sdl (Sd s n)) = false /\
    exists z, In z (members c n) /\ j_sched (jc c z) = false /\ hs (Hd s z) = HRunning /\
              hcp (Hd s z) = false /\ opt_le_now s (hend (Hd s z)) = false.
  Proof.
    intros Hn Hs Ep. pose proof (quiescent_run c s n Hq Hn Hs) as He. unfold run_enabled in He. cbn zeta in He.
    rewrite Ep in He.
    assert (Hact : sd_active (sp (Sd s n))) by (apply (q_inl c s IQ); unfold sd_inline; rewrite Ep; reflexivity).
    pose proof (active_did c s n I8 Hact) as Hdid.
    unfold sd_enabled in He. cbn zeta in He. destruct Hact as [E|E]; rewrite E in He.
    - apply orb_false_iff in He. destruct He as [He He3]. apply orb_false_iff in He. destruct He as [_ He].
      split; [exact E|]. split; [exact He3|].
      destruct (forallb_false _ _ _ He) as (z & Hz & Hzf). exists z. split; [exact Hz|].
      apply (quiet_unfin n z Hdid Hz Hzf).
    - exfalso. apply orb_false_iff in He. destruct He as [_ He].
      destruct (forallb_false _ _ _ He) as (z & Hz & Hzf).
      pose proof (k_spend c s I8 n z Hz) as Hzm.
      destruct (quiet_unfin n z Hdid Hzm Hzf) as (Za & Zr & Zc & _).
      destruct (q_spcp c s IQ n z E Hz) as [H|[H|(H & _)]]; congruence.
  Qed.

  (* a quiescent tidy phase is waiting for the cancellation handler of a cut job *)
  Lemma quiet_tidy n : n < njobs c -> j_sched (jc c n) = true -> ph (Rn s n) = PTidy WSuccess ->
    exists z, In z (members c n) /\ cut c Sb Ef z = true /\ st (Jb s z) = Cancelling.
  Proof.
    intros Hn Hs Ep. pose proof (quiescent_run c s n Hq Hn Hs) as He. unfold run_enabled in He. rewrite Ep in He.
    apply orb_false_iff in He. destruct He as [_ He].
    destruct (forallb_false _ _ _ He) as (z & Hz & Hzf). unfold jfin in Hzf.
    pose proof (i_pend c s I1 n z Hz) as Hzm.
    pose proof (proj1 (In_members c n z) Hzm) as (Hzl & Hzp & Hz0).
    assert (Hex : exiting (ph (Rn s n))) by (left; exists WSuccess; exact Ep).
    destruct (d_pend c s I6 n z Hex Hz) as [Hdoom _].
    exists z. split; [exact Hzm|].
    assert (Hst : st (Jb s z) = Cancelling).
    { destruct Hdoom as [H|[H|[H|(_ & Hzs & [H|H])]]].
      - rewrite (quiet_no_cp z Hzl) in H. discriminate.
      - exact H.
      - rewrite H in Hzf. discriminate.
      - exfalso. destruct (f_ph c Sb Ef s SC z) as [E|[E|[E|[E|E]]]]; rewrite E in H; discriminate.
      - rewrite (f_rc c Sb Ef s SC z) in H. discriminate. }
    split; [apply (cancel_is_cut z Hzl Hz0); left; exact Hst|exact Hst].
  Qed.

  (* a quiescent main loop is waiting for one of its non-forever jobs *)
  Lemma main_has_undone n : n < njobs c -> j_sched (jc c n) = true -> ph (Rn s n) = PMain ->
    exists m, In m (members c n) /\ fvr c m = false /\ is_done (st (Jb s m)) = false.
  Proof.
    intros Hn Hs Ep.
    destruct (forallb (fun m => fvr c m || is_done (st (Jb s m))) (members c n)) eqn:Eall.
    2:{ destruct (forallb_false _ _ _ Eall) as (m & Hm & Hf). apply orb_false_iff in Hf. exists m. tauto. }
    exfalso. rewrite forallb_forall in Eall.
    pose proof (quiescent_run c s n Hq Hn Hs) as He. unfold run_enabled in He. rewrite Ep in He.
    apply orb_false_iff in He. destruct He as [He _]. apply orb_false_iff in He. destruct He as [_ He2].
    assert (Hseen : forall k, In k (members c n) -> fvr c k = false -> In k (seen (Rn s n))).
    { intros k Hk Hv. pose proof (Eall k Hk) as Hkd. rewrite Hv in Hkd. cbn [orb] in Hkd.
      assert (Hni : st (Jb s k) <> Idle) by (intro E; rewrite E in Hkd; discriminate).
      destruct (b_cover c s I5 n k (or_introl Ep) Hk Hni) as [Hp|Hsn]; [exfalso|exact Hsn].
      assert (Hx : existsb (jfin s) (pend (Rn s n)) = true).
      { apply existsb_exists. exists k. split; [exact Hp|]. unfold jfin. apply done_finished0. exact Hkd. }
      congruence. }
    assert (Hsub : forall x, In x (seen (Rn s n)) -> In x (members c n)).
    { intros x Hx. apply (b_seen_done c s I5 n x Hx). }
    assert (Hcnt : nonforever c (seen (Rn s n)) = nfinite c n).
    { unfold nfinite. apply Nat.le_antisymm.
      - apply (nonforever_incl c); [apply (b_seen_nd c s I5)|exact Hsub].
      - unfold nonforever. apply NoDup_incl_length; [apply NoDup_filter; apply NoDup_members|].
        intros x Hx. apply filter_In in Hx. destruct Hx as [Hx1 Hx2]. apply filter_In. split; [|exact Hx2].
        apply (Hseen x Hx1). apply negb_true_iff in Hx2. exact Hx2. }
    assert (Hne : members c n <> []).
    { apply (p_members c s IP n); rewrite Ep; discriminate. }
    assert (Hnf : nfinite c n <> 0).
    { destruct (plain_sched c P n Hn Hs) as (_ & _ & Hm). destruct (Hm Hne) as (m & Hm1 & Hm2).
      unfold nfinite, nonforever. intro E. apply length_zero_iff_nil in E.
      assert (Hin : In m (filter (fun j => negb (j_forever (jc c j))) (members c n))).
      { apply filter_In. split; [exact Hm1|]. unfold fvr in Hm2. rewrite Hm2. reflexivity. }
      rewrite E in Hin. destruct Hin. }
    apply (b_open c s I5 n (or_introl Ep) Hnf). rewrite <- Hcnt. apply (b_count c s I5 n). left. exact Ep.
  Qed.

  (* an idle job of a quiescent main loop waits for a requirement that is not done *)
  Lemma idle_has_undone_req n x : n < njobs c -> j_sched (jc c n) = true -> ph (Rn s n) = PMain ->
    In x (members c n) -> st (Jb s x) = Idle ->
    exists r, In r (reqs c x) /\ is_done (st (Jb s r)) = false.
  Proof.
    intros Hn Hs Ep Hx Est.
    destruct (b_eager c s I5 n x Ep Hx Est) as (r & Hr1 & Hr2).
    exists r. split; [exact Hr1|].
    destruct (is_done (st (Jb s r))) eqn:Ed; [exfalso|reflexivity].
    pose proof (proj1 (In_members c n x) Hx) as (Hxl & Hpar & Hx0).
    destruct (wf_reqs c x r W Hxl Hx0 Hr1) as (Hrx & Hrp & Hr0).
    assert (Hrm : In r (members c n)) by (apply In_members; repeat split; [lia|congruence|exact Hr0]).
    assert (Hni : st (Jb s r) <> Idle) by (intro E; rewrite E in Ed; discriminate).
    destruct (b_cover c s I5 n r (or_introl Ep) Hrm Hni) as [Hp|Hsn]; [|contradiction].
    pose proof (quiescent_run c s n Hq Hn Hs) as He. unfold run_enabled in He. rewrite Ep in He.
    apply orb_false_iff in He. destruct He as [He _]. apply orb_false_iff in He. destruct He as [_ He].
    assert (Hex : existsb (jfin s) (pend (Rn s n)) = true).
    { apply existsb_exists. exists r. split; [exact Hp|]. unfold jfin. apply done_finished0. exact Ed. }
    congruence.
  Qed.

  (* a job that is still live belongs to a scheduler in its main loop -- or is being cancelled *)
  Lemma quiet_running_main x : x < njobs c -> x <> 0 -> st (Jb s x) = Running -> ph (Rn s (parent c x)) = PMain.
  Proof.
    intros Hx H0 Est.
    assert (Hm : In x (members c (parent c x))) by (apply In_members; auto).
    assert (Hl : live (st (Jb s x)) = true) by (rewrite Est; reflexivity).
    pose proof (l_pend c s I7 _ x Hm Hl) as Hin.
    destruct (f_ph c Sb Ef s SC (parent c x)) as [E|[E|[E|[E|E]]]]; [exfalso|exact E|exfalso|exfalso|exfalso].
    - rewrite (i_idle c s I1 _ x Hm E) in Est. discriminate.
    - assert (Hex : exiting (ph (Rn s (parent c x)))) by (left; exists WSuccess; exact E).
      destruct (d_pend c s I6 _ x Hex Hin) as [[H|[H|[H|(_ & Hzs & [H|H])]]] _].
      + rewrite (quiet_no_cp x Hx) in H. discriminate.
      + rewrite Est in H. discriminate.
      + rewrite Est in H. discriminate.
      + destruct (f_ph c Sb Ef s SC x) as [E1|[E1|[E1|[E1|E1]]]]; rewrite E1 in H; discriminate.
      + rewrite (f_rc c Sb Ef s SC x) in H. discriminate.
    - assert (Hqp : quiet_ph (ph (Rn s (parent c x)))) by (left; exists WSuccess; exact E).
      pose proof (l_fin c s I7 _ x Hqp Hin) as Hf. rewrite Est in Hf. discriminate.
    - assert (Hqp : quiet_ph (ph (Rn s (parent c x)))) by (right; exact E).
      pose proof (l_fin c s I7 _ x Hqp Hin) as Hf. rewrite Est in Hf. discriminate.
  Qed.

  (* ---------- the clock is about to move to t ---------- *)
  Variable t : N.
  Hypothesis Hlt : (now s < t)%N.
  Hypothesis Hdl : forall d, In d (deadlines c s) -> (t <= d)%N.

  Lemma tick_running_atomic z : z < njobs c -> z <> 0 -> j_sched (jc c z) = false -> cut c Sb Ef z = false ->
    st (Jb s z) = Running -> (t <= Ef z)%N.
  Proof.
    intros Hz H0 Ha Hc Hst. pose proof (uncut_job z Hz H0 Hc) as H. unfold on_schedule in H. rewrite Hst in H.
    destruct H as (_ & Hle & Ht). specialize (Ht Ha).
    destruct (N.eq_dec (now s) (Ef z)) as [E|E].
    - exfalso. pose proof (quiescent_job c s z Hq Hz) as Hen. unfold job_enabled in Hen. cbn zeta in Hen.
      rewrite Hst, Ha, Ht in Hen. cbn [opt_le_now] in Hen.
      assert (Ho : N.leb (Ef z) (now s) = true) by (apply N.leb_le; lia).
      rewrite Ho, orb_true_r in Hen. discriminate.
    - apply Hdl. apply (In_deadlines_job c s z (Ef z) Hz Ha (or_introl Hst) Ht). lia.
  Qed.

  Lemma tick_cancelling z : z < njobs c -> z <> 0 -> st (Jb s z) = Cancelling -> (t <= Ef z)%N.
  Proof.
    intros Hz H0 Hst. pose proof (cancel_is_cut z Hz H0 (or_introl Hst)) as Hc.
    destruct (cut_spec _ _ _ _ Hc) as (Ha & _).
    pose proof (f_job c Sb Ef s SC z Hz H0) as H. unfold on_scheduleF in H. rewrite Hc, Hst in H.
    destruct H as (_ & Hle & Ht).
    destruct (N.eq_dec (now s) (Ef z)) as [E|E].
    - exfalso. pose proof (quiescent_job c s z Hq Hz) as Hen. unfold job_enabled in Hen. cbn zeta in Hen.
      rewrite Hst, Ht in Hen. cbn [opt_le_now] in Hen.
      assert (Ho : N.leb (Ef z) (now s) = true) by (apply N.leb_le; lia).
      rewrite Ho, orb_true_r in Hen. discriminate.
    - apply Hdl. apply (In_deadlines_job c s z (Ef z) Hz Ha (or_intror Hst) Ht). lia.
  Qed.

  (* a tidy phase does not last longer than tidy_len *)
  Lemma tick_tidy n : n < njobs c -> j_sched (jc c n) = true -> ph (Rn s n) = PTidy WSuccess ->
    (t <= MT c Sb Ef n)%N.
  Proof.
    intros Hn Hs Ep. destruct (quiet_tidy n Hn Hs Ep) as (z & Hz & Hc & Hst).
    pose proof (proj1 (In_members c n z) Hz) as (Hzl & Hzp & Hz0).
    pose proof (tick_cancelling z Hzl Hz0 Hst) as H1. rewrite (Ef_cut c Sb Ef HS z Hzl Hc), Hzp in H1.
    pose proof (cdurN_le_tidy c Sb Ef n z Hz) as H2. unfold cdurN in H2. rewrite Hc in H2.
    unfold MT. lia.
  Qed.

  (* a shutdown phase does not last longer than shut_len *)
  Lemma tick_shut n : n < njobs c -> j_sched (jc c n) = true -> ph (Rn s n) = PShut WSuccess ->
    (t <= MT c Sb Ef n + shut_len c n)%N.
  Proof.
    intros Hn Hs Ep. destruct (quiet_shut n Hn Hs Ep) as (Ew & Hsdl & z & Hz & Hza & Hzr & Hzc & Hze).
    destruct (f_shut c Sb Ef s SC n Ep) as (HM1 & HM2 & Hw & _ & Hh). specialize (Hw Ew).
    pose proof (Hh z Hz Hza) as Hz'. unfold hd_ok in Hz'. rewrite Hzr in Hz'. destruct Hz' as [Hend _].
    pose proof (proj1 (In_members c n z) Hz) as (Hzl & _ & _).
    assert (H1 : (t <= MT c Sb Ef n + sdurN c z)%N).
    { rewrite Hend in Hze. cbn [opt_le_now] in Hze. apply N.leb_gt in Hze.
      apply Hdl. apply (In_deadlines_handler c s z _ Hzl Hza Hzr Hend Hze). }
    assert (H2 : (sdurN c z <= maxl 0%N (map (sdurN c) (members c n)))%N) by (apply maxl_ge_in; apply in_map; exact Hz).
    unfold shut_len. destruct (j_sdto (jc c n)) as [to|] eqn:Eto; [|lia].
    cbn [optN_add] in Hw. rewrite Hw in Hsdl. cbn [opt_le_now] in Hsdl. apply N.leb_gt in Hsdl.
    assert (H3 : (t <= MT c Sb Ef n + to)%N).
    { apply Hdl. apply (In_deadlines_sd c s n _ (proj2 (sched_id_iff c n) (conj Hs Hn)) Ew Hw Hsdl). }
    lia.
  Qed.

  (* the non-forever jobs below a scheduler in its main loop *)
  Lemma tick_level : forall fuel p, njobs c - p < fuel -> p < njobs c -> j_sched (jc c p) = true ->
    ph (Rn s p) = PMain ->
    forall z, In z (members c p) -> fvr c z = false -> is_done (st (Jb s z)) = false ->
      (t <= Ef z)%N /\ (st (Jb s z) = Idle \/ st (Jb s z) = Created -> (t <= Sb z)%N).
  Proof.
    induction fuel as [|fuel IHf]; intros p Hf Hp Hps Epm; [lia|].
    intros z. induction z as [z IHz] using lt_wf_ind. intros Hz Hzv Hnd.
    pose proof (proj1 (In_members c p z) Hz) as (Hzl & Hzp & Hz0).
    pose proof (nf_uncut z Hzv) as Hzc.
    destruct (st_cases z Hzl Hz0) as [Est|[Est|[Est|[Est|[Est _]]]]].
    - destruct (idle_has_undone_req p z Hp Hps Epm Hz Est) as (r & Hr1 & Hr2).
      destruct (wf_reqs c z r W Hzl Hz0 Hr1) as (Hrz & Hrp & Hr0).
      assert (Hrm : In r (members c p)) by (apply In_members; repeat split; [lia|congruence|exact Hr0]).
      destruct (IHz r Hrz Hrm (reqs_not_forever c P z r Hzl Hr1) Hr2) as [Hr _].
      pose proof (Sb_ge_req c Sb Ef HS z r Hzl Hz0 Hr1) as H1.
      pose proof (Ef_ge_Sb c Sb Ef HS NT z Hzl) as H2.
      split; [lia|intros _; lia].
    - exfalso. apply (quiet_not_created z Hzl Hz0 Est).
    - split; [|intros [E|E]; rewrite E in Est; discriminate].
      destruct (j_sched (jc c z)) eqn:Ezs.
      + destruct (running_main_or_exit z Hz0 Ezs Est) as [Epz|[E|E]].
        * destruct (main_has_undone z Hzl Ezs Epz) as (m & Hm & Hmv & Hmd).
          destruct (wf_parent c z W Hzl Hz0) as [Hpl _]. rewrite Hzp in Hpl.
          destruct (IHf z) with (z := m) as [Hr _]; [lia|exact Hzl|exact Ezs|exact Epz|exact Hm|exact Hmv|exact Hmd|].
          pose proof (Ef_ge_member c Sb Ef HS z m Hzl Ezs Hm Hmv). lia.
        * pose proof (tick_tidy z Hzl Ezs E). pose proof (MT_le_Ef c Sb Ef HS z Hzl Ezs). lia.
        * rewrite (Ef_sched c Sb Ef HS z Hzl Ezs). apply (tick_shut z Hzl Ezs E).
      + apply (tick_running_atomic z Hzl Hz0 Ezs Hzc Est).
    - rewrite Est in Hnd. discriminate.
    - rewrite Hzc in Est. discriminate.
  Qed.

  (* every job of a scheduler in its main loop *)
  Lemma tick_member p z : p < njobs c -> j_sched (jc c p) = true -> ph (Rn s p) = PMain ->
    In z (members c p) -> finished (st (Jb s z)) = false ->
    (t <= Ef z)%N /\ (st (Jb s z) = Idle \/ st (Jb s z) = Created -> (t <= Sb z)%N) /\
    (cut c Sb Ef z = true -> (t <= MF c Sb Ef p)%N).
  Proof.
    intros Hp Hps Epm Hz Hnf.
    pose proof (proj1 (In_members c p z) Hz) as (Hzl & Hzp & Hz0).
    assert (HL : forall z, In z (members c p) -> fvr c z = false -> is_done (st (Jb s z)) = false ->
                   (t <= Ef z)%N /\ (st (Jb s z) = Idle \/ st (Jb s z) = Created -> (t <= Sb z)%N)).
    { apply (tick_level (S (njobs c)) p); [lia|exact Hp|exact Hps|exact Epm]. }
    assert (HMp : (t <= MF c Sb Ef p)%N).
    { destruct (main_has_undone p Hp Hps Epm) as (m & Hm & Hmv & Hmd).
      destruct (HL m Hm Hmv Hmd) as [H _].
      pose proof (MF_ge_member c Sb Ef p m Hm Hmv). lia. }
    destruct (fvr c z) eqn:Hzv.
    2:{ assert (Hnd : is_done (st (Jb s z)) = false).
        { destruct (is_done (st (Jb s z))) eqn:E; [|reflexivity]. rewrite (done_finished0 _ E) in Hnf. discriminate. }
        destruct (HL z Hz Hzv Hnd) as [H1 H2].
        split; [exact H1|]. split; [exact H2|]. intros Hc. rewrite (nf_uncut z Hzv) in Hc. discriminate. }
    pose proof (forever_atomic c P z Hzl Hz0 Hzv) as Hza.
    pose proof (Ef_ge_Sb c Sb Ef HS NT z Hzl) as Hse.
    split; [|split; [|intros _; exact HMp]].
    - destruct (st_cases z Hzl Hz0) as [Est|[Est|[Est|[Est|[Hc [Est|Est]]]]]].
      + destruct (idle_has_undone_req p z Hp Hps Epm Hz Est) as (r & Hr1 & Hr2).
        destruct (wf_reqs c z r W Hzl Hz0 Hr1) as (Hrz & Hrp & Hr0).
        assert (Hrm : In r (members c p)) by (apply In_members; repeat split; [lia|congruence|exact Hr0]).
        destruct (HL r Hrm (reqs_not_forever c P z r Hzl Hr1) Hr2) as [H1 _].
        pose proof (Sb_ge_req c Sb Ef HS z r Hzl Hz0 Hr1). lia.
      + exfalso. apply (quiet_not_created z Hzl Hz0 Est).
      + destruct (cut c Sb Ef z) eqn:Hc.
        * rewrite (Ef_cut c Sb Ef HS z Hzl Hc), Hzp. lia.
        * apply (tick_running_atomic z Hzl Hz0 Hza Hc Est).
      + rewrite (done_finished0 _ Est) in Hnf. discriminate.
      + apply (tick_cancelling z Hzl Hz0 Est).
      + rewrite Est in Hnf. discriminate.
    - intros Hst.
      assert (Est : st (Jb s z) = Idle).
      { destruct Hst as [E|E]; [exact E|]. exfalso. apply (quiet_not_created z Hzl Hz0 E). }
      destruct (idle_has_undone_req p z Hp Hps Epm Hz Est) as (r & Hr1 & Hr2).
      destruct (wf_reqs c z r W Hzl Hz0 Hr1) as (Hrz & Hrp & Hr0).
      assert (Hrm : In r (members c p)) by (apply In_members; repeat split; [lia|congruence|exact Hr0]).
      destruct (HL r Hrm (reqs_not_forever c P z r Hzl Hr1) Hr2) as [H1 _].
      pose proof (Sb_ge_req c Sb Ef HS z r Hzl Hz0 Hr1). lia.
  Qed.

  Hypothesis Hroot : ph (Rn s 0) <> PIdle.

  (* (A) a job that has not started will not start before t *)
  Lemma tick_unstarted : forall x, x < njobs c -> x <> 0 ->
    st (Jb s x) = Idle \/ st (Jb s x) = Created -> (t <= Sb x)%N.
  Proof.
    intros x. induction x as [x IH] using lt_wf_ind. intros Hx H0 Hst.
    destruct (wf_parent c x W Hx H0) as [Hpl Hps].
    assert (Hpn : parent c x < njobs c) by lia.
    assert (Hm : In x (members c (parent c x))) by (apply In_members; auto).
    assert (Hnf : finished (st (Jb s x)) = false) by (destruct Hst as [E|E]; rewrite E; reflexivity).
    assert (Hexit : ph (Rn s (parent c x)) = PTidy WSuccess \/ ph (Rn s (parent c x)) = PShut WSuccess \/
                    ph (Rn s (parent c x)) = POver -> False).
    { intros Hex. destruct (fvr c x) eqn:Hv.
      - destruct (exit_forever_started _ x Hpn Hps Hex Hm Hv) as [A B]. destruct Hst; contradiction.
      - pose proof (exit_members_done _ x Hex Hm Hv) as Hd. destruct Hst as [E|E]; rewrite E in Hd; discriminate. }
    destruct (f_ph c Sb Ef s SC (parent c x)) as [Ep|[Ep|[Ep|[Ep|Ep]]]]; try (exfalso; apply Hexit; auto; fail).
    - destruct (Nat.eq_dec (parent c x) 0) as [E0|E0]; [rewrite E0 in Ep; contradiction|].
      pose proof (IH (parent c x) Hpl Hpn E0 (idle_unstarted _ Hpn E0 Hps Ep)) as H1.
      pose proof (Sb_ge_parent c Sb Ef HS x Hx H0). lia.
    - destruct (tick_member (parent c x) x Hpn Hps Ep Hm Hnf) as (_ & H & _). apply H. exact Hst.
  Qed.

  (* (B) a job that is not finished will not be finished before t; a cut job that is running will
     not be cancelled before t *)
  Lemma tick_unfinished x : x < njobs c -> x <> 0 -> finished (st (Jb s x)) = false ->
    (t <= Ef x)%N /\ (cut c Sb Ef x = true -> st (Jb s x) = Running -> (t <= MF c Sb Ef (parent c x))%N).
  Proof.
    intros Hx H0 Hnf.
    destruct (wf_parent c x W Hx H0) as [Hpl Hps].
    assert (Hpn : parent c x < njobs c) by lia.
    assert (Hm : In x (members c (parent c x))) by (apply In_members; auto).
    pose proof (Ef_ge_Sb c Sb Ef HS NT x Hx) as Hse.
    destruct (st_cases x Hx H0) as [Est|[Est|[Est|[Est|[Hc [Est|Est]]]]]].
    - pose proof (tick_unstarted x Hx H0 (or_introl Est)). split; [lia|]. intros _ E. rewrite E in Est. discriminate.
    - pose proof (tick_unstarted x Hx H0 (or_intror Est)). split; [lia|]. intros _ E. rewrite E in Est. discriminate.
    - pose proof (quiet_running_main x Hx H0 Est) as Ep.
      destruct (tick_member (parent c x) x Hpn Hps Ep Hm Hnf) as (A & _ & B). split; [exact A|]. intros Hc _. apply B. exact Hc.
    - rewrite (done_finished0 _ Est) in Hnf. discriminate.
    - split; [apply (tick_cancelling x Hx H0 Est)|]. intros _ E. rewrite E in Est. discriminate.
    - rewrite Est in Hnf. discriminate.
  Qed.
End State.

(* ------------------------------------------------------------------ the clock moves *)

Lemma tick_rootF c Sb Ef s e s' : step 3 c s e = Some s' -> is_tick e = true -> SchF c Sb Ef s ->
  ph (Rn s 0) <> PIdle.
Proof.
  intros Hs Ht SC Ep. destruct (step_inv _ _ _ _ _ Hs) as [_ Hg].
  destruct (f_root_idle c Sb Ef s SC Ep) as [Hi _].
  destruct e; try discriminate; cbn [forallb guards] in Hg; rewrite !andb_true_iff in Hg.
  - destruct Hg as (_ & _ & G & _). rewrite holds3 in G by lia.
    rewrite (idle_no_deadlines c s Hi) in G. discriminate.
  - destruct Hg as (_ & G & _). rewrite holds_0 in G. rewrite Ep in G. discriminate.
Qed.

Lemma SchF_tick c Sb Ef s e s' : wf c = true -> plainF c = true -> is_scheduleF c Sb Ef -> no_tieF c Sb Ef ->
  Std c s -> SchF c Sb Ef s -> step 3 c s e = Some s' -> is_tick e = true -> SchF c Sb Ef s'.
Proof.
  intros W P HS NT SD SC Hs Ht.
  pose proof (tick_rootF c Sb Ef s e s' Hs Ht SC) as Hroot.
  destruct (tick_guards 3 c s e s' (le_S 2 2 (le_n 2)) Hs Ht) as (EJ & EH & ER & ES & Hlt & Hq & Hdl).
  assert (HA : forall x, x < njobs c -> x <> 0 -> st (Jb s x) = Idle \/ st (Jb s x) = Created -> (now s' <= Sb x)%N)
    by (apply (tick_unstarted c Sb Ef s W P HS NT SD SC Hq (now s') Hlt Hdl Hroot)).
  assert (HB : forall x, x < njobs c -> x <> 0 -> finished (st (Jb s x)) = false ->
            (now s' <= Ef x)%N /\ (cut c Sb Ef x = true -> st (Jb s x) = Running -> (now s' <= MF c Sb Ef (parent c x))%N))
    by (apply (tick_unfinished c Sb Ef s W P HS NT SD SC Hq (now s') Hlt Hdl Hroot)).
  split.
  - intros x Hx H0. pose proof (f_job c Sb Ef s SC x Hx H0) as H. unfold on_scheduleF, on_schedule in *. rewrite EJ.
    destruct (cut c Sb Ef x) eqn:Ec; cbn zeta in *; destruct (st (Jb s x)) eqn:Est; try exact H; try lia;
      try (apply (HA x Hx H0); rewrite Est; auto; fail).
    + destruct H as (A & B & C). destruct (HB x Hx H0) as [_ H2]; [rewrite Est; reflexivity|].
      split; [lia|]. split; [apply H2; [exact Ec|exact Est]|exact C].
    + destruct H as (A & B & C). destruct (HB x Hx H0) as [H1 _]; [rewrite Est; reflexivity|].
      split; [lia|]. split; [exact H1|exact C].
    + destruct H as (A & B & C). destruct (HB x Hx H0) as [H1 _]; [rewrite Est; reflexivity|].
      split; [lia|]. split; [exact H1|exact C].
  - rewrite EJ, ER. apply (f_cp c Sb Ef s SC).
  - rewrite ER. apply (f_rc c Sb Ef s SC).
  - rewrite ER. apply (f_ph c Sb Ef s SC).
  - rewrite ER. intros E. contradiction.
  - rewrite ER. intros E. pose proof (f_root_over c Sb Ef s SC E). lia.
  - rewrite ER, EJ. apply (f_over_done c Sb Ef s SC).
  - rewrite ER, ES. apply (f_over_did c Sb Ef s SC).
  - rewrite EH. apply (f_hr c Sb Ef s SC).
  - rewrite ER, ES. apply (f_did c Sb Ef s SC).
  - intros x. unfold crit_exc. rewrite EJ. apply (f_nce c Sb Ef s SC x).
  - rewrite ER. apply (f_expi c Sb Ef s SC).
  - rewrite ER. intros n Hn Hsn Ep.
    destruct (main_has_undone c s P SD Hq n Hn Hsn Ep) as (m & Hm & Hmv & Hmd).
    pose proof (proj1 (In_members c n m) Hm) as (Hml & _ & Hm0).
    assert (Hnf : finished (st (Jb s m)) = false).
    { destruct (finished (st (Jb s m))) eqn:E; [exfalso|reflexivity].
      destruct (st (Jb s m)) eqn:Est; try discriminate.
      pose proof (cancel_is_cut c Sb Ef s SC m Hml Hm0 (or_intror Est)) as Hc.
      rewrite (nf_uncut c Sb Ef m Hmv) in Hc. discriminate. }
    destruct (HB m Hml Hm0 Hnf) as [H1 _]. pose proof (MF_ge_member c Sb Ef n m Hm Hmv). lia.
  - rewrite ER. intros n Ep. destruct (f_tidy c Sb Ef s SC n Ep) as [A B].
    assert (Hsi : sched_id c n = true) by (apply (t_validr c s (sd_T c s SD)); rewrite Ep; discriminate).
    apply sched_id_iff in Hsi. destruct Hsi as [Hsn Hn].
    split; [lia|]. eapply tick_tidy; eauto.
  - rewrite ER. intros n Ep. destruct (f_shut c Sb Ef s SC n Ep) as (A & B & C & D & F).
    assert (Hsi : sched_id c n = true) by (apply (t_validr c s (sd_T c s SD)); rewrite Ep; discriminate).
    apply sched_id_iff in Hsi. destruct Hsi as [Hsn Hn].
    assert (Hle : (now s <= now s')%N) by lia.
    unfold shutF. rewrite ES. split; [lia|]. split.
    { eapply tick_shut; eauto. }
    split; [exact C|]. split; [intros H; apply (late_mono c _ s s' n Hle (D H))|].
    intros x Hx Hxa. pose proof (F x Hx Hxa) as Hh. unfold hd_ok in *. rewrite EH.
    destruct (hs (Hd s x)) eqn:Ehx.
    + exact I.
    + exfalso. pose proof (proj1 (In_members c n x) Hx) as (Hxl & _ & _).
      pose proof (quiescent_handler c s x Hq Hxl) as Hen. unfold handler_enabled in Hen. rewrite Ehx in Hen. discriminate.
    + destruct Hh as [H1 H2]. split; [exact H1|]. intros H. apply (late_mono c _ s s' n Hle (H2 H)).
    + lia.
    + apply (late_mono c _ s s' n Hle Hh).
Qed.

(* ------------------------------------------------------------------ two more facts about single events *)

(* a cancel request appears only at the exit wake of a main loop (or when a run is cancelled) *)
Lemma cancel_event lvl c s e s' x : step lvl c s e = Some s' -> cp (Jb s' x) = true ->
  Jb s' x = Jb s x \/
  (exists n d o, e = EWake n KMain d o /\ In x (pend (Rn s n)) /\ ph (Rn s n) = PMain /\
                 ph (Rn s' n) <> PMain /\ ph (Rn s' n) <> PIdle) \/
  (exists n k o, e = ECancelled n k o /\ j_sched (jc c n) = true /\ cp (Jb s n) = true).
Proof.
  intros Hs Hcp. destruct (RTerm.cp_raiser e) eqn:Er.
  2:{ destruct (RTerm.step_nr lvl c s e s' Hs Er x) as [H|H]; [left; exact H|congruence]. }
  destruct (step_inv _ _ _ _ _ Hs) as [Es' Hg].
  destruct e as [n o|n k d o|n k o|n o|j|j oc|j|j|j|j|j|j|j|j|t|t|jv sv]; try discriminate.
  - destruct k; try discriminate. cbn [reaction fst] in Es'. split_guards Hg.
    assert (Hph : ph (Rn s n) = PMain) by (destruct (ph (Rn s n)); try discriminate; reflexivity).
    pose proof (RTerm.Jb_react_main_cases c n d s x) as H. cbn zeta in H. rewrite <- Es' in H.
    destruct H as [H|[H|[H1 H2]]]; [left; exact H|congruence|].
    right. left. exists n, d, o. split; [reflexivity|]. split; [exact H1|]. split; [exact Hph|].
    unfold RTerm.mb in H2. split; intro E; rewrite E in H2; discriminate.
  - right. right. exists n, k, o. split; [reflexivity|].
    destruct k; try discriminate; split_guards Hg;
      destruct (run_alive_true _ _ _ G) as (A & _ & _ & _ & B); auto.
Qed.

(* the cancellation handler of an atomic job ends at its deadline *)
Lemma cancel_end_at c s e s' x : Inv8 c s -> step 3 c s e = Some s' -> subject e x -> j_sched (jc c x) = false ->
  st (Jb s x) = Cancelling -> cp (Jb s x) = false -> tend (Jb s x) = Some (now s).
Proof.
  intros I8 Hs Hsub Ha Hst Hcp. destruct (step_inv _ _ _ _ _ Hs) as [_ Hg].
  assert (Hns : sched_id c x = true -> False).
  { intros H. apply sched_id_iff in H. destruct H as [H _]. congruence. }
  assert (Hact : sd_active (sp (Sd s x)) -> False).
  { intros H. apply Hns. apply (k_valid c s I8). apply (active_did c s x I8 H). }
  destruct e as [n o|n k d o|n k o|n o|j|j oc|j|j|j|j|j|j|j|j|t|t|jv sv]; cbn [subject] in Hsub;
    try contradiction; subst x.
  - exfalso. split_guards Hg. auto.
  - exfalso. destruct k; split_guards Hg; rewrite ?holds3 in * by lia.
    + destruct (run_alive_false _ _ _ G) as (H & _). congruence.
    + destruct (run_alive_false _ _ _ G) as (H & _). congruence.
    + destruct (run_alive_false _ _ _ G) as (H & _). congruence.
    + apply Hact. left. destruct (sp (Sd s n)); try discriminate. reflexivity.
    + apply Hact. right. destruct (sp (Sd s n)); try discriminate. reflexivity.
  - exfalso. destruct k; split_guards Hg; rewrite ?holds3 in * by lia.
    + destruct (run_alive_true _ _ _ G) as (H & _). congruence.
    + destruct (run_alive_true _ _ _ G) as (H & _). congruence.
    + destruct (run_alive_true _ _ _ G) as (H & _). congruence.
    + apply Hact. destruct (sp (Sd s n)); try discriminate. left. reflexivity.
    + apply Hact. destruct (sp (Sd s n)); try discriminate. right. reflexivity.
  - exfalso. split_guards Hg. rewrite Hst in G0. discriminate.
  - exfalso. split_guards Hg. rewrite Hst in G0. discriminate.
  - exfalso. split_guards Hg. rewrite Hst in G0. discriminate.
  - split_guards Hg. rewrite ?holds3 in * by lia.
    match goal with G : opt_eq_now s (tend (Jb s j)) = true |- _ =>
      unfold opt_eq_now in G; destruct (tend (Jb s j)) as [d|]; [|discriminate];
      apply N.eqb_eq in G; subst d; reflexivity end.
  - exfalso. split_guards Hg. rewrite Hst, Hcp in G0. discriminate.
  - exfalso. split_guards Hg. rewrite Hst in G0. discriminate.
Qed.

(* ------------------------------------------------------------------ a step that is not a clock event *)

Section Step.
  Variables (c : cfg) (Sb Ef : nat -> N) (s s' : state) (e : event).
  Hypothesis W : wf c = true.
  Hypothesis P : plainF c = true.
  Hypothesis HS : is_scheduleF c Sb Ef.
  Hypothesis NT : no_tieF c Sb Ef.
  Hypothesis SL : slackF c Sb Ef.
  Hypothesis SD : Std c s.
  Hypothesis SD' : Std c s'.
  Hypothesis SC : SchF c Sb Ef s.
  Hypothesis Hs : step 3 c s e = Some s'.
  Hypothesis Ht : is_tick e = false.

  Let IE := sd_E c s SD.
  Let ID := ie_d c s IE.
  Let I8 := ie_8 c s IE.
  Let IC := id_c c s ID.
  Let I1 := ic_1 c s IC.
  Let I3 := ic_3 c s IC.
  Let I4 := ic_4 c s IC.
  Let I5 := ic_5 c s IC.
  Let I7 := id_7 c s ID.
  Let I2 := sd_2 c s SD.
  Let IT := sd_T c s SD.
  Let IT3 := sd_T3 c s SD.
  Let IE' := sd_E c s' SD'.
  Let ID' := ie_d c s' IE'.
  Let IC' := id_c c s' ID'.
  Let I1' := ic_1 c s' IC'.
  Let I5' := ic_5 c s' IC'.
  Let I7' := id_7 c s' ID'.
  Let IT' := sd_T c s' SD'.
  Let En := now_step 3 c s e s' W Hs Ht.
  Let HJ := J_effect 3 c s e s' W (i_pend c s I1) Hs.
  Let HR := R_effect 3 c s e s' W (i_pend c s I1) Hs.
  Let HH := HS_effect 3 c s e s' W I1 (le_n 3) Hs.

  Let Hrc := f_rc c Sb Ef s SC.
  Let Hok := f_ph c Sb Ef s SC.

  Lemma not_pctidy n : ph (Rn s n) <> PCTidy.
  Proof. intro E. destruct (Hok n) as [H|[H|[H|[H|H]]]]; rewrite H in E; discriminate. Qed.

  Lemma shut_success n w : ph (Rn s n) = PShut w -> w = WSuccess.
  Proof. intro E. destruct (Hok n) as [H|[H|[H|[H|H]]]]; rewrite H in E; try discriminate. inversion E. reflexivity. Qed.

  (* a pending cancel request sits on an atomic job: never on a job whose run has begun *)
  Lemma begun_no_cp n : ph (Rn s n) <> PIdle -> cp (Jb s n) = false.
  Proof.
    intros Hp. apply (sched_no_cp c Sb Ef s SC).
    pose proof (t_validr c s IT n Hp) as Hsi. apply sched_id_iff in Hsi. tauto.
  Qed.

  (* a run ends only at the end of its inline shutdown, or at once when it has no job *)
  Lemma over_step n : ph (Rn s n) <> POver -> ph (Rn s' n) = POver ->
    (ph (Rn s n) = PIdle /\ members c n = []) \/ ph (Rn s n) = PShut WSuccess.
  Proof.
    intros Hn Ho. destruct (over_from 3 c s e s' n W I1 Hs Hn Ho) as [H|[[w H]|[[_ H]|[H|H]]]].
    - left. exact H.
    - right. rewrite H. f_equal. apply (shut_success n w H).
    - exfalso. assert (Hsi : sched_id c n = true) by (apply (t_validr c s' IT'); rewrite Ho; discriminate).
      apply sched_id_iff in Hsi. destruct Hsi as [Hsn _]. rewrite (sched_no_cp c Sb Ef s SC n Hsn) in H. discriminate.
    - rewrite Hrc in H. discriminate.
    - exfalso. apply (not_pctidy n H).
  Qed.

  Lemma phase_step n :
    ph (Rn s' n) = ph (Rn s n)
    \/ (ph (Rn s n) = PIdle /\ (ph (Rn s' n) = PMain \/ (ph (Rn s' n) = POver /\ members c n = [])))
    \/ (ph (Rn s n) = PMain /\ (ph (Rn s' n) = PTidy WSuccess \/ ph (Rn s' n) = PShut WSuccess))
    \/ (ph (Rn s n) = PTidy WSuccess /\ ph (Rn s' n) = PShut WSuccess)
    \/ (ph (Rn s n) = PShut WSuccess /\ ph (Rn s' n) = POver).
  Proof.
    destruct (phase_eq_dec (ph (Rn s' n)) (ph (Rn s n))) as [Eq|Neq]; [left; exact Eq|right].
    destruct (HR n) as [Hq _|Hact Hpre Hpost Hph _ _ _ _ _ _ _ _ _ _|Hact A1 A2 A3 Apost A4 A5 A6 A7 A8].
    - destruct Hq as (Hq & _). contradiction.
    - left.
      assert (Ei : ph (Rn s n) = PIdle).
      { destruct (rootb n) eqn:Er; [exact Hpre|]. apply rootb_false in Er. apply (i_l1 c s I1 n Er). right. exact Hpre. }
      split; [exact Ei|]. destruct Hph as [H|H]; [left; exact H|right]. split; [exact H|].
      destruct (over_step n) as [[_ Hm]|Hsh]; [rewrite Ei; discriminate|exact H|exact Hm|rewrite Ei in Hsh; discriminate].
    - destruct A7 as [K|(Hpm & d & Hd1 & Hd2 & U)].
      + destruct K as (K1 & K2 & K3 & K4 & K5 & K6 & K7 & K8 & _).
        destruct (Hok n) as [E|[E|[E|[E|E]]]].
        * contradiction.
        * exfalso. destruct (K6 E) as [H|H].
          -- destruct (A6 (or_introl H)) as [[H1|H1]|H1].
             ++ apply (not_pctidy n H1).
             ++ rewrite Hrc in H1. discriminate.
             ++ rewrite (begun_no_cp n A2) in H1. discriminate.
          -- destruct (over_step n) as [[H1 _]|H1]; [rewrite E; discriminate|exact H| |]; rewrite E in H1; discriminate.
        * destruct (K5 WSuccess E) as [H|[H|H]].
          -- exfalso. apply Neq. rewrite H, E. reflexivity.
          -- right. right. left. auto.
          -- exfalso. destruct (over_step n) as [[H1 _]|H1]; [rewrite E; discriminate|exact H| |]; rewrite E in H1; discriminate.
        * destruct (K4 WSuccess E) as [H|H]; [exfalso; apply Neq; rewrite H, E; reflexivity|].
          right. right. right. auto.
        * contradiction.
      + unfold main_upd in U. cbn zeta in U. destruct U as (U1 & U2 & UF & U3).
        destruct U3 as [(w & Hw & Hp & Hsh & Hcj & Hm)|(Hm & _)].
        2:{ exfalso. apply Neq. rewrite Hm, Hpm. reflexivity. }
        destruct w.
        * right. left. split; [exact Hpm|]. destruct Hw; auto.
        * exfalso.
          assert (Hto : tmo_ph (ph (Rn s' n))) by (destruct Hw as [H|H]; rewrite H; [left|right]; reflexivity).
          (* the timeout would have to fire: but the main loop is scheduled to end strictly earlier *)
          destruct (timeout_from c s e s' n Hs Hto) as [Ht0|(_ & x & Hx & Hle)].
          { destruct Ht0 as [H|H]; rewrite Hpm in H; discriminate. }
          assert (Hsi : sched_id c n = true) by (apply (t_validr c s IT); rewrite Hpm; discriminate).
          apply sched_id_iff in Hsi. destruct Hsi as [Hsn Hnl].
          rewrite (f_expi c Sb Ef s SC n Hpm) in Hx.
          destruct (j_timeout (jc c n)) as [T|] eqn:ET; [|discriminate]. cbn [optN_add] in Hx. injection Hx as Hx.
          pose proof (SL n T Hnl Hsn ET) as Hsl.
          pose proof (f_mainM c Sb Ef s SC n Hnl Hsn Hpm) as Hnow.
          lia.
        * exfalso. destruct Hm as (_ & Hm & _). apply existsb_exists in Hm. destruct Hm as (x & _ & Hx).
          rewrite (f_nce c Sb Ef s SC x) in Hx. discriminate.
  Qed.

  Lemma idle_back_ph n : ph (Rn s' n) = PIdle -> ph (Rn s n) = PIdle.
  Proof.
    intros Ep. destruct (phase_step n) as [H|[(H & _)|[(_ & [H|H])|[(_ & H)|(_ & H)]]]];
      try (rewrite H in Ep; discriminate).
    - rewrite <- H. exact Ep.
    - exact H.
  Qed.

  Lemma step_ph n : okph (ph (Rn s' n)).
  Proof.
    unfold okph. destruct (phase_step n) as [H|[(_ & [H|[H _]])|[(_ & [H|H])|[(_ & H)|(_ & H)]]]]; rewrite H; auto.
    apply Hok.
  Qed.

  Lemma step_rc n : rcanc (Rn s' n) = false.
  Proof.
    destruct (HR n) as [Hq _|Hact Hpre Hpost Hph _ _ _ _ _ _ _ Hrc' _ _|Hact A1 A2 A3 Apost A4 A5 A6 A7 A8].
    - destruct Hq as (_ & _ & _ & _ & _ & _ & _ & _ & Hq). rewrite Hq. apply Hrc.
    - exact Hrc'.
    - destruct (rcanc (Rn s' n)) eqn:E; [exfalso|reflexivity].
      destruct (A6 (or_intror eq_refl)) as [[H1|H1]|H1].
      + apply (not_pctidy n H1).
      + rewrite Hrc in H1. discriminate.
      + rewrite (begun_no_cp n A2) in H1. discriminate.
  Qed.

  Lemma created_Sb x : x < njobs c -> x <> 0 -> st (Jb s x) = Created -> (Sb x <= now s)%N.
  Proof.
    intros Hx H0 Est. destruct (wf_parent c x W Hx H0) as [Hpl Hps].
    assert (Hncp : cp (Jb s x) = false) by (apply (not_running_no_cp c Sb Ef s SC); rewrite Est; discriminate).
    apply (Sb_le c Sb Ef HS x (now s) Hx H0).
    - apply (begun_Sb c Sb Ef s HS NT SD SC (parent c x)); [lia|exact Hps|].
      rewrite (created_clean_in_main c s x W ID H0 Hx Est Hncp). discriminate.
    - intros r Hr. destruct (wf_reqs c x r W Hx H0 Hr) as (Hrx & _ & Hr0).
      apply (done_Ef c Sb Ef s SC r); [lia|exact Hr0|].
      assert (Hg : all_done s (reqs c x) = true) by (apply (i_gate c s I1 x); rewrite Est; discriminate).
      unfold all_done in Hg. rewrite forallb_forall in Hg. apply Hg. exact Hr.
  Qed.

  Lemma step_expi n : ph (Rn s' n) = PMain -> expi (Rn s' n) = optN_add (Sb n) (j_timeout (jc c n)).
  Proof.
    intros Ep'. destruct (run_clock_step 3 c s e s' n Hs) as [[He Hi]|(o & Ee & He & Hv)].
    - rewrite He. destruct (main_from 3 c s e s' n W I1 Hs Ep') as [E|E].
      + apply (f_expi c Sb Ef s SC n E).
      + rewrite (Hi E) in Ep'. discriminate.
    - rewrite He. f_equal. apply sched_id_iff in Hv. destruct Hv as [Hsn Hnl].
      destruct (step_inv _ _ _ _ _ Hs) as [_ Hg]. rewrite Ee in Hg. split_guards Hg.
      destruct (Nat.eq_dec n 0) as [->|H0].
      + cbn [rootb Nat.eqb] in G0. destruct (ph (Rn s 0)) eqn:Ep; try discriminate.
        destruct (f_root_idle c Sb Ef s SC Ep) as [_ E0]. rewrite E0, (Sb_root c Sb Ef HS). reflexivity.
      + assert (Er : rootb n = false) by (apply rootb_false; exact H0). rewrite Er in G0.
        destruct (st (Jb s n)) eqn:Est; try discriminate.
        pose proof (created_Sb n Hnl H0 Est) as H1.
        pose proof (uncut_job c Sb Ef s SC n Hnl H0 (sched_uncut c Sb Ef n Hsn)) as Hj.
        unfold on_schedule in Hj. rewrite Est in Hj. lia.
  Qed.

  Lemma step_mainM n : n < njobs c -> j_sched (jc c n) = true -> ph (Rn s' n) = PMain ->
    (now s' <= MF c Sb Ef n)%N.
  Proof.
    intros Hn Hsn Hp'. rewrite En.
    destruct (phase_step n) as [H|[(H & _)|[(_ & [H|H])|[(_ & H)|(_ & H)]]]];
      try (rewrite H in Hp'; discriminate).
    - apply (f_mainM c Sb Ef s SC n Hn Hsn). rewrite <- H. exact Hp'.
    - pose proof (idle_Sb c Sb Ef s SD SC n Hn Hsn H). pose proof (MF_ge_Sb c Sb Ef n). lia.
  Qed.

  (* ---------- the end of a shutdown phase ---------- *)

  Lemma late_shut_len n M : late c M s n -> (M + shut_len c n <= now s)%N.
  Proof. intros (t & Hto & H). pose proof (shut_len_le_to c n t Hto). lia. Qed.

  Lemma maxl_bound (M : N) (f : nat -> N) (L : Prop) l : (M <= now s)%N ->
    (forall x, In x l -> (M + f x <= now s)%N \/ L) -> (M + maxl 0%N (map f l) <= now s)%N \/ L.
  Proof.
    intros HM. unfold maxl. induction l as [|a l IH]; intros H; cbn [map fold_right]; [left; lia|].
    destruct (H a (or_introl eq_refl)) as [H1|H1]; [|right; exact H1].
    destruct IH as [H2|H2]; [intros x Hx; apply H; right; exact Hx| |right; exact H2]. left. lia.
  Qed.

  (* a shutdown phase does not end before shut_len has elapsed *)
  Lemma finish_bound n : ph (Rn s n) = PShut WSuccess -> ph (Rn s' n) = POver ->
    (MT c Sb Ef n + shut_len c n <= now s)%N.
  Proof.
    intros Ep Ep'. destruct (f_shut c Sb Ef s SC n Ep) as (A & B & C & D & F).
    assert (Hin : sd_inline s n = true) by (unfold sd_inline; rewrite Ep; reflexivity).
    assert (Hin' : sd_inline s' n = false) by (unfold sd_inline; rewrite Ep'; reflexivity).
    assert (Hne : ph (Rn s' n) <> ph (Rn s n)) by (rewrite Ep, Ep'; discriminate).
    pose proof HH as H. hs_cases H.
    - rewrite hC in Hin'. congruence.
    - exfalso. destruct (Nat.eq_dec n n0) as [->|Hn]; [congruence|apply Hne; apply hO; exact Hn].
    - exfalso. apply Hne. apply hO.
    - destruct (Nat.eq_dec n n0) as [->|Hn]; [|exfalso; apply Hne; apply hO; exact Hn].
      assert (Hall : forall x, In x (members c n0) ->
                (MT c Sb Ef n0 + sdurN c x <= now s)%N \/ late c (MT c Sb Ef n0) s n0).
      { intros x Hx. destruct (j_sched (jc c x)) eqn:Ea.
        - left. unfold sdurN. rewrite Ea. lia.
        - pose proof (F x Hx Ea) as Hh. pose proof (hF x Hx) as Hf. unfold hfin in Hf. unfold hd_ok in Hh.
          destruct (hs (Hd s x)); try discriminate; auto. }
      destruct (maxl_bound _ (sdurN c) _ (members c n0) A Hall) as [H1|H1].
      + pose proof (shut_len_le_d c n0). lia.
      + apply late_shut_len. exact H1.
    - exfalso. apply Hne. apply hO.
    - destruct (Nat.eq_dec n n0) as [->|Hn]; [|exfalso; apply Hne; apply hO; exact Hn].
      apply late_shut_len. apply D. exact hSp.
    - exfalso. apply Hne. apply hO.
    - exfalso. apply Hne. apply hO.
  Qed.

  (* ---------- the jobs ---------- *)

  Lemma jeff_cancelled_sched_absurd x :
    st (Jb s x) = Running /\ j_sched (jc c x) = true /\
      (cp (Jb s x) = true \/ ph (Rn s x) = PCTidy \/ rcanc (Rn s x) = true) -> False.
  Proof.
    intros (_ & Hsx & [H|[H|H]]).
    - rewrite (sched_no_cp c Sb Ef s SC x Hsx) in H. discriminate.
    - apply (not_pctidy x H).
    - rewrite Hrc in H. discriminate.
  Qed.

  Lemma step_job_uncut x : x < njobs c -> x <> 0 -> cut c Sb Ef x = false -> on_schedule c Sb Ef s' x.
  Proof.
    intros Hx H0 Ec. pose proof (uncut_job c Sb Ef s SC x Hx H0 Ec) as IH. unfold on_schedule in *. rewrite En.
    destruct (HJ x)
      as [H|H1 H2|Hsub H1 H2 H3 H4 H5|H1 H2 H3 H4 H5 H6 H7|H1 H2 H3 H4 H5 H6|Hsub H1 H2 H3 H4 H5 H6|Hsub H1 H2 H3 H4 H5
         |Hsub H1 H2 H3 H4 H5 H6|Hsub H1 H2 H3 H4 H5 H6 H7|Hsub H1 H2|Hsub H1 H2 H3].
    - rewrite H. exact IH.
    - rewrite H1, cancel_j_st, cancel_j_tend. exact IH.
    - rewrite (sched_no_cp c Sb Ef s SC x H2) in H3. discriminate.
    - rewrite H2. cbn [st]. rewrite H1 in IH. exact IH.
    - rewrite H1. cbn [st]. rewrite (create_begin_idle c s x I1 H3 H4) in IH. exact IH.
    - rewrite H3. rewrite H1 in IH. pose proof (created_Sb x Hx H0 H1) as Hge.
      pose proof (Ef_ge_Sb c Sb Ef HS NT x Hx) as Hse.
      split; [lia|]. split; [lia|]. intros Ha. rewrite H6, Ha.
      destruct (uncut_dur c P Sb Ef x Hx H0 Ha Ec) as (d & Hd). rewrite Hd. cbn [optN_add]. f_equal.
      rewrite (Ef_plain c Sb Ef HS x Hx Ha Ec). unfold durN. rewrite Hd. lia.
    - rewrite H5. cbn [st]. pose proof (created_Sb x Hx H0 H1) as Hge.
      rewrite (Ef_sched c Sb Ef HS x Hx H3), (shut_len_empty c x H4).
      unfold MT, MF, tidy_len, nfmembers. rewrite H4. cbn. lia.
    - rewrite H1 in IH. destruct IH as (IA & IB & IC0).
      assert (Hgoal : (Ef x <= now s)%N).
      { destruct (j_sched (jc c x)) eqn:Ea.
        - assert (Ho' : ph (Rn s' x) = POver) by (apply (RSched.done_over c s' SD' x H0 Ea H3)).
          assert (Hno : ph (Rn s x) <> POver).
          { intro E. destruct (k_over c s I3 x H0 Ea E) as [Hf _]. rewrite H1 in Hf. discriminate. }
          destruct (over_step x Hno Ho') as [[Hi _]|Hsh].
          + exfalso. destruct (running_main_or_exit c Sb Ef s SD SC x H0 Ea H1) as [E|[E|E]]; rewrite E in Hi; discriminate.
          + rewrite (Ef_sched c Sb Ef HS x Hx Ea). apply (finish_bound x Hsh Ho').
        - pose proof (atomic_done_at c s e s' x I8 Hs Hsub Ea H1 H2) as Htd.
          rewrite (IC0 eq_refl) in Htd. injection Htd as Htd. lia. }
      destruct (st (Jb s' x)); try discriminate; exact Hgoal.
    - destruct (f_cp c Sb Ef s SC x H2) as (Hc & _). congruence.
    - exfalso. destruct H1 as [H1|H1]; [|apply (jeff_cancelled_sched_absurd x H1)].
      rewrite (cancel_is_cut c Sb Ef s SC x Hx H0 (or_introl H1)) in Ec. discriminate.
    - destruct (f_cp c Sb Ef s SC x H2) as (Hc & _). congruence.
  Qed.

  Lemma step_job_cut x : x < njobs c -> x <> 0 -> cut c Sb Ef x = true -> on_scheduleF c Sb Ef s' x.
  Proof.
    intros Hx H0 Ec. pose proof (f_job c Sb Ef s SC x Hx H0) as IH. unfold on_scheduleF in *. rewrite Ec in *.
    cbn zeta in *. rewrite En.
    destruct (cut_spec _ _ _ _ Ec) as (Ha & Hv & _ & _).
    pose proof (cut_before c Sb Ef NT x Hx Ec) as Hbef.
    pose proof (Ef_cut c Sb Ef HS x Hx Ec) as HE.
    destruct (HJ x)
      as [H|H1 H2|Hsub H1 H2 H3 H4 H5|H1 H2 H3 H4 H5 H6 H7|H1 H2 H3 H4 H5 H6|Hsub H1 H2 H3 H4 H5 H6|Hsub H1 H2 H3 H4 H5
         |Hsub H1 H2 H3 H4 H5 H6|Hsub H1 H2 H3 H4 H5 H6 H7|Hsub H1 H2|Hsub H1 H2 H3].
    - rewrite H. exact IH.
    - rewrite H1, cancel_j_st, cancel_j_tend. exact IH.
    - congruence.
    - rewrite H2. cbn [st]. rewrite H1 in IH. exact IH.
    - rewrite H1. cbn [st]. rewrite (create_begin_idle c s x I1 H3 H4) in IH. exact IH.
    - (* it starts, before the end of the main loop *)
      rewrite H3. rewrite H1 in IH. pose proof (created_Sb x Hx H0 H1) as Hge.
      split; [lia|]. split; [lia|]. rewrite H6, Ha. f_equal. lia.
    - congruence.
    - (* it cannot end by itself *)
      exfalso. rewrite H1 in IH. destruct IH as (IA & IB & IC0).
      pose proof (atomic_done_at c s e s' x I8 Hs Hsub Ha H1 H2) as Htd. rewrite IC0 in Htd.
      destruct (j_dur (jc c x)) as [d|] eqn:Ed; [|discriminate]. cbn [optN_add] in Htd. injection Htd as Htd.
      pose proof (cut_after c Sb Ef NT x d Hx Ec Ed). lia.
    - (* the cancellation reaches it, in the instant the main loop ends *)
      rewrite H4, H7. rewrite H1 in IH. destruct IH as (IA & IB & IC0).
      destruct (f_cp c Sb Ef s SC x H2) as (_ & _ & Hpt). destruct (f_tidy c Sb Ef s SC _ Hpt) as [HM _].
      split; [lia|]. split; [lia|]. f_equal. lia.
    - (* its cancellation handler ends, at its deadline *)
      destruct H1 as [H1|H1]; [|exfalso; apply (jeff_cancelled_sched_absurd x H1)].
      rewrite H2. cbn [st]. rewrite H1 in IH. destruct IH as (IA & IB & IC0).
      assert (Hncp : cp (Jb s x) = false) by (apply (not_running_no_cp c Sb Ef s SC); rewrite H1; discriminate).
      pose proof (cancel_end_at c s e s' x I8 Hs Hsub Ha H1 Hncp) as Htd. rewrite IC0 in Htd.
      injection Htd as Htd. lia.
    - destruct (f_cp c Sb Ef s SC x H2) as (_ & Hst & _). congruence.
  Qed.

  Lemma step_job x : x < njobs c -> x <> 0 -> on_scheduleF c Sb Ef s' x.
  Proof.
    intros Hx H0. destruct (cut c Sb Ef x) eqn:Ec; [apply (step_job_cut x Hx H0 Ec)|].
    unfold on_scheduleF. rewrite Ec. apply (step_job_uncut x Hx H0 Ec).
  Qed.

  (* ---------- leaving the main loop ---------- *)

  (* when a scheduler is on its exit path the end M of its main loop has been reached *)
  Lemma succ_MF n : n < njobs c -> j_sched (jc c n) = true -> ph (Rn s n) <> PIdle ->
    ph_succ (ph (Rn s' n)) -> (MF c Sb Ef n <= now s)%N.
  Proof.
    intros Hn Hsn Hni Hps. apply MF_le.
    - apply (begun_Sb c Sb Ef s HS NT SD SC n Hn Hsn Hni).
    - intros m Hm Hv. pose proof (proj1 (In_members c n m) Hm) as (Hml & _ & Hm0).
      destruct (succ_all_seen c s' n I1' I5' Hps m Hm Hv) as [_ Hmd].
      pose proof (step_job_uncut m Hml Hm0 (nf_uncut c Sb Ef m Hv)) as Hj. unfold on_schedule in Hj. rewrite En in Hj.
      destruct (st (Jb s' m)); try discriminate; exact Hj.
  Qed.

  (* a live job of a scheduler on its exit path: the scheduler is tidying *)
  Lemma live_tidy p x : In x (members c p) -> live (st (Jb s' x)) = true ->
    ph (Rn s' p) = PTidy WSuccess \/ ph (Rn s' p) = PShut WSuccess -> ph (Rn s' p) = PTidy WSuccess.
  Proof.
    intros Hx Hl [E|E]; [exact E|exfalso].
    assert (Hq : quiet_ph (ph (Rn s' p))) by (left; exists WSuccess; exact E).
    rewrite (quiet_no_live c s' p x I7' Hq Hx) in Hl. discriminate.
  Qed.

  Lemma step_cp x : cp (Jb s' x) = true ->
    cut c Sb Ef x = true /\ st (Jb s' x) = Running /\ ph (Rn s' (parent c x)) = PTidy WSuccess.
  Proof.
    intros Hcp'. destruct (cancel_event 3 c s e s' x Hs Hcp') as [E|[(n & d & o & Ee & Hin & Hpm & Hp1 & Hp2)|(n & k & o & _ & Hsn & Hcn)]].
    - (* the request was already there *)
      rewrite E in Hcp'. destruct (f_cp c Sb Ef s SC x Hcp') as (Hc & Hst & Hpt).
      split; [exact Hc|]. split; [rewrite E; exact Hst|].
      assert (Hx : x < njobs c) by (apply (t_validj c s IT); rewrite Hst; discriminate).
      destruct (cut_spec _ _ _ _ Hc) as (_ & _ & H0 & _).
      assert (Hm : In x (members c (parent c x))) by (apply In_members; auto).
      apply (live_tidy _ x Hm); [rewrite E, Hst; reflexivity|].
      destruct (phase_step (parent c x)) as [H|[(H & _)|[(H & _)|[(_ & H)|(H & _)]]]];
        try (rewrite Hpt in H; discriminate).
      + left. rewrite H. exact Hpt.
      + right. exact H.
    - (* the exit wake of the scheduler of x *)
      pose proof (i_pend c s I1 n x Hin) as Hm.
      pose proof (proj1 (In_members c n x) Hm) as (Hx & Hxp & H0).
      assert (Hsi : sched_id c n = true) by (apply (t_validr c s IT); rewrite Hpm; discriminate).
      apply sched_id_iff in Hsi. destruct Hsi as [Hsn Hn].
      assert (Hex : ph (Rn s' n) = PTidy WSuccess \/ ph (Rn s' n) = PShut WSuccess).
      { destruct (phase_step n) as [H|[(H & _)|[(_ & H)|[(H & _)|(H & _)]]]]; try (rewrite Hpm in H; discriminate).
        - exfalso. apply Hp1. rewrite H. exact Hpm.
        - exact H. }
      assert (Hps : ph_succ (ph (Rn s' n))) by (destruct Hex as [H|H]; rewrite H; [left|right]; reflexivity).
      assert (Hncp : cp (Jb s x) = false).
      { destruct (cp (Jb s x)) eqn:E; [exfalso|reflexivity].
        destruct (f_cp c Sb Ef s SC x E) as (_ & _ & Hpt). rewrite Hxp, Hpm in Hpt. discriminate. }
      assert (Hcj : Jb s' x = cancel_j (Jb s x) /\ finished (st (Jb s x)) = false).
      { destruct (HJ x)
          as [H|H1 H2|Hsub H1 H2 H3 H4 H5|H1 H2 H3 H4 H5 H6 H7|H1 H2 H3 H4 H5 H6|Hsub H1 H2 H3 H4 H5 H6|Hsub H1 H2 H3 H4 H5
             |Hsub H1 H2 H3 H4 H5 H6|Hsub H1 H2 H3 H4 H5 H6 H7|Hsub H1 H2|Hsub H1 H2 H3].
        - exfalso. rewrite H in Hcp'. congruence.
        - split; [exact H1|]. destruct (finished (st (Jb s x))) eqn:Ef0; [exfalso|reflexivity].
          rewrite H1, (cancel_j_finished _ Ef0) in Hcp'. congruence.
        - exfalso. rewrite H4 in Hcp'. discriminate.
        - exfalso. rewrite H2 in Hcp'. discriminate.
        - exfalso. rewrite H1 in Hcp'. discriminate.
        - exfalso. congruence.
        - exfalso. rewrite H5 in Hcp'. discriminate.
        - exfalso. congruence.
        - exfalso. congruence.
        - exfalso. rewrite H2 in Hcp'. discriminate.
        - exfalso. rewrite H3 in Hcp'. discriminate. }
      destruct Hcj as [Hcj Hnf].
      assert (Hst' : st (Jb s' x) = st (Jb s x)) by (rewrite Hcj; apply cancel_j_st).
      assert (Hni : st (Jb s x) <> Idle) by (apply (b_pend_live c s I5 n x Hin)).
      assert (Hlive : live (st (Jb s' x)) = true).
      { rewrite Hst'. destruct (st (Jb s x)); try reflexivity; try discriminate. contradiction. }
      assert (Hv : fvr c x = true).
      { destruct (fvr c x) eqn:Hv; [reflexivity|exfalso].
        destruct (succ_all_seen c s' n I1' I5' Hps x Hm Hv) as [_ Hd]. rewrite Hst' in Hd.
        rewrite (done_finished0 _ Hd) in Hnf. discriminate. }
      pose proof (forever_atomic c P x Hx H0 Hv) as Ha.
      assert (HnowM : now s = MF c Sb Ef n).
      { pose proof (f_mainM c Sb Ef s SC n Hn Hsn Hpm).
        pose proof (succ_MF n Hn Hsn) as H2. rewrite Hpm in H2. specialize (H2 ltac:(discriminate) Hps). lia. }
      destruct (NT x Hx H0 Ha Hv) as [Hbef Hne]. rewrite Hxp in Hbef, Hne.
      assert (Hnc : st (Jb s x) <> Cancelling).
      { intro E. destruct (n_st c s I4 x H0 (or_introl E)) as [A _]. rewrite Hxp in A. contradiction. }
      pose proof (f_job c Sb Ef s SC x Hx H0) as Hj. unfold on_scheduleF, on_schedule in Hj.
      rewrite Hxp. split; [|split; [|apply (live_tidy n x Hm Hlive Hex)]].
      + destruct (cut c Sb Ef x) eqn:Ec; [reflexivity|exfalso].
        assert (Hcomp : completes c Sb Ef x = true).
        { unfold cut in Ec. rewrite Ha, Hv in Ec. apply Nat.eqb_neq in H0. rewrite H0 in Ec. cbn in Ec.
          apply negb_false_iff in Ec. exact Ec. }
        unfold completes in Hcomp. destruct (j_dur (jc c x)) as [dd|] eqn:Ed; [|discriminate].
        apply N.ltb_lt in Hcomp. rewrite Hxp in Hcomp.
        pose proof (Ef_plain c Sb Ef HS x Hx Ha Ec) as HE. unfold durN in HE. rewrite Ed in HE.
        destruct (st (Jb s x)); try discriminate; try contradiction; lia.
      + rewrite Hst'. destruct (cut c Sb Ef x) eqn:Ec; cbn zeta in Hj;
          destruct (st (Jb s x)) eqn:Est; try discriminate; try contradiction; try reflexivity;
          try (rewrite Hxp in Hj); lia.
    - rewrite (sched_no_cp c Sb Ef s SC n Hsn) in Hcn. discriminate.
  Qed.

  Lemma step_tidy n : ph (Rn s' n) = PTidy WSuccess ->
    (MF c Sb Ef n <= now s')%N /\ (now s' <= MT c Sb Ef n)%N.
  Proof.
    intros Ep'. rewrite En.
    destruct (phase_step n) as [H|[(_ & [H|[H _]])|[(Hpm & _)|[(_ & H)|(_ & H)]]]];
      try (rewrite H in Ep'; discriminate).
    - apply (f_tidy c Sb Ef s SC n). rewrite <- H. exact Ep'.
    - assert (Hsi : sched_id c n = true) by (apply (t_validr c s IT); rewrite Hpm; discriminate).
      apply sched_id_iff in Hsi. destruct Hsi as [Hsn Hn].
      pose proof (f_mainM c Sb Ef s SC n Hn Hsn Hpm).
      pose proof (succ_MF n Hn Hsn) as H2. rewrite Hpm in H2.
      specialize (H2 ltac:(discriminate) (or_introl Ep')). pose proof (MT_ge_MF c Sb Ef n). lia.
  Qed.

  (* a co_shutdown() task that is about to take its first step belongs to a run that is over *)
  Lemma sdstart_over n :
    (hs (Hd s n) = HCreated /\ hcp (Hd s n) = false) \/
    (hs (Hd s n) <> HCreated /\ hs (Hd s n) <> HRunning /\ n = 0 /\ ph (Rn s 0) = POver) ->
    sched_id c n = true -> ph (Rn s n) = POver.
  Proof.
    intros [(E & _)|(_ & _ & -> & E)] Hsi; [|exact E].
    apply sched_id_iff in Hsi. destruct Hsi as [Hsn Hnl].
    assert (Hov : n <> 0 -> hs (Hd s n) <> HNone -> ph (Rn s n) = POver)
      by (intros A B; eapply handler_over; eauto).
    apply Hov; [|rewrite E; discriminate].
    intros ->. apply (k_root c s I8 E).
  Qed.

  (* ---------- inside a shutdown phase ---------- *)

  Lemma hd_ok_same M n x : Hd s' x = Hd s x -> hd_ok c M s n x -> hd_ok c M s' n x.
  Proof.
    assert (Hle : (now s <= now s')%N) by (rewrite En; lia).
    intros E H. unfold hd_ok in *. rewrite E, En. destruct (hs (Hd s x)); auto.
    - destruct H as [H1 H2]. split; [exact H1|]. intros Hc. apply (late_mono c M s s' n Hle (H2 Hc)).
    - apply (late_mono c M s s' n Hle H).
  Qed.

  Lemma shut_keep n : ph (Rn s n) = PShut WSuccess -> Sd s' n = Sd s n ->
    (forall x, In x (members c n) -> j_sched (jc c x) = false -> hd_ok c (MT c Sb Ef n) s' n x) ->
    shutF c (MT c Sb Ef n) s' n.
  Proof.
    assert (Hle : (now s <= now s')%N) by (rewrite En; lia).
    intros Ep ES F'. destruct (f_shut c Sb Ef s SC n Ep) as (A & B & C & D & F).
    unfold shutF. rewrite ES, En. split; [exact A|]. split; [exact B|]. split; [exact C|].
    split; [|exact F']. intros H. apply (late_mono c _ s s' n Hle (D H)).
  Qed.

  Lemma active_sched n : sd_active (sp (Sd s n)) -> sched_id c n = true.
  Proof. intros H. apply (k_valid c s I8). apply (active_did c s n I8 H). Qed.

  Lemma no_sd_cancel n : sd_thread c s n true -> sd_active (sp (Sd s n)) -> False.
  Proof.
    unfold sd_thread. intros H Ha. destruct (sd_inline s n).
    - destruct (run_alive_true _ _ _ H) as (H0 & _ & _ & _ & H1). rewrite (sched_no_cp c Sb Ef s SC n H0) in H1. discriminate.
    - destruct H as [H _]. pose proof (active_sched n Ha) as Hsi. apply sched_id_iff in Hsi.
      destruct Hsi as [Hsn _]. apply (f_hr c Sb Ef s SC n Hsn H).
  Qed.

  Lemma step_shut n : ph (Rn s' n) = PShut WSuccess -> shutF c (MT c Sb Ef n) s' n.
  Proof.
    intros Ep'.
    assert (Hle : (now s <= now s')%N) by (rewrite En; lia).
    assert (Hsi : sched_id c n = true) by (apply (t_validr c s' IT'); rewrite Ep'; discriminate).
    apply sched_id_iff in Hsi. destruct Hsi as [Hsn Hn].
    assert (Hpar : forall x n0, In x (members c n) -> In x (members c n0) -> n0 = n).
    { intros x n0 H1 H2. apply In_members in H1, H2. destruct H1 as (_ & H1 & _), H2 as (_ & H2 & _). congruence. }
    assert (Hatom : forall x n0, j_sched (jc c x) = false -> sched_id c n0 = true -> x <> n0).
    { intros x n0 Ha Hs0 ->. apply sched_id_iff in Hs0. destruct Hs0 as [Hs0 _]. congruence. }
    destruct (phase_eq_dec (ph (Rn s n)) (PShut WSuccess)) as [Ep|Ep].
    - (* the phase goes on *)
      destruct (f_shut c Sb Ef s SC n Ep) as (A & B & C & D & F).
      assert (Hin : sd_inline s n = true) by (unfold sd_inline; rewrite Ep; reflexivity).
      pose proof HH as H. hs_cases H.
      + apply (shut_keep n Ep (hB n)). intros x Hx Ha. apply hd_ok_same; [apply hA|apply (F x Hx Ha)].
      + assert (Hnn : n <> n0).
        { intros ->. rewrite Ep in hPh. destruct hPh as [E|[w E]]; discriminate. }
        apply (shut_keep n Ep).
        * rewrite hB. unfold sd_create. apply Nat.eqb_neq in Hnn. rewrite Hnn. reflexivity.
        * intros x Hx Ha. apply hd_ok_same; [|apply (F x Hx Ha)]. rewrite hA. unfold hd_create.
          destruct (did (Sd s n0)); [reflexivity|]. destruct (memb x (members c n0)) eqn:Em; [|reflexivity].
          exfalso. apply Hnn. symmetry. apply (Hpar x n0 Hx). apply memb_In. exact Em.
      + assert (Hnn : n <> n0).
        { intros ->. pose proof (sdstart_over n0 hG hSch) as Ho. rewrite Ep in Ho. discriminate. }
        apply (shut_keep n Ep).
        * rewrite hB. unfold sd_create. apply Nat.eqb_neq in Hnn. rewrite Hnn. reflexivity.
        * intros x Hx Ha. apply hd_ok_same; [|apply (F x Hx Ha)]. rewrite hA.
          pose proof (Hatom x n0 Ha hSch) as Hxn. apply Nat.eqb_neq in Hxn. rewrite Hxn. unfold hd_create.
          destruct (did (Sd s n0)); [reflexivity|]. destruct (memb x (members c n0)) eqn:Em; [|reflexivity].
          exfalso. apply Hnn. symmetry. apply (Hpar x n0 Hx). apply memb_In. exact Em.
      + assert (Hnn : n <> n0).
        { intros ->. rewrite Hin in hX. destruct hX as [E _]. rewrite E in Ep'. discriminate. }
        apply (shut_keep n Ep).
        * rewrite hB. apply Nat.eqb_neq in Hnn. rewrite Hnn. reflexivity.
        * intros x Hx Ha. apply hd_ok_same; [|apply (F x Hx Ha)].
          destruct (sd_inline s n0); destruct hX as [_ hX]; rewrite hX; [reflexivity|].
          pose proof (Hatom x n0 Ha (active_sched n0 (or_introl hSp))) as Hxn. apply Nat.eqb_neq in Hxn.
          rewrite Hxn. reflexivity.
      + destruct (Nat.eq_dec n n0) as [<-|Hnn].
        * (* the wait of n has expired: the handlers still pending are cancelled *)
          assert (Hlate : late c (MT c Sb Ef n) s' n).
          { rewrite (C hSp) in hDl. destruct (j_sdto (jc c n)) as [to|] eqn:Eto; [|discriminate].
            cbn [optN_add opt_le_now] in hDl. apply N.leb_le in hDl. exists to. split; [exact Eto|lia]. }
          unfold shutF. rewrite hB, Nat.eqb_refl, En. cbn [sp sdl].
          split; [exact A|]. split; [exact B|]. split; [intros E; discriminate|]. split; [intros _; exact Hlate|].
          intros x Hx Ha. destruct (memb x p0) eqn:Em; [|apply hd_ok_same; [rewrite hA, Em; reflexivity|apply (F x Hx Ha)]].
          pose proof (F x Hx Ha) as Hh. unfold hd_ok in *. rewrite hA, Em.
          apply memb_In in Em. apply hP in Em. destruct Em as [_ Hnf]. unfold hfin in Hnf.
          unfold cancel_h. destruct (hs (Hd s x)) eqn:Ehx; try discriminate; cbn [hfinished hs hend hcp].
          -- exact I.
          -- exfalso. apply (stepped_not_created c s n x hSt Hx Ehx).
          -- destruct Hh as [H1 _]. split; [exact H1|]. intros _. exact Hlate.
        * apply (shut_keep n Ep).
          -- rewrite hB. apply Nat.eqb_neq in Hnn. rewrite Hnn. reflexivity.
          -- intros x Hx Ha. apply hd_ok_same; [|apply (F x Hx Ha)]. rewrite hA.
             destruct (memb x p0) eqn:Em; [|reflexivity]. exfalso. apply Hnn. symmetry.
             apply memb_In in Em. apply hP in Em. destruct Em as [Em _]. apply (Hpar x n0 Hx Em).
      + assert (Hnn : n <> n0).
        { intros ->. rewrite Hin in hX. destruct hX as [E _]. rewrite E in Ep'. discriminate. }
        apply (shut_keep n Ep).
        * rewrite hB. apply Nat.eqb_neq in Hnn. rewrite Hnn. reflexivity.
        * intros x Hx Ha. apply hd_ok_same; [|apply (F x Hx Ha)].
          destruct (sd_inline s n0); destruct hX as [_ hX]; rewrite hX; [reflexivity|].
          pose proof (Hatom x n0 Ha (active_sched n0 (or_intror hSp))) as Hxn. apply Nat.eqb_neq in Hxn.
          rewrite Hxn. reflexivity.
      + exfalso. apply (no_sd_cancel n0 hTh). exact hSp.
      + (* an event of one handler *)
        apply (shut_keep n Ep (hB n)). intros x Hx Ha.
        destruct (Nat.eqb_spec x j0) as [->|Hxj].
        2:{ apply hd_ok_same; [|apply (F x Hx Ha)]. rewrite hA. apply Nat.eqb_neq in Hxj. rewrite Hxj. reflexivity. }
        pose proof (F j0 Hx Ha) as Hh. unfold hd_ok in *.
        assert (Ev : Hd s' j0 = v0) by (rewrite hA, Nat.eqb_refl; reflexivity).
        pose proof (proj1 (In_members c n j0) Hx) as (Hjl & _ & _).
        destruct hV as [(_ & E1 & E2 & E3)|[(_ & E1 & E2 & E3)|[(_ & E1 & E2 & E3)|(_ & E1 & E2 & E3)]]];
          rewrite E1 in Hh; rewrite Ev, E3; cbn [hs hend hcp].
        * (* it starts, in the instant the shutdown began *)
          destruct (plain_atomic c P j0 Hjl Ha) as (_ & (d & Hd0)). rewrite Hd0. cbn [optN_add].
          unfold sdurN. rewrite Ha, Hd0. rewrite Hh. split; [reflexivity|intros; discriminate].
        * (* it ends, at its deadline *)
          destruct Hh as [H1 _].
          assert (Ed : hs (Hd s' j0) = HDone) by (rewrite Ev, E3; reflexivity).
          pose proof (handler_done_at c s e s' j0 W I8 Hs Ha E1 Ed) as Hend. rewrite H1 in Hend.
          injection Hend as Hend. rewrite En. lia.
        * destruct Hh as [_ H2]. apply (late_mono c _ s s' n Hle (H2 E2)).
        * rewrite (k_fifo c s I8 j0 E1) in E2. discriminate.
    - (* the phase begins: it is the instant M *)
      assert (Hni : sd_inline s n = false).
      { unfold sd_inline. destruct (Hok n) as [E|[E|[E|[E|E]]]]; rewrite E; try reflexivity. contradiction. }
      assert (Hin' : sd_inline s' n = true) by (unfold sd_inline; rewrite Ep'; reflexivity).
      assert (Hne : ph (Rn s' n) <> ph (Rn s n)) by (rewrite Ep'; intro E; apply Ep; symmetry; exact E).
      pose proof HH as H. hs_cases H.
      + rewrite hC in Hin'. congruence.
      + destruct (Nat.eq_dec n n0) as [<-|Hnn]; [|exfalso; apply Hne; apply hO; exact Hnn].
        assert (Hph : ph (Rn s n) = PMain \/ ph (Rn s n) = PTidy WSuccess).
        { destruct hPh as [E|[w E]]; [left; exact E|right]. destruct (Hok n) as [E1|[E1|[E1|[E1|E1]]]]; rewrite E1 in E; try discriminate. exact E1. }
        assert (Hnd : did (Sd s n) = false).
        { destruct (did (Sd s n)) eqn:Ed; [exfalso|reflexivity].
          destruct (k_phase c s I8 n Ed) as [H1|[H1|(H1 & _)]]; [congruence| |];
            destruct Hph as [E|E]; rewrite E in H1; discriminate. }
        assert (Hmne : members c n <> []).
        { apply (p_members c s (sd_P c s SD) n); destruct Hph as [E|E]; rewrite E; discriminate. }
        assert (HnowM : now s = MT c Sb Ef n).
        { assert (Hni0 : ph (Rn s n) <> PIdle) by (destruct Hph as [E|E]; rewrite E; discriminate).
          pose proof (succ_MF n Hn Hsn Hni0 (or_intror Ep')) as HM.
          assert (Hup : (now s <= MT c Sb Ef n)%N).
          { destruct Hph as [E|E].
            - pose proof (f_mainM c Sb Ef s SC n Hn Hsn E). pose proof (MT_ge_MF c Sb Ef n). lia.
            - apply (f_tidy c Sb Ef s SC n E). }
          assert (Hall : forall x, In x (members c n) -> (MF c Sb Ef n + cdurN c Sb Ef x <= now s)%N \/ False).
          { intros x Hx. left. unfold cdurN. destruct (cut c Sb Ef x) eqn:Ec; [|lia].
            pose proof (proj1 (In_members c n x) Hx) as (Hxl & Hxp & Hx0).
            assert (Hnl : live (st (Jb s' x)) = false).
            { apply (quiet_no_live c s' n x I7'); [left; exists WSuccess; exact Ep'|exact Hx]. }
            pose proof (step_job_cut x Hxl Hx0 Ec) as Hj. unfold on_scheduleF in Hj. rewrite Ec in Hj. cbn zeta in Hj.
            rewrite Hxp, En in Hj. pose proof (cut_before c Sb Ef NT x Hxl Ec) as Hb. rewrite Hxp in Hb.
            rewrite (Ef_cut c Sb Ef HS x Hxl Ec), Hxp in Hj.
            destruct (st (Jb s' x)); try discriminate; try contradiction; lia. }
          destruct (maxl_bound _ (cdurN c Sb Ef) _ (members c n) HM Hall) as [H1|[]].
          unfold MT, tidy_len in *. lia. }
        unfold shutF. rewrite hB. unfold sd_create. rewrite Nat.eqb_refl, Hnd. unfold sd_started.
        destruct (members c n) as [|m0 ms] eqn:Em; [contradiction|]. rewrite <- Em. cbn [sp sdl]. rewrite En.
        split; [lia|]. split; [lia|]. split; [intros _; rewrite HnowM; reflexivity|]. split; [intros E; discriminate|].
        intros x Hx Ha. unfold hd_ok. rewrite hA. unfold hd_create. rewrite Hnd.
        apply memb_In in Hx. rewrite Hx. cbn [create_h hs]. rewrite En. exact HnowM.
      + exfalso. apply Hne. apply hO.
      + exfalso. destruct (Nat.eq_dec n n0) as [<-|Hnn]; [|apply Hne; apply hO; exact Hnn].
        rewrite Hni in hX. destruct hX as [E _]. apply Hne. exact E.
      + exfalso. apply Hne. apply hO.
      + exfalso. destruct (Nat.eq_dec n n0) as [<-|Hnn]; [|apply Hne; apply hO; exact Hnn].
        rewrite Hni in hX. destruct hX as [E _]. apply Hne. exact E.
      + exfalso. apply Hne. apply hO.
      + exfalso. apply Hne. apply hO.
  Qed.


  (* ---------- the rest ---------- *)

  Lemma step_root_idle : ph (Rn s' 0) = PIdle -> idle_all s' /\ now s' = 0%N.
  Proof.
    intros Ep'. pose proof (idle_back_ph 0 Ep') as Ep.
    destruct (f_root_idle c Sb Ef s SC Ep) as [(AJ & AR & AH & AS) An]. split; [|rewrite En; exact An].
    split; [|split].
    - intros x. pose proof (AJ x) as Ei.
      destruct (HJ x)
        as [H|H1 H2|Hsub H1 H2 H3 H4 H5|H1 H2 H3 H4 H5 H6 H7|H1 H2 H3 H4 H5 H6|Hsub H1 H2 H3 H4 H5 H6|Hsub H1 H2 H3 H4 H5
           |Hsub H1 H2 H3 H4 H5 H6|Hsub H1 H2 H3 H4 H5 H6 H7|Hsub H1 H2|Hsub H1 H2 H3];
        try (rewrite Ei in H1; discriminate).
      + rewrite H. exact Ei.
      + rewrite H1, cancel_j_st. exact Ei.
      + rewrite AR in H5. discriminate.
      + exfalso. destruct (rootb (parent c x)) eqn:Er.
        * apply rootb_true in Er. rewrite Er in H5. rewrite Ep' in H5. discriminate.
        * rewrite AJ in H4. discriminate.
      + destruct H1 as [H1|(H1 & _)]; rewrite Ei in H1; discriminate.
    - intros n.
      destruct (HR n) as [Hq _|Hact Hpre Hpost Hph _ _ _ _ _ _ _ _ _ _|Hact A1 A2 A3 Apost A4 A5 A6 A7 A8].
      + destruct Hq as (Hq & _). rewrite Hq. apply AR.
      + exfalso. destruct (rootb n) eqn:Er.
        * apply rootb_true in Er. subst n. rewrite Ep' in Hph. destruct Hph; discriminate.
        * rewrite AJ in Hpre. discriminate.
      + exfalso. apply A2. apply AR.
    - pose proof HH as H. hs_cases H.
      + split; [intros x; rewrite hA; apply AH|intros n; rewrite hB; apply AS].
      + exfalso. rewrite AR in hPh. destruct hPh as [E|[w E]]; discriminate.
      + exfalso. destruct hG as [(E & _)|(_ & _ & _ & E)].
        * rewrite AH in E. discriminate.
        * rewrite AR in E. discriminate.
      + exfalso. rewrite AS in hSp. discriminate.
      + exfalso. rewrite AS in hSp. discriminate.
      + exfalso. rewrite AS in hSp. discriminate.
      + exfalso. rewrite AS in hSp. destruct hSp; discriminate.
      + exfalso. destruct hV as [(_ & E & _)|[(_ & E & _)|[(_ & E & _)|(_ & E & _)]]]; rewrite AH in E; discriminate.
  Qed.

  Lemma root_sched : j_sched (jc c 0) = true /\ 0 < njobs c.
  Proof. apply wf_root. exact W. Qed.

  Lemma empty_Ef n : n < njobs c -> j_sched (jc c n) = true -> members c n = [] -> Ef n = Sb n.
  Proof.
    intros Hn Hsn Hm. rewrite (Ef_sched c Sb Ef HS n Hn Hsn), (shut_len_empty c n Hm).
    unfold MT, MF, tidy_len, nfmembers. rewrite Hm. cbn. lia.
  Qed.

  Lemma step_root_over : ph (Rn s' 0) = POver -> (Ef 0%nat <= now s')%N.
  Proof.
    intros Ep'. rewrite En. destruct root_sched as [Hrs Hrl].
    destruct (phase_eq_dec (ph (Rn s 0)) POver) as [E|E]; [apply (f_root_over c Sb Ef s SC E)|].
    destruct (over_step 0 E Ep') as [[_ Hm]|Hsh].
    - rewrite (empty_Ef 0 Hrl Hrs Hm), (Sb_root c Sb Ef HS). lia.
    - rewrite (Ef_sched c Sb Ef HS 0 Hrl Hrs). apply (finish_bound 0 Hsh Ep').
  Qed.

  Lemma step_over_done n x : ph (Rn s' n) = POver -> In x (members c n) -> fvr c x = false ->
    is_done (st (Jb s' x)) = true.
  Proof.
    intros Ep' Hx Hv.
    assert (Hd : is_done (st (Jb s x)) = true).
    { destruct (phase_eq_dec (ph (Rn s n)) POver) as [E|E]; [apply (f_over_done c Sb Ef s SC n x E Hx Hv)|].
      destruct (over_step n E Ep') as [[_ Hm]|Hsh].
      - rewrite Hm in Hx. destruct Hx.
      - apply (exit_members_done c Sb Ef s SD SC n x); [right; left; exact Hsh|exact Hx|exact Hv]. }
    rewrite (finished_stable 3 c s e s' x W I1 Hs (done_finished0 _ Hd)). exact Hd.
  Qed.

  Lemma step_over_did n : ph (Rn s' n) = POver -> did (Sd s' n) = true \/ members c n = [].
  Proof.
    intros Ep'.
    destruct (phase_eq_dec (ph (Rn s n)) POver) as [E|E].
    - destruct (f_over_did c Sb Ef s SC n E) as [H|H]; [left|right; exact H].
      apply (did_mono c s s' I8 HH n H).
    - destruct (over_step n E Ep') as [[_ Hm]|Hsh]; [right; exact Hm|left].
      apply (did_mono c s s' I8 HH n). apply (k_inl c s I8 n). unfold sd_inline. rewrite Hsh. reflexivity.
  Qed.

  Lemma step_hr n : j_sched (jc c n) = true -> hs (Hd s' n) <> HRunning.
  Proof.
    intros Hsn Er.
    destruct (hd_view c s s' n W I8 HH) as [H|n1 H1 H2 H3 H4|H1 H2 H3 H4|H1 H2 H3 H4 H5|H1 H2 H3 H4 H5 H6|v H1 H2].
    - rewrite H in Er. apply (f_hr c Sb Ef s SC n Hsn Er).
    - rewrite H4 in Er. discriminate.
    - rewrite H1 in Er. apply (f_hr c Sb Ef s SC n Hsn Er).
    - pose proof (sdstart_over n H2 H1) as Ho.
      destruct H5 as [[E _]|(_ & Hnd & Hne)]; [rewrite E in Er; discriminate|].
      destruct (f_over_did c Sb Ef s SC n Ho) as [H|H]; [congruence|contradiction].
    - destruct H6 as [E|E]; rewrite E in Er; discriminate.
    - rewrite H1 in Er. destruct H2 as [(Ha & _)|[(Ha & _)|[(Ha & _)|(_ & _ & _ & Ev)]]];
        try (destruct (atomic_id_spec _ _ Ha) as (Ha1 & _); congruence).
      rewrite Ev in Er. discriminate.
  Qed.

  Lemma step_did n : did (Sd s' n) = true -> ph (Rn s' n) <> PIdle.
  Proof.
    intros Hd' Ep'. pose proof (idle_back_ph n Ep') as Ep.
    destruct (did (Sd s n)) eqn:Ed; [apply (f_did c Sb Ef s SC n Ed Ep)|].
    assert (Hna : sd_active (sp (Sd s n)) -> False).
    { intros Ha. rewrite (active_did c s n I8 Ha) in Ed. discriminate. }
    pose proof HH as H. hs_cases H.
    - rewrite hB, Ed in Hd'. discriminate.
    - rewrite hB in Hd'. unfold sd_create in Hd'. destruct (Nat.eqb_spec n n0) as [->|Hn]; [|rewrite Ed in Hd'; discriminate].
      unfold sd_inline in hI. rewrite Ep' in hI. discriminate.
    - rewrite hB in Hd'. unfold sd_create in Hd'. destruct (Nat.eqb_spec n n0) as [->|Hn]; [|rewrite Ed in Hd'; discriminate].
      pose proof (sdstart_over n0 hG hSch) as Ho. rewrite Ep in Ho. discriminate.
    - rewrite hB in Hd'. destruct (Nat.eqb_spec n n0) as [->|Hn]; [|rewrite Ed in Hd'; discriminate].
      apply Hna. left. exact hSp.
    - rewrite hB in Hd'. destruct (Nat.eqb_spec n n0) as [->|Hn]; [|rewrite Ed in Hd'; discriminate].
      apply Hna. left. exact hSp.
    - rewrite hB in Hd'. destruct (Nat.eqb_spec n n0) as [->|Hn]; [|rewrite Ed in Hd'; discriminate].
      apply Hna. right. exact hSp.
    - rewrite hB in Hd'. destruct (Nat.eqb_spec n n0) as [->|Hn]; [|rewrite Ed in Hd'; discriminate].
      apply Hna. exact hSp.
    - rewrite hB, Ed in Hd'. discriminate.
  Qed.

  Hypothesis Hcalm : calm c Ef s'.

  Lemma step_nce x : crit_exc c s' x = false.
  Proof.
    destruct (crit_exc c s' x) eqn:Ec; [exfalso|reflexivity].
    unfold crit_exc in Ec. apply andb_true_iff in Ec. destruct Ec as [Hcr Hex].
    destruct (st (Jb s' x)) as [| | | | |t|] eqn:Est; try discriminate.
    assert (Hx : x < njobs c) by (apply (t_validj c s' IT'); rewrite Est; discriminate).
    assert (H0 : x <> 0).
    { intros ->. rewrite (p_root c s' (sd_P c s' SD')) in Est. discriminate. }
    destruct (exc_step 3 c s e s' x t Hs Est) as [H|[(He & Ha & _)|(_ & Hsx & k & d & o & _ & _ & Hi & _ & Hv)]].
    - pose proof (f_nce c Sb Ef s SC x) as Hn. unfold crit_exc in Hn. rewrite Hcr, H in Hn. discriminate.
    - assert (Hout : j_out (jc c x) = OExc).
      { destruct (step_inv _ _ _ _ _ Hs) as [_ Hg]. rewrite He in Hg. split_guards Hg.
        destruct (j_out (jc c x)); [discriminate|reflexivity]. }
      assert (Hbad : bad_job c x = true) by (unfold bad_job; rewrite Ha, Hcr, Hout; reflexivity).
      pose proof (Hcalm x Hx Hbad) as Hlt.
      pose proof (step_job x Hx H0) as Hj. unfold on_scheduleF, on_schedule in Hj. rewrite Est in Hj.
      destruct (cut c Sb Ef x); [contradiction|lia].
    - unfold sd_inline in Hi. destruct (ph (Rn s x)) as [| | |w| |] eqn:Ep; try discriminate.
      rewrite (shut_success x w Ep) in Ep. unfold why_of in Hv. rewrite Ep in Hv. cbn in Hv. discriminate.
  Qed.

  Theorem SchF_step : SchF c Sb Ef s'.
  Proof.
    split.
    - apply step_job.
    - apply step_cp.
    - apply step_rc.
    - apply step_ph.
    - apply step_root_idle.
    - apply step_root_over.
    - apply step_over_done.
    - apply step_over_did.
    - apply step_hr.
    - apply step_did.
    - apply step_nce.
    - apply step_expi.
    - apply step_mainM.
    - apply step_tidy.
    - apply step_shut.
  Qed.
End Step.

(* ------------------------------------------------------------------ every reachable calm state *)

Theorem SchF_reach c Sb Ef h s : wf c = true -> plainF c = true -> is_scheduleF c Sb Ef -> no_tieF c Sb Ef ->
  slackF c Sb Ef -> Reach 3 c h s -> calm c Ef s -> SchF c Sb Ef s.
Proof.
  intros W P HS NT SL Hr. revert h s Hr. apply (reach_ind 3 c (fun _ s => calm c Ef s -> SchF c Sb Ef s)).
  - intros _. apply SchF_init. apply (Sb_root c Sb Ef HS).
  - intros h s e s' Hr IH Hs Hc'.
    assert (Hc : calm c Ef s) by (apply (calm_back c Ef s s' (now_mono_step c s e s' W Hs) Hc')).
    pose proof (IH Hc) as SC.
    pose proof (Std_reach c h s W Hr) as SD.
    pose proof (Std_reach c (h ++ [e]) s' W (reach_snoc 3 c h e s s' Hr Hs)) as SD'.
    destruct (is_tick e) eqn:Et.
    + apply (SchF_tick c Sb Ef s e s' W P HS NT SD SC Hs Et).
    + apply (SchF_step c Sb Ef s s' e W P HS NT SL SD SD' SC Hs Et Hc').
Qed.

(* C09 in closed form: as long as no critical job has reached the instant at which it raises, every
   job -- forever or not -- is where the schedule says; the forever jobs that are still running when
   the main loop of their scheduler ends are cancelled at that very instant *)
Theorem runs_on_scheduleF c S E h s :
  wf c = true -> plainF c = true -> is_scheduleF c S E -> no_tieF c S E -> slackF c S E ->
  Reach 3 c h s -> calm c E s ->
  forall x, x < njobs c -> x <> 0 -> on_scheduleF c S E s x.
Proof.
  intros W P HS NT SL Hr Hc x Hx H0. apply (f_job c S E s (SchF_reach c S E h s W P HS NT SL Hr Hc) x Hx H0).
Qed.

(* the phases of every run, the root included: main loop from S n to M (the end of the last
   non-forever job), tidy phase until the last cancelled forever job has honoured its cancellation,
   shutdown phase, end; no timeout fires *)
Theorem phases_on_scheduleF c S E h s :
  wf c = true -> plainF c = true -> is_scheduleF c S E -> no_tieF c S E -> slackF c S E ->
  Reach 3 c h s -> calm c E s ->
  forall n, n < njobs c -> j_sched (jc c n) = true ->
    let M := MF c S E n in let T := tidy_len c S E n in
    (ph (Rn s n) = PIdle -> (now s <= S n)%N) /\
    (ph (Rn s n) = PMain -> (S n <= now s)%N /\ (now s <= M)%N) /\
    (ph (Rn s n) = PTidy WSuccess -> (M <= now s)%N /\ (now s <= M + T)%N) /\
    (ph (Rn s n) = PShut WSuccess -> (M + T <= now s)%N /\ (now s <= M + T + shut_len c n)%N) /\
    (ph (Rn s n) = POver -> (E n <= now s)%N) /\
    E n = (M + T + shut_len c n)%N /\
    okph (ph (Rn s n)) /\
    (ph (Rn s n) = PMain -> forall T0, j_timeout (jc c n) = Some T0 -> expi (Rn s n) = Some (S n + T0)%N).
Proof.
  intros W P HS NT SL Hr Hc n Hn Hs. cbn zeta.
  pose proof (SchF_reach c S E h s W P HS NT SL Hr Hc) as SC.
  pose proof (Std_reach c h s W Hr) as SD.
  split; [apply (idle_Sb c S E s SD SC n Hn Hs)|].
  split.
  { intros Ep. split; [apply (begun_Sb c S E s HS NT SD SC n Hn Hs); rewrite Ep; discriminate|].
    apply (f_mainM c S E s SC n Hn Hs Ep). }
  split; [intros Ep; apply (f_tidy c S E s SC n Ep)|].
  split.
  { intros Ep. destruct (f_shut c S E s SC n Ep) as (A & B & _). unfold MT in *. split; [exact A|exact B]. }
  split; [apply (over_Ef c S E s SD SC n Hn Hs)|].
  split; [apply (Ef_sched c S E HS n Hn Hs)|].
  split; [apply (f_ph c S E s SC n)|].
  intros Ep T0 HT. rewrite (f_expi c S E s SC n Ep), HT. reflexivity.
Qed.

(* in the words of C09: once the last non-forever job of a scheduler has finished, none of its
   forever jobs is running (nor waiting to start): those that had not ended by themselves are
   handling their cancellation or cancelled; and before that instant a forever job that has
   started and has not ended by itself is running *)
Corollary forever_jobs_cut_off c S E h s :
  wf c = true -> plainF c = true -> is_scheduleF c S E -> no_tieF c S E -> slackF c S E ->
  Reach 3 c h s -> calm c E s ->
  forall n f, n < njobs c -> j_sched (jc c n) = true -> In f (members c n) -> fvr c f = true ->
    ((MF c S E n < now s)%N ->
       st (Jb s f) <> Running /\ st (Jb s f) <> Idle /\ st (Jb s f) <> Created /\
       (cut c S E f = true -> st (Jb s f) = Cancelling \/ st (Jb s f) = Cancelled) /\
       (cut c S E f = false -> is_done (st (Jb s f)) = true)) /\
    ((S f < now s)%N -> (now s < MF c S E n)%N -> cut c S E f = true -> st (Jb s f) = Running).
Proof.
  intros W P HS NT SL Hr Hc n f Hn Hs Hf Hv.
  pose proof (proj1 (In_members c n f) Hf) as (Hfl & Hfp & Hf0).
  pose proof (forever_atomic c P f Hfl Hf0 Hv) as Ha.
  destruct (NT f Hfl Hf0 Ha Hv) as [Hbef _]. rewrite Hfp in Hbef.
  pose proof (runs_on_scheduleF c S E h s W P HS NT SL Hr Hc f Hfl Hf0) as Hj.
  unfold on_scheduleF, on_schedule in Hj. rewrite Hfp in Hj.
  destruct (cut c S E f) eqn:Ec; cbn zeta in Hj.
  - pose proof (Ef_cut c S E HS f Hfl Ec) as HE. rewrite Hfp in HE.
    split.
    + intros Hlt. destruct (st (Jb s f)); try contradiction;
        repeat split; try discriminate; try (intros; discriminate); auto; try (exfalso; lia).
    + intros H1 H2 _. destruct (st (Jb s f)); try contradiction; try reflexivity; exfalso; lia.
  - assert (Hcomp : completes c S E f = true).
    { unfold cut in Ec. rewrite Ha, Hv in Ec. apply Nat.eqb_neq in Hf0. rewrite Hf0 in Ec. cbn in Ec.
      apply negb_false_iff in Ec. exact Ec. }
    unfold completes in Hcomp. destruct (j_dur (jc c f)) as [d|] eqn:Ed; [|discriminate].
    apply N.ltb_lt in Hcomp. rewrite Hfp in Hcomp.
    pose proof (Ef_plain c S E HS f Hfl Ha Ec) as HE. unfold durN in HE. rewrite Ed in HE.
    split; [|intros _ _ H; discriminate].
    intros Hlt. destruct (st (Jb s f)); try contradiction;
      repeat split; try discriminate; try (intros; discriminate); auto; try (exfalso; lia).
Qed.

(* cancellation touches the cut jobs only: no run is ever cancelled, no other job ever is *)
Corollary only_cut_jobs_are_cancelled c S E h s :
  wf c = true -> plainF c = true -> is_scheduleF c S E -> no_tieF c S E -> slackF c S E ->
  Reach 3 c h s -> calm c E s ->
  (forall x, cp (Jb s x) = true -> cut c S E x = true /\ st (Jb s x) = Running /\
                                   ph (Rn s (parent c x)) = PTidy WSuccess /\ now s = MF c S E (parent c x)) /\
  (forall x, x < njobs c -> x <> 0 -> st (Jb s x) = Cancelling \/ st (Jb s x) = Cancelled -> cut c S E x = true) /\
  (forall n, rcanc (Rn s n) = false) /\ (forall x, crit_exc c s x = false).
Proof.
  intros W P HS NT SL Hr Hc. pose proof (SchF_reach c S E h s W P HS NT SL Hr Hc) as SC.
  pose proof (Std_reach c h s W Hr) as SD.
  split; [|split; [|split]].
  - intros x Hcp. destruct (f_cp c S E s SC x Hcp) as (A & B & C). split; [exact A|]. split; [exact B|]. split; [exact C|].
    assert (Hx : x < njobs c) by (apply (t_validj c s (sd_T c s SD)); rewrite B; discriminate).
    destruct (cut_spec _ _ _ _ A) as (_ & _ & H0 & _).
    pose proof (f_job c S E s SC x Hx H0) as Hj. unfold on_scheduleF in Hj. rewrite A, B in Hj. cbn zeta in Hj.
    destruct (f_tidy c S E s SC _ C) as [H1 _]. lia.
  - intros x Hx H0. apply (cancel_is_cut c S E s SC x Hx H0).
  - apply (f_rc c S E s SC).
  - apply (f_nce c S E s SC).
Qed.

Print Assumptions runs_on_scheduleF.
Print Assumptions phases_on_scheduleF.
Print Assumptions forever_jobs_cut_off.

(* ------------------------------------------------------------------ trees without forever jobs *)

(* the definitions of this file coincide with those of RSched.v (shutdown handlers that take time)
   when no job is forever: the theorem of RSched.v is the special case *)
Section NoForever.
  Variable c : cfg.
  Hypothesis W : wf c = true.
  Hypothesis P : plainH c = true.

  Lemma nf_of_plainH x : x < njobs c -> x <> 0 -> fvr c x = false.
  Proof. intros Hx H0. apply (RSched.plain_not_forever c P x Hx H0). Qed.

  Lemma nfmembers_plainH n : nfmembers c n = members c n.
  Proof.
    unfold nfmembers. assert (H : forall l, (forall m, In m l -> In m (members c n)) ->
                                   filter (fun m => negb (fvr c m)) l = l).
    { induction l as [|a l IH]; intros Hl; [reflexivity|]. cbn [filter].
      assert (Ha : In a (members c n)) by (apply Hl; left; reflexivity). apply In_members in Ha.
      destruct Ha as (Ha & _ & Ha0). rewrite (nf_of_plainH a Ha Ha0). cbn [negb]. f_equal.
      apply IH. intros m Hm. apply Hl. right. exact Hm. }
    apply H. auto.
  Qed.

  Lemma MF_plainH S E n : MF c S E n = Mx c S E n.
  Proof. unfold MF, Mx. rewrite nfmembers_plainH. reflexivity. Qed.

  Lemma cut_plainH S E x : x < njobs c -> cut c S E x = false.
  Proof.
    intros Hx. unfold cut. destruct (Nat.eqb_spec x 0) as [->|H0].
    - cbn. rewrite andb_false_r. reflexivity.
    - rewrite (nf_of_plainH x Hx H0). rewrite andb_false_r. reflexivity.
  Qed.

  Lemma tidy_len_plainH S E n : tidy_len c S E n = 0%N.
  Proof.
    unfold tidy_len. apply maxl_zero. intros y Hy. apply in_map_iff in Hy. destruct Hy as (x & <- & Hx).
    apply In_members in Hx. destruct Hx as (Hx & _). unfold cdurN. rewrite (cut_plainH S E x Hx). reflexivity.
  Qed.

  Lemma plainH_plainF : plainF c = true.
  Proof.
    unfold plainF. apply forallb_forall. intros x Hx. apply In_all_ids in Hx.
    pose proof (RSched.plain_job_of c P x Hx) as H. unfold plainH_job in H. unfold plainF_job.
    apply andb_true_iff. split.
    - apply forallb_forall. intros r Hr. apply negb_true_iff.
      destruct (Nat.eq_dec x 0) as [->|H0].
      + pose proof (wf_job_of c 0 W Hx) as Hw. unfold wf_job in Hw. cbn [Nat.eqb] in Hw.
        rewrite !andb_true_iff in Hw. destruct Hw as [_ Hw]. unfold reqs in Hr.
        destruct (j_reqs (jc c 0)); [destruct Hr|discriminate].
      + destruct (wf_reqs c x r W Hx H0 Hr) as (Hrx & _ & Hr0). apply nf_of_plainH; [lia|exact Hr0].
    - destruct (j_sched (jc c x)).
      + rewrite H. cbn [andb]. destruct (members c x) as [|m0 ms] eqn:Em; [reflexivity|].
        assert (Hm : In m0 (members c x)) by (rewrite Em; left; reflexivity).
        apply In_members in Hm. destruct Hm as (Hm & _ & Hm0).
        cbn [existsb]. rewrite (nf_of_plainH m0 Hm Hm0). reflexivity.
      + rewrite !andb_true_iff in H. destruct H as [[H1 H2] H3]. rewrite H3.
        destruct (j_dur (jc c x)); [|discriminate]. rewrite orb_true_r. reflexivity.
  Qed.

  Lemma plain_scheduleF S E : is_scheduleH c S E <-> is_scheduleF c S E.
  Proof.
    unfold is_scheduleH, is_scheduleF. split; intros [H0 H]; (split; [exact H0|]); intros x Hx;
      destruct (H x Hx) as (A & B & C); (split; [exact A|]); split.
    - intros Ha. rewrite (cut_plainH S E x Hx). apply (B Ha).
    - intros Hs. rewrite (C Hs), MF_plainH, tidy_len_plainH. unfold Mx. lia.
    - intros Ha. rewrite (B Ha), (cut_plainH S E x Hx). reflexivity.
    - intros Hs. rewrite (C Hs), MF_plainH, tidy_len_plainH. unfold Mx. lia.
  Qed.

  Lemma no_tie_plainH S E : no_tieF c S E.
  Proof. intros f Hf H0 _ Hv. rewrite (nf_of_plainH f Hf H0) in Hv. discriminate. Qed.

  Lemma slackH_slackF S E : slackH c S E -> slackF c S E.
  Proof. intros SL n T Hn Hs HT. rewrite MF_plainH. apply (SL n T Hn Hs HT). Qed.

  (* runs_on_scheduleH, again *)
  Corollary runs_on_scheduleH_from_F S E h s :
    is_scheduleH c S E -> slackH c S E -> Reach 3 c h s -> calm c E s ->
    forall x, x < njobs c -> x <> 0 -> on_schedule c S E s x.
  Proof.
    intros HS SL Hr Hc x Hx H0.
    pose proof (runs_on_scheduleF c S E h s W plainH_plainF (proj1 (plain_scheduleF S E) HS)
                  (no_tie_plainH S E) (slackH_slackF S E SL) Hr Hc x Hx H0) as H.
    unfold on_scheduleF in H. rewrite (cut_plainH S E x Hx) in H. exact H.
  Qed.
End NoForever.

(* ------------------------------------------------------------------ non-vacuity *)

Module ExampleF.
  (* root { a: 2 s ; f: forever, never ends, cancellation handler 1 s, shutdown handler 1 s ;
            g: forever, 1 s }: the main loop ends at 2 (a), g has ended by itself at 1, f is cancelled
     at 2, Cancelled at 3; the shutdown handlers -- that of the cancelled f included -- run from 3,
     the root ends at 4 *)
  Definition ex_c : cfg :=
    mkCfg
      [mkJ 0 true true false [] None ORet 0%N None 0 None None;
       mkJ 0 false true false [] (Some 2%N) ORet 0%N (Some 0%N) 0 None None;
       mkJ 0 false false true [] None ORet 1%N (Some 1%N) 0 None None;
       mkJ 0 false false true [] (Some 1%N) ORet 0%N (Some 0%N) 0 None None]
      false.

  Definition ex_h : list event :=
    [EBegin 0 [OCreate 1; OCreate 2; OCreate 3; OWaitCall 0 KMain [1; 2; 3] None];
     EStart 1; EStart 2; EStart 3;
     ETick 1%N;
     EFinish 3 ORet;
     EWake 0 KMain [3] [OWaitCall 0 KMain [1; 2] None];
     ETick 2%N;
     EFinish 1 ORet;
     EWake 0 KMain [1] [OWaitCall 0 KTidy [2] None];
     ECancelHit 2;
     ETick 3%N;
     ECancelEnd 2;
     EWake 0 KTidy [] [OSdBegin 0 true; OHCreate 1; OHCreate 2; OHCreate 3; OWaitCall 0 KShut [1; 2; 3] None];
     EHStart 1; EHEnd 1; EHStart 2; EHStart 3; EHEnd 3;
     ETick 4%N;
     EHEnd 2;
     EWake 0 KShut [] [OSdEnd 0 SRTrue; OEnd 0 VTrue]].

  Definition ex_lS : list N := [0; 0; 0; 0]%N.
  Definition ex_lE : list N := [4; 2; 3; 1]%N.
  Definition ex_S : nat -> N := tab ex_lS.
  Definition ex_E : nat -> N := tab ex_lE.

  Lemma ex_wf : wf ex_c = true. Proof. reflexivity. Qed.
  Lemma ex_not_plainH : plainH ex_c = false. Proof. reflexivity. Qed.
  Lemma ex_plainF : plainF ex_c = true. Proof. reflexivity. Qed.
  Lemma ex_accept : accept 3 ex_c ex_h = true. Proof. vm_compute. reflexivity. Qed.
  Lemma ex_sched : is_scheduleF ex_c ex_S ex_E.
  Proof. apply is_scheduleFb_sound. vm_compute. reflexivity. Qed.
  Lemma ex_no_tie : no_tieF ex_c ex_S ex_E.
  Proof. apply no_tieFb_sound. vm_compute. reflexivity. Qed.
  Lemma ex_slack : slackF ex_c ex_S ex_E.
  Proof. apply slackFb_sound. vm_compute. reflexivity. Qed.
  Lemma ex_values : MF ex_c ex_S ex_E 0 = 2%N /\ tidy_len ex_c ex_S ex_E 0 = 1%N /\ shut_len ex_c 0 = 1%N /\
                    cut ex_c ex_S ex_E 2 = true /\ cut ex_c ex_S ex_E 3 = false.
  Proof. vm_compute. repeat split; reflexivity. Qed.

  Lemma ex_calm s : calm ex_c ex_E s.
  Proof.
    intros x Hx Hb. exfalso. unfold njobs in Hx. cbn in Hx.
    do 4 (destruct x as [|x]; [vm_compute in Hb; discriminate|]). lia.
  Qed.

  (* at time 2, right after the cancellation has reached f: the root is tidying, f handles its
     cancellation until 3, g is done since 1 *)
  Example ex_mid : exists s, Reach 3 ex_c (firstn 11 ex_h) s /\ now s = 2%N /\
    ph (Rn s 0) = PTidy WSuccess /\ st (Jb s 2) = Cancelling /\ tend (Jb s 2) = Some 3%N /\
    st (Jb s 3) = DoneRet RVOwn /\
    forall x, x < 4 -> x <> 0 -> on_scheduleF ex_c ex_S ex_E s x.
  Proof.
    destruct (run 3 ex_c init (firstn 11 ex_h)) as [s|] eqn:Er; [|vm_compute in Er; discriminate].
    exists s. split; [exact Er|].
    assert (Es : Some s = run 3 ex_c init (firstn 11 ex_h)) by (symmetry; exact Er).
    vm_compute in Es. injection Es as Es.
    split; [rewrite Es; reflexivity|]. split; [rewrite Es; reflexivity|]. split; [rewrite Es; reflexivity|].
    split; [rewrite Es; reflexivity|]. split; [rewrite Es; reflexivity|].
    intros x Hx H0.
    apply (runs_on_scheduleF ex_c ex_S ex_E (firstn 11 ex_h) s ex_wf ex_plainF ex_sched ex_no_tie ex_slack Er (ex_calm s)); assumption.
  Qed.
End ExampleF.
