(* Containment of non-critical failures (C06), as a simulation.

   Two configurations that differ only in the outcome (return / raise) of a set F of atomic,
   non-critical jobs have the same behaviours: every history accepted with one is accepted with
   the other, after switching the outcome carried by the EFinish events of the jobs of F and the
   result / exception seen by the EPoll views of these jobs.  Starts, wakes, reported lists,
   observed outputs (tasks created, wait calls with their lists and timeouts, verdicts), clock
   instants and handler events are untouched.

   Assumption: this file uses Coq.Logic.FunctionalExtensionality.functional_extensionality (standard
   library), because states contain functions (Jb, Hd, Rn, Sd : nat -> _) and the correspondence
   is stated as an equality  t = flip_st F s.  Nothing else is assumed. *)
From Coq Require Import FunctionalExtensionality.
From AJ Require Import Common.Util Run.RModel Run.RFacts Run.RProps2.

(* ------------------------------------------------------------------ extensionality helpers *)

Lemma filter_ext' (A : Type) (f g : A -> bool) (l : list A) :
  (forall x, f x = g x) -> filter f l = filter g l.
Proof.
  intros H. induction l as [|a l IH]; cbn [filter]; [reflexivity|]. rewrite H, IH. reflexivity.
Qed.

Lemma forallb_ext' (A : Type) (f g : A -> bool) (l : list A) :
  (forall x, f x = g x) -> forallb f l = forallb g l.
Proof.
  intros H. induction l as [|a l IH]; cbn [forallb]; [reflexivity|]. rewrite H, IH. reflexivity.
Qed.

Lemma existsb_ext' (A : Type) (f g : A -> bool) (l : list A) :
  (forall x, f x = g x) -> existsb f l = existsb g l.
Proof.
  intros H. induction l as [|a l IH]; cbn [existsb]; [reflexivity|]. rewrite H, IH. reflexivity.
Qed.

Lemma flat_map_ext' (A B : Type) (f g : A -> list B) (l : list A) :
  (forall x, f x = g x) -> flat_map f l = flat_map g l.
Proof.
  intros H. induction l as [|a l IH]; cbn [flat_map]; [reflexivity|]. rewrite H, IH. reflexivity.
Qed.

(* ------------------------------------------------------------------ the flipped configuration *)

Definition other (o : outcome) : outcome := match o with ORet => OExc | OExc => ORet end.

Definition flip_jc (b : bool) (x : jcfg) : jcfg :=
  if b then mkJ (j_parent x) (j_sched x) (j_crit x) (j_forever x) (j_reqs x) (j_dur x)
                (other (j_out x)) (j_cdur x) (j_sdur x) (j_window x) (j_timeout x) (j_sdto x)
  else x.

Fixpoint flip_jobs (F : nat -> bool) (i : nat) (l : list jcfg) : list jcfg :=
  match l with
  | [] => []
  | x :: l' => flip_jc (F i) x :: flip_jobs F (S i) l'
  end.

(* same configuration, the outcome of the jobs of F switched *)
Definition flip_cfg (F : nat -> bool) (c : cfg) : cfg := mkCfg (flip_jobs F 0 (jobs c)) (pure_root c).

(* the jobs of F are atomic and not critical *)
Definition flippable (F : nat -> bool) (c : cfg) : Prop :=
  forall j, F j = true -> j_sched (jc c j) = false /\ j_crit (jc c j) = false.

Definition flippableb (F : nat -> bool) (c : cfg) : bool :=
  forallb (fun j => negb (F j) || (negb (j_sched (jc c j)) && negb (j_crit (jc c j)))) (all_ids c).

Lemma other_other o : other (other o) = o.
Proof. destruct o; reflexivity. Qed.

Lemma flip_jc_flip_jc b x : flip_jc b (flip_jc b x) = x.
Proof. destruct b; [|reflexivity]. destruct x. cbn. rewrite other_other. reflexivity. Qed.

Lemma length_flip_jobs F l : forall i, length (flip_jobs F i l) = length l.
Proof. induction l as [|x l IH]; intros i; cbn [flip_jobs length]; [reflexivity|]. rewrite IH. reflexivity. Qed.

Lemma flip_jobs_involutive F l : forall i, flip_jobs F i (flip_jobs F i l) = l.
Proof.
  induction l as [|x l IH]; intros i; cbn [flip_jobs]; [reflexivity|].
  rewrite flip_jc_flip_jc, IH. reflexivity.
Qed.

Theorem flip_cfg_involutive F c : flip_cfg F (flip_cfg F c) = c.
Proof. destruct c as [l p]. unfold flip_cfg. cbn [jobs pure_root]. rewrite flip_jobs_involutive. reflexivity. Qed.

Lemma nth_flip_jobs F l : forall i j,
  nth j (flip_jobs F i l) dflt_j = flip_jc (F (i + j) && Nat.ltb j (length l)) (nth j l dflt_j).
Proof.
  induction l as [|x l IH]; intros i j; cbn [flip_jobs length].
  - rewrite andb_false_r. destruct j; reflexivity.
  - destruct j as [|j]; cbn [nth].
    + rewrite Nat.add_0_r, andb_true_r. reflexivity.
    + rewrite IH. replace (S i + j) with (i + S j) by lia. reflexivity.
Qed.

Lemma jc_flip F c j : jc (flip_cfg F c) j = flip_jc (F j && Nat.ltb j (njobs c)) (jc c j).
Proof. unfold jc, flip_cfg, njobs. cbn [jobs]. rewrite nth_flip_jobs. reflexivity. Qed.

(* every field but the outcome is unchanged *)
Lemma fc_parent F c j : j_parent (jc (flip_cfg F c) j) = j_parent (jc c j).
Proof. rewrite jc_flip. destruct (F j && Nat.ltb j (njobs c)); reflexivity. Qed.
Lemma fc_sched F c j : j_sched (jc (flip_cfg F c) j) = j_sched (jc c j).
Proof. rewrite jc_flip. destruct (F j && Nat.ltb j (njobs c)); reflexivity. Qed.
Lemma fc_crit F c j : j_crit (jc (flip_cfg F c) j) = j_crit (jc c j).
Proof. rewrite jc_flip. destruct (F j && Nat.ltb j (njobs c)); reflexivity. Qed.
Lemma fc_forever F c j : j_forever (jc (flip_cfg F c) j) = j_forever (jc c j).
Proof. rewrite jc_flip. destruct (F j && Nat.ltb j (njobs c)); reflexivity. Qed.
Lemma fc_reqs0 F c j : j_reqs (jc (flip_cfg F c) j) = j_reqs (jc c j).
Proof. rewrite jc_flip. destruct (F j && Nat.ltb j (njobs c)); reflexivity. Qed.
Lemma fc_dur F c j : j_dur (jc (flip_cfg F c) j) = j_dur (jc c j).
Proof. rewrite jc_flip. destruct (F j && Nat.ltb j (njobs c)); reflexivity. Qed.
Lemma fc_cdur F c j : j_cdur (jc (flip_cfg F c) j) = j_cdur (jc c j).
Proof. rewrite jc_flip. destruct (F j && Nat.ltb j (njobs c)); reflexivity. Qed.
Lemma fc_sdur F c j : j_sdur (jc (flip_cfg F c) j) = j_sdur (jc c j).
Proof. rewrite jc_flip. destruct (F j && Nat.ltb j (njobs c)); reflexivity. Qed.
Lemma fc_window F c j : j_window (jc (flip_cfg F c) j) = j_window (jc c j).
Proof. rewrite jc_flip. destruct (F j && Nat.ltb j (njobs c)); reflexivity. Qed.
Lemma fc_timeout F c j : j_timeout (jc (flip_cfg F c) j) = j_timeout (jc c j).
Proof. rewrite jc_flip. destruct (F j && Nat.ltb j (njobs c)); reflexivity. Qed.
Lemma fc_sdto F c j : j_sdto (jc (flip_cfg F c) j) = j_sdto (jc c j).
Proof. rewrite jc_flip. destruct (F j && Nat.ltb j (njobs c)); reflexivity. Qed.

(* the outcome of a job of F is switched *)
Lemma fc_out F c j : j < njobs c ->
  j_out (jc (flip_cfg F c) j) = if F j then other (j_out (jc c j)) else j_out (jc c j).
Proof.
  intros H. rewrite jc_flip. apply Nat.ltb_lt in H. rewrite H, andb_true_r.
  destruct (F j); reflexivity.
Qed.

Lemma fc_pure_root F c : pure_root (flip_cfg F c) = pure_root c.
Proof. reflexivity. Qed.
Lemma fc_njobs F c : njobs (flip_cfg F c) = njobs c.
Proof. unfold njobs, flip_cfg. cbn [jobs]. apply length_flip_jobs. Qed.
Lemma fc_all_ids F c : all_ids (flip_cfg F c) = all_ids c.
Proof. unfold all_ids. rewrite fc_njobs. reflexivity. Qed.
Lemma fc_par F c j : parent (flip_cfg F c) j = parent c j.
Proof. unfold parent. apply fc_parent. Qed.
Lemma fc_reqs F c j : reqs (flip_cfg F c) j = reqs c j.
Proof. unfold reqs. apply fc_reqs0. Qed.
Lemma fc_is_member F c n j : is_member (flip_cfg F c) n j = is_member c n j.
Proof. unfold is_member. rewrite fc_par. reflexivity. Qed.
Lemma fc_members F c n : members (flip_cfg F c) n = members c n.
Proof. unfold members. rewrite fc_all_ids. apply filter_ext'. intros j. apply fc_is_member. Qed.
Lemma fc_scheds F c : scheds (flip_cfg F c) = scheds c.
Proof. unfold scheds. rewrite fc_all_ids. apply filter_ext'. intros j. apply fc_sched. Qed.

Lemma fc_wf_job F c j : wf_job (flip_cfg F c) j = wf_job c j.
Proof.
  unfold wf_job. cbn zeta. rewrite !fc_sched, !fc_parent, !fc_reqs0.
  destruct (Nat.eqb j 0); [reflexivity|].
  f_equal. f_equal. apply forallb_ext'. intros r. rewrite fc_par. reflexivity.
Qed.

Theorem flip_wf_eq F c : wf (flip_cfg F c) = wf c.
Proof.
  unfold wf. rewrite fc_njobs, fc_all_ids. f_equal. apply forallb_ext'. intros j. apply fc_wf_job.
Qed.

Theorem flip_wf F c : wf c = true -> wf (flip_cfg F c) = true.
Proof. intros H. rewrite flip_wf_eq. exact H. Qed.

Lemma flippable_flip F c : flippable F c -> flippable F (flip_cfg F c).
Proof. intros H j Hj. rewrite fc_sched, fc_crit. apply H. exact Hj. Qed.

Lemma flippableb_spec F c : flippableb F c = true <-> flippable F c.
Proof.
  unfold flippableb, flippable. rewrite forallb_forall. split.
  - intros H j Hj. destruct (Nat.lt_ge_cases j (njobs c)) as [Hlt|Hge].
    + specialize (H j (proj2 (In_all_ids c j) Hlt)). rewrite Hj in H. cbn [negb orb] in H.
      apply andb_true_iff in H. destruct H as [H1 H2].
      apply negb_true_iff in H1. apply negb_true_iff in H2. split; assumption.
    + unfold jc. rewrite nth_overflow by exact Hge. split; reflexivity.
  - intros H j _. destruct (F j) eqn:E; [|reflexivity]. destruct (H j E) as [H1 H2].
    rewrite H1, H2. reflexivity.
Qed.

(* ------------------------------------------------------------------ the flipped state *)

Definition flip_stat (b : bool) (j : nat) (x : jstat) : jstat :=
  match x with
  | DoneRet RVOwn => if b then DoneExc (tag_job j) else x
  | DoneExc t => if b && Nat.eqb t (tag_job j) then DoneRet RVOwn else x
  | _ => x
  end.

Definition flip_j (b : bool) (j : nat) (x : jst) : jst :=
  mkJst (flip_stat b j (st x)) (cp x) (tend x) (ran x).

(* the jobs of F that returned have raised instead, and conversely; nothing else changes *)
Definition flip_st (F : nat -> bool) (s : state) : state :=
  mkSt (now s) (fun j => flip_j (F j) j (Jb s j)) (Hd s) (Rn s) (Sd s).

(* the same correspondence as a pointwise relation *)
Definition sim (F : nat -> bool) (s t : state) : Prop :=
  now t = now s /\ (forall j, Jb t j = flip_j (F j) j (Jb s j)) /\
  (forall j, Hd t j = Hd s j) /\ (forall j, Rn t j = Rn s j) /\ (forall j, Sd t j = Sd s j).

Lemma st_ext n (J1 J2 : nat -> jst) H R S :
  (forall j, J1 j = J2 j) -> mkSt n J1 H R S = mkSt n J2 H R S.
Proof. intros E. f_equal. apply functional_extensionality. exact E. Qed.

Lemma sim_flip_st F s t : sim F s t <-> t = flip_st F s.
Proof.
  split.
  - intros (A & B & C & D & E). destruct t as [n J H R S]. cbn [now Jb Hd Rn Sd] in *.
    unfold flip_st. subst n. f_equal; apply functional_extensionality; assumption.
  - intros ->. unfold sim, flip_st. cbn [now Jb Hd Rn Sd]. repeat split.
Qed.

Lemma flip_stat_false j x : flip_stat false j x = x.
Proof. destruct x as [| | | |[| |]|t|]; reflexivity. Qed.

Lemma flip_j_false j x : flip_j false j x = x.
Proof. destruct x as [a b d e]. unfold flip_j. cbn [st cp tend ran]. rewrite flip_stat_false. reflexivity. Qed.

Lemma flip_stat_involutive b j x : flip_stat b j (flip_stat b j x) = x.
Proof.
  destruct b; [|rewrite !flip_stat_false; reflexivity].
  destruct x as [| | | |[| |]|t|]; cbn [flip_stat andb]; try reflexivity.
  - rewrite Nat.eqb_refl. reflexivity.
  - destruct (Nat.eqb t (tag_job j)) eqn:E; cbn [flip_stat andb].
    + apply Nat.eqb_eq in E. subst t. reflexivity.
    + rewrite E. reflexivity.
Qed.

Lemma flip_st_involutive F s : flip_st F (flip_st F s) = s.
Proof.
  destruct s as [n J H R S]. unfold flip_st. cbn [now Jb Hd Rn Sd]. apply st_ext. intros j.
  unfold flip_j. cbn [st cp tend ran]. rewrite flip_stat_involutive. destruct (J j) as [a b d e]. reflexivity.
Qed.

Lemma finished_flip b j x : finished (flip_stat b j x) = finished x.
Proof. destruct x as [| | | |[| |]|t|]; cbn [flip_stat]; try reflexivity; destruct b; try reflexivity.
  cbn [andb]. destruct (Nat.eqb t (tag_job j)); reflexivity. Qed.

Lemma is_done_flip b j x : is_done (flip_stat b j x) = is_done x.
Proof. destruct x as [| | | |[| |]|t|]; cbn [flip_stat]; try reflexivity; destruct b; try reflexivity.
  cbn [andb]. destruct (Nat.eqb t (tag_job j)); reflexivity. Qed.

Lemma flip_init F : flip_st F init = init.
Proof. unfold init, flip_st. cbn [now Jb Hd Rn Sd]. apply st_ext. intros j. reflexivity. Qed.

(* ------------------------------------------------------------------ reading a flipped state *)

Lemma now_flip F s : now (flip_st F s) = now s. Proof. reflexivity. Qed.
Lemma Hd_flip F s : Hd (flip_st F s) = Hd s. Proof. reflexivity. Qed.
Lemma Rn_flip F s : Rn (flip_st F s) = Rn s. Proof. reflexivity. Qed.
Lemma Sd_flip F s : Sd (flip_st F s) = Sd s. Proof. reflexivity. Qed.
Lemma Jb_flip F s j : Jb (flip_st F s) j = flip_j (F j) j (Jb s j). Proof. reflexivity. Qed.

Lemma remaining_flip F s e : remaining (flip_st F s) e = remaining s e. Proof. reflexivity. Qed.
Lemma opt_le_now_flip F s d : opt_le_now (flip_st F s) d = opt_le_now s d. Proof. reflexivity. Qed.
Lemma opt_eq_now_flip F s d : opt_eq_now (flip_st F s) d = opt_eq_now s d. Proof. reflexivity. Qed.
Lemma future_flip F s d : future (flip_st F s) d = future s d. Proof. reflexivity. Qed.
Lemma hfin_flip F s : hfin (flip_st F s) = hfin s. Proof. reflexivity. Qed.
Lemma sd_inline_flip F s n : sd_inline (flip_st F s) n = sd_inline s n. Proof. reflexivity. Qed.
Lemma why_of_flip F s n : why_of (flip_st F s) n = why_of s n. Proof. reflexivity. Qed.

Lemma jfin_flip1 F s j : jfin (flip_st F s) j = jfin s j.
Proof. unfold jfin. rewrite Jb_flip. unfold flip_j. cbn [st]. apply finished_flip. Qed.
Lemma jfin_flip F s : jfin (flip_st F s) = jfin s.
Proof. apply functional_extensionality. intros j. apply jfin_flip1. Qed.

Lemma all_done_flip F s l : all_done (flip_st F s) l = all_done s l.
Proof.
  unfold all_done. apply forallb_ext'. intros r. rewrite Jb_flip. unfold flip_j. cbn [st].
  apply is_done_flip.
Qed.

(* ------------------------------------------------------------------ updates commute with the flip *)

Lemma setR_flip F s n v : setR (flip_st F s) n v = flip_st F (setR s n v). Proof. reflexivity. Qed.
Lemma setH_flip F s n v : setH (flip_st F s) n v = flip_st F (setH s n v). Proof. reflexivity. Qed.
Lemma setS_flip F s n v : setS (flip_st F s) n v = flip_st F (setS s n v). Proof. reflexivity. Qed.
Lemma setNow_flip F s t : setNow (flip_st F s) t = flip_st F (setNow s t). Proof. reflexivity. Qed.
Lemma mapH_flip F f l s : mapH f l (flip_st F s) = flip_st F (mapH f l s). Proof. reflexivity. Qed.
Lemma set_phase_flip F s n p : set_phase (flip_st F s) n p = flip_st F (set_phase s n p).
Proof. reflexivity. Qed.
Lemma bump_q_flip F s p f : bump_q (flip_st F s) p f = flip_st F (bump_q s p f). Proof. reflexivity. Qed.
Lemma clear_hcp_flip F s n : clear_hcp (flip_st F s) n = flip_st F (clear_hcp s n). Proof. reflexivity. Qed.
Lemma hdone_flip F n r s : hdone n r (flip_st F s) = flip_st F (hdone n r s). Proof. reflexivity. Qed.

Lemma setJ_flip F s j v : setJ (flip_st F s) j (flip_j (F j) j v) = flip_st F (setJ s j v).
Proof.
  unfold setJ, flip_st. cbn [now Jb Hd Rn Sd]. apply st_ext. intros x. unfold upd.
  destruct (Nat.eqb x j) eqn:E; [|reflexivity]. apply Nat.eqb_eq in E. subst x. reflexivity.
Qed.

(* a status that is not an own result is not affected *)
Lemma setJ_flip_plain F s j x a b d : flip_stat (F j) j x = x ->
  setJ (flip_st F s) j (mkJst x a b d) = flip_st F (setJ s j (mkJst x a b d)).
Proof.
  intros E. rewrite <- setJ_flip. unfold flip_j. cbn [st cp tend ran]. rewrite E. reflexivity.
Qed.

Lemma mapJ_flip F (f : jst -> jst) l s : (forall b j x, flip_j b j (f x) = f (flip_j b j x)) ->
  mapJ f l (flip_st F s) = flip_st F (mapJ f l s).
Proof.
  intros Hf. unfold mapJ, flip_st. cbn [now Jb Hd Rn Sd]. apply st_ext. intros x.
  destruct (memb x l); [|reflexivity]. symmetry. apply Hf.
Qed.

Lemma mapJ_create_flip F l s : mapJ create_j l (flip_st F s) = flip_st F (mapJ create_j l s).
Proof. apply mapJ_flip. intros b j x. reflexivity. Qed.

Lemma mapJ_cancel_flip F l s : mapJ cancel_j l (flip_st F s) = flip_st F (mapJ cancel_j l s).
Proof.
  apply mapJ_flip. intros b j x. unfold cancel_j, flip_j. cbn [st cp tend ran].
  rewrite finished_flip. destruct (finished (st x)); reflexivity.
Qed.

Lemma clear_cp_flip F s n : clear_cp (flip_st F s) n = flip_st F (clear_cp s n).
Proof.
  unfold clear_cp. destruct (rootb n); [reflexivity|]. cbn zeta.
  rewrite <- setJ_flip. reflexivity.
Qed.

Global Hint Rewrite now_flip Hd_flip Rn_flip Sd_flip remaining_flip opt_le_now_flip opt_eq_now_flip
  future_flip hfin_flip sd_inline_flip why_of_flip jfin_flip all_done_flip
  setR_flip setH_flip setS_flip setNow_flip mapH_flip set_phase_flip bump_q_flip clear_hcp_flip
  hdone_flip mapJ_create_flip mapJ_cancel_flip clear_cp_flip
  fc_parent fc_sched fc_crit fc_forever fc_reqs0 fc_dur fc_cdur fc_sdur fc_window fc_timeout fc_sdto
  fc_pure_root fc_njobs fc_all_ids fc_par fc_reqs fc_is_member fc_members fc_scheds : flp.

Ltac flp := autorewrite with flp.

(* the result of a reaction: state flipped, outputs unchanged *)
Definition fl2 (F : nat -> bool) (p : state * list out) : state * list out := (flip_st F (fst p), snd p).

(* ------------------------------------------------------------------ reactions commute with the flip *)

Lemma job_leave_flip F c n x s : flip_stat (F n) n x = x ->
  job_leave (flip_cfg F c) n x (flip_st F s) = flip_st F (job_leave c n x s).
Proof.
  intros E. unfold job_leave. destruct (Nat.eqb n 0); [reflexivity|]. cbn zeta.
  rewrite (setJ_flip_plain F s n x false None true E). flp. reflexivity.
Qed.

Lemma verdict_of_flip F c n w cu : verdict_of (flip_cfg F c) n w cu = verdict_of c n w cu.
Proof. unfold verdict_of. flp. reflexivity. Qed.

Lemma finish_run_flip F c n w r cu s : F n = false ->
  finish_run (flip_cfg F c) n w r cu (flip_st F s) = fl2 F (finish_run c n w r cu s).
Proof.
  intros E. unfold finish_run, fl2. cbn zeta. cbn [fst snd]. rewrite verdict_of_flip. flp.
  rewrite job_leave_flip; [reflexivity|]. rewrite E. apply flip_stat_false.
Qed.

Lemma finish_run_snd F c n w r cu s :
  snd (finish_run (flip_cfg F c) n w r cu (flip_st F s)) = snd (finish_run c n w r cu s).
Proof. unfold finish_run. cbn zeta. cbn [snd]. rewrite verdict_of_flip. reflexivity. Qed.

Lemma end_cancelled_flip F c n s :
  end_cancelled (flip_cfg F c) n (flip_st F s) = fl2 F (end_cancelled c n s).
Proof.
  unfold end_cancelled, fl2. cbn [fst snd]. flp. rewrite job_leave_flip; reflexivity.
Qed.

Lemma shutdown_start_flip F c n i s :
  shutdown_start (flip_cfg F c) n i (flip_st F s) = fl2 F (shutdown_start c n i s).
Proof.
  unfold shutdown_start, fl2. cbn zeta. flp. destruct (did (Sd s n)); [reflexivity|].
  destruct (members c n); reflexivity.
Qed.

Lemma exit_main_flip F c n w p s :
  exit_main (flip_cfg F c) n w p (flip_st F s) = fl2 F (exit_main c n w p s).
Proof.
  unfold exit_main. destruct p as [|p0 p'].
  - flp. rewrite shutdown_start_flip.
    destruct (shutdown_start c n true (set_phase s n (PShut w))) as [s1 o]. reflexivity.
  - flp. reflexivity.
Qed.

Lemma rm_crit F c s d : flippable F c ->
  existsb (fun j => j_crit (jc (flip_cfg F c) j) && is_exc (st (Jb (flip_st F s) j))) d
  = existsb (fun j => j_crit (jc c j) && is_exc (st (Jb s j))) d.
Proof.
  intros HF. apply existsb_ext'. intros j. rewrite fc_crit. destruct (F j) eqn:E.
  - destruct (HF j E) as [_ Hc]. rewrite Hc. reflexivity.
  - rewrite Jb_flip, E, flip_j_false. reflexivity.
Qed.

Lemma rm_nf F c l :
  filter (fun j => negb (j_forever (jc (flip_cfg F c) j))) l
  = filter (fun j => negb (j_forever (jc c j))) l.
Proof. apply filter_ext'. intros j. rewrite fc_forever. reflexivity. Qed.

Lemma rm_cand F c d l :
  filter (fun x => existsb (fun q => memb q d) (reqs (flip_cfg F c) x)) l
  = filter (fun x => existsb (fun q => memb q d) (reqs c x)) l.
Proof. apply filter_ext'. intros j. rewrite fc_reqs. reflexivity. Qed.

Lemma rm_new F c s l :
  filter (fun x => match st (Jb (flip_st F s) x) with
                   | Idle => all_done (flip_st F s) (reqs (flip_cfg F c) x) | _ => false end) l
  = filter (fun x => match st (Jb s x) with Idle => all_done s (reqs c x) | _ => false end) l.
Proof.
  apply filter_ext'. intros x. rewrite fc_reqs, all_done_flip, Jb_flip. unfold flip_j. cbn [st].
  destruct (st (Jb s x)) as [| | | |[| |]|t|]; cbn [flip_stat]; try reflexivity.
  - destruct (F x); reflexivity.
  - destruct (F x && Nat.eqb t (tag_job x)); reflexivity.
Qed.

Lemma react_main_flip F c n d s : flippable F c ->
  react_main (flip_cfg F c) n d (flip_st F s) = fl2 F (react_main c n d s).
Proof.
  intros HF. unfold react_main. cbn zeta.
  rewrite (rm_crit F c s d HF), !rm_nf, fc_members, rm_cand, rm_new. flp.
  destruct d as [|d0 d'].
  - apply exit_main_flip.
  - destruct (existsb (fun j => j_crit (jc c j) && is_exc (st (Jb s j))) (d0 :: d')).
    + apply exit_main_flip.
    + match goal with |- context [if Nat.eqb ?a ?b then _ else _] => destruct (Nat.eqb a b) end.
      * apply exit_main_flip.
      * reflexivity.
Qed.

Lemma rb_entry F c l :
  filter (fun x => match reqs (flip_cfg F c) x with [] => true | _ => false end) l
  = filter (fun x => match reqs c x with [] => true | _ => false end) l.
Proof. apply filter_ext'. intros j. rewrite fc_reqs. reflexivity. Qed.

Lemma react_begin_flip F c n s :
  react_begin (flip_cfg F c) n (flip_st F s) = fl2 F (react_begin c n s).
Proof.
  unfold react_begin. cbn zeta. rewrite fc_members, fc_par, fc_timeout, now_flip.
  destruct (Nat.eqb n 0).
  - destruct (members c n) as [|m0 ms].
    + unfold fl2. cbn [fst snd]. flp. rewrite job_leave_flip; reflexivity.
    + rewrite rb_entry. flp. reflexivity.
  - rewrite (setJ_flip_plain F s n Running false None true eq_refl).
    destruct (members c n) as [|m0 ms].
    + unfold fl2. cbn [fst snd]. flp. rewrite job_leave_flip; reflexivity.
    + rewrite rb_entry. flp. reflexivity.
Qed.

Lemma react_tidy_flip F c n s :
  react_tidy (flip_cfg F c) n (flip_st F s) = fl2 F (react_tidy c n s).
Proof.
  unfold react_tidy. flp. destruct (rcanc (Rn s n)).
  - apply end_cancelled_flip.
  - apply shutdown_start_flip.
Qed.

Lemma react_shut_wake_flip F c n p s :
  react_shut_wake (flip_cfg F c) n p (flip_st F s)
  = (flip_st F (fst (fst (react_shut_wake c n p s))), snd (fst (react_shut_wake c n p s)),
     snd (react_shut_wake c n p s)).
Proof. unfold react_shut_wake. cbn zeta. destruct p; reflexivity. Qed.

Lemma react_shut_flip F c n p cu s : (sd_inline s n = true -> F n = false) ->
  react_shut (flip_cfg F c) n p cu (flip_st F s) = fl2 F (react_shut c n p cu s).
Proof.
  intros HI. unfold react_shut. rewrite react_shut_wake_flip. flp.
  destruct (react_shut_wake c n p s) as [[s1 res] mo1]. cbn [fst snd].
  destruct res as [r|]; [|reflexivity].
  destruct (sd_inline s n) eqn:Ei.
  - destruct (rcanc (Rn s n)).
    + rewrite end_cancelled_flip. destruct (end_cancelled c n s1) as [s2 mo2]. reflexivity.
    + rewrite finish_run_flip by (apply HI; reflexivity).
      destruct (finish_run c n (why_of s n) r cu s1) as [s2 mo2]. reflexivity.
  - flp. reflexivity.
Qed.

Lemma react_shtidy_flip F c n cu s : (sd_inline s n = true -> F n = false) ->
  react_shtidy (flip_cfg F c) n cu (flip_st F s) = fl2 F (react_shtidy c n cu s).
Proof.
  intros HI. unfold react_shtidy, react_shtidy_wake. cbn zeta. flp.
  destruct (sd_inline s n) eqn:Ei.
  - destruct (rcanc (Rn s n)).
    + rewrite end_cancelled_flip.
      match goal with |- context [end_cancelled c n ?S1] => destruct (end_cancelled c n S1) as [s2 mo2] end.
      reflexivity.
    + apply finish_run_flip. apply HI. reflexivity.
  - reflexivity.
Qed.

Lemma rc_unfin F s l :
  filter (fun j => negb (jfin (flip_st F s) j)) l = filter (fun j => negb (jfin s j)) l.
Proof. rewrite jfin_flip. reflexivity. Qed.

Lemma react_cancel_main_flip F c n s :
  react_cancel_main (flip_cfg F c) n (flip_st F s) = fl2 F (react_cancel_main c n s).
Proof.
  unfold react_cancel_main. cbn zeta. rewrite rc_unfin. flp.
  destruct (filter (fun j => negb (jfin s j)) (pend (Rn s n))) as [|u0 u'].
  - apply end_cancelled_flip.
  - flp. reflexivity.
Qed.

Lemma react_cancel_tidy_flip F c n s :
  react_cancel_tidy (flip_cfg F c) n (flip_st F s) = fl2 F (react_cancel_tidy c n s).
Proof. unfold react_cancel_tidy. cbn zeta. flp. reflexivity. Qed.

Lemma react_cancel_ctidy_flip F c n s :
  react_cancel_ctidy (flip_cfg F c) n (flip_st F s) = fl2 F (react_cancel_ctidy c n s).
Proof. unfold react_cancel_ctidy. cbn zeta. flp. reflexivity. Qed.

Lemma react_shut_cancel_flip F c n s :
  react_shut_cancel (flip_cfg F c) n (flip_st F s) = fl2 F (react_shut_cancel c n s).
Proof. unfold react_shut_cancel. cbn zeta. flp. reflexivity. Qed.

Lemma react_cancel_shut_flip F c n s :
  react_cancel_shut (flip_cfg F c) n (flip_st F s) = fl2 F (react_cancel_shut c n s).
Proof.
  unfold react_cancel_shut. flp. destruct (sd_inline s n).
  - cbn zeta. flp. apply react_shut_cancel_flip.
  - apply react_shut_cancel_flip.
Qed.

Lemma react_sdstart_flip F c n s :
  react_sdstart (flip_cfg F c) n (flip_st F s) = fl2 F (react_sdstart c n s).
Proof.
  unfold react_sdstart. flp. rewrite shutdown_start_flip.
  destruct (shutdown_start c n false (setH s n (mkHst HRunning false None))) as [s1 mo].
  unfold fl2. cbn [fst snd]. flp.
  destruct (sp (Sd s1 n)), (did (Sd s n)); reflexivity.
Qed.

Lemma eff_start_flip F c j s : eff_start (flip_cfg F c) j (flip_st F s) = flip_st F (eff_start c j s).
Proof.
  unfold eff_start. flp.
  rewrite (setJ_flip_plain F s j Running false (optN_add (now s) (j_dur (jc c j))) true eq_refl).
  flp. reflexivity.
Qed.

Lemma eff_finish_flip F c j oc s :
  eff_finish (flip_cfg F c) j (if F j then other oc else oc) (flip_st F s)
  = flip_st F (eff_finish c j oc s).
Proof.
  unfold eff_finish. flp.
  assert (E : mkJst (match (if F j then other oc else oc) with
                     | ORet => DoneRet RVOwn | OExc => DoneExc (tag_job j) end) false None true
              = flip_j (F j) j (mkJst (match oc with
                                       | ORet => DoneRet RVOwn | OExc => DoneExc (tag_job j) end)
                                      false None true)).
  { unfold flip_j. cbn [st cp tend ran].
    destruct (F j); destruct oc; cbn [other flip_stat andb]; rewrite ?Nat.eqb_refl; reflexivity. }
  rewrite E, setJ_flip. flp. reflexivity.
Qed.

Lemma eff_cancel_hit_flip F c j s :
  eff_cancel_hit (flip_cfg F c) j (flip_st F s) = flip_st F (eff_cancel_hit c j s).
Proof.
  unfold eff_cancel_hit. flp.
  apply (setJ_flip_plain F s j Cancelling false (Some (now s + j_cdur (jc c j))%N) true eq_refl).
Qed.

Lemma eff_cancel_over_flip F c j s :
  eff_cancel_over (flip_cfg F c) j (flip_st F s) = flip_st F (eff_cancel_over c j s).
Proof.
  unfold eff_cancel_over. flp.
  rewrite (setJ_flip_plain F s j Cancelled false None true eq_refl). flp. reflexivity.
Qed.

Lemma eff_gone_flip F j s : eff_gone j (flip_st F s) = flip_st F (eff_gone j s).
Proof. unfold eff_gone. apply (setJ_flip_plain F s j Cancelled false None false eq_refl). Qed.

(* ------------------------------------------------------------------ the flipped events *)

(* what is_done / result / exception show of a job of F: a return (v_res = 1, v_exc = 0) becomes
   the raise of its own exception (v_res = 0, v_exc = S (tag_job j)) and conversely *)
Definition flip_view (F : nat -> bool) (v : jview) : jview :=
  if F (v_id v) then
    if Nat.eqb (v_res v) 1 && Nat.eqb (v_exc v) 0 then
      mkJv (v_id v) (v_idle v) (v_sched v) (v_run v) (v_done v) 0 (S (tag_job (v_id v)))
    else if Nat.eqb (v_res v) 0 && Nat.eqb (v_exc v) (S (tag_job (v_id v))) then
      mkJv (v_id v) (v_idle v) (v_sched v) (v_run v) (v_done v) 1 0
    else v
  else v.

Definition flip_ev (F : nat -> bool) (e : event) : event :=
  match e with
  | EFinish j oc => EFinish j (if F j then other oc else oc)
  | EPoll jv sv => EPoll (map (flip_view F) jv) sv
  | _ => e
  end.

(* only the end of a job of F and the polls are touched *)
Lemma flip_ev_other F e :
  match e with EFinish j _ => F j = false | EPoll _ _ => False | _ => True end -> flip_ev F e = e.
Proof.
  destruct e as [n o|n k d o|n k o|n o|j|j oc|j|j|j|j|j|j|j|j|t|t|jv sv]; cbn [flip_ev];
    intros H; try reflexivity.
  - rewrite H. reflexivity.
  - destruct H.
Qed.

Lemma flip_ev_outs F e : outs_of (flip_ev F e) = outs_of e.
Proof. destruct e; reflexivity. Qed.

Lemma flip_view_id F v : v_id (flip_view F v) = v_id v.
Proof.
  unfold flip_view. destruct (F (v_id v)); [|reflexivity].
  destruct (Nat.eqb (v_res v) 1 && Nat.eqb (v_exc v) 0); [reflexivity|].
  destruct (Nat.eqb (v_res v) 0 && Nat.eqb (v_exc v) (S (tag_job (v_id v)))); reflexivity.
Qed.

Lemma flip_view_involutive F v : flip_view F (flip_view F v) = v.
Proof.
  destruct v as [i a b d e r x]. unfold flip_view. cbn [v_id v_idle v_sched v_run v_done v_res v_exc].
  destruct (F i) eqn:EF; [|cbn [v_id]; rewrite EF; reflexivity].
  destruct (Nat.eqb r 1 && Nat.eqb x 0) eqn:E1.
  - cbn [v_id v_idle v_sched v_run v_done v_res v_exc]. rewrite EF.
    apply andb_true_iff in E1. destruct E1 as [A B]. apply Nat.eqb_eq in A. apply Nat.eqb_eq in B.
    subst r x. cbn [Nat.eqb andb]. rewrite Nat.eqb_refl. reflexivity.
  - destruct (Nat.eqb r 0 && Nat.eqb x (S (tag_job i))) eqn:E2.
    + cbn [v_id v_idle v_sched v_run v_done v_res v_exc]. rewrite EF.
      apply andb_true_iff in E2. destruct E2 as [A B]. apply Nat.eqb_eq in A. apply Nat.eqb_eq in B.
      subst r x. reflexivity.
    + cbn [v_id v_idle v_sched v_run v_done v_res v_exc]. rewrite EF, E1, E2. reflexivity.
Qed.

Lemma flip_ev_involutive F e : flip_ev F (flip_ev F e) = e.
Proof.
  destruct e as [n o|n k d o|n k o|n o|j|j oc|j|j|j|j|j|j|j|j|t|t|jv sv]; cbn [flip_ev];
    try reflexivity.
  - destruct (F j); [rewrite other_other|]; reflexivity.
  - rewrite map_map. f_equal. rewrite <- (map_id jv) at 2. apply map_ext. intros v.
    apply flip_view_involutive.
Qed.

(* the view of a flipped job is the flipped view *)
Lemma view_of_flip F j x : view_of j (flip_j (F j) j x) = flip_view F (view_of j x).
Proof.
  unfold view_of, flip_view, flip_j. cbn [st cp tend ran v_id v_idle v_sched v_run v_done v_res v_exc].
  destruct (F j) eqn:EF.
  - destruct (st x) as [| | | |[| |]|t|]; cbn [flip_stat andb is_done Nat.eqb]; try reflexivity.
    destruct (Nat.eqb t (tag_job j)) eqn:E.
    + apply Nat.eqb_eq in E. subst t. reflexivity.
    + reflexivity.
  - rewrite flip_stat_false. reflexivity.
Qed.

Lemma jview_eqb_eq a b : jview_eqb a b = true -> a = b.
Proof.
  destruct a as [i1 a1 b1 d1 e1 r1 x1], b as [i2 a2 b2 d2 e2 r2 x2]. unfold jview_eqb.
  cbn [v_id v_idle v_sched v_run v_done v_res v_exc]. rewrite !andb_true_iff.
  intros [[[[[[A B] C] D] E] G] H].
  apply Nat.eqb_eq in A. apply eqb_prop in B. apply eqb_prop in C. apply eqb_prop in D.
  apply eqb_prop in E. apply Nat.eqb_eq in G. apply Nat.eqb_eq in H. subst. reflexivity.
Qed.

Lemma jview_eqb_refl a : jview_eqb a a = true.
Proof. unfold jview_eqb. rewrite !Nat.eqb_refl, !eqb_reflx. reflexivity. Qed.

Lemma poll_view_flip F s v : jview_eqb v (view_of (v_id v) (Jb s (v_id v))) = true ->
  jview_eqb (flip_view F v)
            (view_of (v_id (flip_view F v)) (Jb (flip_st F s) (v_id (flip_view F v)))) = true.
Proof.
  intros H. apply jview_eqb_eq in H. rewrite flip_view_id, Jb_flip, view_of_flip, <- H.
  apply jview_eqb_refl.
Qed.

(* ------------------------------------------------------------------ the reaction commutes *)

Lemma sched_not_F F c n : flippable F c -> j_sched (jc c n) = true -> F n = false.
Proof.
  intros HF Hs. destruct (F n) eqn:E; [|reflexivity]. destruct (HF n E) as [H _]. congruence.
Qed.

Lemma run_alive_sched c s n wc : run_alive c s n wc = true -> j_sched (jc c n) = true.
Proof. unfold run_alive. rewrite !andb_true_iff. intros [[H _] _]. exact H. Qed.

Lemma reaction_flip F lvl c s e : flippable F c -> forallb (holds lvl) (guards c s e) = true ->
  reaction (flip_cfg F c) (flip_st F s) (flip_ev F e) = fl2 F (reaction c s e).
Proof.
  intros HF Hg.
  destruct e as [n o|n k d o|n k o|n o|j|j oc|j|j|j|j|j|j|j|j|t|t|jv sv]; cbn [flip_ev reaction].
  - apply react_begin_flip.
  - destruct k; cbn [reaction].
    + apply react_main_flip. exact HF.
    + apply react_tidy_flip.
    + apply end_cancelled_flip.
    + apply react_shut_flip. intros Hi.
      cbn [forallb guards app outs_guards] in Hg. apply andb_true_iff in Hg. destruct Hg as [G1 _].
      apply (sched_not_F F c n HF). apply (run_alive_sched c s n false).
      apply (sd_thread_inline c s n false lvl G1 Hi).
    + apply react_shtidy_flip. intros Hi.
      cbn [forallb guards app outs_guards] in Hg. apply andb_true_iff in Hg. destruct Hg as [G1 _].
      apply (sched_not_F F c n HF). apply (run_alive_sched c s n false).
      apply (sd_thread_inline c s n false lvl G1 Hi).
  - destruct k; cbn [reaction].
    + apply react_cancel_main_flip.
    + apply react_cancel_tidy_flip.
    + apply react_cancel_ctidy_flip.
    + apply react_cancel_shut_flip.
    + apply react_cancel_shut_flip.
  - apply react_sdstart_flip.
  - unfold fl2. cbn [fst snd]. rewrite eff_start_flip. reflexivity.
  - unfold fl2. cbn [fst snd]. rewrite eff_finish_flip. reflexivity.
  - unfold fl2. cbn [fst snd]. rewrite eff_cancel_hit_flip. reflexivity.
  - unfold fl2. cbn [fst snd]. rewrite eff_cancel_over_flip. reflexivity.
  - unfold fl2. cbn [fst snd]. rewrite eff_cancel_over_flip. reflexivity.
  - unfold fl2. cbn [fst snd]. rewrite eff_gone_flip. reflexivity.
  - unfold fl2. cbn [fst snd]. flp. reflexivity.
  - reflexivity.
  - reflexivity.
  - reflexivity.
  - reflexivity.
  - reflexivity.
  - reflexivity.
Qed.

(* ------------------------------------------------------------------ the guards are the same *)

(* tests on the status of a job that do not distinguish a return from a raise *)
Ltac flip_match F s j :=
  rewrite ?Jb_flip; unfold flip_j; cbn [st cp tend ran];
  destruct (st (Jb s j)) as [| | | |[| |]|?t|]; cbn [flip_stat]; try reflexivity;
  destruct (F j); cbn [andb]; try reflexivity;
  match goal with |- context [Nat.eqb ?a ?b] => destruct (Nat.eqb a b) end; reflexivity.

Lemma sched_id_flip F c n : sched_id (flip_cfg F c) n = sched_id c n.
Proof. unfold sched_id. flp. reflexivity. Qed.
Lemma atomic_id_flip F c j : atomic_id (flip_cfg F c) j = atomic_id c j.
Proof. unfold atomic_id. flp. reflexivity. Qed.
Lemma slot_free_flip F c s p : slot_free (flip_cfg F c) (flip_st F s) p = slot_free c s p.
Proof. unfold slot_free. flp. reflexivity. Qed.

Lemma m_created_ncp F s j :
  match st (Jb (flip_st F s) j) with Created => negb (cp (Jb (flip_st F s) j)) | _ => false end
  = match st (Jb s j) with Created => negb (cp (Jb s j)) | _ => false end.
Proof. flip_match F s j. Qed.
Lemma m_created_cp F s j :
  match st (Jb (flip_st F s) j) with Created => cp (Jb (flip_st F s) j) | _ => false end
  = match st (Jb s j) with Created => cp (Jb s j) | _ => false end.
Proof. flip_match F s j. Qed.
Lemma m_running_ncp F s j :
  match st (Jb (flip_st F s) j) with Running => negb (cp (Jb (flip_st F s) j)) | _ => false end
  = match st (Jb s j) with Running => negb (cp (Jb s j)) | _ => false end.
Proof. flip_match F s j. Qed.
Lemma m_running_cp F s j :
  match st (Jb (flip_st F s) j) with Running => cp (Jb (flip_st F s) j) | _ => false end
  = match st (Jb s j) with Running => cp (Jb s j) | _ => false end.
Proof. flip_match F s j. Qed.
Lemma m_cancelling_ncp F s j :
  match st (Jb (flip_st F s) j) with Cancelling => negb (cp (Jb (flip_st F s) j)) | _ => false end
  = match st (Jb s j) with Cancelling => negb (cp (Jb s j)) | _ => false end.
Proof. flip_match F s j. Qed.
Lemma m_cancelling_cp F s j :
  match st (Jb (flip_st F s) j) with Cancelling => cp (Jb (flip_st F s) j) | _ => false end
  = match st (Jb s j) with Cancelling => cp (Jb s j) | _ => false end.
Proof. flip_match F s j. Qed.
Lemma m_tend F s j : tend (Jb (flip_st F s) j) = tend (Jb s j).
Proof. reflexivity. Qed.

Lemma run_alive_flip F c s n wc : run_alive (flip_cfg F c) (flip_st F s) n wc = run_alive c s n wc.
Proof.
  unfold run_alive. flp. destruct (rootb n); [reflexivity|]. f_equal. flip_match F s n.
Qed.

Lemma culprit_ok_flip F c (HF : flippable F c) s n w t :
  culprit_ok (flip_cfg F c) (flip_st F s) n w t = culprit_ok c s n w t.
Proof.
  unfold culprit_ok. destruct w; try reflexivity. flp.
  destruct ((Nat.eqb n 0 && pure_root c) || negb (j_crit (jc c n))); [reflexivity|].
  apply existsb_ext'. intros j. rewrite fc_crit. destruct (F j) eqn:E.
  - destruct (HF j E) as [_ Hc]. rewrite Hc. reflexivity.
  - rewrite Jb_flip, E, flip_j_false. reflexivity.
Qed.

Lemma sd_thread_ok_flip F c s n wc :
  sd_thread_ok (flip_cfg F c) (flip_st F s) n wc = sd_thread_ok c s n wc.
Proof. unfold sd_thread_ok. cbn zeta. rewrite run_alive_flip. flp. reflexivity. Qed.

Lemma hpending_flip F c s l : hpending (flip_cfg F c) (flip_st F s) l = hpending c s l.
Proof. reflexivity. Qed.

Lemma handlers_stepped_flip F c s n :
  handlers_stepped (flip_cfg F c) (flip_st F s) n = handlers_stepped c s n.
Proof. unfold handlers_stepped. flp. reflexivity. Qed.

Lemma job_enabled_flip F c s j : job_enabled (flip_cfg F c) (flip_st F s) j = job_enabled c s j.
Proof.
  unfold job_enabled. cbn zeta. rewrite slot_free_flip. flp. flip_match F s j.
Qed.

Lemma handler_enabled_flip F c s j :
  handler_enabled (flip_cfg F c) (flip_st F s) j = handler_enabled c s j.
Proof. unfold handler_enabled. cbn zeta. flp. reflexivity. Qed.

Lemma sd_enabled_flip F c s n b : sd_enabled (flip_cfg F c) (flip_st F s) n b = sd_enabled c s n b.
Proof. unfold sd_enabled. cbn zeta. flp. reflexivity. Qed.

Lemma run_enabled_flip F c s n : run_enabled (flip_cfg F c) (flip_st F s) n = run_enabled c s n.
Proof.
  unfold run_enabled. cbn zeta. flp.
  destruct (ph (Rn s n)); try reflexivity. apply sd_enabled_flip.
Qed.

Lemma sdtask_enabled_flip F c s n :
  sdtask_enabled (flip_cfg F c) (flip_st F s) n = sdtask_enabled c s n.
Proof. unfold sdtask_enabled. flp. destruct (hs (Hd s n)); try reflexivity. apply sd_enabled_flip. Qed.

Lemma quiescent_flip F c s : quiescent (flip_cfg F c) (flip_st F s) = quiescent c s.
Proof.
  unfold quiescent. flp. f_equal; apply forallb_ext'; intros x.
  - rewrite job_enabled_flip, handler_enabled_flip. reflexivity.
  - rewrite run_enabled_flip, sdtask_enabled_flip. reflexivity.
Qed.

Lemma deadlines_flip F c s : deadlines (flip_cfg F c) (flip_st F s) = deadlines c s.
Proof.
  unfold deadlines. flp. f_equal. apply flat_map_ext'. intros x.
  rewrite fc_sched. f_equal. flip_match F s x.
Qed.

Lemma terminal_flip F c s : terminal (flip_cfg F c) (flip_st F s) = terminal c s.
Proof. unfold terminal. rewrite quiescent_flip, deadlines_flip. reflexivity. Qed.

Lemma outcome_guard_flip (F : nat -> bool) c j (oc : outcome) : j < njobs c ->
  outcome_eqb (if F j then other oc else oc) (j_out (jc (flip_cfg F c) j))
  = outcome_eqb oc (j_out (jc c j)).
Proof.
  intros H. rewrite (fc_out F c j H). destruct (F j); [|reflexivity].
  destruct oc, (j_out (jc c j)); reflexivity.
Qed.

(* every event but the end of a job and the polls: the very same guards *)
Lemma guards_flip_eq F lvl c s e : flippable F c -> forallb (holds lvl) (guards c s e) = true ->
  match e with EFinish _ _ | EPoll _ _ => False | _ => True end ->
  guards (flip_cfg F c) (flip_st F s) (flip_ev F e) = guards c s e.
Proof.
  intros HF Hg He. pose proof (reaction_flip F lvl c s e HF Hg) as Hr.
  apply (f_equal snd) in Hr. unfold fl2 in Hr. cbn [snd] in Hr.
  destruct e as [n o|n k d o|n k o|n o|j|j oc|j|j|j|j|j|j|j|j|t|t|jv sv]; try destruct He;
    cbn [flip_ev] in Hr |- *.
  - cbn [guards]. rewrite Hr, sched_id_flip, slot_free_flip, m_created_ncp. flp. reflexivity.
  - destruct k; cbn [guards]; rewrite Hr;
      rewrite ?run_alive_flip, ?sd_thread_ok_flip, ?handlers_stepped_flip, ?hpending_flip,
        ?(culprit_ok_flip F c HF);
      flp; reflexivity.
  - destruct k; cbn [guards]; rewrite Hr;
      rewrite ?run_alive_flip, ?sd_thread_ok_flip, ?handlers_stepped_flip; flp; reflexivity.
  - cbn [guards]. rewrite Hr, sched_id_flip. flp. reflexivity.
  - cbn [guards]. rewrite atomic_id_flip, slot_free_flip, m_created_ncp. flp. reflexivity.
  - cbn [guards]. rewrite atomic_id_flip, m_running_cp. reflexivity.
  - cbn [guards]. rewrite atomic_id_flip, m_cancelling_ncp. flp. reflexivity.
  - cbn [guards]. rewrite atomic_id_flip, m_cancelling_cp. reflexivity.
  - cbn [guards]. rewrite m_created_cp. flp. reflexivity.
  - cbn [guards]. rewrite atomic_id_flip. flp. reflexivity.
  - cbn [guards]. rewrite atomic_id_flip. flp. reflexivity.
  - cbn [guards]. rewrite atomic_id_flip. flp. reflexivity.
  - cbn [guards]. flp. reflexivity.
  - cbn [guards]. rewrite quiescent_flip, deadlines_flip. flp. reflexivity.
  - cbn [guards]. rewrite quiescent_flip, deadlines_flip. flp. reflexivity.
Qed.

Lemma guards_flip F lvl c s e : flippable F c -> forallb (holds lvl) (guards c s e) = true ->
  forallb (holds lvl) (guards (flip_cfg F c) (flip_st F s) (flip_ev F e)) = true.
Proof.
  intros HF Hg.
  destruct e as [n o|n k d o|n k o|n o|j|j oc|j|j|j|j|j|j|j|j|t|t|jv sv];
    try (rewrite (guards_flip_eq F lvl c s _ HF Hg I); exact Hg).
  - (* EFinish *)
    cbn [flip_ev]. cbn [guards forallb] in Hg |- *.
    apply andb_true_iff in Hg. destruct Hg as [G0 Hg]. rewrite holds_0 in G0.
    destruct (atomic_id_spec c j G0) as (_ & Hlt & _).
    rewrite atomic_id_flip, m_running_ncp, (outcome_guard_flip F c j oc Hlt), fc_dur.
    rewrite opt_eq_now_flip, m_tend. rewrite holds_0, G0. exact Hg.
  - (* EPoll *)
    cbn [flip_ev]. cbn [guards forallb] in Hg |- *. rewrite !holds_0 in Hg |- *.
    rewrite andb_true_r in Hg |- *. apply andb_true_iff in Hg. destruct Hg as [G0 G1].
    apply andb_true_iff. split; [|exact G1].
    rewrite forallb_forall in G0 |- *. intros v' Hv'. apply in_map_iff in Hv'.
    destruct Hv' as (v & <- & Hv). apply poll_view_flip. apply G0. exact Hv.
Qed.

(* ------------------------------------------------------------------ the simulation *)

(* one step: the flipped event is enabled in the flipped state of the flipped configuration, leads
   to the flipped successor, and the model computes the very same outputs *)
Theorem flip_step F lvl c s e s' : flippable F c -> step lvl c s e = Some s' ->
  step lvl (flip_cfg F c) (flip_st F s) (flip_ev F e) = Some (flip_st F s')
  /\ snd (reaction (flip_cfg F c) (flip_st F s) (flip_ev F e)) = snd (reaction c s e).
Proof.
  intros HF Hs. apply step_inv in Hs. destruct Hs as [-> Hg].
  unfold step. rewrite (guards_flip F lvl c s e HF Hg), (reaction_flip F lvl c s e HF Hg).
  split; reflexivity.
Qed.

(* the same with the pointwise correspondence *)
Theorem flip_step_sim F lvl c s t e s' : flippable F c -> sim F s t -> step lvl c s e = Some s' ->
  exists t', step lvl (flip_cfg F c) t (flip_ev F e) = Some t' /\ sim F s' t'
             /\ snd (reaction (flip_cfg F c) t (flip_ev F e)) = snd (reaction c s e).
Proof.
  intros HF Hsim Hs. apply sim_flip_st in Hsim. subst t.
  destruct (flip_step F lvl c s e s' HF Hs) as [H1 H2].
  exists (flip_st F s'). split; [exact H1|]. split; [|exact H2]. apply sim_flip_st. reflexivity.
Qed.

Theorem flip_run F lvl c h : flippable F c -> forall s s', run lvl c s h = Some s' ->
  run lvl (flip_cfg F c) (flip_st F s) (map (flip_ev F) h) = Some (flip_st F s').
Proof.
  intros HF. induction h as [|e h IH]; intros s s' Hr; cbn [run map] in Hr |- *.
  - inversion Hr. reflexivity.
  - destruct (step lvl c s e) as [s1|] eqn:Es; [|discriminate].
    destruct (flip_step F lvl c s e s1 HF Es) as [H1 _]. rewrite H1. apply IH. exact Hr.
Qed.

Theorem flip_reach F lvl c h s : flippable F c -> Reach lvl c h s ->
  Reach lvl (flip_cfg F c) (map (flip_ev F) h) (flip_st F s).
Proof.
  intros HF Hr. unfold Reach in Hr |- *. rewrite <- (flip_init F). apply flip_run; assumption.
Qed.

Theorem flip_accept_gen F lvl c h : flippable F c -> accept lvl c h = true ->
  accept lvl (flip_cfg F c) (map (flip_ev F) h) = true.
Proof.
  intros HF Ha. unfold accept in Ha |- *. destruct (run lvl c init h) as [s'|] eqn:Er; [|discriminate].
  rewrite <- (flip_init F) at 1. rewrite (flip_run F lvl c h HF init s' Er). reflexivity.
Qed.

(* containment: a history accepted with c is accepted, outcomes of the jobs of F switched, with the
   configuration in which these jobs fail instead of returning (or return instead of failing) *)
Theorem flip_accept F lvl c h : flippable F c -> wf c = true -> accept lvl c h = true ->
  accept lvl (flip_cfg F c) (map (flip_ev F) h) = true.
Proof. intros HF _. apply flip_accept_gen. exact HF. Qed.

Lemma map_flip_ev_involutive F h : map (flip_ev F) (map (flip_ev F) h) = h.
Proof.
  rewrite map_map. rewrite <- (map_id h) at 2. apply map_ext. intros e. apply flip_ev_involutive.
Qed.

(* ... and conversely: the two configurations have the same accepted histories *)
Theorem flip_accept_iff F lvl c h : flippable F c ->
  accept lvl (flip_cfg F c) (map (flip_ev F) h) = accept lvl c h.
Proof.
  intros HF. destruct (accept lvl c h) eqn:Ea.
  - apply flip_accept_gen; assumption.
  - destruct (accept lvl (flip_cfg F c) (map (flip_ev F) h)) eqn:Eb; [|reflexivity].
    pose proof (flip_accept_gen F lvl (flip_cfg F c) _ (flippable_flip F c HF) Eb) as H.
    rewrite flip_cfg_involutive, map_flip_ev_involutive in H. congruence.
Qed.

(* ------------------------------------------------------------------ readable consequences *)

(* the other jobs are in the same state, at the same time *)
Lemma flip_other_jobs F s j : F j = false -> Jb (flip_st F s) j = Jb s j.
Proof. intros E. rewrite Jb_flip, E. apply flip_j_false. Qed.

(* a job of F is done in one run iff it is done in the other, so that the jobs that require it
   start all the same (all_done_flip), and its exception is retrievable from it *)
Lemma flip_done F s j : is_done (st (Jb (flip_st F s) j)) = is_done (st (Jb s j)).
Proof. rewrite Jb_flip. unfold flip_j. cbn [st]. apply is_done_flip. Qed.

Lemma flip_exception_kept F s j : F j = true -> st (Jb s j) = DoneRet RVOwn ->
  st (Jb (flip_st F s) j) = DoneExc (tag_job j).
Proof. intros E H. rewrite Jb_flip, E. unfold flip_j. cbn [st]. rewrite H. reflexivity. Qed.

Lemma flip_return_kept F s j : F j = true -> st (Jb s j) = DoneExc (tag_job j) ->
  st (Jb (flip_st F s) j) = DoneRet RVOwn.
Proof.
  intros E H. rewrite Jb_flip, E. unfold flip_j. cbn [st]. rewrite H. cbn [flip_stat andb].
  rewrite Nat.eqb_refl. reflexivity.
Qed.

(* the runs, the shutdown activities, the handlers and the clock are the same *)
Lemma flip_runs F s : Rn (flip_st F s) = Rn s /\ Sd (flip_st F s) = Sd s /\ Hd (flip_st F s) = Hd s
  /\ now (flip_st F s) = now s.
Proof. repeat split. Qed.

(* observed outputs, verdicts included, are the same in the two histories *)
Lemma flip_hist_outs F h : map outs_of (map (flip_ev F) h) = map outs_of h.
Proof. rewrite map_map. apply map_ext. intros e. apply flip_ev_outs. Qed.

(* with the decidable side condition *)
Theorem flip_accept_b F lvl c h : flippableb F c = true -> wf c = true -> accept lvl c h = true ->
  accept lvl (flip_cfg F c) (map (flip_ev F) h) = true.
Proof. intros HF. apply flip_accept. apply flippableb_spec. exact HF. Qed.

Print Assumptions flip_accept.
