(* Admissible trees (hypotheses of the progress property C03) and what is proved about progress. *)
From AJ Require Import Common.Util Run.RModel Run.RFacts Run.RProps2 Run.RFlip.

(* [ne]: the job never ends on its own; [blk]: it requires, directly or not, a job that never ends *)
Fixpoint ne_fuel (f : nat) (c : cfg) (i : nat) : bool :=
  match f with
  | 0 => true
  | S f' =>
      let x := jc c i in
      if j_sched x then
        match j_timeout x with
        | Some _ => false
        | None =>
            let ks := members c i in
            match ks with
            | [] => false
            | _ =>
                match filter (fun k => negb (j_forever (jc c k))) ks with
                | [] => forallb (fun k => ne_fuel f' c k || blk_fuel f' c k) ks
                | fin => existsb (fun k => ne_fuel f' c k || blk_fuel f' c k) fin
                end
            end
        end
      else match j_dur x with None => true | Some _ => false end
  end
with blk_fuel (f : nat) (c : cfg) (i : nat) : bool :=
  match f with
  | 0 => true
  | S f' => existsb (fun r => ne_fuel f' c r || blk_fuel f' c r) (reqs c i)
  end.

Definition fuel_of (c : cfg) : nat := 2 * njobs c + 2.
Definition never_ends (c : cfg) (i : nat) : bool := ne_fuel (fuel_of c) c i.
Definition blocked (c : cfg) (i : nat) : bool := blk_fuel (fuel_of c) c i.

Fixpoint timeout_above (f : nat) (c : cfg) (n : nat) : bool :=
  match f with
  | 0 => false
  | S f' =>
      match j_timeout (jc c n) with
      | Some _ => true
      | None => negb (Nat.eqb n 0) && timeout_above f' c (parent c n)
      end
  end.

Definition sched_admissible (c : cfg) (n : nat) : bool :=
  timeout_above (S (njobs c)) c n
  || (negb (Nat.eqb (length (filter (fun k => negb (j_forever (jc c k))) (members c n))) 0)
      && negb (never_ends c n)
      && (Nat.eqb (j_window (jc c n)) 0
          || Nat.ltb (length (filter (fun k => never_ends c k || blocked c k) (members c n))) (j_window (jc c n)))).

(* a handler that never ends needs a finite shutdown_timeout right above *)
Definition handler_admissible (c : cfg) (j : nat) : bool :=
  j_sched (jc c j) || Nat.eqb j 0
  || match j_sdur (jc c j) with Some _ => true | None =>
       match j_sdto (jc c (parent c j)) with Some _ => true | None => false end end.

Definition admissible (c : cfg) : bool :=
  wf c && forallb (sched_admissible c) (scheds c) && forallb (handler_admissible c) (all_ids c).

(* a history that runs the tree to its end *)
Definition completes (lvl : nat) (c : cfg) (h : list event) : bool :=
  match run lvl c init h with Some s => terminal c s | None => false end.

(* however many non-critical jobs raise: a set of outcomes switched from return to raise (or
   back) turns complete runs into complete runs; a failure never wedges the run *)
Theorem failures_never_wedge F lvl c h : flippable F c ->
  completes lvl (flip_cfg F c) (map (flip_ev F) h) = completes lvl c h.
Proof.
  intros HF. unfold completes.
  destruct (run lvl c init h) as [s|] eqn:E.
  - pose proof (flip_run F lvl c h HF init s E) as E2.
    assert (Ei : flip_st F init = init).
    { unfold flip_st, init. f_equal. }
    rewrite Ei in E2. rewrite E2. apply terminal_flip.
  - pose proof (flip_accept_iff F lvl c h HF) as Ha. unfold accept in Ha. rewrite E in Ha.
    destruct (run lvl (flip_cfg F c) init (map (flip_ev F) h)); [discriminate|reflexivity].
Qed.
