(* Corollaries of the closed-form schedule for C01 and C06. *)
From AJ Require Import Common.Util Run.RModel Run.RFacts Run.RFlip Run.RSchedDef Run.RFlatten Run.RSolve Run.RSolveH
  Run.RSched Run.RSchedTop.

Lemma maxl_ge_base a l : (a <= maxl a l)%N.
Proof. induction l as [|x l IH]; cbn [maxl fold_right]; [lia|]. fold (maxl a l). lia. Qed.

Lemma maxl_ge_in a l x : In x l -> (x <= maxl a l)%N.
Proof.
  induction l as [|y l IH]; intros H; [destruct H|].
  cbn [maxl fold_right]. fold (maxl a l). destruct H as [<-|H]; [lia|]. specialize (IH H). lia.
Qed.

(* C01 in closed form: the computed start instant of a job is not before the computed end of any of
   its requirements, nor before the beginning of its scheduler *)
Theorem schedule_respects_requirements c S E x r : is_scheduleH c S E -> x < njobs c -> x <> 0 ->
  In r (reqs c x) -> (E r <= S x)%N /\ (S (parent c x) <= S x)%N.
Proof.
  intros [_ H] Hx Hn Hr. destruct (H x Hx) as (HS & _ & _). rewrite (HS Hn). split.
  - apply maxl_ge_in. apply in_map. exact Hr.
  - apply maxl_ge_base.
Qed.

(* C06 in closed form: the scheduling equations do not mention outcomes, so switching the outcome of
   any set of jobs leaves the schedule unchanged; if the switched jobs are not critical the set of
   critical raising jobs is unchanged too, hence [calm] *)
Lemma fc_durN F c x : durN (flip_cfg F c) x = durN c x.
Proof. unfold durN. rewrite fc_dur. reflexivity. Qed.

Lemma fc_sdurN F c x : sdurN (flip_cfg F c) x = sdurN c x.
Proof. unfold sdurN. rewrite fc_sched, fc_sdur. reflexivity. Qed.

Lemma fc_shut_len F c n : shut_len (flip_cfg F c) n = shut_len c n.
Proof.
  unfold shut_len. rewrite fc_members, fc_sdto.
  replace (map (sdurN (flip_cfg F c)) (members c n)) with (map (sdurN c) (members c n)); [reflexivity|].
  apply map_ext. intros a. symmetry. apply fc_sdurN.
Qed.

Theorem schedule_ignores_outcomes F c S E : is_scheduleH c S E <-> is_scheduleH (flip_cfg F c) S E.
Proof.
  unfold is_scheduleH. rewrite fc_njobs. split; intros [H0 H]; (split; [exact H0|]); intros x Hx;
    specialize (H x Hx); rewrite ?fc_par, ?fc_reqs, ?fc_sched, ?fc_members, ?fc_durN, ?fc_shut_len in *; exact H.
Qed.

Lemma fc_bad_job F c x : flippable F c -> x < njobs c -> bad_job (flip_cfg F c) x = bad_job c x.
Proof.
  intros Hf Hx. unfold bad_job. rewrite fc_sched, fc_crit, (fc_out F c x Hx).
  destruct (F x) eqn:EF; [|reflexivity].
  destruct (Hf x EF) as [_ Hc]. rewrite Hc. rewrite !andb_false_r. reflexivity.
Qed.

Theorem calm_ignores_noncritical_outcomes F c E s : flippable F c -> (calm c E s <-> calm (flip_cfg F c) E s).
Proof.
  intros Hf. unfold calm. rewrite fc_njobs. split; intros H x Hx Hb.
  - apply (H x Hx). rewrite <- (fc_bad_job F c x Hf Hx). exact Hb.
  - apply (H x Hx). rewrite (fc_bad_job F c x Hf Hx). exact Hb.
Qed.

Lemma forallb_ext' {A} (f g : A -> bool) l : (forall x, f x = g x) -> forallb f l = forallb g l.
Proof. intros H. induction l as [|a l IH]; cbn [forallb]; [reflexivity|]. rewrite H, IH. reflexivity. Qed.

Lemma fc_plainH F c : plainH (flip_cfg F c) = plainH c.
Proof.
  unfold plainH. rewrite fc_all_ids. apply forallb_ext'. intros x. unfold plainH_job.
  rewrite fc_sched, fc_window, fc_forever, fc_dur, fc_sdur. reflexivity.
Qed.

(* every execution of the tree with some non-critical outcomes switched follows the SAME schedule *)
Theorem noncritical_failures_do_not_move_jobs F c S E h s :
  wf c = true -> plainH c = true -> is_scheduleH c S E -> slackH c S E -> flippable F c ->
  Reach 3 (flip_cfg F c) h s -> calm c E s ->
  forall x, x < njobs c -> x <> 0 -> on_schedule (flip_cfg F c) S E s x.
Proof.
  intros W P HS HL Hf R C x Hx Hn.
  assert (W' : wf (flip_cfg F c) = true).
  { unfold wf in *. rewrite fc_njobs, fc_all_ids. rewrite andb_true_iff in *. destruct W as [W1 W2]. split; [exact W1|].
    rewrite forallb_forall in *. intros j Hj. rewrite fc_wf_job. apply W2. exact Hj. }
  assert (P' : plainH (flip_cfg F c) = true) by (rewrite fc_plainH; exact P).
  assert (HS' : is_scheduleH (flip_cfg F c) S E) by (apply schedule_ignores_outcomes; exact HS).
  assert (HL' : slackH (flip_cfg F c) S E).
  { unfold slackH in *. rewrite fc_njobs. intros n T Hn' Hs' HT. rewrite fc_sched in Hs'. rewrite fc_timeout in HT.
    rewrite fc_members. apply (HL n T Hn' Hs' HT). }
  assert (C' : calm (flip_cfg F c) E s) by (apply calm_ignores_noncritical_outcomes; assumption).
  apply (runs_on_scheduleH (flip_cfg F c) S E h s W' P' HS' HL' R C'); [rewrite fc_njobs; exact Hx|exact Hn].
Qed.
Print Assumptions noncritical_failures_do_not_move_jobs.
Print Assumptions schedule_respects_requirements.
